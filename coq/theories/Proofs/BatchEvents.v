(** * C11: the events of Batch.Add / Remove / Exchange (Relations.ExchangeBatch) are, entity by
      entity in processing order, the events of the single exchanges: one event per affected
      entity with the difference of its masks before and after, the id lists of the call,
      old and new relation, the old target and the type bits (all-subscribing listener). *)
From Arche Require Import Model.Base Model.Pool Model.Filter Model.World Model.Ops
  Proofs.Tables Proofs.Bits Proofs.Store Proofs.Graph Proofs.WorldInv Proofs.Cursor
  Proofs.Frame Proofs.StepFrame Proofs.Subs
  Proofs.RelGraph Proofs.RelWorld Proofs.RelRefine Proofs.QueryExact Proofs.CacheInv Proofs.BatchMove
  Proofs.BatchExchange Proofs.BatchSetRel Proofs.EventsExact Proofs.BatchQ.

Definition ev_of (w w' : world) (add rem : list nat) (e : Entity) : list event :=
  match ent_mask w e, ent_mask w' e, ent_rel w e, ent_rel w' e, ent_target w e, ent_target w' e with
  | Some om, Some nm, Some orl, Some nrl, Some ot, Some nt =>
      [mkEv e (N.land nm (N.lxor om nm)) (N.land om (N.lxor om nm)) add rem orl nrl ot (xbits add rem orl nrl ot nt) false 0]
  | _, _, _, _, _, _ => []
  end.

Lemma flat_map_flat_map {X Y Z} (f : Y -> list Z) (g : X -> list Y) l :
  flat_map f (flat_map g l) = flat_map (fun x => flat_map f (g x)) l.
Proof. induction l as [|x r IH]; [done|]. simpl. by rewrite flat_map_app, IH. Qed.

Lemma xbits_nonzero add rem orl nrl ot nt : (add <> [] \/ rem <> []) -> (xbits add rem orl nrl ot nt =? 0)%N = false.
Proof.
  intros H. unfold xbits. destruct H as [H|H].
  - rewrite (bool_decide_eq_false_2 (add = [])) by done. by destruct (bool_decide (rem = [])), (opt_ne orl nrl), (negb (ent_eqb ot nt)).
  - rewrite (bool_decide_eq_false_2 (rem = [])) by done. by destruct (bool_decide (add = [])), (opt_ne orl nrl), (negb (ent_eqb ot nt)).
Qed.

Theorem batch_exchange_events_exact w A f add rem rel w' n evs :
  R w A -> cache_ok w -> Forall (fun id => id < length (as_reg A)) add -> (add <> [] \/ rem <> []) ->
  w_listener w = Some lall ->
  op_batch_exchange w (FPlain f) add rem rel = (w', Ok (VNat n), evs) ->
  evs = flat_map (ev_of w w' add rem) (table_ents w (get_tables w f)).
Proof.
  intros HR C Hadd Hnonempty Hlis H. pose proof HR as [K Hr Hu He].
  unfold op_batch_exchange in H.
  destruct (exchange_batch_nn w (FPlain f) add rem rel) as [[[[w1 n1] segs]|]|[]] eqn:Hb; simpl in H; try done.
  injection H as <- _ <-.
  pose proof (frame_exchange_batch_nn _ _ _ _ _ _ _ _ Hb) as F.
  assert (Hloop : xloop add rem rel w (nonempty_tables w (get_tables w f)) [] false = inl (Some (w1, segs))).
  { unfold exchange_batch_nn in Hb. rewrite Hu in Hb. destruct (negb _); [done|].
    assert (Hb' : match xloop add rem rel w (nonempty_tables w (get_tables w f)) [] false with
                  | inl (Some (w1, segs)) => inl (Some (w1, total_len w (get_tables w f), segs))
                  | inl None => inr false
                  | inr p => inr p
                  end = inl (Some (w1, n1, segs))).
    { destruct add, rem; try exact Hb. destruct Hnonempty; done. }
    destruct (xloop add rem rel w (nonempty_tables w (get_tables w f)) [] false) as [[[w1' segs']|]|p]; try done.
    by injection Hb' as <- _ <-. }
  rewrite Hr in Hadd.
  assert (Hnd : NoDup (nonempty_tables w (get_tables w f))).
  { unfold nonempty_tables. apply NoDup_filter. rewrite get_tables_contrib. by apply (selected_nodup w (as_live A)), K. }
  assert (Hne : forall tid, tid ∈ nonempty_tables w (get_tables w f) -> tbl_ents w tid <> []).
  { intros tid Hin. unfold nonempty_tables in Hin. apply elem_of_list_filter in Hin as [Hs _].
    unfold table_skip, tbl_ents in *. destruct (w_tables w !! tid) as [t|]; [|done]. apply Nat.eqb_neq in Hs. unfold tlen in Hs. by destruct (t_ents t). }
  destruct (xloop_segs (as_live A) add rem rel Hnonempty _ w [] false w1 segs Hnd (r2_ok _ _ _ K) C Hadd Hne Hloop)
    as (new & Hsegs & Hflat & Hall & _). simpl in Hsegs. subst new.
  destruct (xloop_ok (as_live A) add rem rel Hnonempty _ w [] false w1 segs Hnd (r2_ok _ _ _ K) C Hadd Hne Hloop)
    as (K1 & _).
  rewrite <- (table_ents_nonempty_eq w (get_tables w f)), <- Hflat, flat_map_flat_map.
  unfold ev_batch. rewrite (fr_listener _ _ F), Hlis.
  assert (Hul : is_locked w1 = false) by (unfold is_locked; by rewrite (fr_locks _ _ F)).
  clear Hflat Hb Hloop. induction Hall as [|s r (Hsk & Hlt & Hle & om & orl & ot & Hold & Hviews) _ IH]; [done|].
  cbn [flat_map]. rewrite IH. f_equal. clear IH.
  (* one segment *)
  unfold tbl_ents in Hle. destruct (w_tables w1 !! s_tid s) as [t|] eqn:Ht; [|simpl in Hle; lia].
  destruct (so_table _ _ (wr_store _ _ K1) (s_tid s) t Ht) as (nd & Hnd' & _). rewrite Hnd', Hold, Hul.
  assert (Hse : seg_ents w1 s = take (s_end s - s_start s) (drop (s_start s) (t_ents t))).
  { unfold seg_ents, tbl_ents. by rewrite Hsk, Ht. }
  rewrite <- Hse. 
  apply flat_map_ext_mem. intros e Hein.
  destruct (Hviews e Hein) as (Hlive & V1 & V2 & V3).
  (* where e sits in the final world *)
  rewrite Hse in Hein. apply elem_of_take in Hein as (i & Hi & _). rewrite lookup_drop in Hi.
  destruct (so_rows _ _ (wr_store _ _ K1) (s_tid s) t _ e Ht Hi) as [_ Hloc].
  destruct (views_of_row w1 (as_live A) e (s_tid s) _ t nd (wr_store _ _ K1) Hlive Hloc Ht Hnd') as (W1 & W2 & W3).
  unfold ev_of. rewrite V1, V2, V3, W1, W2, W3.
  set (bits := subscription false false (negb (bool_decide (add = []))) (negb (bool_decide (rem = [])))
                 (opt_ne orl (n_rel nd)) (opt_ne orl (n_rel nd) || negb (ent_eqb ot (t_target t)))).
  rewrite recipients_all by apply subscription_lt.
  change bits with (xbits add rem orl (n_rel nd) ot (t_target t)). rewrite (xbits_nonzero _ _ _ _ _ _ Hnonempty).
  simpl. do 2 f_equal.
  - rewrite (N.lxor_comm (n_mask nd) om). apply N.land_comm.
  - rewrite (N.lxor_comm (n_mask nd) om). apply N.land_comm.
Qed.

(** ** Batch.SetRelation / Relations.SetBatch: one TargetChanged event per re-targeted entity,
       in processing order, carrying the entity's old target; entities that already had the
       target produce no event (they are not touched). Each is the event of the single
       [Relations.Set] ([target_event_exact]). *)
Definition sr_ev (w : world) (rid : nat) (e : Entity) : list event :=
  match ent_target w e with
  | Some ot => [mkEv e 0 0 [] [] (Some rid) (Some rid) ot 32 false 0]
  | None => []
  end.

Theorem batch_set_relation_events_exact w A f rid T w' n evs :
  R w A -> cache_ok w -> w_listener w = Some lall ->
  op_batch_set_relation w (FPlain f) rid T = (w', Ok (VNat n), evs) ->
  evs = flat_map (sr_ev w rid) (table_ents w (retargeted T w (get_tables w f))).
Proof.
  intros HR C Hlis H. pose proof HR as [K Hr Hu He].
  unfold op_batch_set_relation in H.
  destruct (set_relation_batch_nn w (FPlain f) rid T) as [[[[w1 n1] segs]|]|[]] eqn:Hb; simpl in H; try done.
  injection H as <- _ <-.
  assert (Hloop : srloop rid T w (nonempty_tables w (get_tables w f)) [] false = inl (Some (w1, segs))).
  { unfold set_relation_batch_nn in Hb. rewrite Hu in Hb. destruct (negb _); [done|]. cbn [arg_tables] in Hb.
    change (batch_loop (fun w tid => set_relation_table w tid rid T)) with (srloop rid T) in Hb.
    destruct (srloop rid T w (nonempty_tables w (get_tables w f)) [] false) as [[[w1' segs']|]|p]; try done.
    by injection Hb as <- _ <-. }
  assert (Hnd : NoDup (nonempty_tables w (get_tables w f))).
  { unfold nonempty_tables. apply NoDup_filter. rewrite get_tables_contrib. by apply (selected_nodup w (as_live A)), K. }
  assert (Hne : forall tid, tid ∈ nonempty_tables w (get_tables w f) -> tbl_ents w tid <> []).
  { intros tid Hin. unfold nonempty_tables in Hin. apply elem_of_list_filter in Hin as [Hs _].
    unfold table_skip, tbl_ents in *. destruct (w_tables w !! tid) as [t|]; [|done]. apply Nat.eqb_neq in Hs. unfold tlen in Hs. by destruct (t_ents t). }
  destruct (srloop_segs (as_live A) rid T _ w [] false w1 segs Hnd (r2_ok _ _ _ K) C Hne Hloop)
    as (new & Hsegs & Hflat & Hall & _). simpl in Hsegs. subst new.
  destruct (srloop_ok (as_live A) rid T _ w [] false w1 segs Hnd (r2_ok _ _ _ K) C Hne Hloop)
    as (K1 & _ & F & _ & _ & _ & _ & Hviews).
  assert (Hall2 : Forall (fun s => (s_skip s = false /\ s_start s < s_end s /\ s_end s <= length (tbl_ents w1 (s_tid s)) /\
                     exists om orl ot, s_old s = Some (om, orl, ot) /\ ot <> T /\
                       forall e, e ∈ seg_ents w1 s ->
                         e ∈ as_live A /\ ent_mask w e = Some om /\ ent_rel w e = Some orl /\ ent_target w e = Some ot) /\
                     (forall e, e ∈ seg_ents w1 s -> srviews T rid w w1 e)) segs).
  { apply Forall_forall. intros s Hs. split; [by apply (proj1 (Forall_forall _ _) Hall)|].
    intros e Hein.
    assert (Hin_flat : e ∈ flat_map (seg_ents w1) segs) by (apply elem_of_list_In, in_flat_map; exists s; split; apply elem_of_list_In; done).
    rewrite Hflat in Hin_flat. unfold table_ents in Hin_flat. apply elem_of_list_In, in_flat_map in Hin_flat as (tid' & Hin' & Hmem).
    apply elem_of_list_In in Hin', Hmem. unfold retargeted in Hin'. apply elem_of_list_filter in Hin' as [_ Hin'].
    by apply (Hviews tid' e). }
  rewrite <- (table_ents_retargeted_nonempty T w (get_tables w f)), <- Hflat, flat_map_flat_map.
  unfold ev_batch. rewrite (fr_listener _ _ F), Hlis.
  assert (Hul : is_locked w1 = false) by (unfold is_locked; by rewrite (fr_locks _ _ F)).
  clear Hflat Hb Hloop Hall. induction Hall2 as [|s r [(Hsk & Hlt & Hle & om & orl & ot & Hold & Hotne & Hold_views) Hsv] _ IH]; [done|].
  cbn [flat_map]. rewrite IH. f_equal. clear IH.
  unfold tbl_ents in Hle. destruct (w_tables w1 !! s_tid s) as [t|] eqn:Ht; [|simpl in Hle; lia].
  destruct (so_table _ _ (wr_store _ _ K1) (s_tid s) t Ht) as (nd & Hnd' & _). rewrite Hnd', Hold, Hul.
  assert (Hse : seg_ents w1 s = take (s_end s - s_start s) (drop (s_start s) (t_ents t))).
  { unfold seg_ents, tbl_ents. by rewrite Hsk, Ht. }
  rewrite <- Hse.
  apply flat_map_ext_mem. intros e Hein.
  destruct (Hold_views e Hein) as (Hlive & V1 & V2 & V3).
  destruct (Hsv e Hein) as (S1 & S2 & S3 & _ & S5).
  rewrite Hse in Hein. apply elem_of_take in Hein as (i & Hi & _). rewrite lookup_drop in Hi.
  destruct (so_rows _ _ (wr_store _ _ K1) (s_tid s) t _ e Ht Hi) as [_ Hloc].
  destruct (views_of_row w1 (as_live A) e (s_tid s) _ t nd (wr_store _ _ K1) Hlive Hloc Ht Hnd') as (W1 & W2 & W3).
  assert (Hm : n_mask nd = om) by congruence.
  assert (Hrl : n_rel nd = orl) by congruence.
  assert (Htg : t_target t = T) by congruence.
  assert (Horl : orl = Some rid).
  { destruct S5 as [S5|S5]; [|congruence]. rewrite V3 in S5. by injection S5. }
  unfold sr_ev. rewrite V3, Hm, Hrl, Htg, Horl, N.lxor_nilpotent. cbn [opt_ne]. rewrite Nat.eqb_refl.
  assert (Hneq : ent_eqb ot T = false) by (by apply ent_eqb_neq). rewrite Hneq.
  cbn [bool_decide negb orb]. rewrite recipients_all by done. done.
Qed.
