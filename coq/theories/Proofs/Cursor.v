(** * Query cursor (C03): [Next], [Step], [Count], [EntityAt] of the model's query
      machine against the flat enumeration of the query's positions. *)
From Arche Require Import Model.Base Model.Pool Model.Filter Model.World Model.Ops.

(** A segment is either skipped (its table is empty, and so is its range) or a
    non-empty row range. *)
Definition seg_ok (s : seg) : Prop :=
  (s_skip s = true /\ s_end s = s_start s) \/ (s_skip s = false /\ s_start s < s_end s).

Definition seg_positions (s : seg) : list (nat * nat) :=
  if s_skip s then [] else map (pair (s_tid s)) (seq (s_start s) (s_end s - s_start s)).

(** The enumeration a query stands for: positions (table, row) in iteration order. *)
Definition enum (segs : list seg) : list (nat * nat) := flat_map seg_positions segs.

(** Pure part of [Query.Next]: [None] = exhausted (the world then closes the query). *)
Definition next_pure (q : qstate) : option qstate :=
  if q_row q <? q_rowmax q then Some (q <| q_row := S (q_row q) |>) else q_advance q.

Definition cur_pos (q : qstate) : option (nat * nat) := option_map (fun tid => (tid, q_row q)) (q_cur q).

(** Positions still ahead of the cursor. *)
Definition cur_rest (q : qstate) : list (nat * nat) :=
  match q_cur q with
  | Some tid => map (pair tid) (seq (S (q_row q)) (q_rowmax q - q_row q))
  | None => []
  end.
Definition rest (q : qstate) : list (nat * nat) := cur_rest q ++ enum (drop (q_next q) (q_segs q)).

Definition qinv (q : qstate) : Prop :=
  q_row q <= q_rowmax q /\ (q_cur q = None -> q_row q = q_rowmax q).

Definition fresh (segs : list seg) (batch : option (list nat * list nat)) (lock : nat) : qstate :=
  mkQ segs batch 0 None 0 0 lock false.

Lemma fresh_rest segs b l : rest (fresh segs b l) = enum segs.
Proof. unfold rest, cur_rest, fresh. simpl. by rewrite drop_0. Qed.
Lemma fresh_inv segs b l : qinv (fresh segs b l).
Proof. split; simpl; [lia|done]. Qed.

Lemma next_seg_spec segs k0 :
  Forall seg_ok segs ->
  match next_seg segs k0 with
  | Some (k, s) => exists pre post, segs = pre ++ s :: post /\ k = k0 + length pre /\
                                    enum pre = [] /\ s_skip s = false
  | None => enum segs = []
  end.
Proof.
  revert k0. induction segs as [|s r IH]; intros k0 Hok; simpl; [done|].
  apply Forall_cons in Hok as [Hs Hr].
  destruct (s_skip s) eqn:Hsk.
  - specialize (IH (S k0) Hr). destruct (next_seg r (S k0)) as [[k s']|].
    + destruct IH as (pre & post & -> & -> & Hpre & Hsk'). exists (s :: pre), post.
      split; [done|]. split; [simpl; lia|]. split; [|done].
      unfold enum. simpl. unfold seg_positions at 1. rewrite Hsk. simpl. exact Hpre.
    + unfold enum. simpl. unfold seg_positions at 1. rewrite Hsk. simpl. exact IH.
  - exists [], r. split; [done|]. split; [simpl; lia|]. done.
Qed.

(** One [Next]: it yields exactly the head of [rest]; exhaustion means [rest] is empty. *)
Lemma next_pure_spec q :
  Forall seg_ok (q_segs q) -> qinv q ->
  match next_pure q with
  | Some q' => exists p, cur_pos q' = Some p /\ rest q = p :: rest q' /\ qinv q' /\ q_segs q' = q_segs q
  | None => rest q = []
  end.
Proof.
  intros Hok [Hle Hnone]. unfold next_pure.
  destruct (q_row q <? q_rowmax q) eqn:Hlt.
  - apply Nat.ltb_lt in Hlt. destruct (q_cur q) as [tid|] eqn:Hcur; [|specialize (Hnone eq_refl); lia].
    exists (tid, S (q_row q)). unfold cur_pos, rest, cur_rest, qinv. simpl. rewrite Hcur. simpl.
    split; [done|]. split; [|split; [split; [lia|done]|done]].
    replace (q_rowmax q - q_row q) with (S (q_rowmax q - S (q_row q))) by lia. simpl. done.
  - apply Nat.ltb_ge in Hlt. assert (Heq : q_row q = q_rowmax q) by lia.
    assert (Hcr : cur_rest q = []).
    { unfold cur_rest. destruct (q_cur q); [|done]. by rewrite Heq, Nat.sub_diag. }
    unfold q_advance.
    pose proof (next_seg_spec (drop (q_next q) (q_segs q)) 0) as Hns.
    destruct (next_seg (drop (q_next q) (q_segs q)) 0) as [[k s]|].
    + destruct Hns as (pre & post & Hsplit & Hk & Hpre & Hsk); [by apply Forall_drop|].
      simpl in Hk. subst k.
      assert (Hs : seg_ok s).
      { assert (s ∈ drop (q_next q) (q_segs q)) by (rewrite Hsplit; apply elem_of_app; right; apply elem_of_cons; by left).
        eapply Forall_forall; [apply Forall_drop; exact Hok|done]. }
      destruct Hs as [[Hc _]|[_ Hse]]; [congruence|].
      exists (s_tid s, s_start s).
      split; [done|]. split; [|split; [split; simpl; [lia|done]|done]].
      unfold rest at 1. rewrite Hcr. simpl app.
      assert (Hdrop : drop (q_next q + length pre + 1) (q_segs q) = post).
      { rewrite <- drop_drop. rewrite <- drop_drop. rewrite Hsplit.
        rewrite drop_app. simpl. by rewrite drop_0. }
      unfold rest, cur_rest. simpl. rewrite Hdrop, Hsplit.
      unfold enum. rewrite flat_map_app. fold (enum pre). rewrite Hpre. simpl.
      unfold seg_positions at 1. rewrite Hsk.
      replace (s_end s - s_start s) with (S (s_end s - 1 - s_start s)) by lia. simpl. done.
    + unfold rest. rewrite Hcr. simpl. apply Hns. by apply Forall_drop.
Qed.

(** Iterating [Next]. *)
Fixpoint iter_next (n : nat) (q : qstate) : option qstate :=
  match n with
  | 0 => Some q
  | S k => next_pure q ≫= iter_next k
  end.

(** The positions visited by repeated [Next] from a state, until exhaustion. *)
Fixpoint visit (fuel : nat) (q : qstate) : list (nat * nat) :=
  match fuel with
  | 0 => []
  | S f => match next_pure q with
           | Some q' => match cur_pos q' with Some p => p :: visit f q' | None => [] end
           | None => []
           end
  end.

Theorem next_enumerates_gen q :
  Forall seg_ok (q_segs q) -> qinv q -> forall fuel, length (rest q) < fuel -> visit fuel q = rest q.
Proof.
  intros Hok Hinv fuel. revert q Hok Hinv. induction fuel as [|f IH]; intros q Hok Hinv Hlen; [lia|].
  simpl. pose proof (next_pure_spec q Hok Hinv) as Hs. destruct (next_pure q) as [q'|].
  - destruct Hs as (p & Hp & Hr & Hinv' & Hsegs). rewrite Hp, Hr. f_equal.
    apply IH; [by rewrite Hsegs|done|]. rewrite Hr in Hlen. simpl in Hlen. lia.
  - by rewrite Hs.
Qed.

(** From a fresh query, iterating [Next] visits exactly [enum], in order, then stops. *)
Theorem next_enumerates segs b l :
  Forall seg_ok segs -> visit (S (length (enum segs))) (fresh segs b l) = enum segs.
Proof.
  intros Hok. rewrite <- (fresh_rest segs b l) at 2.
  apply next_enumerates_gen; [done|apply fresh_inv|]. rewrite fresh_rest. lia.
Qed.

(** [Count] is the length of the enumeration. *)
Theorem count_is_length segs b l :
  Forall seg_ok segs -> q_count (fresh segs b l) = length (enum segs).
Proof.
  intros Hok. unfold q_count, fresh. simpl. induction Hok as [|s r Hs Hr IH]; [done|].
  simpl. unfold enum in *. simpl. rewrite app_length, <- IH. f_equal.
  unfold seg_positions. destruct Hs as [[-> ->]|[-> Hlt]]; simpl.
  - lia.
  - by rewrite map_length, seq_length.
Qed.

(** [EntityAt i] is the entity at the i-th position of the enumeration. *)
Theorem entity_at_is_nth w segs i :
  Forall seg_ok segs ->
  entity_at w segs i =
  enum segs !! i ≫= fun '(tid, row) => w_tables w !! tid ≫= fun t => t_ents t !! row.
Proof.
  intros Hok. revert i. induction Hok as [|s r Hs Hr IH]; intros i; simpl; [done|].
  unfold enum. simpl. fold (enum r).
  destruct (i <? s_end s - s_start s) eqn:Hlt.
  - apply Nat.ltb_lt in Hlt. destruct Hs as [[Hsk Heq]|[Hsk Hse]]; [lia|].
    unfold seg_positions. rewrite Hsk.
    rewrite lookup_app_l by (rewrite map_length, seq_length; lia).
    rewrite list_lookup_fmap, lookup_seq_lt by lia. simpl. done.
  - apply Nat.ltb_ge in Hlt. rewrite IH.
    assert (Hlen : length (seg_positions s) = s_end s - s_start s).
    { unfold seg_positions. destruct Hs as [[-> ->]|[-> _]]; simpl; [lia|by rewrite map_length, seq_length]. }
    rewrite lookup_app_r by lia. by rewrite Hlen.
Qed.

(** [Step k] lands where [k] calls of [Next] would, and closes exactly when they would. *)
Lemma iter_next_rows q n :
  q_row q + n <= q_rowmax q -> iter_next n q = Some (q <| q_row := q_row q + n |>).
Proof.
  revert q. induction n as [|n IH]; intros q Hle; simpl.
  - destruct q. unfold set. simpl. by rewrite Nat.add_0_r.
  - unfold next_pure. rewrite (proj2 (Nat.ltb_lt (q_row q) (q_rowmax q))) by lia. simpl.
    rewrite IH by (simpl; lia). f_equal. destruct q. unfold set. simpl. f_equal. lia.
Qed.

Lemma iter_next_add a b q : iter_next (a + b) q = iter_next a q ≫= iter_next b.
Proof.
  revert q. induction a as [|a IH]; intros q; simpl; [done|].
  destruct (next_pure q); simpl; [apply IH|done].
Qed.

Theorem step_is_iter_next fuel q k :
  qinv q -> 0 < k -> length (drop (q_next q) (q_segs q)) < fuel ->
  Forall seg_ok (q_segs q) ->
  match step_loop fuel q k with
  | Some (q', true) => iter_next k q = Some q'
  | Some (_, false) => iter_next k q = None
  | None => False
  end.
Proof.
  revert q k. induction fuel as [|f IH]; intros q k Hinv Hk Hfuel Hok; [lia|].
  simpl. destruct (q_row q + k <=? q_rowmax q) eqn:Hle.
  - apply Nat.leb_le in Hle. by apply iter_next_rows.
  - apply Nat.leb_gt in Hle. destruct Hinv as [Hrow Hnone].
    set (d := q_rowmax q - q_row q).
    set (rst := q_row q + k - q_rowmax q - 1).
    assert (Hk' : k = d + (1 + rst)) by (unfold d, rst; lia).
    rewrite Hk', iter_next_add, (iter_next_rows q d) by (unfold d; lia). simpl.
    set (qm := q <| q_row := q_row q + d |>).
    assert (Hqm : next_pure qm = q_advance q).
    { unfold next_pure, qm. simpl. rewrite (proj2 (Nat.ltb_ge (q_row q + d) (q_rowmax q))) by (unfold d; lia).
      unfold q_advance. simpl. destruct (next_seg _ _) as [[? ?]|]; [|done]. done. }
    rewrite Hqm.
    pose proof (next_seg_spec (drop (q_next q) (q_segs q)) 0 (Forall_drop _ _ _ Hok)) as Hns.
    unfold q_advance in *. destruct (next_seg (drop (q_next q) (q_segs q)) 0) as [[j s]|] eqn:Hn; simpl.
    + destruct Hns as (pre & post & Hsplit & Hj & _ & Hsk). simpl in Hj. subst j.
      set (q' := q <| q_next := q_next q + length pre + 1 |> <| q_cur := Some (s_tid s) |>
                   <| q_row := s_start s |> <| q_rowmax := s_end s - 1 |>).
      assert (Hs : seg_ok s).
      { assert (s ∈ drop (q_next q) (q_segs q)) by (rewrite Hsplit; apply elem_of_app; right; apply elem_of_cons; by left).
        eapply Forall_forall; [apply Forall_drop; exact Hok|done]. }
      destruct Hs as [[Hc _]|[_ Hse]]; [congruence|].
      destruct (rst =? 0) eqn:Hr0.
      * apply Nat.eqb_eq in Hr0. rewrite Hr0. simpl. done.
      * apply Nat.eqb_neq in Hr0.
        assert (Hdrop : drop (q_next q' ) (q_segs q') = post).
        { unfold q'. simpl. rewrite <- drop_drop. rewrite <- drop_drop. rewrite Hsplit.
          rewrite drop_app. simpl. by rewrite drop_0. }
        assert (Hlenpost : length post < f).
        { rewrite Hsplit, app_length in Hfuel. simpl in Hfuel. lia. }
        fold q'. apply (IH q' rst).
        -- split; simpl; [lia|done].
        -- lia.
        -- rewrite Hdrop. exact Hlenpost.
        -- exact Hok.
    + done.
Qed.

(** Non-vacuity: a concrete segment list with skipped and non-empty segments. *)
Example cursor_example :
  let segs := [mkSeg 3 0 0 true None; mkSeg 5 0 2 false None; mkSeg 7 4 4 true None; mkSeg 9 1 4 false None] in
  Forall seg_ok segs /\ enum segs = [(5,0); (5,1); (9,1); (9,2); (9,3)] /\
  visit 10 (fresh segs None 0) = enum segs /\ q_count (fresh segs None 0) = 5 /\
  option_map fst (step_loop 6 (fresh segs None 0) 4) = iter_next 4 (fresh segs None 0).
Proof.
  split; [repeat constructor; unfold seg_ok; simpl; lia|]. vm_compute. done.
Qed.
