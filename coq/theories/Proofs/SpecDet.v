(** * The abstract store is a COMPLETE specification of the single-entity core: the
      outcome of every operation (success or panic, and the returned value) and the
      entity pool afterwards are functions of the abstract state and the pool alone.

    Consequence: two worlds that refine the same abstract state and have the same pool -
    e.g. a world after Reset and a new world with the same registrations - give the same
    outcomes, values and handles for every history of these operations. *)
From Arche Require Import Model.Base Model.Pool Model.Filter Model.World Model.Ops
  Proofs.PoolInv Proofs.Tables Proofs.Bits Proofs.Store Proofs.Graph Proofs.WorldInv Proofs.Atomic
  Proofs.Frame Proofs.StepFrame
  Proofs.RelGraph Proofs.RelWorld Proofs.RelRefine Proofs.QueryExact Proofs.CacheInv Proofs.ResetInv Proofs.LockHist Proofs.Misc Proofs.GhostBase Proofs.GhostGraph.

(** ** The exchange walk succeeds iff a pure check on the id lists does *)
Fixpoint wa_ok (reg : list cinfo) (start m : N) (rel : option nat) (ids : list nat) : bool :=
  match ids with
  | [] => true
  | id :: r =>
      negb (bit m id) && negb (bit start id) && negb (reg_rel reg id && bool_decide (is_Some rel)) &&
      wa_ok reg start (setb m id true) (if reg_rel reg id then Some id else rel) r
  end.

Fixpoint wr_rel (reg : list cinfo) (rel : option nat) (ids : list nat) : option nat :=
  match ids with
  | [] => rel
  | id :: r => wr_rel reg (if reg_rel reg id then None else rel) r
  end.

Lemma find_or_create_node_reg w m rel : w_reg (fst (find_or_create_node w m rel)) = w_reg w.
Proof. unfold find_or_create_node. by destruct (find_node w m). Qed.

Lemma walk_rem_pure ids : forall w m rel,
  let '(w1, m1, r1) := walk_rem w m rel ids in
  w_reg w1 = w_reg w /\ m1 = foldl (fun m id => setb m id false) m ids /\ r1 = wr_rel (w_reg w) rel ids.
Proof.
  induction ids as [|id r IH]; intros w m rel; simpl; [done|].
  specialize (IH (fst (find_or_create_node w (setb m id false) (if reg_is_rel w id then None else rel))) (setb m id false) (if reg_is_rel w id then None else rel)).
  destruct (walk_rem _ _ _ r) as [[w1 m1] r1]. destruct IH as (H1 & H2 & H3).
  rewrite find_or_create_node_reg in H1, H3. done.
Qed.

Lemma walk_add_ok_iff ids : forall w start m rel,
  is_Some (walk_add w start m rel ids) <-> wa_ok (w_reg w) start m rel ids = true.
Proof.
  induction ids as [|id r IH]; intros w start m rel; simpl; [split; [done|by eexists]|].
  change (reg_is_rel w id) with (reg_rel (w_reg w) id).
  destruct (bit m id); simpl; [split; [by intros [? ?]|done]|].
  destruct (bit start id); simpl; [split; [by intros [? ?]|done]|].
  destruct (reg_rel (w_reg w) id && bool_decide (is_Some rel)); simpl; [split; [by intros [? ?]|done]|].
  rewrite IH, find_or_create_node_reg. done.
Qed.

Lemma foc_success w src st sn add rem target m1 :
  rgraph_ok w -> w_tables w !! src = Some st -> w_nodes w !! t_node st = Some sn ->
  exmask_rem (n_mask sn) rem = Some m1 -> Forall (fun id => id < length (w_reg w)) add ->
  (is_Some (find_or_create_table w src add rem target) <->
   wa_ok (w_reg w) (n_mask sn) m1 (wr_rel (w_reg w) (n_rel sn) rem) add = true).
Proof.
  intros G Hst Hsn Hrem Hreg. unfold find_or_create_table. rewrite Hst, Hsn.
  pose proof (walk_rem_rok rem w (n_mask sn) (n_rel sn) m1 G (rg_rel _ G _ _ Hsn) (fun id => rg_bits _ G _ _ id Hsn)
                (ex_intro _ _ (ex_intro _ sn (conj Hsn eq_refl))) Hrem) as H1.
  pose proof (walk_rem_pure rem w (n_mask sn) (n_rel sn)) as H2.
  destruct (walk_rem w (n_mask sn) (n_rel sn) rem) as [[wa m1'] r1].
  destruct H1 as (E1 & G1 & _ & _ & HP1 & -> & Hn1 & Hb1). destruct H2 as (Hr2 & _ & ->).
  rewrite <- Hr2. rewrite <- walk_add_ok_iff.
  destruct (walk_add wa (n_mask sn) m1 _ add) as [[[wb m2] r2]|] eqn:Hadd.
  - split; [by eexists|]. intros _.
    assert (Hb1' : forall id, bit m1 id = true -> id < length (w_reg wa)) by (by rewrite Hr2).
    assert (Hreg1 : Forall (fun id => id < length (w_reg wa)) add) by (by rewrite Hr2).
    rewrite Hr2 in Hadd.
    destruct (walk_add_rok add wa (n_mask sn) m1 _ wb m2 r2 G1 HP1 Hb1' Hn1 Hreg1 Hadd) as (E2 & G2 & _ & _ & HP2 & Hm2 & Hn2).
    pose proof (find_node_spec wb m2) as Hf. destruct (find_node wb m2) as [nid|]; [|destruct Hn2 as (i & n & Hi & Hmi); by apply Hf in Hi].
    destruct Hf as (nd & Hnd & _). rewrite Hnd. destruct (node_get_table nd target); by eexists.
  - split; [intros [? ?]; done|intros [? ?]; done].
Qed.

(** ** Outcomes as functions of the abstract state and the pool *)
Definition s_target_ok (p : pool) (tg : Entity) : bool := ent_is_zero tg || pool_alive p tg.

Definition spec_exchange (reg : list cinfo) (p : pool) (oa : option aent) (e : Entity) (add rem : list nat)
    (rel : option (nat * Entity)) : outcome :=
  match pool_alive_opt p e, oa with
  | Some true, Some a =>
      if negb (match rel with Some (_, tg) => s_target_ok p tg | None => true end) then Panic else
      match add, rem with
      | [], [] => if bool_decide (is_Some rel) then Panic else Ok VUnit
      | _, _ =>
          match exmask_rem (a_mask a) rem with
          | None => Panic
          | Some m1 =>
              match exmask_add m1 add with
              | None => Panic
              | Some nm =>
                  match xtarget reg (a_mask a) nm (a_target a) rem rel with
                  | None => Panic
                  | Some _ => if wa_ok reg (a_mask a) m1 (wr_rel reg (arel reg (a_mask a)) rem) add then Ok VUnit else Panic
                  end
              end
          end
      end
  | _, _ => Panic
  end.

(** What [R] says about the table of an alive entity. *)
Lemma R_entity w A e :
  R w A -> e ∈ as_issued A -> chk_alive w e = Some true ->
  exists a src row st sn, assoc_get e (as_ents A) = Some a /\ e ∈ as_live A /\
    loc w e = Some (src, row) /\ w_tables w !! src = Some st /\ w_nodes w !! t_node st = Some sn /\
    n_mask sn = a_mask a /\ t_target st = a_target a /\ n_rel sn = arel (as_reg A) (a_mask a).
Proof.
  intros HR Hiss Hal. pose proof HR as [K Hr Hu He].
  assert (Hlive : e ∈ as_live A) by (by eapply chk_alive_live_r).
  destruct (He e Hlive) as (a & Ha & V). destruct K as [[S G] _ _].
  destruct (so_loc _ _ S e Hlive) as (src & row & st & Hloc & Hst & Hrow).
  destruct (so_table _ _ S src st Hst) as (sn & Hsn & [Hlen _ _]).
  exists a, src, row, st, sn. do 5 (split; [done|]).
  assert (Hr0 : exists r, t_rows st !! row = Some r).
  { apply lookup_lt_is_Some. apply lookup_lt_Some in Hrow. unfold tlen in Hlen. lia. }
  destruct Hr0 as [r Hr0].
  assert (Hc : ent_cells w e = Some (t_node st, t_target st, r)).
  { unfold ent_cells. rewrite Hloc. simpl. rewrite Hst. simpl. by rewrite Hr0. }
  destruct V as [V1 V2 _ _ V5 _].
  assert (Hm : n_mask sn = a_mask a).
  { unfold ent_mask in V1. rewrite Hc in V1. simpl in V1. rewrite Hsn in V1. simpl in V1. by injection V1. }
  split; [done|]. split.
  - unfold ent_target in V2. rewrite Hc in V2. simpl in V2. by injection V2.
  - rewrite Hr, <- Hm. symmetry. apply arel_relP; [by apply (rg_rel _ G (t_node st))|intros id; by apply (rg_bits _ G (t_node st))].
Qed.

Theorem exchange_outcome w A e add rem rel :
  R w A -> e ∈ as_issued A -> Forall (fun id => id < length (as_reg A)) add ->
  snd (fst (op_exchange w e add rem rel [])) =
  spec_exchange (as_reg A) (w_pool w) (assoc_get e (as_ents A)) e add rem rel.
Proof.
  intros HR Hiss Hadd. pose proof HR as [K Hr Hu He]. unfold op_exchange, exchange_nn, spec_exchange. rewrite Hu.
  change (chk_alive w e) with (pool_alive_opt (w_pool w) e).
  destruct (pool_alive_opt (w_pool w) e) as [[]|] eqn:Hal; try done.
  destruct (R_entity w A e HR Hiss Hal) as (a & src & row & st & sn & Ha & Hlive & Hloc & Hst & Hsn & Hm & Htg & Hrel).
  rewrite Ha. change (target_ok w) with (s_target_ok (w_pool w)).
  destruct (negb (match rel with Some (_, tg) => s_target_ok (w_pool w) tg | None => true end)); [done|].
  rewrite Hloc, Hst, Hsn.
  assert (Hbody : forall (X : option (world * option xinfo)),
    X = match exchange_mask (n_mask sn) add rem with
        | Some mask => match exchange_target w (n_mask sn) mask (t_target st) rem rel with
            | Some target => match find_or_create_table w src add rem target with
                | Some (w1, dst) => Some (cleanup_table (set_tbit (move_entity w1 e src row dst mask) target) src,
                                          Some (mkX dst (n_mask sn) (t_target st) (n_rel sn)))
                | None => None end
            | None => None end
        | None => None end ->
    snd (fst (match X with
              | None => panic w
              | Some (w1, None) => ok w1 VUnit []
              | Some (w1, Some x) => ok (set_comps w1 e []) VUnit (ev_exchange (set_comps w1 e []) e x add rem)
              end)) =
    match exmask_rem (a_mask a) rem with
    | None => Panic
    | Some m1 => match exmask_add m1 add with
        | None => Panic
        | Some nm => match xtarget (as_reg A) (a_mask a) nm (a_target a) rem rel with
            | None => Panic
            | Some _ => if wa_ok (as_reg A) (a_mask a) m1 (wr_rel (as_reg A) (arel (as_reg A) (a_mask a)) rem) add then Ok VUnit else Panic
            end end end).
  { intros X ->. unfold exchange_mask. rewrite Hm.
    destruct (exmask_rem (a_mask a) rem) as [m1|] eqn:Hrem; [|done]. simpl.
    destruct (exmask_add m1 add) as [nm|] eqn:Hadd2; [|done].
    rewrite xtarget_eq, <- Hr, Htg. destruct (xtarget (as_reg A) (a_mask a) nm (a_target a) rem rel) as [target|]; [|done].
    rewrite <- Hm in Hrem. rewrite Hr in Hadd.
    pose proof (foc_success w src st sn add rem target m1 (wr_graph _ _ (r2_ok _ _ _ K)) Hst Hsn Hrem Hadd) as Hiff.
    rewrite <- Hr, Hm, Hrel in Hiff.
    destruct (find_or_create_table w src add rem target) as [[w1 dst]|].
    - rewrite (proj1 Hiff) by (by eexists). done.
    - destruct (wa_ok _ _ _ _ _) eqn:Hw; [|done]. destruct (proj2 Hiff eq_refl) as [? ?]. done. }
  destruct add as [|a0 add'], rem as [|r0 rem'].
  - by destruct (bool_decide (is_Some rel)).
  - by apply Hbody.
  - by apply Hbody.
  - by apply Hbody.
Qed.

(** Creation. *)
Definition spec_new (reg : list cinfo) (p : pool) (ids : list nat) : outcome :=
  if wa_ok reg 0 0 None ids then Ok (VEnt (snd (pool_get p))) else Panic.

Lemma table0_facts w : rgraph_ok w -> exists t0 n0, w_tables w !! 0 = Some t0 /\ w_nodes w !! t_node t0 = Some n0 /\ n_mask n0 = 0%N /\ n_rel n0 = None.
Proof.
  intros G. destruct (rg_table0 _ G) as (t0 & n0 & Ht0 & Hn0 & Hm0). exists t0, n0. do 3 (split; [done|]).
  destruct (n_rel n0) as [r|] eqn:Hr; [|done]. pose proof (rg_rel _ G _ n0 Hn0 r) as [_ HH].
  destruct (HH Hr) as [Hb _]. by rewrite Hm0, bit_zero in Hb.
Qed.

Lemma new_table_success w ids target :
  rgraph_ok w -> Forall (fun id => id < length (w_reg w)) ids ->
  (is_Some (match ids with [] => Some (w, 0) | _ => find_or_create_table w 0 ids [] target end) <->
   wa_ok (w_reg w) 0 0 None ids = true).
Proof.
  intros G Hreg. destruct ids as [|i0 ids']; [split; [done|by eexists]|].
  destruct (table0_facts w G) as (t0 & n0 & Ht0 & Hn0 & Hm0 & Hr0).
  pose proof (foc_success w 0 t0 n0 (i0 :: ids') [] target (n_mask n0) G Ht0 Hn0 eq_refl Hreg) as H.
  by rewrite Hm0, Hr0 in H.
Qed.

Lemma create_entity_handle w tid t nd :
  w_tables w !! tid = Some t -> w_nodes w !! t_node t = Some nd ->
  snd (create_entity w tid) = snd (pool_get (w_pool w)) /\ w_pool (fst (create_entity w tid)) = fst (pool_get (w_pool w)).
Proof.
  intros Ht Hnd. unfold create_entity. rewrite Ht, Hnd. destruct (pool_get (w_pool w)) as [p e].
  destruct (tbl_alloc _ _ _ _) as [t' row]. simpl. by destruct (eid e =? _).
Qed.

Theorem new_outcome w A ids :
  R w A -> Forall (fun id => id < length (as_reg A)) ids ->
  snd (fst (op_new w ids [])) = spec_new (as_reg A) (w_pool w) ids /\
  w_pool (fst (fst (op_new w ids []))) = (if wa_ok (as_reg A) 0 0 None ids then fst (pool_get (w_pool w)) else w_pool w).
Proof.
  intros HR Hids. pose proof HR as [K Hr Hu He]. rewrite Hr in Hids |- *.
  pose proof (new_table_success w ids ezero (wr_graph _ _ (r2_ok _ _ _ K)) Hids) as Hiff.
  unfold op_new, spec_new. rewrite Hu.
  destruct (match ids with [] => Some (w, 0) | _ => find_or_create_table w 0 ids [] ezero end) as [[w1 tid]|] eqn:Hf.
  - rewrite (proj1 Hiff) by (by eexists).
    destruct (new_table_rok w ids ezero w1 tid (wr_graph _ _ (r2_ok _ _ _ K)) Hids Hf) as (E & G1 & dt & dn & Hdt & Hdn & _).
    destruct (create_entity_handle w1 tid dt dn Hdt Hdn) as [Hh Hp]. rewrite (xr_pool _ _ E) in Hh, Hp.
    destruct (create_entity w1 tid) as [w2 e]. simpl in *. destruct (table_mask_rel w2 tid). simpl. by rewrite Hh, Hp.
  - destruct (wa_ok (w_reg w) 0 0 None ids) eqn:Hw; [|done]. destruct (proj2 Hiff eq_refl) as [? ?]. done.
Qed.

(** Relations.Set, Set, RemoveEntity. *)
Definition spec_set_relation (reg : list cinfo) (p : pool) (oa : option aent) (e : Entity) (rid : nat) (tg : Entity) : outcome :=
  match pool_alive_opt p e, oa with
  | Some true, Some a =>
      if negb (s_target_ok p tg) then Panic
      else if bool_decide (arel reg (a_mask a) = Some rid) then Ok VUnit else Panic
  | _, _ => Panic
  end.

Theorem set_relation_outcome w A e rid tg :
  R w A -> e ∈ as_issued A ->
  snd (fst (op_set_relation w e rid tg)) = spec_set_relation (as_reg A) (w_pool w) (assoc_get e (as_ents A)) e rid tg.
Proof.
  intros HR Hiss. pose proof HR as [K Hr Hu He]. unfold op_set_relation, spec_set_relation. rewrite Hu.
  change (chk_alive w e) with (pool_alive_opt (w_pool w) e).
  destruct (pool_alive_opt (w_pool w) e) as [[]|] eqn:Hal; try done.
  destruct (R_entity w A e HR Hiss Hal) as (a & src & row & st & sn & Ha & Hlive & Hloc & Hst & Hsn & Hm & Htg & Hrel).
  rewrite Ha. change (target_ok w) with (s_target_ok (w_pool w)).
  destruct (negb (s_target_ok (w_pool w) tg)); [done|].
  unfold ent_table. change (chk_alive w e) with (pool_alive_opt (w_pool w) e). rewrite Hal, Hloc, Hst, Hsn.
  unfold check_relation. rewrite Hst, Hsn, Hrel.
  destruct (arel (as_reg A) (a_mask a)) as [r|] eqn:Har.
  - destruct (Nat.eqb_spec r rid) as [->|Hne].
    + rewrite bool_decide_eq_true_2 by done. simpl. destruct (ent_eqb _ _); [done|].
      destruct (match node_get_table sn tg with Some tid => _ | None => _ end). done.
    + rewrite bool_decide_eq_false_2 by congruence. done.
  - rewrite bool_decide_eq_false_2 by done. done.
Qed.

Definition spec_set (p : pool) (oa : option aent) (e : Entity) (id : nat) : outcome :=
  match pool_alive_opt p e, oa with
  | Some true, Some a => if bit (a_mask a) id then Ok VUnit else Panic
  | _, _ => Panic
  end.

Lemma col_of_iff w nd id : n_ids nd = mask_ids (w_tb w) (n_mask nd) -> id < w_tb w ->
  (is_Some (col_of nd id) <-> bit (n_mask nd) id = true).
Proof.
  intros Hids Hid. unfold col_of. rewrite Hids. split.
  - intros [c Hc]. apply find_index_Some_lookup in Hc as (y & Hy & He). apply Nat.eqb_eq in He. subst y.
    apply elem_of_list_lookup_2 in Hy. unfold mask_ids in Hy. by apply elem_of_list_filter in Hy as [? _].
  - intros Hb. destruct (find_index (Nat.eqb id) (mask_ids (w_tb w) (n_mask nd))) eqn:Hf; [by eexists|].
    apply find_index_None_notin in Hf. exfalso. apply Hf. unfold mask_ids. apply elem_of_list_filter. split; [done|]. apply elem_of_seq. lia.
Qed.

Theorem set_outcome w A e id v :
  R w A -> e ∈ as_issued A -> id < w_tb w ->
  snd (fst (step w (OSet e id v))) = spec_set (w_pool w) (assoc_get e (as_ents A)) e id.
Proof.
  intros HR Hiss Hid. pose proof HR as [K Hr Hu He]. simpl. unfold set_comp, spec_set.
  change (chk_alive w e) with (pool_alive_opt (w_pool w) e).
  destruct (pool_alive_opt (w_pool w) e) as [[]|] eqn:Hal; try done.
  destruct (R_entity w A e HR Hiss Hal) as (a & src & row & st & sn & Ha & Hlive & Hloc & Hst & Hsn & Hm & Htg & Hrel).
  rewrite Ha, Hloc, Hst, Hsn. rewrite <- Hm.
  pose proof (col_of_iff w sn id (rg_ids _ (wr_graph _ _ (r2_ok _ _ _ K)) _ _ Hsn) Hid) as Hiff.
  destruct (col_of sn id) as [c|].
  - rewrite (proj1 Hiff) by (by eexists). by destruct (reg_is_zs w id).
  - destruct (bit (n_mask sn) id) eqn:Hb; [|done]. destruct (proj2 Hiff eq_refl) as [? ?]. done.
Qed.

Definition spec_remove (p : pool) (e : Entity) : outcome :=
  match pool_alive_opt p e with Some true => Ok VUnit | _ => Panic end.

Theorem remove_outcome w A e :
  R w A -> e ∈ as_issued A -> (egen e < gen_max)%N ->
  snd (fst (op_remove_entity w e)) = spec_remove (w_pool w) e /\
  w_pool (fst (fst (op_remove_entity w e))) = (match pool_alive_opt (w_pool w) e with Some true => pool_recycle (w_pool w) e | _ => w_pool w end).
Proof.
  intros HR Hiss Hg. pose proof HR as [K Hr Hu He]. unfold spec_remove.
  destruct (pool_alive_opt (w_pool w) e) as [[]|] eqn:Hal.
  - assert (Hlive : e ∈ as_live A) by (by eapply chk_alive_live_r).
    destruct (remove_entity_rok w (as_live A) (as_issued A) e K Hlive Hg Hu) as (Hok & _). split; [done|].
    unfold op_remove_entity. rewrite Hu. unfold ent_table. change (chk_alive w e) with (pool_alive_opt (w_pool w) e). rewrite Hal.
    destruct K as [[S G] _ _]. destruct (so_loc _ _ S e Hlive) as (src & row & st & Hloc & Hst & Hrow).
    destruct (so_table _ _ S src st Hst) as (sn & Hsn & _). rewrite Hloc, Hst, Hsn.
    destruct (tbl_remove _ _ _) as [st1 sw]. simpl.
    match goal with |- w_pool (cleanup_table ?x src) = _ => set (w2 := x) end.
    destruct (cleanup_table_side w2 src) as (->&_).
    unfold w2. destruct (tbit _ _); [|done]. simpl.
    match goal with |- w_pool (cleanup_tables_for ?x e) = _ => set (w1 := x) end.
    by destruct (cleanup_tables_for_side w1 e) as (->&_).
  - unfold op_remove_entity. rewrite Hu. unfold ent_table. change (chk_alive w e) with (pool_alive_opt (w_pool w) e). by rewrite Hal.
  - unfold op_remove_entity. rewrite Hu. unfold ent_table. change (chk_alive w e) with (pool_alive_opt (w_pool w) e). by rewrite Hal.
Qed.

(** Registration and the read accessors. *)
Definition spec_register (reg : list cinfo) (tb : nat) (key : nat) : outcome :=
  match find_index (fun c => ci_key c =? key) reg with
  | Some id => Ok (VNat id)
  | None => if tb <=? length reg then Panic else Ok (VNat (length reg))
  end.

Theorem register_outcome w A key isrel zs :
  R w A -> snd (fst (step w (ORegister key isrel zs))) = spec_register (as_reg A) (w_tb w) key.
Proof.
  intros HR. pose proof HR as [K Hr Hu He]. simpl. unfold register_comp, spec_register. rewrite Hr, Hu.
  destruct (find_index _ _); [done|]. destruct (_ <=? _); [done|]. by destruct (_ && _).
Qed.

Definition spec_read (reg : list cinfo) (p : pool) (oa : option aent) (e : Entity) (o : op) : outcome :=
  match pool_alive_opt p e, oa with
  | Some true, Some a =>
      match o with
      | OMask _ => Ok (VMask (a_mask a))
      | OHas _ id => Ok (VBool (bit (a_mask a) id))
      | ORelGet _ id => if bool_decide (arel reg (a_mask a) = Some id) then Ok (VEnt (a_target a)) else Panic
      | _ => Panic
      end
  | _, _ => Panic
  end.

Theorem read_outcome w A e o :
  R w A -> e ∈ as_issued A ->
  match o with OMask e' | OHas e' _ | ORelGet e' _ => e' = e | _ => False end ->
  snd (fst (step w o)) = spec_read (as_reg A) (w_pool w) (assoc_get e (as_ents A)) e o.
Proof.
  intros HR Hiss Ho. pose proof HR as [K Hr Hu He]. unfold spec_read.
  destruct o; try done; subst e0; simpl; unfold ent_table; change (chk_alive w e) with (pool_alive_opt (w_pool w) e);
    (destruct (pool_alive_opt (w_pool w) e) as [[]|] eqn:Hal; try done);
    destruct (R_entity w A e HR Hiss Hal) as (a & src & row & st & sn & Ha & Hlive & Hloc & Hst & Hsn & Hm & Htg & Hrel);
    rewrite Ha, Hloc, Hst, Hsn; simpl; rewrite ?Hm; try done.
  unfold check_relation. rewrite Hst, Hsn, Hrel, Htg.
  destruct (arel (as_reg A) (a_mask a)) as [r|].
  - destruct (Nat.eqb_spec r id) as [->|Hne]; [by rewrite bool_decide_eq_true_2|by rewrite bool_decide_eq_false_2 by congruence].
  - by rewrite bool_decide_eq_false_2.
Qed.

(** ** The specification as one function, and determinism *)
Definition spec_out (A : astate) (p : pool) (tb : nat) (o : op) : outcome :=
  match o with
  | ONew ids => spec_new (as_reg A) p ids
  | OExchange e add rem => spec_exchange (as_reg A) p (assoc_get e (as_ents A)) e add rem None
  | ORelExchange e add rem rid tg => spec_exchange (as_reg A) p (assoc_get e (as_ents A)) e add rem (Some (rid, tg))
  | ORelSet e rid tg => spec_set_relation (as_reg A) p (assoc_get e (as_ents A)) e rid tg
  | OSet e id _ => spec_set p (assoc_get e (as_ents A)) e id
  | ORemoveEntity e => spec_remove p e
  | ORegister key _ _ => spec_register (as_reg A) tb key
  | OMask e | OHas e _ | ORelGet e _ => spec_read (as_reg A) p (assoc_get e (as_ents A)) e o
  | _ => Panic
  end.

Definition spec_pool (p : pool) (o : op) (out : outcome) : pool :=
  match o, out with
  | ONew _, Ok _ => fst (pool_get p)
  | ORemoveEntity e, Ok _ => pool_recycle p e
  | _, _ => p
  end.

Definition det_op (A : astate) (tb : nat) (o : op) : Prop :=
  match o with
  | ONew ids => ids_reg A ids
  | OExchange e add _ | ORelExchange e add _ _ _ => e ∈ as_issued A /\ ids_reg A add
  | ORelSet e _ _ | OMask e | OHas e _ | ORelGet e _ => e ∈ as_issued A
  | OSet e id _ => e ∈ as_issued A /\ id < tb
  | ORemoveEntity e => e ∈ as_issued A /\ (egen e < gen_max)%N
  | ORegister _ _ _ => True
  | _ => False
  end.

Lemma det_op_pre A tb o : det_op A tb o -> op_pre A o.
Proof. destruct o; simpl; try done; tauto. Qed.

Lemma exchange_pool w A e add rem rel :
  R w A -> e ∈ as_issued A -> ids_reg A add ->
  w_pool (fst (fst (op_exchange w e add rem rel []))) = w_pool w.
Proof.
  intros HR Hiss Hadd. pose proof HR as [K Hr Hu He]. unfold op_exchange.
  destruct (exchange_nn w e add rem rel) as [[w1 [x|]]|] eqn:H; simpl; [|by apply exchange_nn_none in H as (_ & _ & ->)|done].
  assert (Hlive : e ∈ as_live A) by (eapply chk_alive_live_r; [exact K|done|by eapply exchange_alive]).
  unfold ids_reg in Hadd. rewrite Hr in Hadd.
  by destruct (exchange_rok w (as_live A) e add rem rel w1 x (r2_ok _ _ _ K) Hlive Hadd H) as (_ & Hp & _).
Qed.

Lemma set_relation_pool w A e rid tg :
  R w A -> e ∈ as_issued A -> w_pool (fst (fst (op_set_relation w e rid tg))) = w_pool w.
Proof.
  intros HR Hiss. pose proof HR as [K Hr Hu He].
  destruct (op_set_relation w e rid tg) as [[w' out] evs] eqn:H. simpl.
  destruct (op_set_relation_shape _ _ _ _ _ _ _ H) as [->| ->].
  - assert (Hs : step w (ORelSet e rid tg) = (w', Panic, evs)) by done. by apply panic_atomic in Hs as [-> _].
  - assert (Hlive : e ∈ as_live A) by (eapply chk_alive_live_r; [exact K|done|by eapply set_relation_alive]).
    by destruct (set_relation_rok w (as_live A) e rid tg w' evs (r2_ok _ _ _ K) Hlive H) as (_ & Hp & _).
Qed.

Lemma step_outcome0 w A o :
  R w A -> det_op A (w_tb w) o ->
  snd (fst (step0 w o)) = spec_out A (w_pool w) (w_tb w) o /\
  w_pool (fst (fst (step0 w o))) = spec_pool (w_pool w) o (snd (fst (step0 w o))).
Proof.
  intros HR Hd. destruct o; try done; simpl in Hd.
  - destruct (new_outcome w A ids HR Hd) as [H1 H2]. split; [exact H1|]. simpl. simpl in H1. rewrite H1, H2. unfold spec_new.
    by destruct (wa_ok _ _ _ _ _).
  - destruct Hd as [Hi Hg]. destruct (remove_outcome w A e HR Hi Hg) as [H1 H2]. split; [exact H1|]. simpl. simpl in H1. rewrite H1, H2.
    unfold spec_remove. by destruct (pool_alive_opt (w_pool w) e) as [[]|].
  - destruct Hd as [Hi Ha]. split; [by apply exchange_outcome|]. simpl. rewrite (exchange_pool w A e add rem None HR Hi Ha).
    by destruct (snd (fst (op_exchange w e add rem None []))).
  - destruct Hd as [Hi Hid]. split; [by apply set_outcome|]. simpl.
    destruct (set_comp w e id v) as [w1|] eqn:H; simpl; [|done].
    pose proof HR as [K Hr Hu He].
    assert (Hlive : e ∈ as_live A).
    { eapply chk_alive_live_r; [exact K|done|]. unfold set_comp in H. by destruct (chk_alive w e) as [[]|]. }
    by destruct (set_comp_spec w (as_live A) e id v w1 (wr_store _ _ (r2_ok _ _ _ K)) Hlive H) as (_ & _ & _ & Hp & _).
  - split; [by apply (read_outcome w A e (OHas e id))|]. simpl. by destruct (ent_table w e) as [[[[? ?] ?] ?]|].
  - split; [by apply (read_outcome w A e (OMask e))|]. simpl. by destruct (ent_table w e) as [[[[? ?] ?] ?]|].
  - split; [by apply (read_outcome w A e (ORelGet e id))|]. simpl.
    destruct (ent_table w e) as [[[[? ?] ?] ?]|]; [|done]. by destruct (check_relation _ _ _).
  - split; [by apply set_relation_outcome|]. simpl. rewrite (set_relation_pool w A e id t HR Hd).
    by destruct (snd (fst (op_set_relation w e id t))).
  - destruct Hd as [Hi Ha]. split; [by apply exchange_outcome|]. simpl. rewrite (exchange_pool w A e add rem _ HR Hi Ha).
    by destruct (snd (fst (op_exchange w e add rem (Some (rid, t)) []))).
  - split; [by apply register_outcome|]. simpl.
    destruct (register_comp w key isrel zs) as [[w1 id]|] eqn:H; simpl; [|done].
    unfold register_comp in H. destruct (find_index _ _); [by injection H as <- _|].
    destruct (_ <=? _); [done|]. destruct (is_locked w); [done|]. by destruct (_ && _); injection H as <- _.
Qed.

Lemma det_op_ghost_ids A tb o : det_op A tb o -> ids_reg A (ghost_ids o).
Proof. intros H. apply op_pre_ghost_ids. by eapply det_op_pre. Qed.

Theorem step_outcome w A o :
  R w A -> det_op A (w_tb w) o ->
  snd (fst (step w o)) = spec_out A (w_pool w) (w_tb w) o /\
  w_pool (fst (fst (step w o))) = spec_pool (w_pool w) o (snd (fst (step w o))).
Proof.
  intros HR Hd. destruct (step_outcome0 w A o HR Hd) as [H1 H2].
  destruct (step_cases w o) as [[-> _]|[H0 ->]]; [done|]. rewrite H0 in H1, H2. simpl in *. split; [done|].
  pose proof HR as [[[S G] _ _] Hr _ _]. pose proof (det_op_ghost_ids A _ o Hd) as Hids. unfold ids_reg in Hids. rewrite Hr in Hids.
  destruct (ghost_of_rok w o G Hids) as [E _]. by rewrite (xr_pool _ _ E).
Qed.


Lemma det_tb w A tb o : det_op A tb o -> w_tb (fst (fst (step w o))) = w_tb w.
Proof.
  intros Hd. destruct o; try done;
    try (match goal with |- w_tb (fst (fst (step w ?o))) = _ => by apply (rr_tb _ _ (step_frame_rr w o eq_refl)) end).
  simpl. match goal with |- context [register_comp w ?k ?r ?z] => destruct (register_comp w k r z) as [[w1 id]|] eqn:H end; simpl; [|done].
  unfold register_comp in H. destruct (find_index _ _); [by injection H as <- _|].
  destruct (_ <=? _); [done|]. destruct (is_locked w); [done|]. by destruct (_ && _); injection H as <- _.
Qed.

(** ** Two worlds with the same abstract state and the same pool are indistinguishable *)
Fixpoint outcomes (w : world) (ops : list op) : list outcome :=
  match ops with
  | [] => []
  | o :: r => snd (fst (step w o)) :: outcomes (fst (fst (step w o))) r
  end.

Fixpoint det_run (A : astate) (p : pool) (tb : nat) (ops : list op) : Prop :=
  match ops with
  | [] => True
  | o :: r => det_op A tb o /\ det_run (astep A o (spec_out A p tb o)) (spec_pool p o (spec_out A p tb o)) tb r
  end.

Theorem same_spec_same_behaviour ops : forall w1 w2 A,
  R w1 A -> R w2 A -> w_pool w1 = w_pool w2 -> w_tb w1 = w_tb w2 ->
  det_run A (w_pool w1) (w_tb w1) ops ->
  outcomes w1 ops = outcomes w2 ops /\
  exists A', R (run w1 ops) A' /\ R (run w2 ops) A' /\ w_pool (run w1 ops) = w_pool (run w2 ops).
Proof.
  induction ops as [|o r IH]; intros w1 w2 A HR1 HR2 Hp Htb Hd; simpl.
  - split; [done|]. by exists A.
  - destruct Hd as [Hdo Hd].
    destruct (step_outcome w1 A o HR1 Hdo) as [O1 P1].
    assert (Hdo2 : det_op A (w_tb w2) o) by (by rewrite <- Htb).
    destruct (step_outcome w2 A o HR2 Hdo2) as [O2 P2].
    assert (Oeq : snd (fst (step w1 o)) = snd (fst (step w2 o))) by (rewrite O1, O2, Hp, Htb; done).
    pose proof (rel_step w1 A o HR1 (det_op_pre _ _ _ Hdo)) as HR1'.
    pose proof (rel_step w2 A o HR2 (det_op_pre _ _ _ Hdo2)) as HR2'.
    rewrite <- Oeq in HR2'. rewrite O1 in HR1', HR2'.
    assert (Hp' : w_pool (fst (fst (step w1 o))) = w_pool (fst (fst (step w2 o)))) by (rewrite P1, P2, Oeq, Hp; done).
    assert (Htb' : w_tb (fst (fst (step w1 o))) = w_tb (fst (fst (step w2 o)))).
    { rewrite (det_tb w1 A _ o Hdo), (det_tb w2 A _ o Hdo2). done. }
    destruct (IH _ _ _ HR1' HR2' Hp' Htb') as [Houts Hex].
    { rewrite P1, O1, (det_tb w1 A _ o Hdo). exact Hd. }
    split; [by rewrite Oeq, Houts|done].
Qed.

(** In particular: a world after Reset - whatever it contained before - and any world that
    refines the empty store with the same registry and has a fresh pool (e.g. a new world
    after the same registrations) give the same outcomes and values for every history. *)
Corollary reset_like_new w A wn ops :
  R w A -> cache_ok w ->
  R wn (mkAS [] [] [] (as_reg A)) -> w_pool wn = pool_init -> w_tb wn = w_tb w ->
  det_run (mkAS [] [] [] (as_reg A)) pool_init (w_tb w) ops ->
  outcomes (world_reset w) ops = outcomes wn ops.
Proof.
  intros HR C HRn Hpool Htb Hd.
  assert (I : rwi w).
  { pose proof HR as [[[S G] _ _] _ _ _]. split; [done| |done]. intros tid t Ht. by apply (so_table _ _ S tid). }
  destruct (reset_refines w I) as (HR0 & _ & _). rewrite <- (r_reg _ _ HR) in HR0.
  destruct (world_reset_lq w) as (_ & _ & Htb0).
  assert (Hp0 : w_pool (world_reset w) = pool_init) by (by destruct (world_reset_abs w) as (? & _)).
  apply (same_spec_same_behaviour ops (world_reset w) wn _ HR0 HRn); [by rewrite Hp0, Hpool|by rewrite Htb0, Htb|by rewrite Hp0, Htb0].
Qed.

(** Non-vacuity: a concrete history meets [det_run]; illegal calls (adding a present
    component, a dead entity, a second relation) are predicted as panics by the specification. *)
Definition demo_det_ops : list op :=
  [ORegister 10 false false; ORegister 11 true false; ORegister 12 true false;
   ONew [0]; ONew [0; 1]; OExchange (mkE 1 0) [0] []; OExchange (mkE 2 0) [2] []; OExchange (mkE 2 0) [] [0];
   ORelSet (mkE 2 0) 1 (mkE 1 0); ORemoveEntity (mkE 1 0); OMask (mkE 1 0); ORelGet (mkE 2 0) 1; ONew [0; 0]].
Example demo_det : det_run a_init pool_init 64 demo_det_ops.
Proof.
  vm_compute. repeat split; try (repeat (apply List.Forall_cons; [simpl; lia|]); apply List.Forall_nil); try reflexivity; try lia;
  repeat (first [apply elem_of_list_here | apply elem_of_list_further]).
Qed.
Example demo_det_outcomes :
  outcomes (world_init 4 4 64) demo_det_ops =
  [Ok (VNat 0); Ok (VNat 1); Ok (VNat 2); Ok (VEnt (mkE 1 0)); Ok (VEnt (mkE 2 0)); Panic; Panic; Ok VUnit;
   Ok VUnit; Ok VUnit; Panic; Ok (VEnt (mkE 1 0)); Panic].
Proof. vm_compute. reflexivity. Qed.
