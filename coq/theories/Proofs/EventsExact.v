(** * C11: the event of an exchange is exact.

    With a listener subscribed to everything, a successful Add / Remove / Exchange (with or
    without relation argument) emits exactly one event; its added / removed masks are the
    difference of the entity's component sets before and after, its old and new relation,
    its old target and the type bits are exactly those of the change, the world is unlocked
    at delivery, and replaying the event on the old component set gives the new one. *)
From Arche Require Import Model.Base Model.Pool Model.Filter Model.World Model.Ops
  Proofs.Tables Proofs.Bits Proofs.Store Proofs.Graph Proofs.WorldInv Proofs.Misc
  Proofs.Frame Proofs.StepFrame
  Proofs.RelGraph Proofs.RelWorld Proofs.RelRefine.

Definition lall : lstn := LCallback (mkL 63 None).

Lemma subscription_lt a b c d e f : N.land 63 (subscription a b c d e f) = subscription a b c d e f.
Proof. by destruct a, b, c, d, e, f. Qed.

Lemma recipients_all bits a r o n ea er :
  N.land 63 bits = bits ->
  recipients lall bits a r o n ea er = if (bits =? 0)%N then [] else [0].
Proof.
  intros Hb. unfold recipients, gate, lall, outer_cfg, lc_subs, lc_comps. rewrite Hb. unfold subscribes.
  by destruct (bits =? 0)%N.
Qed.

(** Replaying an event's added / removed masks. *)
Lemma replay_masks om nm :
  N.ldiff (N.lor om (N.land nm (N.lxor om nm))) (N.land om (N.lxor om nm)) = nm.
Proof.
  apply N.bits_inj. intros k. rewrite N.ldiff_spec, N.lor_spec, !N.land_spec, N.lxor_spec.
  destruct (N.testbit om k), (N.testbit nm k); done.
Qed.

(** Structure of a successful exchange, including the [xinfo] handed to the event and the
    destination table as it is in the final world. *)
Lemma exchange_nn_full w live e add rem rel w' x :
  world_okr w live -> e ∈ live -> Forall (fun id => id < length (w_reg w)) add ->
  exchange_nn w e add rem rel = Some (w', Some x) ->
  exists src row st sn dst t' nd',
    loc w e = Some (src, row) /\ w_tables w !! src = Some st /\ t_ents st !! row = Some e /\
    w_nodes w !! t_node st = Some sn /\
    x = mkX dst (n_mask sn) (t_target st) (n_rel sn) /\
    w_tables w' !! dst = Some t' /\ w_nodes w' !! t_node t' = Some nd' /\
    (exists row', loc w' e = Some (dst, row')).
Proof.
  intros [S G] Hlive Hreg H. pose proof H as H0. unfold exchange_nn in H.
  destruct (is_locked w); [done|]. destruct (chk_alive w e) as [[]|]; try done. simpl in H.
  destruct (negb _); [done|].
  destruct (so_loc _ _ S e Hlive) as (src & row & st & Hloc & Hst & Hrow).
  destruct (so_table _ _ S src st Hst) as (sn & Hsn & Hsok).
  rewrite Hloc, Hst, Hsn in H.
  assert (Hmain : match exchange_mask (n_mask sn) add rem with
                  | Some mask =>
                      match exchange_target w (n_mask sn) mask (t_target st) rem rel with
                      | Some target =>
                          match find_or_create_table w src add rem target with
                          | Some (w1, dst) =>
                              Some (cleanup_table (set_tbit (move_entity w1 e src row dst mask) target) src,
                                    Some (mkX dst (n_mask sn) (t_target st) (n_rel sn)))
                          | None => None
                          end
                      | None => None
                      end
                  | None => None
                  end = Some (w', Some x) /\ (add <> [] \/ rem <> [])).
  { destruct add, rem; try (split; [exact H|]; (by left) || (by right)). by destruct (bool_decide _). }
  clear H. destruct Hmain as [H Hnonempty].
  destruct (exchange_mask (n_mask sn) add rem) as [mask|] eqn:Hmask; [|done].
  destruct (exchange_target w (n_mask sn) mask (t_target st) rem rel) as [target|] eqn:Htarget; [|done].
  destruct (find_or_create_table w src add rem target) as [[w1 dst]|] eqn:Hfoc; [|done].
  injection H as <- <-.
  destruct (find_or_create_table_rok w src add rem target st sn mask w1 dst G Hst Hsn Hmask Hreg Hfoc)
    as (E & G1 & dt & dn & Hdt & Hdn & Hdm & Hdact & Hdtg).
  assert (S1 : store_ok w1 live) by (by eapply ext_r_store_ok).
  assert (Hstne : t_ents st <> []) by (intros Hn; by rewrite Hn in Hrow).
  assert (Hst1 : w_tables w1 !! src = Some st).
  { destruct (xr_tables _ _ E src st Hst) as (t' & Ht' & _ & _ & _ & _ & Q). by rewrite (Q Hstne) in Ht'. }
  destruct (xr_nodes _ _ E _ sn Hsn) as (sn1 & Hsn1 & Hsm1 & Hsi1 & Hsr1).
  pose proof (exchange_mask_fold _ _ _ _ Hmask) as Hmf.
  assert (Hneq : mask <> n_mask sn).
  { unfold exchange_mask in Hmask. destruct (exmask_rem (n_mask sn) rem) as [m1|] eqn:Hr; [|done]. simpl in Hmask.
    pose proof (exmask_rem_present _ _ _ Hr) as Hpres.
    assert (Hstart : forall id, id ∈ add -> bit (n_mask sn) id = false).
    { unfold find_or_create_table in Hfoc. rewrite Hst, Hsn in Hfoc.
      destruct (walk_rem w (n_mask sn) (n_rel sn) rem) as [[wa ma] ra].
      destruct (walk_add wa (n_mask sn) ma ra add) as [r|] eqn:Hwa; [|done]. by eapply walk_add_start. }
    intros Heq. destruct add as [|a add'].
    - destruct rem as [|r0 rem']; [destruct Hnonempty; done|].
      assert (Hb : bit mask r0 = false).
      { rewrite Hmf, bit_fold_set, bit_fold_clear.
        rewrite (bool_decide_eq_false_2 (r0 ∉ r0 :: rem')) by (intros Hx; apply Hx; apply elem_of_cons; by left).
        rewrite (bool_decide_eq_false_2 (r0 ∈ [])) by (intros Hx; by apply elem_of_nil in Hx).
        by rewrite andb_false_r. }
      rewrite Heq, (Hpres r0) in Hb; [done|apply elem_of_cons; by left].
    - assert (Hb : bit mask a = true).
      { rewrite Hmf, bit_fold_set, bool_decide_eq_true_2; [apply orb_true_r|apply elem_of_cons; by left]. }
      rewrite Heq, (Hstart a) in Hb; [done|apply elem_of_cons; by left]. }
  assert (Hsd : src <> dst).
  { intros <-. rewrite Hst1 in Hdt. injection Hdt as <-. rewrite Hsn1 in Hdn. injection Hdn as <-. congruence. }
  assert (Hcap : 0 < node_capinc w1 dn).
  { unfold node_capinc. destruct (rg_capinc _ G1). by destruct (node_has_rel dn). }
  assert (Hloc1 : loc w1 e = Some (src, row)) by (by rewrite (ext_r_loc _ _ _ E)).
  destruct (move_entity_spec w1 live e src row dst mask st dt sn1 dn S1 Hlive Hloc1 Hsd Hst1 Hdt Hsn1 Hdn Hcap)
    as (srow & st1 & dt2 & Hsrow & Hw2 & _ & _ & _ & _ & _ & _ & _ & _ & _ & _ & _ & Hdn2 & _).
  set (w2 := move_entity w1 e src row dst mask) in *.
  assert (Hd2 : w_tables w2 !! dst = Some dt2 /\ loc w2 e = Some (dst, tlen dt) /\ w_nodes w2 = w_nodes w1).
  { rewrite Hw2. simpl. split; [|split; [|done]].
    - rewrite list_lookup_insert_ne by done. apply list_lookup_insert. by apply lookup_lt_Some in Hdt.
    - unfold loc. simpl. rewrite list_lookup_insert; [done|].
      assert (Hlt : eid e < length (w_index w1)).
      { unfold loc in Hloc1. destruct (w_index w1 !! eid e) eqn:Hx; [by apply lookup_lt_Some in Hx|done]. }
      destruct (row =? tlen st - 1); simpl; [done|]. destruct (t_ents st !! (tlen st - 1)); [by rewrite insert_length|done]. }
  destruct Hd2 as (Hdt2 & Hloc2 & Hn2).
  set (w3 := set_tbit w2 target).
  assert (Hw3 : w_nodes w3 = w_nodes w2 /\ w_tables w3 = w_tables w2 /\ w_index w3 = w_index w2).
  { unfold w3, set_tbit. by destruct (ent_is_zero target). }
  destruct Hw3 as (Hn3 & Ht3 & Hi3).
  assert (Hoth4 : w_tables (cleanup_table w3 src) !! dst = w_tables w3 !! dst /\ w_index (cleanup_table w3 src) = w_index w3).
  { unfold cleanup_table. destruct (w_tables w3 !! src) as [tt|]; [|done].
    destruct (w_nodes w3 !! t_node tt); [|done]. destruct (_ || _); [done|]. destruct (_ || _); [done|].
    unfold retire_table. destruct (w_tables w3 !! src) as [t5|]; [|done]. destruct (w_nodes w3 !! t_node t5); [|done].
    simpl. by rewrite list_lookup_insert_ne. }
  destruct Hoth4 as [Hd4 Hi4].
  destruct (cleanup_table_nodes w3 src (t_node dt2) dn) as (dn4 & Hdn4 & _).
  { rewrite Hn3, Hn2, Hdn2. done. }
  exists src, row, st, sn, dst, dt2, dn4.
  split; [done|]. split; [done|]. split; [done|]. split; [done|]. split; [done|].
  split; [by rewrite Hd4, Ht3|]. split; [done|].
  exists (tlen dt). unfold loc. rewrite Hi4, Hi3. exact Hloc2.
Qed.

Lemma views_of_row w live e tid row t nd :
  store_ok w live -> e ∈ live -> loc w e = Some (tid, row) -> w_tables w !! tid = Some t -> w_nodes w !! t_node t = Some nd ->
  ent_mask w e = Some (n_mask nd) /\ ent_rel w e = Some (n_rel nd) /\ ent_target w e = Some (t_target t).
Proof.
  intros S He Hloc Ht Hnd. destruct (so_loc _ _ S e He) as (tid0 & row0 & t0 & Hl0 & Ht0 & Hr0).
  rewrite Hloc in Hl0. injection Hl0 as <- <-. rewrite Ht in Ht0. injection Ht0 as <-.
  destruct (so_table _ _ S tid t Ht) as (nd0 & Hnd0 & [Hlen _ _]).
  assert (Hr : exists r, t_rows t !! row = Some r).
  { apply lookup_lt_is_Some. apply lookup_lt_Some in Hr0. unfold tlen in Hlen. lia. }
  destruct Hr as [r Hr].
  unfold ent_mask, ent_rel, ent_target, ent_cells. rewrite Hloc. simpl. rewrite Ht. simpl. rewrite Hr. simpl. by rewrite Hnd.
Qed.

Definition xbits (add rem : list nat) (orl nrl : option nat) (ot nt : Entity) : N :=
  subscription false false (negb (bool_decide (add = []))) (negb (bool_decide (rem = [])))
               (opt_ne orl nrl) (opt_ne orl nrl || negb (ent_eqb ot nt)).

Theorem exchange_event_exact w live e add rem rel w' x :
  world_okr w live -> e ∈ live -> Forall (fun id => id < length (w_reg w)) add ->
  w_listener w = Some lall ->
  exchange_nn w e add rem rel = Some (w', Some x) ->
  exists om nm orl nrl ot nt,
    ent_mask w e = Some om /\ ent_mask w' e = Some nm /\ ent_rel w e = Some orl /\ ent_rel w' e = Some nrl /\
    ent_target w e = Some ot /\ ent_target w' e = Some nt /\
    ev_exchange w' e x add rem =
      [mkEv e (N.land nm (N.lxor om nm)) (N.land om (N.lxor om nm)) add rem orl nrl ot (xbits add rem orl nrl ot nt) false 0].
Proof.
  intros K Hlive Hreg Hlis H.
  destruct (exchange_nn_full w live e add rem rel w' x K Hlive Hreg H)
    as (src & row & st & sn & dst & t' & nd' & Hloc & Hst & Hrow & Hsn & -> & Ht' & Hnd' & (row' & Hloc')).
  destruct (exchange_rok w live e add rem rel w' _ K Hlive Hreg H) as (K' & _).
  pose proof (frame_exchange_nn w e add rem rel w' _ H) as F.
  destruct (views_of_row w live e src row st sn (wr_store _ _ K) Hlive Hloc Hst Hsn) as (V1 & V2 & V3).
  destruct (views_of_row w' live e dst row' t' nd' (wr_store _ _ K') Hlive Hloc' Ht' Hnd') as (V1' & V2' & V3').
  exists (n_mask sn), (n_mask nd'), (n_rel sn), (n_rel nd'), (t_target st), (t_target t').
  do 6 (split; [done|]).
  unfold ev_exchange. rewrite (fr_listener _ _ F), Hlis. simpl. rewrite Ht', Hnd'.
  assert (Hul : is_locked w' = false).
  { unfold is_locked. rewrite (fr_locks _ _ F). unfold exchange_nn in H. by destruct (is_locked w) eqn:Hl. }
  rewrite Hul.
  set (bits := subscription false false (negb (bool_decide (add = []))) (negb (bool_decide (rem = [])))
                 (opt_ne (n_rel sn) (n_rel nd')) (opt_ne (n_rel sn) (n_rel nd') || negb (ent_eqb (t_target st) (t_target t')))).
  rewrite recipients_all by apply subscription_lt.
  assert (Hnz : (bits =? 0)%N = false).
  { assert (Hne : add <> [] \/ rem <> []).
    { destruct add, rem; try ((by left) || (by right)). exfalso. unfold exchange_nn in H.
      destruct (is_locked w); [done|]. destruct (chk_alive w e) as [[]|]; try done. destruct (negb _); [done|]. by destruct (bool_decide _). }
    unfold bits. destruct Hne as [Hne|Hne].
    - rewrite (bool_decide_eq_false_2 (add = [])) by done. simpl.
      by destruct (negb (bool_decide (rem = []))), (opt_ne _ _), (negb (ent_eqb _ _)).
    - rewrite (bool_decide_eq_false_2 (rem = [])) by done. simpl.
      by destruct (negb (bool_decide (add = []))), (opt_ne _ _), (negb (ent_eqb _ _)). }
  rewrite Hnz. done.
Qed.

(** The type bits name exactly the kinds of change. *)
Lemma xbits_spec add rem orl nrl ot nt :
  let b := xbits add rem orl nrl ot nt in
  N.testbit b 0 = false /\ N.testbit b 1 = false /\
  N.testbit b 2 = negb (bool_decide (add = [])) /\ N.testbit b 3 = negb (bool_decide (rem = [])) /\
  N.testbit b 4 = opt_ne orl nrl /\ N.testbit b 5 = (opt_ne orl nrl || negb (ent_eqb ot nt)).
Proof.
  unfold xbits. by destruct (negb (bool_decide (add = []))), (negb (bool_decide (rem = []))), (opt_ne orl nrl), (negb (ent_eqb ot nt)).
Qed.

(** ** Creation *)
Lemma create_entity_ents w tid t nd :
  w_tables w !! tid = Some t -> w_nodes w !! t_node t = Some nd ->
  let '(w', e) := create_entity w tid in
  exists t', w_tables w' !! tid = Some t' /\ t_ents t' = t_ents t ++ [e].
Proof.
  intros Ht Hnd. unfold create_entity. rewrite Ht, Hnd. destruct (pool_get (w_pool w)) as [p e]. unfold tbl_alloc.
  set (t1 := tbl_extend (node_capinc w nd) (zero_row nd) t 1).
  assert (He1 : t_ents t1 = t_ents t) by (unfold t1, tbl_extend; by destruct (_ <=? _)).
  simpl. destruct (eid e =? _); simpl; (eexists; split; [apply list_lookup_insert; by apply lookup_lt_Some in Ht|simpl; by rewrite He1]).
Qed.

Lemma table_mask_rel_views w tid row e m r :
  loc w e = Some (tid, row) -> ent_mask w e = Some m -> ent_rel w e = Some r -> table_mask_rel w tid = (m, r).
Proof.
  intros Hloc Hm Hr. unfold ent_mask, ent_rel, ent_cells, table_mask_rel in *. rewrite Hloc in Hm, Hr. simpl in *.
  destruct (w_tables w !! tid) as [t|]; [|done]. simpl in *. destruct (t_rows t !! row); [|done]. simpl in *.
  destruct (w_nodes w !! t_node t) as [nd|]; [|done]. simpl in *. congruence.
Qed.

Theorem new_event_exact w live issued ids w' e evs :
  world_okr2 w live issued -> Forall (fun id => id < length (w_reg w)) ids -> w_listener w = Some lall ->
  op_new w ids [] = (w', Ok (VEnt e), evs) ->
  exists m r, ent_mask w' e = Some m /\ ent_rel w' e = Some r /\
    evs = [mkEv e m 0 ids [] None r ezero
             (subscription true false (negb (bool_decide (ids = []))) false (bool_decide (is_Some r)) (bool_decide (is_Some r))) false 0].
Proof.
  intros K Hreg Hlis H. pose proof H as H0.
  destruct (new_entity_rok w live issued ids w' e evs K Hreg H) as (Hni & K' & _ & _ & mask & rel & _ & Hm & Hr & _).
  pose proof (frame_op_new w ids []) as F. rewrite H in F. simpl in F.
  unfold op_new in H. destruct (is_locked w) eqn:Hul; [done|].
  destruct (match ids with [] => Some (w, 0) | _ => find_or_create_table w 0 ids [] ezero end) as [[w1 tid]|] eqn:Hf; [|done].
  destruct K as [[S G] [frees P] L].
  destruct (new_table_rok w ids ezero w1 tid G Hreg Hf) as (E & G1 & dt & dn & Hdt & Hdn & _).
  pose proof (create_entity_ents w1 tid dt dn Hdt Hdn) as Hents.
  destruct (create_entity w1 tid) as [w2 e2]. simpl in H.
  destruct (table_mask_rel w2 tid) as [m r] eqn:Htm. injection H as <- <- <-.
  destruct Hents as (t' & Ht' & He').
  assert (Hloc : loc w2 e2 = Some (tid, length (t_ents dt))).
  { apply (so_rows _ _ (wr_store _ _ (r2_ok _ _ _ K')) tid t' (length (t_ents dt)) e2 Ht').
    rewrite He'. rewrite lookup_app_r by lia. by rewrite Nat.sub_diag. }
  rewrite (table_mask_rel_views w2 tid _ e2 mask rel Hloc Hm Hr) in Htm. injection Htm as <- <-.
  exists mask, rel. split; [done|]. split; [done|].
  unfold ev_create. rewrite (fr_listener _ _ F), Hlis.
  assert (Hul2 : is_locked w2 = false) by (unfold is_locked; by rewrite (fr_locks _ _ F)).
  rewrite Hul2.
  set (bits := subscription true false (negb (bool_decide (ids = []))) false (bool_decide (is_Some rel)) (bool_decide (is_Some rel))).
  rewrite recipients_all by apply subscription_lt.
  assert (Hnz : (bits =? 0)%N = false) by (unfold bits; by destruct (negb _), (bool_decide _)).
  by rewrite Hnz.
Qed.

(** ** Relations.Set *)
Theorem target_event_exact w live e rid target w' evs :
  world_okr w live -> e ∈ live -> w_listener w = Some lall ->
  op_set_relation w e rid target = (w', Ok VUnit, evs) ->
  exists ot, ent_target w e = Some ot /\ ent_target w' e = Some target /\
    evs = if ent_eqb ot target then [] else [mkEv e 0 0 [] [] (Some rid) (Some rid) ot 32 false 0].
Proof.
  intros K Hlive Hlis H.
  destruct (set_relation_rok w live e rid target w' evs K Hlive H) as (_ & _ & _ & _ & _ & _ & _ & _ & Ht' & _).
  pose proof (frame_op_set_relation w e rid target) as F. rewrite H in F. simpl in F.
  unfold op_set_relation in H. destruct (is_locked w) eqn:Hul; [done|].
  destruct (chk_alive w e) as [[]|] eqn:Hal; try done. destruct (negb (target_ok w target)); [done|].
  destruct K as [S G].
  destruct (so_loc _ _ S e Hlive) as (src & row & st & Hloc & Hst & Hrow).
  destruct (so_table _ _ S src st Hst) as (sn & Hsn & Hsok).
  unfold ent_table in H. rewrite Hal, Hloc, Hst, Hsn in H.
  destruct (negb (check_relation w src rid)); [done|].
  destruct (views_of_row w live e src row st sn S Hlive Hloc Hst Hsn) as (_ & _ & V3).
  exists (t_target st). split; [done|]. split; [done|].
  destruct (ent_eqb (t_target st) target) eqn:Heq; [by injection H as _ <-|].
  destruct (match node_get_table sn target with Some tid => (w, tid) | None => _ end) as [w1 dst].
  injection H as Hw' <-. unfold ev_target. rewrite Hw'. rewrite (fr_listener _ _ F), Hlis.
  assert (Hul2 : is_locked w' = false) by (unfold is_locked; by rewrite (fr_locks _ _ F)).
  rewrite Hul2. by rewrite recipients_all.
Qed.

(** ** RemoveEntity: the event is delivered BEFORE the removal, with the world locked *)
Theorem remove_event_exact w live e :
  world_okr w live -> e ∈ live -> chk_alive w e = Some true -> is_locked w = false -> w_listener w = Some lall ->
  exists m r tg, ent_mask w e = Some m /\ ent_rel w e = Some r /\ ent_target w e = Some tg /\
    snd (op_remove_entity w e) =
      [mkEv e 0 m [] (mask_ids (w_tb w) m) r None tg
            (subscription false true false (negb (bool_decide (mask_ids (w_tb w) m = []))) (bool_decide (is_Some r)) (bool_decide (is_Some r))) true 0].
Proof.
  intros [S G] Hlive Hal Hul Hlis. unfold op_remove_entity. rewrite Hul.
  destruct (so_loc _ _ S e Hlive) as (src & row & st & Hloc & Hst & Hrow).
  destruct (so_table _ _ S src st Hst) as (sn & Hsn & Hsok).
  unfold ent_table. rewrite Hal, Hloc, Hst, Hsn.
  destruct (views_of_row w live e src row st sn S Hlive Hloc Hst Hsn) as (V1 & V2 & V3).
  exists (n_mask sn), (n_rel sn), (t_target st). do 3 (split; [done|]).
  destruct (tbl_remove _ _ _) as [st1 sw]. simpl.
  unfold ev_remove. rewrite Hlis. rewrite (rg_ids _ G _ _ Hsn).
  set (bits := subscription false true false (negb (bool_decide (mask_ids (w_tb w) (n_mask sn) = []))) (node_has_rel sn) (node_has_rel sn)).
  rewrite recipients_all by apply subscription_lt.
  assert (Hnz : (bits =? 0)%N = false) by (unfold bits; by destruct (negb _), (node_has_rel sn)).
  rewrite Hnz. done.
Qed.
