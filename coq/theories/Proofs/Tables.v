(** * Table primitives (ecs/archetype.go): Alloc, Remove, Reset on one table. *)
From Arche Require Import Model.Base Model.World.

Lemma tbl_remove_zeroes zr t row :
  row < tlen t -> tlen t <= length (t_rows t) ->
  t_rows (fst (tbl_remove zr t row)) !! (tlen t - 1) = Some zr.
Proof.
  intros Hrow Hcap. unfold tbl_remove. simpl. apply list_lookup_insert.
  destruct (row =? tlen t - 1); [lia|]. destruct (t_rows t !! (tlen t - 1)); [rewrite insert_length|]; lia.
Qed.

Lemma tbl_reset_zeroes zr t i :
  0 < tlen t -> i < length (t_rows t) -> t_rows (tbl_reset zr t) !! i = Some zr.
Proof.
  intros Hlen Hi. unfold tbl_reset. rewrite (proj2 (Nat.eqb_neq _ _)) by lia. simpl.
  by apply lookup_replicate_2.
Qed.
