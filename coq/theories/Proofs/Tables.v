(** * Table primitives (ecs/archetype.go): Alloc, Remove, Reset on one table. *)
From Arche Require Import Model.Base Model.World.

Lemma tbl_remove_zeroes zr t row :
  row < tlen t -> tlen t <= length (t_rows t) ->
  t_rows (fst (tbl_remove zr t row)) !! (tlen t - 1) = Some zr.
Proof.
  intros Hrow Hcap. unfold tbl_remove. simpl. apply list_lookup_insert.
  destruct (row =? tlen t - 1); [lia|]. destruct (t_rows t !! (tlen t - 1)); [rewrite insert_length|]; lia.
Qed.

Lemma tbl_reset_zeroes zr t i :
  0 < tlen t -> i < length (t_rows t) -> t_rows (tbl_reset zr t) !! i = Some zr.
Proof.
  intros Hlen Hi. unfold tbl_reset. rewrite (proj2 (Nat.eqb_neq _ _)) by lia. simpl.
  by apply lookup_replicate_2.
Qed.

(** ** swap_remove *)
Lemma swap_remove_length {A} (l : list A) i : i < length l -> length (swap_remove i l) = length l - 1.
Proof.
  intros Hi. unfold swap_remove. destruct (i =? length l - 1) eqn:He.
  - rewrite take_length. lia.
  - destruct (l !! (length l - 1)) eqn:Hl.
    + rewrite take_length, insert_length. lia.
    + apply lookup_ge_None in Hl. lia.
Qed.

Lemma swap_remove_lookup {A} (l : list A) i j :
  i < length l -> j < length l - 1 ->
  swap_remove i l !! j = if decide (j = i) then l !! (length l - 1) else l !! j.
Proof.
  intros Hi Hj. unfold swap_remove. destruct (i =? length l - 1) eqn:He.
  - apply Nat.eqb_eq in He. rewrite lookup_take by lia. destruct (decide (j = i)); [lia|done].
  - apply Nat.eqb_neq in He. destruct (l !! (length l - 1)) as [x|] eqn:Hl.
    + rewrite lookup_take by lia. destruct (decide (j = i)) as [->|Hne].
      * by rewrite list_lookup_insert by lia.
      * by rewrite list_lookup_insert_ne by done.
    + apply lookup_ge_None in Hl. lia.
Qed.

Lemma swap_remove_lookup_ge {A} (l : list A) i j :
  i < length l -> length l - 1 <= j -> swap_remove i l !! j = None.
Proof. intros Hi Hj. apply lookup_ge_None. rewrite swap_remove_length by done. lia. Qed.

Lemma swap_remove_elem {A} (l : list A) i x :
  i < length l -> x ∈ swap_remove i l -> x ∈ l.
Proof.
  intros Hi Hx. apply elem_of_list_lookup in Hx as [j Hj].
  assert (j < length l - 1).
  { apply lookup_lt_Some in Hj. rewrite swap_remove_length in Hj by done. done. }
  rewrite swap_remove_lookup in Hj by done. destruct (decide (j = i)); by eapply elem_of_list_lookup_2.
Qed.

(** ** Table invariant: capacity covers the live rows, every row has one cell per
    column, the tail beyond the live rows is all zero. *)
Record table_ok (zr : list Z) (t : table) : Prop := {
  tok_cap : tlen t <= length (t_rows t);
  tok_width : forall i r, t_rows t !! i = Some r -> length r = length zr;
  tok_tail : forall i, tlen t <= i -> i < length (t_rows t) -> t_rows t !! i = Some zr;
}.

Lemma capacity_ge size inc : 0 < inc -> size <= capacity size inc.
Proof.
  intros Hinc. unfold capacity. pose proof (Nat.div_mod size inc ltac:(lia)).
  destruct (_ mod _ =? 0) eqn:Hm; [apply Nat.eqb_eq in Hm; lia|].
  pose proof (Nat.mod_upper_bound size inc ltac:(lia)). lia.
Qed.

Lemma tbl_extend_fields capinc zr t n :
  t_ents (tbl_extend capinc zr t n) = t_ents t /\ t_node (tbl_extend capinc zr t n) = t_node t /\ t_target (tbl_extend capinc zr t n) = t_target t /\ t_active (tbl_extend capinc zr t n) = t_active t /\ t_layouts (tbl_extend capinc zr t n) = t_layouts t.
Proof. unfold tbl_extend. by destruct (_ <=? _). Qed.

Lemma tbl_extend_rows capinc zr t n :
  exists k, t_rows (tbl_extend capinc zr t n) = t_rows t ++ replicate k zr /\           (0 < capinc -> tlen t + n <= length (t_rows t) + k).
Proof.
  unfold tbl_extend. destruct (tlen t + n <=? length (t_rows t)) eqn:Hle.
  - apply Nat.leb_le in Hle. exists 0. simpl. rewrite app_nil_r. split; [done|lia].
  - apply Nat.leb_gt in Hle. eexists. split; [reflexivity|]. intros Hinc.
    pose proof (capacity_ge (tlen t + n) capinc Hinc). lia.
Qed.

Lemma table_ok_app zr t k rows' :
  table_ok zr t -> rows' = t_rows t ++ replicate k zr ->
  table_ok zr (t <| t_rows := rows' |>).
Proof.
  intros [Hc Hw Ht] ->. split; unfold tlen in *; simpl.
  - rewrite app_length. lia.
  - intros i r Hi. apply lookup_app_Some in Hi as [Hi|[_ Hi]]; [by eapply Hw|].
    apply lookup_replicate in Hi as [-> _]. done.
  - intros i Hi1 Hi2. rewrite app_length, replicate_length in Hi2.
    destruct (decide (i < length (t_rows t))).
    + rewrite lookup_app_l by done. by apply Ht.
    + rewrite lookup_app_r by lia. apply lookup_replicate_2. lia.
Qed.

Lemma tbl_extend_ok capinc zr t n : table_ok zr t -> table_ok zr (tbl_extend capinc zr t n).
Proof.
  intros Hok. destruct (tbl_extend_rows capinc zr t n) as (k & Hr & _).
  destruct (tbl_extend_fields capinc zr t n) as (He & _).
  destruct Hok as [Hc Hw Ht]. split; unfold tlen in *; rewrite ?He, ?Hr.
  - rewrite app_length. lia.
  - intros i r Hi. apply lookup_app_Some in Hi as [Hi|[_ Hi]]; [by eapply Hw|].
    apply lookup_replicate in Hi as [-> _]. done.
  - intros i Hi1 Hi2. rewrite app_length, replicate_length in Hi2.
    destruct (decide (i < length (t_rows t))).
    + rewrite lookup_app_l by done. by apply Ht.
    + rewrite lookup_app_r by lia. apply lookup_replicate_2. lia.
Qed.

(** Alloc: the entity is appended; the row it gets is the first tail row, i.e. zero. *)
Lemma tbl_alloc_spec capinc zr t e :
  0 < capinc -> table_ok zr t ->
  let '(t', row) := tbl_alloc capinc zr t e in
  row = tlen t /\ t_ents t' = t_ents t ++ [e] /\ table_ok zr t' /\ (exists k, t_rows t' = t_rows t ++ replicate k zr) /\ t_rows t' !! row = Some zr /\ t_node t' = t_node t /\ t_target t' = t_target t /\ t_active t' = t_active t /\ t_layouts t' = t_layouts t.
Proof.
  intros Hinc Hok. unfold tbl_alloc.
  destruct (tbl_extend_rows capinc zr t 1) as (k & Hr & Hk).
  destruct (tbl_extend_fields capinc zr t 1) as (He & Hn & Htg & Ha & Hl).
  pose proof (tbl_extend_ok capinc zr t 1 Hok) as Hok1.
  set (t1 := tbl_extend capinc zr t 1) in *. specialize (Hk Hinc).
  split; [done|]. split; [by rewrite He|]. split.
  - destruct Hok1 as [Hc Hw Ht]. split; unfold tlen in *; simpl.
    + rewrite app_length, He, Hr, app_length, replicate_length. simpl. lia.
    + done.
    + intros i Hi1 Hi2. apply Ht; [|done]. rewrite app_length in Hi1. lia.
  - split; [by exists k|]. split; [|done]. simpl.
    destruct Hok1 as [Hc Hw Ht]. apply Ht; unfold tlen in *; [by rewrite He|].
    rewrite Hr, app_length, replicate_length. lia.
Qed.

(** Remove (swap-remove): row [row] receives the last row, the last row is zeroed. *)
Lemma tbl_remove_spec zr t row :
  table_ok zr t -> row < tlen t ->
  let '(t', swapped) := tbl_remove zr t row in
  swapped = negb (row =? tlen t - 1) /\ t_ents t' = swap_remove row (t_ents t) /\ tlen t' = tlen t - 1 /\ table_ok zr t' /\ length (t_rows t') = length (t_rows t) /\ (forall i, i < tlen t - 1 -> t_rows t' !! i = if decide (i = row) then t_rows t !! (tlen t - 1) else t_rows t !! i) /\ t_node t' = t_node t /\ t_target t' = t_target t /\ t_active t' = t_active t /\ t_layouts t' = t_layouts t.
Proof.
  intros [Hc Hw Ht] Hrow. unfold tbl_remove. simpl.
  set (last := tlen t - 1).
  set (rows1 := if row =? last then t_rows t else match t_rows t !! last with Some r => <[row:=r]> (t_rows t) | None => t_rows t end).
  assert (Hlen1 : length rows1 = length (t_rows t)).
  { unfold rows1. destruct (row =? last); [done|]. destruct (t_rows t !! last); [by rewrite insert_length|done]. }
  assert (Hlast : last < length (t_rows t)) by (unfold last; lia).
  assert (Hr1 : forall i, i < last -> rows1 !! i = if decide (i = row) then t_rows t !! last else t_rows t !! i).
  { intros i Hi. unfold rows1. destruct (row =? last) eqn:He.
    - apply Nat.eqb_eq in He. destruct (decide (i = row)); [lia|done].
    - destruct (t_rows t !! last) as [r|] eqn:Hl; [|apply lookup_ge_None in Hl; lia].
      destruct (decide (i = row)) as [->|Hne]; [rewrite list_lookup_insert; [done|lia]|by rewrite list_lookup_insert_ne]. }
  split; [done|]. split; [done|]. split; [unfold tlen; simpl; by rewrite swap_remove_length|].
  split; [|split; [by rewrite insert_length|split; [|done]]].
  - split; unfold tlen; simpl.
    + rewrite swap_remove_length, insert_length, Hlen1 by done. unfold tlen in *. lia.
    + intros i r Hi. destruct (decide (i = last)) as [->|Hne].
      * rewrite list_lookup_insert in Hi by lia. by injection Hi as <-.
      * rewrite list_lookup_insert_ne in Hi by done. unfold rows1 in Hi.
        destruct (row =? last); [by eapply Hw|]. destruct (t_rows t !! last) as [rl|] eqn:Hl; [|by eapply Hw].
        destruct (decide (i = row)) as [->|Hne2].
        -- rewrite list_lookup_insert in Hi by lia. injection Hi as <-. by eapply Hw.
        -- rewrite list_lookup_insert_ne in Hi by done. by eapply Hw.
    + intros i Hi1 Hi2. rewrite swap_remove_length in Hi1 by done. rewrite insert_length, Hlen1 in Hi2.
      destruct (decide (i = last)) as [->|Hne]; [rewrite list_lookup_insert; [done|lia]|].
      rewrite list_lookup_insert_ne by done.
      assert (tlen t <= i) by (unfold last, tlen in *; lia).
      unfold rows1. destruct (row =? last); [by apply Ht|]. destruct (t_rows t !! last); [|by apply Ht].
      rewrite list_lookup_insert_ne by (unfold tlen in *; lia). by apply Ht.
  - intros i Hi. rewrite list_lookup_insert_ne by (unfold last in *; lia). by apply Hr1.
Qed.

Lemma tbl_reset_ok zr t : table_ok zr t -> table_ok zr (tbl_reset zr t) /\ t_ents (tbl_reset zr t) = [] /\ t_node (tbl_reset zr t) = t_node t /\ t_target (tbl_reset zr t) = t_target t /\ t_active (tbl_reset zr t) = t_active t.
Proof.
  intros [Hc Hw Ht]. unfold tbl_reset. destruct (tlen t =? 0) eqn:He.
  - apply Nat.eqb_eq in He. split; [done|]. split; [|done]. unfold tlen in He. by destruct (t_ents t).
  - split; [|done]. split; unfold tlen; simpl.
    + lia.
    + intros i r Hi. apply lookup_replicate in Hi as [-> _]. done.
    + intros i _ Hi. rewrite replicate_length in Hi. by apply lookup_replicate_2.
Qed.
