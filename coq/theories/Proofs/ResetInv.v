(** * C15: World.Reset.

    From any world that satisfies the graph invariant, whose tables are well-formed and
    whose filter cache is consistent - with any number of alive entities, relation
    tables, retired tables, registered filters - [world_reset] produces a world that
    refines the EMPTY abstract store with the same component registry: no entity alive,
    a fresh entity pool, all tables empty, the graph and cache invariants intact.  By
    [RelRefine.rel_history] every history continued after a Reset therefore behaves like
    the same history on a new world with the same registrations. *)
From Arche Require Import Model.Base Model.Pool Model.Filter Model.World Model.Ops
  Proofs.PoolInv Proofs.Tables Proofs.Bits Proofs.Store Proofs.Graph Proofs.WorldInv Proofs.Cursor
  Proofs.RelGraph Proofs.RelWorld Proofs.RelRefine Proofs.QueryExact Proofs.CacheInv.

Record rwi (w : world) : Prop := {
  ri_graph : rgraph_ok w;
  ri_tabs : forall tid t, w_tables w !! tid = Some t ->
      exists nd, w_nodes w !! t_node t = Some nd /\ table_ok (zero_row nd) t;
  ri_cache : cache_ok w;
}.

Definition keeps (w w' : world) : Prop :=
  nodes_same w w' /\ side_same w w' /\ w_listener w' = w_listener w.
Lemma keeps_refl w : keeps w w.
Proof. split; [apply nodes_same_refl|]. split; [apply side_same_refl|done]. Qed.
Lemma keeps_trans a b c : keeps a b -> keeps b c -> keeps a c.
Proof.
  intros (A1 & A2 & A3) (B1 & B2 & B3). split; [by eapply nodes_same_trans|]. split; [by eapply side_same_trans|congruence].
Qed.

(** The node whose tables are being reset keeps its layout and relation. *)
Definition Jn (k : nat) (ids : list nat) (rel : option nat) (w : world) : Prop :=
  exists nd, w_nodes w !! k = Some nd /\ n_ids nd = ids /\ n_rel nd = rel.
Lemma Jn_keeps k ids rel w w' : Jn k ids rel w -> keeps w w' -> Jn k ids rel w'.
Proof.
  intros (nd & Hnd & Hi & Hr) (HN & _). destruct (HN k nd Hnd) as (nd' & Hnd' & _ & Hi' & Hr'). exists nd'. split; [done|]. split; congruence.
Qed.

(** What one step of the per-node loop does to the table it is applied to. *)
Definition step_spec (k : nat) (ids : list nat) (rel : option nat) (h : world -> nat -> world) : Prop :=
  forall w tid t, rwi w -> Jn k ids rel w -> w_tables w !! tid = Some t -> t_node t = k ->
    rwi (h w tid) /\ keeps w (h w tid) /\
    (forall tid0, tid0 <> tid -> w_tables (h w tid) !! tid0 = w_tables w !! tid0) /\
    exists t', w_tables (h w tid) !! tid = Some t' /\ t_ents t' = [] /\ t_node t' = t_node t.

Lemma fold_step_spec k ids rel h l : step_spec k ids rel h -> forall w,
  rwi w -> Jn k ids rel w -> (forall tid, tid ∈ l -> exists t, w_tables w !! tid = Some t /\ t_node t = k) ->
  rwi (foldl h w l) /\ keeps w (foldl h w l) /\
  (forall tid0, tid0 ∉ l -> w_tables (foldl h w l) !! tid0 = w_tables w !! tid0) /\
  (forall tid, tid ∈ l -> exists t t', w_tables w !! tid = Some t /\ w_tables (foldl h w l) !! tid = Some t' /\
      t_ents t' = [] /\ t_node t' = t_node t) /\
  (forall tid t, w_tables w !! tid = Some t -> exists t', w_tables (foldl h w l) !! tid = Some t' /\ t_node t' = t_node t /\
      (t_ents t = [] -> t_ents t' = [])).
Proof.
  intros Hh. induction l as [|tid l IH]; intros w I HJ Hex; simpl.
  - split; [done|]. split; [apply keeps_refl|]. split; [done|]. split; [intros ? Hx; by apply elem_of_nil in Hx|].
    intros tid t Ht. by exists t.
  - destruct (Hex tid) as (t & Ht & Hk); [apply elem_of_list_here|].
    destruct (Hh w tid t I HJ Ht Hk) as (I1 & K1 & Hoth1 & t1 & Ht1 & He1 & Hn1).
    assert (Hex1 : forall tid0, tid0 ∈ l -> exists t0, w_tables (h w tid) !! tid0 = Some t0 /\ t_node t0 = k).
    { intros tid0 Hin. destruct (decide (tid0 = tid)) as [->|Hne]; [exists t1; split; [done|congruence]|]. rewrite Hoth1 by done. apply Hex. by apply elem_of_list_further. }
    destruct (IH (h w tid) I1 (Jn_keeps _ _ _ _ _ HJ K1) Hex1) as (I2 & K2 & Hoth2 & Hin2 & Hall2).
    split; [done|]. split; [by eapply keeps_trans|]. split; [|split].
    + intros tid0 Hnin. rewrite Hoth2 by (intros Hx; apply Hnin; by apply elem_of_list_further).
      apply Hoth1. intros ->. apply Hnin. apply elem_of_list_here.
    + intros tid0 Hin. apply elem_of_cons in Hin as [->|Hin].
      * destruct (Hall2 tid t1 Ht1) as (t2 & Ht2 & Hn2 & He2). exists t, t2. split; [done|]. split; [done|]. split; [by apply He2|congruence].
      * destruct (Hin2 tid0 Hin) as (ta & tb & Hta & Htb & Heb & Hnb).
        destruct (decide (tid0 = tid)) as [->|Hne].
        -- rewrite Ht1 in Hta. injection Hta as <-. exists t, tb. split; [done|]. split; [done|]. split; [done|congruence].
        -- rewrite Hoth1 in Hta by done. exists ta, tb. done.
    + intros tid0 t0 Ht0. destruct (decide (tid0 = tid)) as [->|Hne].
      * rewrite Ht in Ht0. injection Ht0 as <-. destruct (Hall2 tid t1 Ht1) as (t2 & Ht2 & Hn2 & He2).
        exists t2. split; [done|]. split; [congruence|]. intros _. by apply He2.
      * rewrite <- (Hoth1 tid0 Hne) in Ht0. destruct (Hall2 tid0 t0 Ht0) as (t2 & Ht2 & Hn2 & He2). by exists t2.
Qed.

(** ** The two kinds of steps *)
Lemma rwi_upd_reset w tid t nd0 :
  rwi w -> w_tables w !! tid = Some t -> w_nodes w !! t_node t = Some nd0 ->
  (t_active t = false -> t_ents t = []) ->
  let w' := upd_table w tid (tbl_reset (zero_row nd0) t) in
  rwi w' /\ keeps w w' /\ (forall tid0, tid0 <> tid -> w_tables w' !! tid0 = w_tables w !! tid0) /\
  exists t', w_tables w' !! tid = Some t' /\ t_ents t' = [] /\ t_node t' = t_node t.
Proof.
  intros [G T C] Ht Hnd Hina w'.
  destruct (T tid t Ht) as (nd & Hnd' & Hok). rewrite Hnd in Hnd'. injection Hnd' as <-.
  destruct (tbl_reset_ok (zero_row nd0) t Hok) as (Hok' & He' & Hn' & Htg' & Ha').
  set (t' := tbl_reset (zero_row nd0) t) in *.
  assert (Htl : forall j, w_tables w' !! j = if decide (j = tid) then Some t' else w_tables w !! j).
  { intros j. change (w_tables w') with (<[tid := t']> (w_tables w)). eapply lookup_insert_cases. exact Ht. }
  assert (HT : tabs_sim w w').
  { intros j. rewrite Htl. destruct (decide (j = tid)) as [->|]; [by rewrite Ht|by destruct (w_tables w !! j)]. }
  assert (G' : rgraph_ok w').
  { eapply (rgraph_ok_same_nodes w w'); try done.
    - intros j t0 Ht0. rewrite Htl. destruct (decide (j = tid)) as [->|]; [|by exists t0].
      rewrite Ht in Ht0. injection Ht0 as <-. exists t'. done.
    - intros j t0 Ht0. rewrite Htl in Ht0. destruct (decide (j = tid)) as [->|]; by eexists. }
  split; [split|].
  - done.
  - intros j t0 Ht0. rewrite Htl in Ht0. destruct (decide (j = tid)) as [->|]; [|by apply (T j)].
    injection Ht0 as <-. exists nd0. rewrite Hn'. done.
  - apply (cache_ok_sim w); try done. by apply nodes_same_eq.
  - split; [split; [by apply nodes_same_eq|]; split; [|done]; repeat split; try done; unfold w', upd_table; simpl; by rewrite insert_length|].
    split; [intros j Hne; rewrite Htl; by destruct (decide (j = tid))|].
    exists t'. rewrite Htl. by destruct (decide (tid = tid)).
Qed.

Lemma rwi_retire w tid t nd r :
  rwi w -> w_tables w !! tid = Some t -> w_nodes w !! t_node t = Some nd -> n_rel nd = Some r -> t_active t = true ->
  let w' := retire_table w tid in
  rwi w' /\ keeps w w' /\ (forall tid0, tid0 <> tid -> w_tables w' !! tid0 = w_tables w !! tid0) /\
  exists t', w_tables w' !! tid = Some t' /\ t_ents t' = [] /\ t_node t' = t_node t.
Proof.
  intros [G T C] Ht Hnd Hrel Hact w'.
  pose proof (retire_table_rok_gen w tid t nd r G Ht Hnd Hrel Hact) as G'.
  pose proof (cache_ok_retire_gen w tid t nd r G C Ht Hnd Hrel Hact) as C'.
  destruct (T tid t Ht) as (nd0 & Hnd0 & Hok). rewrite Hnd in Hnd0. injection Hnd0 as <-.
  destruct (tbl_reset_ok (zero_row nd) t Hok) as (Hok' & He' & Hn' & Htg' & Ha').
  assert (Hshape : (forall tid0, tid0 <> tid -> w_tables w' !! tid0 = w_tables w !! tid0) /\
                   w_tables w' !! tid = Some ((tbl_reset (zero_row nd) t) <| t_active := false |>) /\
                   w_listener w' = w_listener w).
  { unfold w', retire_table. rewrite Ht, Hnd. simpl. split; [intros j Hne; by rewrite list_lookup_insert_ne|].
    split; [apply list_lookup_insert; by apply lookup_lt_Some in Ht|done]. }
  destruct Hshape as (Hoth & Htid & Hlis).
  split; [split|].
  - done.
  - intros j t0 Ht0. destruct (decide (j = tid)) as [->|Hne].
    + rewrite Htid in Ht0. injection Ht0 as <-. simpl.
      destruct (retire_table_nodes w tid _ nd Hnd) as (nd' & Hnd' & _ & Hids & _). exists nd'. rewrite Hn'. split; [done|].
      unfold zero_row in *. rewrite Hids. destruct Hok' as [A1 A2 A3]. split; done.
    + rewrite Hoth in Ht0 by done. destruct (T j t0 Ht0) as (n0 & Hn0 & Hok0).
      destruct (retire_table_nodes w tid _ n0 Hn0) as (n0' & Hn0' & _ & Hids & _). exists n0'. split; [done|].
      unfold zero_row in *. by rewrite Hids.
  - done.
  - split; [split; [apply retire_table_nodes|split; [apply retire_table_side|done]]|].
    split; [done|]. eexists. split; [exact Htid|]. simpl. done.
Qed.

(** ** One node *)
Lemma reset_node_spec w nid :
  rwi w ->
  rwi (reset_node w nid) /\ keeps w (reset_node w nid) /\
  (forall tid t, w_tables w !! tid = Some t -> exists t', w_tables (reset_node w nid) !! tid = Some t' /\ t_node t' = t_node t /\
      (t_ents t = [] -> t_ents t' = []) /\ (t_node t = nid -> t_ents t' = [])).
Proof.
  intros I. unfold reset_node. destruct (w_nodes w !! nid) as [nd|] eqn:Hnd.
  2:{ split; [done|]. split; [apply keeps_refl|]. intros tid t Ht. exists t. repeat split; try done.
      intros Hn. destruct (ri_tabs _ I tid t Ht) as (n0 & Hn0 & _). congruence. }
  pose proof (ri_graph _ I) as G.
  destruct (negb (n_active nd)) eqn:Hact.
  { split; [done|]. split; [apply keeps_refl|]. intros tid t Ht. exists t. repeat split; try done.
    intros Hn. exfalso. destruct (rg_table _ G tid t Ht) as (n0 & Hn0 & Hin & _). rewrite Hn, Hnd in Hn0. injection Hn0 as <-.
    rewrite (rg_active _ G nid nd tid Hnd Hin) in Hact. done. }
  assert (Hl : forall tid, tid ∈ n_tables nd -> exists t, w_tables w !! tid = Some t /\ t_node t = nid).
  { intros tid Hin. by apply (rg_ntables _ G nid nd). }
  assert (HJ : Jn nid (n_ids nd) (n_rel nd) w) by (by exists nd).
  assert (Hfin : forall h, step_spec nid (n_ids nd) (n_rel nd) h ->
    rwi (foldl h w (n_tables nd)) /\ keeps w (foldl h w (n_tables nd)) /\
    (forall tid t, w_tables w !! tid = Some t -> exists t', w_tables (foldl h w (n_tables nd)) !! tid = Some t' /\ t_node t' = t_node t /\
      (t_ents t = [] -> t_ents t' = []) /\ (t_node t = nid -> t_ents t' = []))).
  { intros h Hh. destruct (fold_step_spec nid _ _ h (n_tables nd) Hh w I HJ Hl) as (I' & K' & Hoth & Hin' & Hall).
    split; [done|]. split; [done|]. intros tid t Ht. destruct (Hall tid t Ht) as (t' & Ht' & Hn' & He'). exists t'.
    split; [done|]. split; [done|]. split; [done|]. intros Hn.
    destruct (rg_table _ G tid t Ht) as (n0 & Hn0 & Hin & _). rewrite Hn, Hnd in Hn0. injection Hn0 as <-.
    destruct (Hin' tid Hin) as (ta & tb & Hta & Htb & Heb & _). rewrite Ht' in Htb. by injection Htb as <-. }
  destruct (negb (node_has_rel nd)) eqn:Hrel.
  - apply negb_true_iff, node_has_rel_false in Hrel.
    apply Hfin. intros w0 tid t I0 (n0 & Hn0 & Hi0 & Hr0) Ht Hk. rewrite Ht. rewrite <- Hk in Hn0.
    assert (Hz : zero_row nd = zero_row n0) by (unfold zero_row; by rewrite Hi0).
    rewrite Hz. apply (rwi_upd_reset w0 tid t n0 I0 Ht Hn0).
    intros Ha. exfalso. destruct (rg_table _ (ri_graph _ I0) tid t Ht) as (n1 & Hn1 & _ & Hrest). rewrite Hn0 in Hn1. injection Hn1 as <-.
    rewrite Hr0, Hrel in Hrest. destruct Hrest as (_ & _ & Ha'). congruence.
  - apply negb_false_iff, node_has_rel_true in Hrel as [r Hrel].
    apply Hfin. intros w0 tid t I0 (n0 & Hn0 & Hi0 & Hr0) Ht Hk. rewrite Ht. rewrite <- Hk in Hn0.
    destruct (rg_table _ (ri_graph _ I0) tid t Ht) as (n1 & Hn1 & _ & Hrest). rewrite Hn0 in Hn1. injection Hn1 as <-.
    rewrite Hr0, Hrel in Hrest.
    destruct (t_active t) eqn:Ha; simpl.
    + destruct (negb (ent_is_zero (t_target t))).
      * apply (rwi_retire w0 tid t n0 r I0 Ht Hn0); [congruence|done].
      * assert (Hz : zero_row nd = zero_row n0) by (unfold zero_row; by rewrite Hi0).
        rewrite Hz. apply (rwi_upd_reset w0 tid t n0 I0 Ht Hn0). intros; congruence.
    + destruct Hrest as [_ He]. split; [done|]. split; [apply keeps_refl|]. split; [done|]. by exists t.
Qed.

(** ** All nodes *)
Lemma reset_nodes_spec l : forall w,
  rwi w ->
  rwi (foldl reset_node w l) /\ keeps w (foldl reset_node w l) /\
  (forall tid t, w_tables w !! tid = Some t -> exists t', w_tables (foldl reset_node w l) !! tid = Some t' /\ t_node t' = t_node t /\
      (t_ents t = [] -> t_ents t' = []) /\ (t_node t ∈ l -> t_ents t' = [])).
Proof.
  induction l as [|nid l IH]; intros w I; simpl.
  - split; [done|]. split; [apply keeps_refl|]. intros tid t Ht. exists t. repeat split; try done. intros Hx. by apply elem_of_nil in Hx.
  - destruct (reset_node_spec w nid I) as (I1 & K1 & H1). destruct (IH _ I1) as (I2 & K2 & H2).
    split; [done|]. split; [by eapply keeps_trans|]. intros tid t Ht.
    destruct (H1 tid t Ht) as (t1 & Ht1 & Hn1 & He1 & Hk1). destruct (H2 tid t1 Ht1) as (t2 & Ht2 & Hn2 & He2 & Hk2).
    exists t2. split; [done|]. split; [congruence|]. split; [by intros; apply He2, He1|].
    intros Hin. apply elem_of_cons in Hin as [Heq|Hin]; [by apply He2, Hk1|]. apply Hk2. by rewrite Hn1.
Qed.

Theorem reset_refines w :
  rwi w ->
  R (world_reset w) (mkAS [] [] [] (w_reg w)) /\ cache_ok (world_reset w) /\ rwi (world_reset w).
Proof.
  intros [G T C]. unfold world_reset.
  set (w1 := w <| w_index := [None] |> <| w_tbits := [false] |> <| w_pool := pool_init |>
               <| w_locks := locks_init (w_tb w) |> <| w_res := replicate (w_tb w) None |>).
  assert (I1 : rwi w1).
  { assert (G1 : rgraph_ok w1) by (eapply (rgraph_ok_same_nodes w w1); try done; intros tid t Ht; by exists t).
    split; [done|exact T|]. apply (cache_ok_sim w); try done; [by apply nodes_same_eq|by apply tabs_sim_eq]. }
  destruct (reset_nodes_spec (seq 0 (length (w_nodes w1))) w1 I1) as (I2 & (HN & (S1&S2&S3&S4&S5&S6&S7&S8&S9) & Hl2) & Hall).
  set (w2 := foldl reset_node w1 (seq 0 (length (w_nodes w1)))) in *.
  assert (Hempty : forall tid t, w_tables w2 !! tid = Some t -> t_ents t = []).
  { intros tid t Ht. assert (Hsome : is_Some (w_tables w1 !! tid)).
    { apply lookup_lt_is_Some. rewrite <- S9. by apply lookup_lt_Some in Ht. }
    destruct Hsome as [t1 Ht1]. destruct (Hall tid t1 Ht1) as (t2 & Ht2 & _ & _ & Hk). rewrite Ht in Ht2. injection Ht2 as <-.
    apply Hk. apply elem_of_seq. split; [lia|]. simpl. destruct (T tid t1 Ht1) as (nd & Hnd & _). by apply lookup_lt_Some in Hnd. }
  split; [|split; [apply I2|exact I2]]. split.
  - split; [split|exists []; rewrite S1; apply pool_init_inv|by rewrite S2, S1].
    + split.
      * constructor.
      * intros e He. by apply elem_of_nil in He.
      * intros tid t row e Ht Hr. rewrite (Hempty tid t Ht) in Hr. done.
      * apply I2.
    + apply I2.
  - by rewrite S4.
  - unfold is_locked. by rewrite S6.
  - intros e He. by apply elem_of_nil in He.
Qed.

(** Reset from any state reached by the core: what follows refines the histories of an
    empty store with the same registry. *)
Corollary reset_then_history w A ops :
  R w A -> cache_ok w ->
  let w0 := world_reset w in
  let A0 := mkAS [] [] [] (as_reg A) in
  pre_run2 w0 A0 ops ->
  R (run w0 ops) (snd (arun w0 A0 ops)) /\ cache_ok (run w0 ops).
Proof.
  intros HR C w0 A0 Hp.
  assert (I : rwi w).
  { pose proof HR as [[[S G] _ _] _ _ _]. split; [done| |done]. intros tid t Ht. by apply (so_table _ _ S tid). }
  destruct (reset_refines w I) as (HR0 & C0 & _).
  unfold A0 in *. rewrite (r_reg _ _ HR) in *. by apply cache_history.
Qed.

(** ** Histories with Reset *)
Definition op_pre3 (A : astate) (o : op) : Prop :=
  match o with
  | OReset => True
  | _ => op_pre2 A o
  end.

Theorem full_step w A o :
  R w A -> cache_ok w -> op_pre3 A o ->
  R (fst (fst (step w o))) (astep A o (snd (fst (step w o)))) /\ cache_ok (fst (fst (step w o))).
Proof.
  intros HR C Hpre. destruct o; try (by apply cache_step).
  simpl. rewrite (r_unlocked _ _ HR). simpl.
  assert (I : rwi w).
  { pose proof HR as [[[S G] _ _] _ _ _]. split; [done| |done]. intros tid t Ht. by apply (so_table _ _ S tid). }
  destruct (reset_refines w I) as (HR0 & C0 & _). rewrite (r_reg _ _ HR). done.
Qed.

Fixpoint pre_run3 (w : world) (A : astate) (ops : list op) : Prop :=
  match ops with
  | [] => True
  | o :: r => op_pre3 A o /\ pre_run3 (fst (fst (step w o))) (astep A o (snd (fst (step w o)))) r
  end.

Theorem full_history ops : forall w A,
  R w A -> cache_ok w -> pre_run3 w A ops ->
  R (run w ops) (snd (arun w A ops)) /\ cache_ok (run w ops).
Proof.
  induction ops as [|o r IH]; intros w A HR C Hp; simpl; [done|].
  destruct Hp as [Hpre Hp]. destruct (full_step w A o HR C Hpre) as [HR' C']. by apply IH.
Qed.

(** Non-vacuity: entities with relations, a registered filter, Reset, and creation afterwards
    (the first handle issued after Reset is the first handle of a new world). *)
Definition demo_reset_ops : list op :=
  [ORegister 10 false false; ORegister 11 true false; ONew [0]; OCacheRegister (FAll 2);
   OBNew (mkB [1] None (Some 1)) (Some demo_e1); OBNew (mkB [0; 1] None (Some 1)) (Some demo_e1);
   OReset; ONew [0]; OBNew (mkB [1] None (Some 1)) (Some demo_e1)].
Example demo_reset_pre : pre_run3 (world_init 4 4 64) a_init demo_reset_ops.
Proof.
  vm_compute. repeat split; try (repeat (apply List.Forall_cons; [simpl; lia|]); apply List.Forall_nil); try reflexivity;
  repeat (first [apply elem_of_list_here | apply elem_of_list_further]).
Qed.
Example demo_reset_result :
  snd (arun (world_init 4 4 64) a_init demo_reset_ops) =
  mkAS [(mkE 2 0, mkA 2 demo_e1 []); (demo_e1, mkA 1 ezero [])] [mkE 2 0; demo_e1] [mkE 2 0; demo_e1]
       [mkCI 10 false false; mkCI 11 true false].
Proof. vm_compute. reflexivity. Qed.
