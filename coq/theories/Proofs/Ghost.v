(** * C10: what a failed call leaves behind.

    A panicking operation emits no event and returns [ghost_of w o]: the world it was given,
    except that the creation and exchange operations, which call [findOrCreateArchetype]
    before their last argument check (or panic inside it), keep the graph nodes - and
    possibly one empty table - created on the way.  [panic_observables]: on every world that
    refines an abstract store, the world after the failed call refines THE SAME abstract
    store (same alive entities, masks, targets, component values, registry), the registered
    filters still list exactly what they select, the entity pool and index (all handles), the
    locks, open queries, resources, listener and configuration are equal, every non-empty
    table is the very same table, and new tables are empty: every observable is as before,
    and the world is fully usable (all invariants hold). *)
From Arche Require Import Model.Base Model.Pool Model.Filter Model.World Model.Ops
  Proofs.Tables Proofs.Bits Proofs.Store Proofs.Graph Proofs.Frame Proofs.Atomic Proofs.GhostBase
  Proofs.RelGraph Proofs.GhostGraph Proofs.RelWorld Proofs.RelRefine Proofs.QueryExact Proofs.CacheInv.

Theorem panic_observables w A o w' evs :
  R w A -> cache_ok w -> ids_reg A (ghost_ids o) ->
  step w o = (w', Panic, evs) ->
  evs = [] /\ R w' A /\ cache_ok w' /\
  w_pool w' = w_pool w /\ w_index w' = w_index w /\ w_tbits w' = w_tbits w /\ frame w w' /\
  (forall tid t, w_tables w !! tid = Some t -> t_ents t <> [] -> w_tables w' !! tid = Some t) /\
  (forall tid t, w_tables w' !! tid = Some t -> w_tables w !! tid = None -> t_ents t = []) /\
  (ghost_op o = false -> w' = w).
Proof.
  intros HR C Hids H. destruct (panic_atomic w o w' evs H) as [-> ->].
  pose proof HR as [[[S G] _ _] Hr _ _]. pose proof Hids as Hids'. unfold ids_reg in Hids'. rewrite Hr in Hids'.
  destruct (ghost_of_rok w o G Hids') as [E G1].
  split; [done|]. split; [by apply ghost_R|]. split; [by apply ghost_cache_ok|].
  split; [apply E|]. split; [apply E|]. split; [apply E|]. split; [apply frame_ghost_of|].
  split.
  { intros tid t Ht Hne. destruct (xr_tables _ _ E tid t Ht) as (t' & Ht' & _ & _ & _ & _ & Q). by rewrite (Q Hne) in Ht'. }
  split.
  { intros tid t Ht Hnone. by destruct (xr_new_tables _ _ E tid t Ht Hnone) as [? _]. }
  apply ghost_of_other.
Qed.

(** Non-vacuity, and the reason the model follows the code here: NewEntity with a duplicate
    ID panics after the node for the first ID has been created; a later batch removal visits
    that node's table before a table created in between. *)
Example ghost_demo :
  let w := run (world_init 2 2 64) [ORegister 10 false false; ORegister 11 false false] in
  snd (fst (step w (ONew [0; 0]))) = Panic /\
  length (w_nodes (fst (fst (step w (ONew [0; 0]))))) = S (length (w_nodes w)) /\
  w_tables (fst (fst (step w (ONew [0; 0])))) = w_tables w /\
  w_pool (fst (fst (step w (ONew [0; 0])))) = w_pool w.
Proof. vm_compute. done. Qed.
