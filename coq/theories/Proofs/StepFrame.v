(** * Which parts of the world each public operation can touch. *)
From Arche Require Import Model.Base Model.Pool Model.Filter Model.World Model.Ops Proofs.Frame Proofs.Atomic Proofs.GhostBase.

(** Registry, resources, listener and configuration: everything except locks, queries
    and the filter-id counter. *)
Record frame_rr (w w' : world) : Prop := {
  rr_res : w_res w' = w_res w;
  rr_resreg : w_resreg w' = w_resreg w;
  rr_reg : w_reg w' = w_reg w;
  rr_listener : w_listener w' = w_listener w;
  rr_capinc : w_capinc w' = w_capinc w;
  rr_relcapinc : w_relcapinc w' = w_relcapinc w;
  rr_tb : w_tb w' = w_tb w;
}.
Lemma frame_rr_of w w' : frame w w' -> frame_rr w w'.
Proof. intros []. by split. Qed.
Lemma frame_rr_refl w : frame_rr w w.
Proof. by split. Qed.
Lemma frame_rr_trans a b c : frame_rr a b -> frame_rr b c -> frame_rr a c.
Proof. intros [] []. split; congruence. Qed.

Notation res_world r := (fst (fst r)).

Lemma frame_op_new w ids cs : frame w (res_world (op_new w ids cs)).
Proof.
  unfold op_new. destruct (is_locked w); [apply frame_refl|].
  assert (H : forall o, o = (match ids with [] => Some (w, 0) | _ => find_or_create_table w 0 ids [] ezero end) ->
    frame w (res_world match o with
      | None => panic w
      | Some (w1, tid) => let '(w2, e) := create_entity w1 tid in let w3 := set_comps w2 e cs in
                          let '(m, r) := table_mask_rel w3 tid in ok w3 (VEnt e) (ev_create w3 e m ids r)
      end)).
  { intros o Ho. destruct o as [[w1 tid]|]; [|apply frame_refl].
    assert (F1 : frame w w1).
    { destruct ids; [injection Ho as <- _; apply frame_refl|symmetry in Ho; by eapply frame_find_or_create_table]. }
    pose proof (frame_create_entity w1 tid) as F2. destruct (create_entity w1 tid) as [w2 e]. simpl in F2.
    pose proof (frame_set_comps cs w2 e) as F3. simpl. destruct (table_mask_rel _ _). simpl.
    eapply frame_trans; [eapply frame_trans|]; eassumption. }
  by apply H.
Qed.

Lemma frame_op_new_target w rid target ids cs : frame w (res_world (op_new_target w rid target ids cs)).
Proof.
  unfold op_new_target. destruct (is_locked w); [apply frame_refl|]. destruct (negb _); [apply frame_refl|].
  assert (H : forall o, o = (match ids with [] => Some (w, 0) | _ => find_or_create_table w 0 ids [] target end) ->
    frame w (res_world match o with
      | None => panic w
      | Some (w1, tid) =>
          if negb (check_relation w1 tid rid) then panic w else
          let '(w2, e) := create_entity w1 tid in let w3 := set_comps (set_tbit w2 target) e cs in
          let '(m, _) := table_mask_rel w3 tid in ok w3 (VEnt e) (ev_create w3 e m ids (Some rid))
      end)).
  { intros o Ho. destruct o as [[w1 tid]|]; [|apply frame_refl].
    assert (F1 : frame w w1).
    { destruct ids; [injection Ho as <- _; apply frame_refl|symmetry in Ho; by eapply frame_find_or_create_table]. }
    destruct (negb _); [apply frame_refl|].
    pose proof (frame_create_entity w1 tid) as F2. destruct (create_entity w1 tid) as [w2 e]. simpl in F2.
    pose proof (frame_set_comps cs (set_tbit w2 target) e) as F3. simpl. destruct (table_mask_rel _ _). simpl.
    eapply frame_trans; [eapply frame_trans; [eassumption|]|eassumption].
    eapply frame_trans; [eassumption|apply frame_set_tbit]. }
  by apply H.
Qed.

Lemma frame_op_exchange w e add rem rel cs : frame w (res_world (op_exchange w e add rem rel cs)).
Proof.
  unfold op_exchange. destruct (exchange_nn w e add rem rel) as [[w1 [x|]]|] eqn:H; simpl; try apply frame_refl.
  - eapply frame_trans; [by eapply frame_exchange_nn|apply frame_set_comps].
  - by eapply frame_exchange_nn.
Qed.

Lemma frame_new_entities_nn w count b target w' tid start es :
  new_entities_nn w count b target = Some (w', tid, start, es) -> frame w w'.
Proof.
  unfold new_entities_nn. intros H.
  assert (Hm : (if is_locked w then None else
      if (count <? 1)%Z then None else
      let tg := default ezero target in
      if negb (target_ok w tg) then None else
      match (match b_ids b with [] => Some (w, 0) | _ => find_or_create_table w 0 (b_ids b) [] tg end) with
      | None => None
      | Some (w1, tid) =>
          if match target, b_rel b with
             | Some _, Some rid => negb (check_relation w1 tid rid)
             | _, _ => false
             end then None else
          let w2 := match target with Some t => set_tbit w1 t | None => w1 end in
          let start := match w_tables w2 !! tid with Some t => tlen t | None => 0 end in
          let '(w3, es) := create_entities w2 tid (Z.to_nat count) in
          let w4 := foldl (fun w e => set_comps w e (b_comps b)) w3 es in
          Some (w4, tid, start, es)
      end) = Some (w', tid, start, es)).
  { destruct target, (b_rel b); done. }
  clear H. destruct (is_locked w); [done|]. destruct (_ <? _)%Z; [done|]. simpl in Hm.
  destruct (negb _); [done|].
  destruct (match b_ids b with [] => _ | _ => _ end) as [[w1 tid1]|] eqn:Hf; [|done].
  assert (F1 : frame w w1).
  { destruct (b_ids b); [injection Hf as <- _; apply frame_refl|by eapply frame_find_or_create_table]. }
  destruct (match target with Some _ => _ | None => _ end); [done|].
  set (w2 := match target with Some t => set_tbit w1 t | None => w1 end) in *.
  assert (F2 : frame w1 w2) by (unfold w2; destruct target; [apply frame_set_tbit|apply frame_refl]).
  pose proof (frame_create_entities w2 tid1 (Z.to_nat count)) as F3.
  destruct (create_entities w2 tid1 (Z.to_nat count)) as [w3 es3]. simpl in F3.
  injection Hm as <- _ _ _.
  eapply frame_trans; [eapply frame_trans; [eapply frame_trans|]; eassumption|].
  apply frame_foldl. intros. apply frame_set_comps.
Qed.

(** Resources and registry are untouched by every operation that is not a resource
    operation, a registration or a Reset. *)
Definition touches_rr (o : op) : bool :=
  match o with
  | OReset | ORegister _ _ _ | OResReg _ | OResAdd _ _ | OResRemove _ | OSetListener _ => true
  | _ => false
  end.

Lemma frame_rr_open_query w segs b w' h : open_query w segs b = Some (w', h) -> frame_rr w w'.
Proof. unfold open_query. destruct (locks_lock _ _) as [[l bt]|]; [|done]. intros [= <- _]. by split. Qed.

Lemma frame_rr_close_query w h q : frame_rr w (res_world (close_query w h q)).
Proof. unfold close_query. destruct (locks_unlock _ _); [by split|apply frame_rr_refl]. Qed.

Lemma frame_rr_with_query w h k : (forall q, frame_rr w (res_world (k q))) -> frame_rr w (res_world (with_query w h k)).
Proof. intros Hk. unfold with_query. destruct (w_queries w !! h); [|apply frame_rr_refl]. destruct (q_closed q); [apply frame_rr_refl|apply Hk]. Qed.

Lemma frame_exchange_table w src add rem rel w' s :
  exchange_table w src add rem rel = Some (w', s) -> frame w w'.
Proof.
  unfold exchange_table. intros H.
  destruct (w_tables w !! src) as [st|]; [|done]. destruct (w_nodes w !! t_node st) as [sn|]; [|done].
  destruct (exchange_mask _ _ _) as [mask|]; [|done]. destruct (exchange_target _ _ _ _ _ _) as [target|]; [|done].
  destruct (find_or_create_table w src add rem target) as [[w1 dst]|] eqn:Hf; [|done].
  pose proof (frame_move_all w1 src dst mask) as F2. destruct (move_all w1 src dst mask) as [w2 start]. simpl in F2.
  injection H as <- _.
  eapply frame_trans; [by eapply frame_find_or_create_table|].
  eapply frame_trans; [exact F2|]. eapply frame_trans; [apply frame_set_tbit|apply frame_cleanup_table].
Qed.

Lemma frame_set_relation_table w src rid target w' s :
  set_relation_table w src rid target = Some (Some (w', s)) -> frame w w'.
Proof.
  unfold set_relation_table. intros H.
  destruct (w_tables w !! src) as [st|]; [|done]. destruct (w_nodes w !! t_node st) as [sn|]; [|done].
  destruct (ent_eqb _ _); [done|]. destruct (negb _); [done|].
  assert (F1 : frame w (fst (match node_get_table sn target with
                             | Some tid => (w, tid)
                             | None => create_table w (t_node st) target true end))).
  { destruct (node_get_table sn target); [apply frame_refl|apply frame_create_table]. }
  destruct (match node_get_table sn target with Some tid => (w, tid) | None => _ end) as [w1 dst]. simpl in F1.
  pose proof (frame_move_all w1 src dst (n_mask sn)) as F2. destruct (move_all w1 src dst (n_mask sn)) as [w2 start]. simpl in F2.
  injection H as <- _.
  eapply frame_trans; [exact F1|]. eapply frame_trans; [exact F2|].
  eapply frame_trans; [apply frame_set_tbit|apply frame_cleanup_table].
Qed.

Lemma frame_batch_loop f :
  (forall w tid w1 s, f w tid = Some (Some (w1, s)) -> frame w w1) ->
  forall tids w segs p w' segs', batch_loop f w tids segs p = inl (Some (w', segs')) -> frame w w'.
Proof.
  intros Hf. induction tids as [|tid r IH]; intros w segs p w' segs' H; simpl in H.
  - injection H as <- _. apply frame_refl.
  - destruct (table_skip w tid); [by eapply IH|].
    destruct (f w tid) as [[[w1 s]|]|] eqn:Hft; [|by eapply IH|done].
    eapply frame_trans; [by eapply Hf|by eapply IH].
Qed.

Lemma frame_exchange_batch_nn w a add rem rel w' n segs :
  exchange_batch_nn w a add rem rel = inl (Some (w', n, segs)) -> frame w w'.
Proof.
  unfold exchange_batch_nn. intros H. destruct (is_locked w); [done|]. destruct (negb _); [done|].
  assert (Hm : match arg_tables w a with
      | None => inr false
      | Some tids =>
          match batch_loop (fun w tid => option_map Some (exchange_table w tid add rem rel))
                           w (nonempty_tables w tids) [] false with
          | inl (Some (w1, segs)) => inl (Some (w1, total_len w tids, segs))
          | inl None => inr false
          | inr p => inr p
          end
      end = inl (Some (w', n, segs)) -> frame w w').
  { clear H. intros H. destruct (arg_tables w a) as [tids|]; [|done].
    destruct (batch_loop _ _ _ _ _) as [[[w1 segs1]|]|] eqn:Hb; try done.
    injection H as <- _ _. eapply frame_batch_loop; [|exact Hb].
    intros w0 tid w2 s Hx. simpl in Hx. destruct (exchange_table w0 tid add rem rel) as [[w3 s3]|] eqn:He; simpl in Hx; [|done].
    injection Hx as <- _. by eapply frame_exchange_table. }
  destruct add, rem; try (by apply Hm).
  destruct (bool_decide _); [done|]. injection H as <- _ _. apply frame_refl.
Qed.

Lemma frame_set_relation_batch_nn w a rid target w' n segs :
  set_relation_batch_nn w a rid target = inl (Some (w', n, segs)) -> frame w w'.
Proof.
  unfold set_relation_batch_nn. intros H. destruct (is_locked w); [done|]. destruct (negb _); [done|].
  destruct (arg_tables w a) as [tids|]; [|done].
  destruct (batch_loop _ _ _ _ _) as [[[w1 segs1]|]|] eqn:Hb; try done.
  injection H as <- _ _. eapply frame_batch_loop; [|exact Hb].
  intros w0 tid w2 s Hx. simpl in Hx. by eapply frame_set_relation_table.
Qed.

Lemma frame_rr_batch_result w r k :
  (forall w1 n segs, r = inl (Some (w1, n, segs)) -> frame_rr w (res_world (k w1 n segs))) ->
  frame_rr w (res_world (batch_result w r k)).
Proof.
  intros Hk. unfold batch_result. destruct r as [[[[w1 n] segs]|]|[]]; try apply frame_rr_refl. by apply Hk.
Qed.

(** The removal paths only change pool, index, tables, graph, cache - and lock bits. *)
Lemma frame_rr_remove_table_entities w tid : frame_rr w (fst (remove_table_entities w tid)).
Proof.
  unfold remove_table_entities. destruct (w_tables w !! tid) as [t|]; [|apply frame_rr_refl].
  destruct (w_nodes w !! t_node t) as [nd|]; [|apply frame_rr_refl].
  assert (H : forall es w0 evs0, frame_rr w0 (fst (foldl (fun '(w, evs) e =>
                     let ev := ev_remove w e nd (t_target t) in
                     let w1 := w <| w_index := <[eid e := None]> (w_index w) |> in
                     let w2 := if tbit w1 (eid e)
                               then (cleanup_tables_for w1 e) <| w_tbits := <[eid e := false]> (w_tbits w1) |>
                               else w1 in
                     (w2 <| w_pool := pool_recycle (w_pool w2) e |>, evs ++ ev)) (w0, evs0) es))).
  { induction es as [|e r IH]; intros w0 evs0; simpl; [apply frame_rr_refl|].
    eapply frame_rr_trans; [|apply IH].
    destruct (tbit _ _); [|by split].
    pose proof (frame_cleanup_tables_for (w0 <| w_index := <[eid e := None]> (w_index w0) |>) e) as [].
    split; simpl in *; congruence. }
  specialize (H (t_ents t) w []). destruct (foldl _ _ _) as [w1 evs]. simpl in H.
  assert (F2 : frame_rr w1 (match w_tables w1 !! tid with
                    | Some t1 => upd_table w1 tid (tbl_reset (zero_row nd) t1)
                    | None => w1 end)) by (destruct (w_tables w1 !! tid); by split).
  simpl. eapply frame_rr_trans; [exact H|]. eapply frame_rr_trans; [exact F2|].
  apply frame_rr_of, frame_cleanup_table.
Qed.

Lemma step_frame_rr0 w o : touches_rr o = false -> frame_rr w (res_world (step0 w o)).
Proof.
  intros Ht. destruct o; try discriminate Ht; simpl.
  - apply frame_rr_of, frame_op_new.
  - destruct cs; apply frame_rr_of, frame_op_new.
  - unfold op_builder_new. destruct target; [destruct (b_rel b); [apply frame_rr_of, frame_op_new_target|apply frame_rr_refl]|apply frame_rr_of, frame_op_new].
  - unfold op_new_batch. destruct (new_entities_nn w count b target) as [[[[w1 tid] start] es]|] eqn:H; [|apply frame_rr_refl].
    destruct (table_mask_rel _ _). simpl. by eapply frame_rr_of, frame_new_entities_nn.
  - unfold op_new_batch_q. destruct (new_entities_nn w count b target) as [[[[w1 tid] start] es]|] eqn:H; [|apply frame_rr_refl].
    pose proof (frame_rr_of _ _ (frame_new_entities_nn _ _ _ _ _ _ _ _ H)) as F1.
    destruct (open_query _ _ _) as [[w2 h]|] eqn:Hq; simpl; [|exact F1].
    eapply frame_rr_trans; [exact F1|by eapply frame_rr_open_query].
  - unfold op_builder_add. destruct target, (b_rel b); try apply frame_rr_refl;
      destruct (b_vals b); unfold op_assign; try destruct (b_comps b); try apply frame_rr_refl; apply frame_rr_of, frame_op_exchange.
  - (* RemoveEntity *)
    unfold op_remove_entity. destruct (is_locked w); [apply frame_rr_refl|].
    destruct (ent_table w e) as [[[[src row] st] sn]|]; [|apply frame_rr_refl].
    destruct (tbl_remove _ _ _) as [st1 swapped]. simpl.
    match goal with |- frame_rr w (cleanup_table ?w2 src) => assert (F : frame_rr w w2) end.
    { destruct (tbit _ _); [|by split].
      match goal with |- frame_rr w (cleanup_tables_for ?w1 e <| w_tbits := _ |>) => pose proof (frame_cleanup_tables_for w1 e) as [] end.
      split; simpl in *; congruence. }
    eapply frame_rr_trans; [exact F|apply frame_rr_of, frame_cleanup_table].
  - destruct (chk_alive w e); apply frame_rr_refl.
  - apply frame_rr_of, frame_op_exchange.
  - unfold op_assign. destruct cs; [apply frame_rr_refl|apply frame_rr_of, frame_op_exchange].
  - destruct (set_comp w e id v) eqn:H; simpl; [by eapply frame_rr_of, frame_set_comp|apply frame_rr_refl].
  - destruct (get_comp w e id); apply frame_rr_refl.
  - destruct (ent_table w e) as [[[[? ?] ?] ?]|]; apply frame_rr_refl.
  - destruct (ent_table w e) as [[[[? ?] ?] ?]|]; apply frame_rr_refl.
  - destruct (ent_table w e) as [[[[? ?] ?] ?]|]; [destruct (view_of _ _ _)|]; apply frame_rr_refl.
  - destruct (ent_table w e) as [[[[? ?] ?] ?]|]; [destruct (check_relation _ _ _)|]; apply frame_rr_refl.
  - (* RelSet *)
    unfold op_set_relation. destruct (is_locked w); [apply frame_rr_refl|].
    destruct (chk_alive w e) as [[]|]; try apply frame_rr_refl. destruct (negb _); [apply frame_rr_refl|].
    destruct (ent_table w e) as [[[[src row] st] sn]|]; [|apply frame_rr_refl].
    destruct (negb _); [apply frame_rr_refl|]. destruct (ent_eqb _ _); [apply frame_rr_refl|].
    assert (F1 : frame w (fst (match node_get_table sn t with
                             | Some tid => (w, tid)
                             | None => create_table w (t_node st) t true end))).
    { destruct (node_get_table sn t); [apply frame_refl|apply frame_create_table]. }
    destruct (match node_get_table sn t with Some tid => (w, tid) | None => _ end) as [w1 dst]. simpl in *.
    apply frame_rr_of. eapply frame_trans; [exact F1|]. eapply frame_trans; [apply frame_move_entity|].
    eapply frame_trans; [apply frame_set_tbit|apply frame_cleanup_table].
  - apply frame_rr_of, frame_op_exchange.
  - (* batch exchange *)
    destruct q.
    + unfold op_batch_exchange_q. apply frame_rr_batch_result. intros w1 n segs Hr.
      pose proof (frame_rr_of _ _ (frame_exchange_batch_nn _ _ _ _ _ _ _ _ Hr)) as F1.
      destruct (open_query _ _ _) as [[w2 h]|] eqn:Hq; simpl; [|exact F1].
      eapply frame_rr_trans; [exact F1|by eapply frame_rr_open_query].
    + unfold op_batch_exchange. apply frame_rr_batch_result. intros w1 n segs Hr. simpl.
      by eapply frame_rr_of, frame_exchange_batch_nn.
  - destruct q.
    + unfold op_batch_set_relation_q. apply frame_rr_batch_result. intros w1 n segs Hr.
      pose proof (frame_rr_of _ _ (frame_set_relation_batch_nn _ _ _ _ _ _ _ Hr)) as F1.
      destruct (open_query _ _ _) as [[w2 h]|] eqn:Hq; simpl; [|exact F1].
      eapply frame_rr_trans; [exact F1|by eapply frame_rr_open_query].
    + unfold op_batch_set_relation. apply frame_rr_batch_result. intros w1 n segs Hr. simpl.
      by eapply frame_rr_of, frame_set_relation_batch_nn.
  - (* RemoveEntities *)
    unfold op_remove_entities. destruct (is_locked w); [apply frame_rr_refl|].
    destruct (arg_tables w a) as [tids|]; [|apply frame_rr_refl].
    destruct (locks_lock _ _) as [[l b]|]; [|apply frame_rr_refl].
    assert (H : forall tids w0 evs0, frame_rr w0 (fst (foldl (fun '(w, evs) tid =>
                     if table_skip w tid then (w, evs)
                     else let '(w1, ev) := remove_table_entities w tid in (w1, evs ++ ev)) (w0, evs0) tids))).
    { clear. induction tids as [|tid r IH]; intros w0 evs0; simpl; [apply frame_rr_refl|].
      destruct (table_skip w0 tid); [apply IH|].
      pose proof (frame_rr_remove_table_entities w0 tid) as F. destruct (remove_table_entities w0 tid) as [w1 ev].
      eapply frame_rr_trans; [exact F|apply IH]. }
    specialize (H tids (w <| w_locks := l |>) []). destruct (foldl _ _ _) as [w1 evs]. simpl in *.
    eapply frame_rr_trans; [|eapply frame_rr_trans; [exact H|]]; by split.
  - (* Query *)
    unfold op_query. destruct (match a with FPlain f => _ | FCached id => _ end); [|apply frame_rr_refl].
    destruct (open_query _ _ _) as [[w1 h]|] eqn:Hq; simpl; [by eapply frame_rr_open_query|apply frame_rr_refl].
  - unfold op_q_next. apply frame_rr_with_query. intros q.
    destruct (_ <? _); [by split|]. destruct (q_advance q); [by split|apply frame_rr_close_query].
  - unfold op_q_step. destruct (_ <=? _)%Z; [apply frame_rr_refl|]. apply frame_rr_with_query. intros q.
    destruct (step_loop _ _ _) as [[q' []]|]; [by split|apply frame_rr_close_query|apply frame_rr_refl].
  - apply frame_rr_with_query. intros; apply frame_rr_refl.
  - destruct (_ <? _)%Z; [apply frame_rr_refl|]. apply frame_rr_with_query. intros q. destruct (entity_at _ _ _); apply frame_rr_refl.
  - apply frame_rr_with_query. intros q. pose proof (frame_rr_close_query w h q) as F.
    destruct (close_query w h q) as [[w1 []] evs]; exact F.
  - apply frame_rr_with_query. intros q. destruct (q_entity w q); apply frame_rr_refl.
  - apply frame_rr_with_query. intros q. destruct (q_cur q); [destruct (view_of _ _ _)|]; apply frame_rr_refl.
  - apply frame_rr_with_query. intros q. destruct (q_cur q); [|apply frame_rr_refl].
    destruct (check_relation _ _ _); [destruct (w_tables w !! n)|]; apply frame_rr_refl.
  - unfold cache_register. by split.
  - destruct (cache_unregister w id) as [[w1 f]|] eqn:H; [|apply frame_rr_refl]. simpl.
    unfold cache_unregister in H. destruct (find_index _ _); [|done]. destruct (w_cache w !! n); [|done].
    injection H as <- _. by split.
  - apply frame_rr_refl.
  - destruct (world_load w d) as [w1|] eqn:H; [|apply frame_rr_refl]. simpl. unfold world_load in H.
    destruct (is_locked w); [done|]. destruct (_ || _); [done|]. destruct (w_tables w !! 0); [|done].
    destruct (w_nodes w !! t_node t); [|done]. destruct (tbl_allocn _ _ _ _). injection H as <-. by split.
  - destruct (w_res w !! id); apply frame_rr_refl.
  - destruct (w_res w !! id); apply frame_rr_refl.
  - apply frame_rr_refl.
  - apply frame_rr_refl.
Qed.

Theorem step_frame_rr w o : touches_rr o = false -> frame_rr w (res_world (step w o)).
Proof.
  intros Ht. destruct (step_cases w o) as [[-> _]|[_ ->]]; [by apply step_frame_rr0|].
  simpl. apply frame_rr_of, frame_ghost_of.
Qed.
