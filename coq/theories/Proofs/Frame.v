(** * Frame lemmas: the storage operations (tables, graph, cache, index, pool) leave the
      registry, the resources, the locks, the queries, the listener and the
      configuration of the world untouched. *)
From Arche Require Import Model.Base Model.Pool Model.Filter Model.World Model.Ops.

Record frame (w w' : world) : Prop := {
  fr_res : w_res w' = w_res w;
  fr_resreg : w_resreg w' = w_resreg w;
  fr_reg : w_reg w' = w_reg w;
  fr_locks : w_locks w' = w_locks w;
  fr_queries : w_queries w' = w_queries w;
  fr_listener : w_listener w' = w_listener w;
  fr_capinc : w_capinc w' = w_capinc w;
  fr_relcapinc : w_relcapinc w' = w_relcapinc w;
  fr_tb : w_tb w' = w_tb w;
  fr_cnext : w_cnext w' = w_cnext w;
}.

Lemma frame_refl w : frame w w.
Proof. by split. Qed.
Lemma frame_trans a b c : frame a b -> frame b c -> frame a c.
Proof. intros [] []. split; congruence. Qed.

#[global] Hint Resolve frame_refl : frame.

Ltac fr := split; reflexivity.

Lemma frame_upd_table w tid t : frame w (upd_table w tid t).
Proof. fr. Qed.
Lemma frame_set_tbit w e : frame w (set_tbit w e).
Proof. unfold set_tbit. destruct (ent_is_zero e); fr. Qed.

Lemma frame_find_or_create_node w m rel : frame w (fst (find_or_create_node w m rel)).
Proof. unfold find_or_create_node. destruct (find_node w m); fr. Qed.

Lemma frame_walk_rem ids : forall w m rel, frame w (fst (fst (walk_rem w m rel ids))).
Proof.
  induction ids as [|id r IH]; intros w m rel; simpl; [apply frame_refl|].
  eapply frame_trans; [apply frame_find_or_create_node|apply IH].
Qed.

Lemma frame_walk_add ids : forall w start m rel w' m' rel',
  walk_add w start m rel ids = Some (w', m', rel') -> frame w w'.
Proof.
  induction ids as [|id r IH]; intros w start m rel w' m' rel' H; simpl in H.
  - injection H as <- _ _. apply frame_refl.
  - destruct (bit m id); [done|]. destruct (bit start id); [done|].
    destruct (reg_is_rel w id && bool_decide (is_Some rel)); [done|].
    eapply frame_trans; [apply frame_find_or_create_node|]. eapply IH. exact H.
Qed.

Lemma frame_create_table w nid target fs : frame w (fst (create_table w nid target fs)).
Proof.
  unfold create_table. destruct (w_nodes w !! nid); [|apply frame_refl].
  destruct (node_has_rel n); [destruct (last (n_free n))|]; fr.
Qed.

Lemma frame_find_or_create_table w src add rem target w' tid :
  find_or_create_table w src add rem target = Some (w', tid) -> frame w w'.
Proof.
  unfold find_or_create_table. intros H.
  destruct (w_tables w !! src) as [st|]; [|done].
  destruct (w_nodes w !! t_node st) as [sn|]; [|done].
  pose proof (frame_walk_rem rem w (n_mask sn) (n_rel sn)) as F1.
  destruct (walk_rem w (n_mask sn) (n_rel sn) rem) as [[w1 m1] rel1]. simpl in F1.
  destruct (walk_add w1 (n_mask sn) m1 rel1 add) as [[[w2 m2] r2]|] eqn:Hadd; [|done].
  pose proof (frame_walk_add _ _ _ _ _ _ _ _ Hadd) as F2.
  destruct (find_node w2 m2) as [nid|]; [|done].
  destruct (w_nodes w2 !! nid) as [nd|]; [|done].
  destruct (node_get_table nd target) as [t|].
  - injection H as <- _. eapply frame_trans; eassumption.
  - pose proof (frame_create_table w2 nid target true) as F3.
    destruct (create_table w2 nid target true) as [w3 t3]. injection H as <- _. simpl in F3.
    eapply frame_trans; [eapply frame_trans; eassumption|exact F3].
Qed.

Lemma frame_retire_table w tid : frame w (retire_table w tid).
Proof.
  unfold retire_table. destruct (w_tables w !! tid); [|apply frame_refl].
  destruct (w_nodes w !! t_node t); [|apply frame_refl]. fr.
Qed.

Lemma frame_cleanup_table w tid : frame w (cleanup_table w tid).
Proof.
  unfold cleanup_table. destruct (w_tables w !! tid); [|apply frame_refl].
  destruct (w_nodes w !! t_node t); [|apply frame_refl].
  destruct (_ || _ || _); [apply frame_refl|]. destruct (_ || _); [apply frame_refl|apply frame_retire_table].
Qed.

Lemma frame_foldl {A} (f : world -> A -> world) l :
  (forall w a, frame w (f w a)) -> forall w, frame w (foldl f w l).
Proof.
  intros Hf. induction l as [|a r IH]; intros w; simpl; [apply frame_refl|].
  eapply frame_trans; [apply Hf|apply IH].
Qed.

Lemma frame_cleanup_tables_for w target : frame w (cleanup_tables_for w target).
Proof.
  unfold cleanup_tables_for. apply frame_foldl. intros w0 nid.
  destruct (w_nodes w0 !! nid); [|apply frame_refl].
  destruct (assoc_get target (n_tmap n)); [|apply frame_refl].
  destruct (w_tables w0 !! n0); [|apply frame_refl].
  destruct (tlen t =? 0); [apply frame_retire_table|apply frame_refl].
Qed.

Lemma frame_move_entity w e src row dst keep : frame w (move_entity w e src row dst keep).
Proof.
  unfold move_entity. destruct (w_tables w !! src), (w_tables w !! dst); try apply frame_refl.
  destruct (w_nodes w !! t_node t), (w_nodes w !! t_node t0); try apply frame_refl.
  destruct (tbl_alloc _ _ _ _). destruct (tbl_remove _ _ _). fr.
Qed.

Lemma frame_move_all w src dst keep : frame w (fst (move_all w src dst keep)).
Proof.
  unfold move_all. destruct (w_tables w !! src), (w_tables w !! dst); try apply frame_refl.
  destruct (w_nodes w !! t_node t), (w_nodes w !! t_node t0); try apply frame_refl.
  destruct (tbl_allocn _ _ _ _). fr.
Qed.

Lemma frame_create_entity w tid : frame w (fst (create_entity w tid)).
Proof.
  unfold create_entity. destruct (w_tables w !! tid); [|apply frame_refl].
  destruct (w_nodes w !! t_node t); [|apply frame_refl].
  destruct (pool_get (w_pool w)). destruct (tbl_alloc _ _ _ _). simpl.
  destruct (_ =? _); fr.
Qed.

Lemma frame_create_entities w tid n : frame w (fst (create_entities w tid n)).
Proof.
  unfold create_entities. destruct (w_tables w !! tid); [|apply frame_refl].
  destruct (w_nodes w !! t_node t); [|apply frame_refl].
  destruct (pool_get_n _ _). destruct (tbl_allocn _ _ _ _). destruct (foldl _ _ _). fr.
Qed.

Lemma frame_set_comp w e id v w' : set_comp w e id v = Some w' -> frame w w'.
Proof.
  unfold set_comp. intros H.
  destruct (chk_alive w e) as [[]|]; try done. destruct (loc w e) as [[tid row]|]; [|done].
  destruct (w_tables w !! tid); [|done]. destruct (w_nodes w !! t_node t); [|done].
  destruct (col_of n id); [|done]. destruct (reg_is_zs w id); injection H as <-; [apply frame_refl|fr].
Qed.

Lemma frame_set_comps cs : forall w e, frame w (set_comps w e cs).
Proof.
  unfold set_comps. intros w e. apply frame_foldl. intros w0 [id v].
  destruct (set_comp w0 e id v) eqn:H; simpl; [by eapply frame_set_comp|apply frame_refl].
Qed.

Lemma frame_exchange_nn w e add rem rel w' x :
  exchange_nn w e add rem rel = Some (w', x) -> frame w w'.
Proof.
  unfold exchange_nn. intros H.
  destruct (is_locked w); [done|]. destruct (chk_alive w e) as [[]|]; try done.
  destruct (negb _); [done|].
  assert (Hmain :
    match loc w e with
    | Some (src, row) =>
        match w_tables w !! src with
        | Some st =>
            match w_nodes w !! t_node st with
            | Some sn =>
                match exchange_mask (n_mask sn) add rem with
                | Some mask =>
                    match exchange_target w (n_mask sn) mask (t_target st) rem rel with
                    | Some target =>
                        match find_or_create_table w src add rem target with
                        | Some (w1, dst) =>
                            Some (cleanup_table (set_tbit (move_entity w1 e src row dst mask) target) src,
                                  Some (mkX dst (n_mask sn) (t_target st) (n_rel sn)))
                        | None => None
                        end
                    | None => None
                    end
                | None => None
                end
            | None => None
            end
        | None => None
        end
    | None => None
    end = Some (w', x) -> frame w w').
  { clear H. intros H. destruct (loc w e) as [[src row]|]; [|done].
    destruct (w_tables w !! src) as [st|]; [|done]. destruct (w_nodes w !! t_node st) as [sn|]; [|done].
    destruct (exchange_mask _ _ _) as [mask|]; [|done]. destruct (exchange_target _ _ _ _ _ _) as [target|]; [|done].
    destruct (find_or_create_table w src add rem target) as [[w1 dst]|] eqn:Hf; [|done].
    injection H as <- _. eapply frame_trans; [by eapply frame_find_or_create_table|].
    eapply frame_trans; [apply frame_move_entity|]. eapply frame_trans; [apply frame_set_tbit|apply frame_cleanup_table]. }
  destruct add, rem; try (by apply Hmain).
  destruct (bool_decide _); [done|]. injection H as <- _. apply frame_refl.
Qed.
