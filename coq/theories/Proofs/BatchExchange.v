(** * C08: Batch.Add / Remove / Exchange (and Relations.ExchangeBatch) equal the
      single-entity exchange applied to every entity that matched the filter when the
      call was made.

    [exchange_table_rok]: moving one whole table is the single-entity exchange for each
    of its entities.  [batch_exchange_refines]: the batch operation as a whole refines
    the abstract store of Proofs/RelRefine.v with [a_exchange] applied to exactly the
    matching entities; the returned count is their number. *)
From Arche Require Import Model.Base Model.Pool Model.Filter Model.World Model.Ops
  Proofs.Tables Proofs.Bits Proofs.Store Proofs.Graph Proofs.WorldInv Proofs.Cursor
  Proofs.Frame Proofs.StepFrame
  Proofs.RelGraph Proofs.RelWorld Proofs.RelRefine Proofs.QueryExact Proofs.CacheInv Proofs.BatchMove.

(** Value of a component after the cells were copied from the old row into a zero row of
    the new layout. *)
Lemma copied_val tb oldm newm sids dids srow id :
  sids = mask_ids tb oldm -> dids = mask_ids tb newm -> length srow = length sids ->
  id < tb -> bit newm id = true ->
  (find_index (Nat.eqb id) dids ≫= fun c => copy_cells newm sids srow dids (replicate (length dids) 0%Z) !! c) =
  if bit oldm id then (find_index (Nat.eqb id) sids ≫= fun c => srow !! c) else Some 0%Z.
Proof.
  intros Hs Hd Hlen Hid Hbit.
  assert (Hndd : NoDup dids) by (rewrite Hd; apply NoDup_filter, NoDup_seq).
  assert (Hnds : NoDup sids) by (rewrite Hs; apply NoDup_filter, NoDup_seq).
  assert (Hin : id ∈ dids).
  { rewrite Hd. unfold mask_ids. apply elem_of_list_filter. split; [done|]. apply elem_of_seq. lia. }
  apply elem_of_list_lookup in Hin as [j Hj].
  rewrite (find_index_nodup _ j id Hndd Hj). simpl.
  rewrite (copy_cells_spec newm sids srow dids _ j id Hnds Hndd); try done; [|by rewrite replicate_length].
  rewrite Hbit.
  destruct (find_index (Nat.eqb id) sids) as [i|] eqn:Hfi.
  - apply find_index_Some_lookup in Hfi as (y & Hy & Hey). apply Nat.eqb_eq in Hey. subst y.
    assert (Hb : bit oldm id = true).
    { apply elem_of_list_lookup_2 in Hy. rewrite Hs in Hy. unfold mask_ids in Hy. by apply elem_of_list_filter in Hy as [? _]. }
    by rewrite Hb.
  - apply find_index_None_notin in Hfi.
    assert (Hb : bit oldm id = false).
    { destruct (bit oldm id) eqn:Hb; [|done]. exfalso. apply Hfi. rewrite Hs. unfold mask_ids.
      apply elem_of_list_filter. split; [done|]. apply elem_of_seq. lia. }
    rewrite Hb. apply lookup_replicate_2. by apply lookup_lt_Some in Hj.
Qed.

Lemma exchange_mask_twice m add rem m' :
  exchange_mask m add rem = Some m' ->
  (forall id, id ∈ add -> bit m id = false) -> (forall id, id ∈ rem -> bit m id = true) ->
  (add <> [] \/ rem <> []) -> exchange_mask m' add rem = None.
Proof.
  intros H Hadd Hrem Hne. pose proof (exchange_mask_fold _ _ _ _ H) as Hf. change (m' = xmask m add rem) in Hf.
  unfold exchange_mask. destruct rem as [|r0 rem'].
  - destruct add as [|a add']; [destruct Hne; done|]. simpl.
    assert (Hb : bit m' a = true).
    { rewrite Hf, bit_xmask, (bool_decide_eq_true_2 (a ∈ a :: add')) by apply elem_of_list_here. apply orb_true_r. }
    by rewrite Hb.
  - simpl. assert (Hb : bit m' r0 = false).
    { rewrite Hf, bit_xmask. rewrite (bool_decide_eq_false_2 (r0 ∉ r0 :: rem')) by (intros Hx; apply Hx, elem_of_list_here).
      rewrite andb_false_r. simpl. apply bool_decide_eq_false. intros Hin.
      specialize (Hrem r0 (elem_of_list_here _ _)). rewrite (Hadd r0 Hin) in Hrem. done. }
    by rewrite Hb.
Qed.

(** ** One table *)
Lemma exchange_table_rok w live src st add rem rel w' sg :
  world_okr w live -> cache_ok w -> w_tables w !! src = Some st -> t_ents st <> [] ->
  Forall (fun id => id < length (w_reg w)) add -> (add <> [] \/ rem <> []) ->
  exchange_table w src add rem rel = Some (w', sg) ->
  exists sn mask target dst newrel,
    w_nodes w !! t_node st = Some sn /\
    exchange_mask (n_mask sn) add rem = Some mask /\
    exchange_target w (n_mask sn) mask (t_target st) rem rel = Some target /\
    (forall id, id ∈ add -> bit (n_mask sn) id = false) /\ (forall id, id ∈ rem -> bit (n_mask sn) id = true) /\
    relP w mask newrel /\ src <> dst /\
    world_okr w' live /\ cache_ok w' /\ frame w w' /\ w_pool w' = w_pool w /\
    length (w_index w') = length (w_index w) /\ nodes_same w w' /\
    (forall e, e ∈ live -> e ∉ t_ents st -> ent_cells w' e = ent_cells w e) /\
    (forall e, e ∈ t_ents st ->
        ent_mask w' e = Some mask /\ ent_rel w' e = Some newrel /\
        ent_target w' e = Some (match newrel with Some _ => target | None => ezero end) /\
        forall id, id < w_tb w -> bit mask id = true ->
          comp_val w' e id = if bit (n_mask sn) id then comp_val w e id else Some 0%Z) /\
    (forall tid t, tid <> src -> tid <> dst -> w_tables w !! tid = Some t ->
        exists t', w_tables w' !! tid = Some t' /\ t_ents t' = t_ents t /\ t_node t' = t_node t) /\
    (forall t, w_tables w !! dst = Some t ->
        exists t' nd, w_tables w' !! dst = Some t' /\ t_ents t' = t_ents t ++ t_ents st /\ t_node t' = t_node t /\
                      w_nodes w !! t_node t = Some nd /\ n_mask nd = mask).
Proof.
  intros [S G] C Hst Hstne Hreg Hnonempty H. pose proof (frame_exchange_table w src add rem rel w' sg H) as F.
  unfold exchange_table in H. rewrite Hst in H.
  destruct (so_table _ _ S src st Hst) as (sn & Hsn & Hsok). rewrite Hsn in H.
  destruct (exchange_mask (n_mask sn) add rem) as [mask|] eqn:Hmask; [|done].
  destruct (exchange_target w (n_mask sn) mask (t_target st) rem rel) as [target|] eqn:Htarget; [|done].
  destruct (find_or_create_table w src add rem target) as [[w1 dst]|] eqn:Hfoc; [|done].
  destruct (find_or_create_table_rok w src add rem target st sn mask w1 dst G Hst Hsn Hmask Hreg Hfoc)
    as (E & G1 & dt & dn & Hdt & Hdn & Hdm & Hdact & Hdtg).
  pose proof (cache_ok_foc w src add rem target st sn mask w1 dst G C Hst Hsn Hmask Hreg Hfoc) as C1.
  assert (S1 : store_ok w1 live) by (by eapply ext_r_store_ok).
  assert (Hst1 : w_tables w1 !! src = Some st).
  { destruct (xr_tables _ _ E src st Hst) as (t' & Ht' & _ & _ & _ & _ & Q). by rewrite (Q Hstne) in Ht'. }
  destruct (xr_nodes _ _ E _ sn Hsn) as (sn1 & Hsn1 & Hsm1 & Hsi1 & Hsr1).
  pose proof (exchange_mask_fold _ _ _ _ Hmask) as Hmf.
  (* legality of the id lists, mask change *)
  assert (Hpres : forall id, id ∈ rem -> bit (n_mask sn) id = true).
  { unfold exchange_mask in Hmask. destruct (exmask_rem (n_mask sn) rem) as [m1|] eqn:Hr; [|done]. by eapply exmask_rem_present. }
  assert (Hstart : forall id, id ∈ add -> bit (n_mask sn) id = false).
  { unfold find_or_create_table in Hfoc. rewrite Hst, Hsn in Hfoc.
    destruct (walk_rem w (n_mask sn) (n_rel sn) rem) as [[wa ma] ra].
    destruct (walk_add wa (n_mask sn) ma ra add) as [r|] eqn:Hwa; [|done]. by eapply walk_add_start. }
  assert (Hneq : mask <> n_mask sn).
  { intros Heq. destruct add as [|a add'].
    - destruct rem as [|r0 rem']; [destruct Hnonempty; done|].
      assert (Hb : bit mask r0 = false).
      { rewrite Hmf, bit_fold_set, bit_fold_clear.
        rewrite (bool_decide_eq_false_2 (r0 ∉ r0 :: rem')) by (intros Hx; apply Hx; apply elem_of_cons; by left).
        rewrite (bool_decide_eq_false_2 (r0 ∈ [])) by (intros Hx; by apply elem_of_nil in Hx).
        by rewrite andb_false_r. }
      rewrite Heq, (Hpres r0) in Hb; [done|apply elem_of_cons; by left].
    - assert (Hb : bit mask a = true).
      { rewrite Hmf, bit_fold_set, bool_decide_eq_true_2; [apply orb_true_r|apply elem_of_cons; by left]. }
      rewrite Heq, (Hstart a) in Hb; [done|apply elem_of_cons; by left]. }
  assert (Hsd : src <> dst).
  { intros <-. rewrite Hst1 in Hdt. injection Hdt as <-. rewrite Hsn1 in Hdn. injection Hdn as <-. congruence. }
  assert (Hcap : 0 < node_capinc w1 dn).
  { unfold node_capinc. destruct (rg_capinc _ G1). by destruct (node_has_rel dn). }
  (* the move *)
  pose proof (move_all_ok w1 live src dst mask st dt sn1 dn S1 Hsd Hst1 Hdt Hsn1 Hdn Hcap) as HM.
  pose proof (frame_move_all w1 src dst mask) as F2.
  destruct (move_all w1 src dst mask) as [w2 start]. simpl in HM, F2. injection H as <- _.
  destruct HM as (S2 & Hn2 & Hp2 & Htb2 & Hc2 & Hlen2 & Hil2 & Hother & Hmoved & Htabs &
                  (st1 & Hst1' & Hst1e & Hst1n & Hst1t & Hst1a) & (dt2 & Hdt2' & Hdt2e & Hdt2n & Hdt2t & Hdt2a) & _).
  assert (HT2 : tabs_sim w1 w2).
  { intros tid. destruct (decide (tid = src)) as [->|Hs]; [by rewrite Hst1, Hst1'|].
    destruct (decide (tid = dst)) as [->|Hd]; [by rewrite Hdt, Hdt2'|].
    rewrite Htabs by done. by destruct (w_tables w1 !! tid). }
  assert (G2 : rgraph_ok w2).
  { eapply (rgraph_ok_same_nodes w1 w2); try done; try apply F2.
    - intros tid t Ht. destruct (decide (tid = src)) as [->|Hs].
      + exists st1. rewrite Hst1 in Ht. injection Ht as <-. repeat split; try done; intros; congruence.
      + destruct (decide (tid = dst)) as [->|Hd].
        * exists dt2. rewrite Hdt in Ht. injection Ht as <-. repeat split; try done; intros; congruence.
        * exists t. by rewrite Htabs.
    - intros tid t' Ht'. apply lookup_lt_is_Some. rewrite <- Hlen2. by apply lookup_lt_Some in Ht'. }
  assert (C2 : cache_ok w2) by (apply (cache_ok_sim w1); try done; by apply nodes_same_eq).
  set (w3 := set_tbit w2 target).
  assert (Hw3 : w_nodes w3 = w_nodes w2 /\ w_tables w3 = w_tables w2 /\ w_index w3 = w_index w2 /\
                w_pool w3 = w_pool w2 /\ store_ok w3 live).
  { unfold w3, set_tbit. destruct (ent_is_zero target); [done|]. simpl. do 4 (split; [done|]).
    destruct S2 as [A1 A2 A3 A4]. split; [exact A1|exact A2|exact A3|exact A4]. }
  destruct Hw3 as (Hn3 & Ht3 & Hi3 & Hp3 & S3).
  assert (G3 : rgraph_ok w3) by (by apply set_tbit_rok).
  assert (C3 : cache_ok w3) by (by apply cache_ok_set_tbit).
  destruct (cleanup_table_keeps w3 live src S3) as (S4 & Hp4 & Hcells4).
  pose proof (cleanup_table_rok w3 src G3) as G4.
  pose proof (cache_ok_cleanup_table w3 src G3 C3) as C4.
  destruct (cleanup_table_side w3 src) as (A1&A2&A3&A4&A5&A6&A7&A8&A9).
  set (w4 := cleanup_table w3 src) in *.
  assert (Hcells3 : forall e0, ent_cells w3 e0 = ent_cells w2 e0) by (intros; by apply ent_cells_same).
  assert (HN : nodes_same w w4).
  { eapply nodes_same_trans; [apply (ext_r_nodes _ _ E)|].
    eapply nodes_same_trans; [apply (nodes_same_eq w1 w3); congruence|apply cleanup_table_nodes]. }
  assert (Hoth4 : forall tid, tid <> src -> w_tables w4 !! tid = w_tables w3 !! tid).
  { intros tid Hne. unfold w4, cleanup_table. destruct (w_tables w3 !! src) as [tt|]; [|done].
    destruct (w_nodes w3 !! t_node tt); [|done]. destruct (_ || _); [done|]. destruct (_ || _); [done|].
    unfold retire_table. destruct (w_tables w3 !! src) as [t5|]; [|done]. destruct (w_nodes w3 !! t_node t5); [|done].
    simpl. by rewrite list_lookup_insert_ne. }
  exists sn, mask, target, dst, (n_rel dn).
  split; [done|]. split; [done|]. split; [done|]. split; [done|]. split; [done|].
  split.
  { intros id. pose proof (rg_rel _ G1 _ dn Hdn id) as HH. unfold reg_is_rel in *. rewrite (xr_reg _ _ E) in HH. by rewrite <- Hdm. }
  split; [done|]. split; [by split|]. split; [done|]. split; [done|].
  split; [by rewrite A1, Hp3, Hp2, (xr_pool _ _ E)|]. split; [by rewrite A2, Hi3, Hil2, (xr_index _ _ E)|].
  split; [done|]. split.
  { intros e He Hn. rewrite Hcells4, Hcells3, (Hother e He Hn). by apply (ext_r_cells w w1 live). }
  split.
  { intros e He. apply elem_of_list_lookup in He as [i Hi].
    assert (Hsrow : exists srow, t_rows st !! i = Some srow).
    { destruct Hsok as [Hl _ _]. apply lookup_lt_is_Some. apply lookup_lt_Some in Hi. unfold tlen in Hl. lia. }
    destruct Hsrow as [srow Hsrow].
    destruct (so_rows _ _ S src st i e Hst Hi) as [Helive Hloc].
    assert (Hce : ent_cells w e = Some (t_node st, t_target st, srow)).
    { unfold ent_cells. rewrite Hloc. simpl. rewrite Hst. simpl. by rewrite Hsrow. }
    assert (Hce4 : ent_cells w4 e = Some (t_node dt, t_target dt, copy_cells mask (n_ids sn1) srow (n_ids dn) (zero_row dn))).
    { rewrite Hcells4, Hcells3. by apply (Hmoved i e srow). }
    destruct (cleanup_table_nodes w3 src _ dn (eq_trans (f_equal (fun l => l !! t_node dt) (eq_trans Hn3 Hn2)) Hdn))
      as (dn4 & Hdn4 & Hdm4 & Hdi4 & Hdr4).
    change (cleanup_table w3 src) with w4 in Hdn4.
    split; [unfold ent_mask; rewrite Hce4; simpl; rewrite Hdn4; simpl; congruence|].
    split; [unfold ent_rel; rewrite Hce4; simpl; rewrite Hdn4; simpl; congruence|].
    split.
    { unfold ent_target. rewrite Hce4. simpl. rewrite Hdtg. unfold node_has_rel.
      destruct (n_rel dn); [by rewrite bool_decide_eq_true_2 by (by eexists)|].
      by rewrite bool_decide_eq_false_2 by (intros [? ?]; done). }
    intros id Hid Hbit. unfold comp_val. rewrite Hce4, Hce. simpl. rewrite Hdn4, Hsn. simpl.
    unfold col_of. rewrite Hdi4, <- Hsi1. unfold zero_row.
    apply (copied_val (w_tb w) (n_mask sn) mask); try done.
    - rewrite Hsi1. apply (rg_ids _ G _ _ Hsn).
    - rewrite (rg_ids _ G1 _ _ Hdn), (xr_tb _ _ E). by rewrite Hdm.
    - destruct Hsok as [_ Hw _]. rewrite (Hw i srow Hsrow). unfold zero_row. by rewrite replicate_length, Hsi1. }
  split.
  { intros tid t Hs Hd Ht. destruct (xr_tables _ _ E tid t Ht) as (t1 & Ht1 & Hn1 & He1 & _).
    exists t1. rewrite Hoth4 by done. rewrite Ht3, Htabs by done. done. }
  intros t Ht. destruct (xr_tables _ _ E dst t Ht) as (t1 & Ht1 & Hn1 & He1 & _).
  rewrite Hdt in Ht1. injection Ht1 as <-.
  destruct (rg_table _ G dst t Ht) as (nd & Hnd & _). destruct (xr_nodes _ _ E _ nd Hnd) as (nd1 & Hnd1 & Hm1 & _).
  rewrite <- Hn1, Hdn in Hnd1. injection Hnd1 as <-.
  exists dt2, nd. rewrite Hoth4 by done. rewrite Ht3. split; [done|]. split; [by rewrite Hdt2e, He1|]. split; [congruence|]. split; [done|congruence].
Qed.

(** ** The loop over the selected tables *)

(** The effect of the single-entity exchange on one entity, between two worlds. *)
Definition xviews (w w' : world) (add rem : list nat) (rel : option (nat * Entity)) (e : Entity) : Prop :=
  exists om nm ot nt nr,
    ent_mask w e = Some om /\ ent_target w e = Some ot /\ exchange_mask om add rem = Some nm /\
    exchange_target w om nm ot rem rel = Some nt /\ relP w nm nr /\
    ent_mask w' e = Some nm /\ ent_rel w' e = Some nr /\
    ent_target w' e = Some (match nr with Some _ => nt | None => ezero end) /\
    forall id, id < w_tb w -> bit nm id = true -> comp_val w' e id = if bit om id then comp_val w e id else Some 0%Z.

Lemma xviews_transfer w w1 w' add rem rel e :
  xviews w1 w' add rem rel e -> w_reg w1 = w_reg w -> w_tb w1 = w_tb w ->
  ent_mask w1 e = ent_mask w e -> ent_target w1 e = ent_target w e -> (forall id, comp_val w1 e id = comp_val w e id) ->
  xviews w w' add rem rel e.
Proof.
  intros (om & nm & ot & nt & nr & H1 & H2 & H3 & H4 & H5 & H6 & H7 & H8 & H9) Hreg Htb Hm Ht Hv.
  exists om, nm, ot, nt, nr. rewrite <- Hm, <- Ht. split; [done|]. split; [done|]. split; [done|].
  split; [by rewrite xtarget_eq, <- Hreg, <- xtarget_eq|].
  split; [intros id; unfold reg_is_rel; rewrite <- Hreg; apply H5|].
  split; [done|]. split; [done|]. split; [done|].
  intros id Hid Hb. rewrite <- Hv. apply H9; [by rewrite Htb|done].
Qed.

Definition xloop (add rem : list nat) (rel : option (nat * Entity)) :=
  batch_loop (fun w tid => option_map Some (exchange_table w tid add rem rel)).

Lemma tbl_ents_ne w tid t : w_tables w !! tid = Some t -> tbl_ents w tid = t_ents t.
Proof. intros H. unfold tbl_ents. by rewrite H. Qed.

Lemma xloop_ok live add rem rel : (add <> [] \/ rem <> []) -> forall l w segs0 pr w' segs,
  NoDup l -> world_okr w live -> cache_ok w -> Forall (fun id => id < length (w_reg w)) add ->
  (forall tid, tid ∈ l -> tbl_ents w tid <> []) ->
  xloop add rem rel w l segs0 pr = inl (Some (w', segs)) ->
  world_okr w' live /\ cache_ok w' /\ frame w w' /\ w_pool w' = w_pool w /\
  length (w_index w') = length (w_index w) /\ nodes_same w w' /\
  (forall e, e ∈ live -> (forall tid, tid ∈ l -> e ∉ tbl_ents w tid) -> ent_cells w' e = ent_cells w e) /\
  (forall tid, tid ∈ l -> exists t sn, w_tables w !! tid = Some t /\ w_nodes w !! t_node t = Some sn /\
      is_Some (exchange_mask (n_mask sn) add rem) /\
      (forall id, id ∈ add -> bit (n_mask sn) id = false) /\ (forall id, id ∈ rem -> bit (n_mask sn) id = true)) /\
  (forall tid e, tid ∈ l -> e ∈ tbl_ents w tid -> xviews w w' add rem rel e).
Proof.
  intros Hnonempty. induction l as [|tid r IH]; intros w segs0 pr w' segs Hnd K C Hreg Hne H.
  { simpl in H. injection H as <- _. split; [done|]. split; [done|]. split; [apply frame_refl|]. split; [done|]. split; [done|].
    split; [apply nodes_same_refl|]. split; [done|]. split; intros ? Hx; [by apply elem_of_nil in Hx|intros Hy; by apply elem_of_nil in Hy]. }
  apply NoDup_cons in Hnd as [Hnotin Hnd].
  assert (Htne : tbl_ents w tid <> []) by (apply Hne, elem_of_list_here).
  unfold xloop in H. simpl in H.
  assert (Hskip : table_skip w tid = false).
  { unfold table_skip, tbl_ents in *. destruct (w_tables w !! tid) as [t|]; [|done]. apply Nat.eqb_neq. unfold tlen. by destruct (t_ents t). }
  rewrite Hskip in H.
  destruct (exchange_table w tid add rem rel) as [[w1 s]|] eqn:Hx; simpl in H; [|done].
  destruct (w_tables w !! tid) as [st|] eqn:Hst; [|unfold tbl_ents in Htne; by rewrite Hst in Htne].
  rewrite (tbl_ents_ne w tid st Hst) in Htne.
  destruct (exchange_table_rok w live tid st add rem rel w1 s K C Hst Htne Hreg Hnonempty Hx)
    as (sn & mask & target & dst & newrel & Hsn & Hmask & Htarget & Hadd & Hrem & HP & Hsd & K1 & C1 & F1 & Hp1 & Hil1 & HN1 & Hoth1 & Hmoved1 & Htab1 & Hdst1).
  assert (Hreg1 : Forall (fun id => id < length (w_reg w1)) add) by (by rewrite (fr_reg _ _ F1)).
  (* tables of the remaining list in w1 *)
  assert (Hr1 : forall tid', tid' ∈ r -> exists t t1, w_tables w !! tid' = Some t /\ w_tables w1 !! tid' = Some t1 /\ t_node t1 = t_node t /\
            ((tid' <> dst /\ t_ents t1 = t_ents t) \/ (tid' = dst /\ t_ents t1 = t_ents t ++ t_ents st))).
  { intros tid' Hin. assert (tid' <> tid) by (intros ->; done).
    assert (Hex : exists t, w_tables w !! tid' = Some t).
    { specialize (Hne tid' (elem_of_list_further _ _ _ Hin)). unfold tbl_ents in Hne. destruct (w_tables w !! tid'); [by eexists|done]. }
    destruct Hex as [t Ht]. destruct (decide (tid' = dst)) as [->|Hd].
    - destruct (Hdst1 t Ht) as (t1 & nd & Ht1 & He1 & Hn1 & _). exists t, t1. split; [done|]. split; [done|]. split; [done|]. by right.
    - destruct (Htab1 tid' t H0 Hd Ht) as (t1 & Ht1 & He1 & Hn1). exists t, t1. split; [done|]. split; [done|]. split; [done|]. by left. }
  assert (Hne1 : forall tid', tid' ∈ r -> tbl_ents w1 tid' <> []).
  { intros tid' Hin. destruct (Hr1 tid' Hin) as (t & t1 & Ht & Ht1 & _ & Hcase). rewrite (tbl_ents_ne _ _ _ Ht1).
    specialize (Hne tid' (elem_of_list_further _ _ _ Hin)). rewrite (tbl_ents_ne _ _ _ Ht) in Hne.
    destruct Hcase as [[_ ->]|[_ ->]]; [done|]. intros Hx'. apply app_eq_nil in Hx' as [? _]. done. }
  destruct (IH w1 (segs0 ++ [s]) true w' segs Hnd K1 C1 Hreg1 Hne1 H)
    as (K' & C' & F' & Hp' & Hil' & HN' & Hoth' & Hleg' & Hviews').
  (* the destination is not among the remaining tables *)
  assert (Hdst_notin : dst ∉ r).
  { intros Hin. destruct (Hleg' dst Hin) as (t1 & sn1 & Ht1 & Hsn1 & [m2 Hm2] & _).
    destruct (Hr1 dst Hin) as (t & t1' & Ht & Ht1' & Hn1' & _). rewrite Ht1 in Ht1'. injection Ht1' as <-.
    destruct (Hdst1 t Ht) as (t2 & nd & Ht2 & _ & _ & Hndd & Hndm). rewrite Ht1 in Ht2. injection Ht2 as <-.
    destruct (HN1 _ nd Hndd) as (nd1 & Hnd1 & Hm1 & _). rewrite <- Hn1', Hsn1 in Hnd1. injection Hnd1 as <-.
    rewrite Hm1, Hndm in Hm2. rewrite (exchange_mask_twice _ _ _ _ Hmask Hadd Hrem Hnonempty) in Hm2. done. }
  assert (Hents1 : forall tid', tid' ∈ r -> tbl_ents w1 tid' = tbl_ents w tid').
  { intros tid' Hin. destruct (Hr1 tid' Hin) as (t & t1 & Ht & Ht1 & _ & Hcase).
    rewrite (tbl_ents_ne _ _ _ Ht1), (tbl_ents_ne _ _ _ Ht). destruct Hcase as [[_ ->]|[-> _]]; done. }
  (* entities of the remaining tables are untouched by the first step *)
  assert (Hrest_cells : forall tid' e, tid' ∈ r -> e ∈ tbl_ents w tid' -> e ∈ live /\ e ∉ t_ents st).
  { intros tid' e Hin He. destruct (Hr1 tid' Hin) as (t & _ & Ht & _). rewrite (tbl_ents_ne _ _ _ Ht) in He.
    apply elem_of_list_lookup in He as [row Hrow]. destruct (so_rows _ _ (wr_store _ _ K) tid' t row e Ht Hrow) as [Hl Hloc].
    split; [done|]. intros Hmem. apply elem_of_list_lookup in Hmem as [i Hi].
    destruct (so_rows _ _ (wr_store _ _ K) tid st i e Hst Hi) as [_ Hloc2]. rewrite Hloc in Hloc2. injection Hloc2 as -> _. done. }
  split; [done|]. split; [done|]. split; [by eapply frame_trans|]. split; [congruence|]. split; [congruence|].
  split; [by eapply nodes_same_trans|]. split; [|split].
  - intros e He Hnot. rewrite Hoth'.
    + apply Hoth1; [done|]. specialize (Hnot tid (elem_of_list_here _ _)). by rewrite (tbl_ents_ne _ _ _ Hst) in Hnot.
    + done.
    + intros tid' Hin. rewrite (Hents1 tid' Hin). apply Hnot. by apply elem_of_list_further.
  - intros tid' Hin. apply elem_of_cons in Hin as [->|Hin].
    + exists st, sn. split; [done|]. split; [done|]. split; [by eexists|done].
    + destruct (Hleg' tid' Hin) as (t1 & sn1 & Ht1 & Hsn1 & Hm1 & Ha1 & Hr1').
      destruct (Hr1 tid' Hin) as (t & t1' & Ht & Ht1' & Hn1' & _). rewrite Ht1 in Ht1'. injection Ht1' as <-.
      destruct (rg_table _ (wr_graph _ _ K) tid' t Ht) as (nd & Hndd & _). destruct (HN1 _ nd Hndd) as (nd1 & Hnd1 & Hmm & _).
      rewrite <- Hn1', Hsn1 in Hnd1. injection Hnd1 as <-. exists t, nd. rewrite <- Hmm. done.
  - intros tid' e Hin He. apply elem_of_cons in Hin as [->|Hin].
    + rewrite (tbl_ents_ne _ _ _ Hst) in He. destruct (Hmoved1 e He) as (Hm1 & Hr1' & Ht1 & Hv1).
      apply elem_of_list_lookup in He as [i Hi]. destruct (so_rows _ _ (wr_store _ _ K) tid st i e Hst Hi) as [Hlive Hloc].
      assert (Hsrow : exists srow, t_rows st !! i = Some srow).
      { destruct (so_table _ _ (wr_store _ _ K) tid st Hst) as (n0 & _ & [Hl _ _]). apply lookup_lt_is_Some. apply lookup_lt_Some in Hi. unfold tlen in Hl. lia. }
      destruct Hsrow as [srow Hsrow].
      assert (Hce : ent_cells w e = Some (t_node st, t_target st, srow)).
      { unfold ent_cells. rewrite Hloc. simpl. rewrite Hst. simpl. by rewrite Hsrow. }
      (* the entity now sits in dst, which no later step touches *)
      assert (Hkeep : ent_cells w' e = ent_cells w1 e).
      { apply Hoth'; [done|]. intros tid' Hin' Hmem. destruct (Hr1 tid' Hin') as (t & t1 & Ht & Ht1' & _ & Hcase).
        rewrite (tbl_ents_ne _ _ _ Ht1') in Hmem. destruct Hcase as [[Hd He1]|[-> _]]; [|done].
        rewrite He1 in Hmem. apply elem_of_list_lookup in Hmem as [row Hrow].
        destruct (so_rows _ _ (wr_store _ _ K) tid' t row e Ht Hrow) as [_ Hloc2]. rewrite Hloc in Hloc2. injection Hloc2 as <- _. done. }
      destruct (views_same w1 w' live e (wr_store _ _ K1) Hlive HN' Hkeep) as (V1 & V2 & V3 & V4).
      exists (n_mask sn), mask, (t_target st), target, newrel.
      split; [unfold ent_mask; rewrite Hce; simpl; by rewrite Hsn|]. split; [unfold ent_target; by rewrite Hce|].
      split; [done|]. split; [done|]. split; [done|]. split; [congruence|]. split; [congruence|]. split; [congruence|].
      intros id Hid Hb. rewrite V4. by apply Hv1.
    + destruct (Hrest_cells tid' e Hin He) as [Hlive Hnst].
      assert (Hc1 : ent_cells w1 e = ent_cells w e) by (by apply Hoth1).
      destruct (views_same w w1 live e (wr_store _ _ K) Hlive HN1 Hc1) as (V1 & V2 & V3 & V4).
      apply (xviews_transfer w w1 w'); try done; try apply F1.
      apply (Hviews' tid'); [done|]. by rewrite Hents1.
Qed.

(** ** The abstract effect *)
Definition a_map (A : astate) (L : list Entity) (f : aent -> aent) : astate :=
  mkAS (map (fun p => if decide (fst p ∈ L) then (fst p, f (snd p)) else p) (as_ents A))
       (as_live A) (as_issued A) (as_reg A).

Lemma assoc_get_a_map (l : list (Entity * aent)) (L : list Entity) f e :
  assoc_get e (map (fun p => if decide (fst p ∈ L) then (fst p, f (snd p)) else p) l) =
  option_map (fun a => if decide (e ∈ L) then f a else a) (assoc_get e l).
Proof.
  induction l as [|[k a] r IH]; simpl; [done|].
  destruct (decide (k ∈ L)) as [Hk|Hk]; simpl; destruct (ent_eqb e k) eqn:He.
  - apply ent_eqb_eq in He as ->. simpl. by destruct (decide (k ∈ L)).
  - exact IH.
  - apply ent_eqb_eq in He as ->. simpl. by destruct (decide (k ∈ L)).
  - exact IH.
Qed.

Lemma views_of_xviews w w' reg e a add rem rel :
  views w reg e a -> reg = w_reg w -> xviews w w' add rem rel e -> Forall (fun id => id < length reg) add -> w_tb w' = w_tb w ->
  views w' reg e (a_exchange reg a add rem rel).
Proof.
  intros [V1 V2 V3 V4 V5 V6] Hr (om & nm & ot & nt & nr & Hom & Hot & Hxm & Hxt & HP & Hnm & Hnr & Hnt & Hvals) Hadd Htb.
  rewrite Hom in V1. injection V1 as ->. rewrite Hot in V2. injection V2 as ->.
  pose proof (exchange_mask_fold _ _ _ _ Hxm) as Hfold. change (nm = xmask (a_mask a) add rem) in Hfold. subst nm.
  assert (Hbits : forall id, bit (xmask (a_mask a) add rem) id = true -> id < length reg).
  { intros id Hb. rewrite bit_xmask in Hb. apply orb_true_iff in Hb as [Hb|Hb].
    - apply andb_true_iff in Hb as [Hb _]. by apply V5.
    - apply bool_decide_eq_true in Hb. by eapply Forall_lt_in. }
  assert (Harel : arel reg (xmask (a_mask a) add rem) = nr).
  { rewrite Hr. apply arel_relP; [done|]. intros id Hb. rewrite <- Hr. by apply Hbits. }
  split; unfold a_exchange; simpl.
  - done.
  - rewrite Harel, Hnt. rewrite xtarget_eq, <- Hr in Hxt. rewrite Hxt. by destruct nr.
  - intros id Hid Hb. rewrite Htb in Hid. rewrite (Hvals id Hid Hb).
    unfold aval at 1. simpl. rewrite (nlookup_filter (bit (xmask (a_mask a) add rem))), Hb.
    destruct (bit (a_mask a) id) eqn:Hob; [by apply V3|]. f_equal. symmetry. by apply V4.
  - intros id Hb. unfold aval. simpl. by rewrite (nlookup_filter (bit (xmask (a_mask a) add rem))), Hb.
  - exact Hbits.
  - intros Hn. by rewrite Hn.
Qed.

Lemma total_len_ents w tids : total_len w tids = length (table_ents w tids).
Proof.
  unfold total_len, table_ents. induction tids as [|tid r IH]; simpl; [done|].
  rewrite app_length, <- IH. unfold tbl_ents. by destruct (w_tables w !! tid).
Qed.

Lemma table_ents_nonempty w tids e :
  e ∈ table_ents w tids <-> exists tid, tid ∈ nonempty_tables w tids /\ e ∈ tbl_ents w tid.
Proof.
  unfold table_ents. rewrite elem_of_flat_map. split.
  - intros (tid & Hin & He). exists tid. split; [|done]. unfold nonempty_tables. apply elem_of_list_filter. split; [|done].
    unfold table_skip, tbl_ents in *. destruct (w_tables w !! tid) as [t|]; [|by apply elem_of_nil in He].
    apply Nat.eqb_neq. unfold tlen. destruct (t_ents t); [by apply elem_of_nil in He|done].
  - intros (tid & Hin & He). exists tid. split; [|done]. unfold nonempty_tables in Hin. by apply elem_of_list_filter in Hin as [_ ?].
Qed.

(** ** Batch.Add / Remove / Exchange and Relations.ExchangeBatch with an uncached filter *)
Theorem batch_exchange_refines w A f add rem rel w' n evs :
  R w A -> cache_ok w -> Forall (fun id => id < length (as_reg A)) add -> (add <> [] \/ rem <> []) ->
  op_batch_exchange w (FPlain f) add rem rel = (w', Ok (VNat n), evs) ->
  let L := table_ents w (get_tables w f) in
  n = length L /\ NoDup L /\ (forall e, e ∈ L <-> (e ∈ as_live A /\ ent_matches w f e)) /\
  R w' (a_map A L (fun a => a_exchange (as_reg A) a add rem rel)) /\ cache_ok w'.
Proof.
  intros HR C Hadd Hnonempty H L. pose proof HR as [K Hr Hu He].
  destruct (get_tables_exact w (as_live A) f (r2_ok _ _ _ K)) as [HLnd HLmem].
  unfold op_batch_exchange, exchange_batch_nn in H. rewrite Hu in H.
  destruct (negb _) eqn:Htok; [done|].
  assert (Hbody : batch_result w
      (match xloop add rem rel w (nonempty_tables w (get_tables w f)) [] false with
       | inl (Some (w1, segs)) => inl (Some (w1, total_len w (get_tables w f), segs))
       | inl None => inr false
       | inr p => inr p
       end) (fun w1 n segs => ok w1 (VNat n) (ev_batch w1 segs add rem)) = (w', Ok (VNat n), evs)).
  { destruct add, rem; try exact H. destruct Hnonempty; done. }
  clear H. destruct (xloop add rem rel w (nonempty_tables w (get_tables w f)) [] false) as [[[w1 segs]|]|p] eqn:Hloop;
    [|done|by destruct p].
  simpl in Hbody. injection Hbody as <- <- _.
  rewrite Hr in Hadd.
  assert (Hnd : NoDup (nonempty_tables w (get_tables w f))).
  { unfold nonempty_tables. apply NoDup_filter. rewrite get_tables_contrib. by apply (selected_nodup w (as_live A)), K. }
  assert (Hne : forall tid, tid ∈ nonempty_tables w (get_tables w f) -> tbl_ents w tid <> []).
  { intros tid Hin. unfold nonempty_tables in Hin. apply elem_of_list_filter in Hin as [Hs _].
    unfold table_skip, tbl_ents in *. destruct (w_tables w !! tid) as [t|]; [|done]. apply Nat.eqb_neq in Hs. unfold tlen in Hs. by destruct (t_ents t). }
  destruct (xloop_ok (as_live A) add rem rel Hnonempty _ w [] false w1 segs Hnd (r2_ok _ _ _ K) C Hadd Hne Hloop)
    as (K' & C' & F & Hp & Hil & HN & Hoth & _ & Hviews).
  split; [apply total_len_ents|]. split; [done|]. split; [done|]. split; [|done].
  split; unfold a_map; cbn [as_ents as_live as_issued as_reg].
  - destruct K as [_ [frees P] L0]. split; [done|exists frees; by rewrite Hp|by rewrite Hil, Hp].
  - by rewrite (fr_reg _ _ F).
  - unfold is_locked. by rewrite (fr_locks _ _ F).
  - intros e Hin. destruct (He e Hin) as (a & Ha & V).
    pose proof (assoc_get_a_map (as_ents A) L (fun a => a_exchange (as_reg A) a add rem rel) e) as Hag. cbn beta in Hag. rewrite Hag, Ha. simpl.
    destruct (decide (e ∈ L)) as [HL|HL].
    + exists (a_exchange (as_reg A) a add rem rel). split; [done|].
      apply table_ents_nonempty in HL as (tid & Htid & Hmem).
      apply (views_of_xviews w w1); try done; [by eapply Hviews|by rewrite Hr|apply F].
    + exists a. split; [done|].
      assert (Hc : ent_cells w1 e = ent_cells w e).
      { apply Hoth; [done|]. intros tid Htid Hmem. apply HL. apply table_ents_nonempty. by exists tid. }
      destruct (views_same w w1 (as_live A) e (wr_store _ _ (r2_ok _ _ _ K)) Hin HN Hc) as (V1 & V2 & _ & V4).
      apply (views_keep w); try done. apply F.
Qed.

(** The same abstract state is reached by applying the single-entity update to the matching
    entities one by one, in any duplicate-free order. *)
Lemma a_upd_fold_get g (L : list Entity) : forall A e, NoDup L ->
  assoc_get e (as_ents (foldl (fun A e0 => a_upd A e0 g) A L)) =
  option_map (fun a => if decide (e ∈ L) then g a else a) (assoc_get e (as_ents A)).
Proof.
  induction L as [|e0 L IH]; intros A e Hnd; simpl.
  - destruct (assoc_get e (as_ents A)); simpl; [|done]. destruct (decide (e ∈ [])) as [Hx|]; [by apply elem_of_nil in Hx|done].
  - apply NoDup_cons in Hnd as [Hnotin Hnd]. rewrite IH by done.
    unfold a_upd. destruct (assoc_get e0 (as_ents A)) as [a0|] eqn:H0; simpl.
    + rewrite assoc_get_set. destruct (ent_eqb e e0) eqn:Heq.
      * apply ent_eqb_eq in Heq as ->. rewrite H0. simpl.
        destruct (decide (e0 ∈ L)); [done|]. destruct (decide (e0 ∈ e0 :: L)) as [|Hx]; [done|]. exfalso. apply Hx, elem_of_list_here.
      * apply ent_eqb_neq in Heq. destruct (assoc_get e (as_ents A)); simpl; [|done]. f_equal.
        destruct (decide (e ∈ L)) as [Hl|Hl], (decide (e ∈ e0 :: L)) as [Hc|Hc]; try done.
        -- exfalso. apply Hc. by apply elem_of_list_further.
        -- apply elem_of_cons in Hc as [?|?]; done.
    + destruct (assoc_get e (as_ents A)) as [a|] eqn:Ha; simpl; [|done]. f_equal.
      destruct (decide (e ∈ L)) as [Hl|Hl], (decide (e ∈ e0 :: L)) as [Hc|Hc]; try done.
      * exfalso. apply Hc. by apply elem_of_list_further.
      * apply elem_of_cons in Hc as [->|?]; [congruence|done].
Qed.

Corollary batch_equals_singles (A : astate) (L : list Entity) g e :
  NoDup L ->
  assoc_get e (as_ents (a_map A L g)) = assoc_get e (as_ents (foldl (fun A e0 => a_upd A e0 g) A L)).
Proof. intros Hnd. rewrite a_upd_fold_get by done. unfold a_map. simpl. apply assoc_get_a_map. Qed.

(** Non-vacuity: a batch Add over two tables (one of them a relation table). *)
Definition demo_batch_ops : list op :=
  [ORegister 10 false false; ORegister 11 true false; ORegister 12 false false;
   ONew [0]; ONew [0]; OBNew (mkB [0; 1] None (Some 1)) (Some demo_e1); ONew [2]].
Example demo_batch :
  let w := run (world_init 2 2 64) demo_batch_ops in
  fst (step w (OBatchExchange false (FPlain (FAll 1)) [2] [] None)) =
    (fst (fst (step w (OBatchExchange false (FPlain (FAll 1)) [2] [] None))), Ok (VNat 3)) /\
  table_ents w (get_tables w (FAll 1)) = [mkE 1 0; mkE 2 0; mkE 3 0].
Proof. vm_compute. done. Qed.
