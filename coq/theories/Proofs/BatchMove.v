(** * C08: moving ALL entities of one table to another ([move_all], the core of
      exchangeArch / setRelationArch) equals moving them one by one: every moved
      entity gets the cells the single-entity move gives it, everything else stays. *)
From Arche Require Import Model.Base Model.Pool Model.Filter Model.World Model.Ops
  Proofs.Tables Proofs.Bits Proofs.Store Proofs.Graph Proofs.WorldInv
  Proofs.RelGraph Proofs.RelWorld.

(** ** Folds that write distinct positions *)
Lemma foldl_rows_spec {A} (g : nat -> option A -> A) (start : nat) : forall n (rows : list A),
  start + n <= length rows ->
  let rows' := foldl (fun rows i => <[start + i := g i (rows !! (start + i))]> rows) rows (seq 0 n) in
  length rows' = length rows /\
  forall j, rows' !! j = if decide (start <= j < start + n) then Some (g (j - start) (rows !! j)) else rows !! j.
Proof.
  induction n as [|n IH]; intros rows Hlen.
  - simpl. split; [done|]. intros j. destruct (decide _); [lia|done].
  - cbv zeta. rewrite seq_S, foldl_app. simpl.
    destruct (IH rows ltac:(lia)) as [Hl Hj].
    set (r1 := foldl (fun rows i => <[start + i := g i (rows !! (start + i))]> rows) rows (seq 0 n)) in *.
    split; [by rewrite insert_length|].
    intros j. destruct (decide (j = start + n)) as [->|Hne].
    + rewrite list_lookup_insert by lia. destruct (decide _); [|lia].
      rewrite Hj. destruct (decide (start <= start + n < start + n)); [lia|]. do 2 f_equal. lia.
    + rewrite list_lookup_insert_ne by done. rewrite Hj.
      destruct (decide (start <= j < start + n)), (decide (start <= j < start + S n)); try done; lia.
Qed.

Lemma foldl_index_spec (dst start : nat) : forall (es : list Entity) off (idx : list (option (nat * nat))),
  NoDup (map eid es) -> (forall e, e ∈ es -> eid e < length idx) ->
  let idx' := foldl (fun idx '(i, e) => <[eid e := Some (dst, start + i)]> idx) idx (imap (fun i e => (off + i, e)) es) in
  length idx' = length idx /\
  (forall i e, es !! i = Some e -> idx' !! eid e = Some (Some (dst, start + (off + i)))) /\
  (forall k, (forall e, e ∈ es -> eid e <> k) -> idx' !! k = idx !! k).
Proof.
  induction es as [|e es IH]; intros off idx Hnd Hlt; simpl.
  - split; [done|]. split; [done|done].
  - apply NoDup_cons in Hnd as [Hne Hnd].
    assert (Hlt' : forall e0, e0 ∈ es -> eid e0 < length (<[eid e := Some (dst, start + (off + 0))]> idx)).
    { intros e0 H0. rewrite insert_length. apply Hlt. by apply elem_of_list_further. }
    rewrite (imap_ext _ (fun i e0 => (S off + i, e0))) by (intros; simpl; f_equal; lia).
    destruct (IH (S off) _ Hnd Hlt') as (Hl & Hin & Hout).
    split; [by rewrite Hl, insert_length|]. split.
    + intros [|i] e0 Hi; simpl in Hi.
      * injection Hi as <-. rewrite Hout.
        -- rewrite list_lookup_insert by (apply Hlt; apply elem_of_list_here). done.
        -- intros e0 H0 Heq. apply Hne. apply elem_of_list_fmap. by exists e0.
      * rewrite (Hin i e0 Hi). do 3 f_equal. lia.
    + intros k Hk. rewrite Hout by (intros e0 H0; apply Hk; by apply elem_of_list_further).
      apply list_lookup_insert_ne. apply Hk. apply elem_of_list_here.
Qed.

(** ** [tbl_allocn] *)
Lemma tbl_allocn_spec capinc zr t es :
  0 < capinc -> table_ok zr t ->
  let '(t', start) := tbl_allocn capinc zr t es in
  start = tlen t /\ t_ents t' = t_ents t ++ es /\ table_ok zr t' /\
  (exists k, t_rows t' = t_rows t ++ replicate k zr) /\
  (forall i, tlen t <= i -> i < length (t_rows t') -> t_rows t' !! i = Some zr) /\
  tlen t + length es <= length (t_rows t') /\
  t_node t' = t_node t /\ t_target t' = t_target t /\ t_active t' = t_active t /\ t_layouts t' = t_layouts t.
Proof.
  intros Hinc Hok. unfold tbl_allocn.
  destruct (tbl_extend_rows capinc zr t (length es)) as (k & Hr & Hk).
  destruct (tbl_extend_fields capinc zr t (length es)) as (He & Hn & Htg & Ha & Hl).
  pose proof (tbl_extend_ok capinc zr t (length es) Hok) as Hok1.
  set (t1 := tbl_extend capinc zr t (length es)) in *. specialize (Hk Hinc).
  assert (Htail : forall i, tlen t <= i -> i < length (t_rows t1) -> t_rows t1 !! i = Some zr).
  { intros i H1 H2. destruct Hok1 as [_ _ Ht]. apply Ht; [|done]. unfold tlen in *. by rewrite He. }
  split; [done|]. split; [by rewrite He|]. split.
  - destruct Hok1 as [Hc Hw Ht]. split; unfold tlen in *; simpl.
    + rewrite app_length, He, Hr, app_length, replicate_length. lia.
    + exact Hw.
    + intros i H1 H2. apply Htail; [|done]. rewrite app_length, He in H1. lia.
  - split; [by exists k|]. split; [exact Htail|]. split; [|done].
    simpl. rewrite Hr, app_length, replicate_length. lia.
Qed.

(** ** [move_all] *)
Section move_all.
  Context (w : world) (live : list Entity) (src dst : nat) (keep : N).
  Context (st dt : table) (sn dn : node).
  Hypothesis S : store_ok w live.
  Hypothesis Hne : src <> dst.
  Hypothesis Hst : w_tables w !! src = Some st.
  Hypothesis Hdt : w_tables w !! dst = Some dt.
  Hypothesis Hsn : w_nodes w !! t_node st = Some sn.
  Hypothesis Hdn : w_nodes w !! t_node dt = Some dn.
  Hypothesis Hcap : 0 < node_capinc w dn.

  Let w' := fst (move_all w src dst keep).
  Let es := t_ents st.

  Lemma src_ents_facts :
    NoDup (map eid es) /\ (forall e, e ∈ es -> e ∈ live /\ eid e < length (w_index w)) /\
    (forall i e, es !! i = Some e -> loc w e = Some (src, i)).
  Proof.
    assert (Hloc : forall i e, es !! i = Some e -> e ∈ live /\ loc w e = Some (src, i)).
    { intros i e Hi. by apply (so_rows _ _ S src st i e). }
    split; [|split].
    - apply NoDup_alt. intros i j x Hi Hj. rewrite list_lookup_fmap in Hi, Hj.
      destruct (es !! i) as [e1|] eqn:H1; [|done]. destruct (es !! j) as [e2|] eqn:H2; [|done].
      simpl in Hi, Hj. injection Hi as Hi. injection Hj as Hj.
      destruct (Hloc i e1 H1) as [L1 P1]. destruct (Hloc j e2 H2) as [L2 P2].
      assert (e1 = e2) by (eapply live_eid_inj; [exact S|done|done|congruence]). subst e2. congruence.
    - intros e He. apply elem_of_list_lookup in He as [i Hi]. destruct (Hloc i e Hi) as [L P]. split; [done|].
      unfold loc in P. destruct (w_index w !! eid e) eqn:Hx; [by apply lookup_lt_Some in Hx|done].
    - intros i e Hi. by apply Hloc.
  Qed.

  Theorem move_all_ok :
    store_ok w' live /\ w_nodes w' = w_nodes w /\ w_pool w' = w_pool w /\ w_tbits w' = w_tbits w /\
    w_cache w' = w_cache w /\ length (w_tables w') = length (w_tables w) /\ length (w_index w') = length (w_index w) /\
    (forall e, e ∈ live -> e ∉ es -> ent_cells w' e = ent_cells w e) /\
    (forall i e srow, es !! i = Some e -> t_rows st !! i = Some srow ->
       ent_cells w' e = Some (t_node dt, t_target dt, copy_cells keep (n_ids sn) srow (n_ids dn) (zero_row dn))) /\
    (forall tid, tid <> src -> tid <> dst -> w_tables w' !! tid = w_tables w !! tid) /\
    (exists st1, w_tables w' !! src = Some st1 /\ t_ents st1 = [] /\ t_node st1 = t_node st /\
                 t_target st1 = t_target st /\ t_active st1 = t_active st) /\
    (exists dt2, w_tables w' !! dst = Some dt2 /\ t_ents dt2 = t_ents dt ++ es /\ t_node dt2 = t_node dt /\
                 t_target dt2 = t_target dt /\ t_active dt2 = t_active dt) /\
    snd (move_all w src dst keep) = tlen dt.
  Proof.
    destruct src_ents_facts as (Hnd & Hin & Hpos).
    destruct (so_table _ _ S src st Hst) as (n1 & Hn1 & Hoks). rewrite Hsn in Hn1. injection Hn1 as <-.
    destruct (so_table _ _ S dst dt Hdt) as (n2 & Hn2 & Hokd). rewrite Hdn in Hn2. injection Hn2 as <-.
    unfold w', move_all. rewrite Hst, Hdt, Hsn, Hdn.
    pose proof (tbl_allocn_spec (node_capinc w dn) (zero_row dn) dt es Hcap Hokd) as Ha.
    fold es. destruct (tbl_allocn (node_capinc w dn) (zero_row dn) dt es) as [dt1 start].
    destruct Ha as (-> & Hde & Hdok & (k & Hdr) & Hdz & Hdlen & Hdn1 & Hdt1 & Hda & Hdl).
    set (g := fun (i : nat) (o : option (list Z)) =>
                copy_cells keep (n_ids sn) (default [] (t_rows st !! i)) (n_ids dn) (default (zero_row dn) o)).
    assert (Hlen_es : length es = tlen st) by done.
    destruct (foldl_rows_spec g (tlen dt) (tlen st) (t_rows dt1) ltac:(lia)) as [Hrl Hrj].
    set (rows := foldl (fun rows i => <[tlen dt + i := g i (rows !! (tlen dt + i))]> rows) (t_rows dt1) (seq 0 (tlen st))) in *.
    destruct (foldl_index_spec dst (tlen dt) es 0 (w_index w) Hnd (fun e He => proj2 (Hin e He))) as (Hil & Hiin & Hiout).
    set (idx := foldl (fun idx '(i, e) => <[eid e := Some (dst, tlen dt + i)]> idx) (w_index w) (imap (fun i e => (0 + i, e)) es)) in *.
    pose proof (tbl_reset_ok (zero_row sn) st Hoks) as (Hrok & Hre & Hrn & Hrt & Hra).
    set (st1 := tbl_reset (zero_row sn) st) in *.
    set (dt2 := dt1 <| t_rows := rows |>).
    change (foldl _ (t_rows dt1) (seq 0 (tlen st))) with rows.
    change (foldl _ (w_index w) (imap _ (t_ents st))) with idx.
    simpl.
    set (tabs := <[src := st1]> (<[dst := dt2]> (w_tables w))).
    match goal with |- store_ok ?x _ /\ _ => set (w2 := x) end.
    assert (Htl : forall tid, w_tables w2 !! tid = if decide (tid = src) then Some st1 else if decide (tid = dst) then Some dt2 else w_tables w !! tid).
    { intros tid. change (w_tables w2) with tabs. unfold tabs. destruct (decide (tid = src)) as [->|H1].
      - apply list_lookup_insert. rewrite insert_length. by apply lookup_lt_Some in Hst.
      - rewrite list_lookup_insert_ne by done. destruct (decide (tid = dst)) as [->|H2].
        + apply list_lookup_insert. by apply lookup_lt_Some in Hdt.
        + by rewrite list_lookup_insert_ne. }
    (* the index *)
    assert (Hloc_moved : forall i e, es !! i = Some e -> loc w2 e = Some (dst, tlen dt + i)).
    { intros i e Hi. unfold loc. change (w_index w2) with idx. rewrite (Hiin i e Hi). simpl. done. }
    assert (Hloc_other : forall e, e ∈ live -> e ∉ es -> loc w2 e = loc w e).
    { intros e He Hn. unfold loc. change (w_index w2) with idx. rewrite Hiout; [done|]. intros e0 H0 Heq. apply Hn.
      assert (e0 = e) by (eapply live_eid_inj; [exact S|by apply Hin|done|done]). by subst. }
    (* rows of the destination *)
    assert (Hrow_new : forall i srow, i < tlen st -> t_rows st !! i = Some srow ->
              rows !! (tlen dt + i) = Some (copy_cells keep (n_ids sn) srow (n_ids dn) (zero_row dn))).
    { intros i srow Hi Hs. rewrite Hrj. destruct (decide _); [|lia].
      replace (tlen dt + i - tlen dt) with i by lia. unfold g. rewrite Hs. simpl.
      rewrite Hdz by lia. done. }
    assert (Hrow_old : forall j, j < tlen dt -> rows !! j = t_rows dt !! j).
    { intros j Hj. rewrite Hrj. destruct (decide _); [lia|]. rewrite Hdr. apply lookup_app_l. destruct Hokd. lia. }
    assert (Hdt2ok : table_ok (zero_row dn) dt2).
    { destruct Hdok as [Hc Hw Ht]. split; unfold tlen in *; simpl.
      - rewrite Hrl. done.
      - intros j r Hj. rewrite Hrj in Hj. destruct (decide _).
        + injection Hj as <-. unfold g. rewrite copy_cells_length.
          destruct (t_rows dt1 !! j) as [r0|] eqn:Hr0; simpl; [by eapply Hw|done].
        + by eapply Hw.
      - intros j H1 H2. rewrite Hrl in H2. rewrite Hrj. destruct (decide _).
        + rewrite Hde, app_length in H1. lia.
        + by apply Ht. }
    assert (Hdt2 : w_tables w2 !! dst = Some dt2) by (rewrite Htl; destruct (decide (dst = src)); [done|]; by destruct (decide (dst = dst))).
    assert (Hst1 : w_tables w2 !! src = Some st1) by (rewrite Htl; by destruct (decide (src = src))).
    assert (Hnot : forall e tid row t, e ∈ live -> loc w e = Some (tid, row) -> w_tables w !! tid = Some t -> t_ents t !! row = Some e -> tid <> src -> e ∉ es).
    { intros e tid row t He Hl Ht Hr Hs Hmem. apply elem_of_list_lookup in Hmem as [i Hi]. rewrite (Hpos i e Hi) in Hl. congruence. }
    split.
    { (* store_ok *)
      split.
      - apply S.
      - intros e He. destruct (decide (e ∈ es)) as [Hmem|Hnmem].
        + apply elem_of_list_lookup in Hmem as [i Hi]. exists dst, (tlen dt + i), dt2.
          split; [by apply Hloc_moved|]. split; [done|].
          change (t_ents dt2) with (t_ents dt1). rewrite Hde. rewrite lookup_app_r by (unfold tlen; lia).
          by replace (tlen dt + i - length (t_ents dt)) with i by (unfold tlen; lia).
        + destruct (so_loc _ _ S e He) as (tid & row & t & Hl & Ht & Hr).
          assert (tid <> src).
          { intros ->. rewrite Hst in Ht. injection Ht as <-. apply Hnmem. by eapply elem_of_list_lookup_2. }
          exists tid, row. destruct (decide (tid = dst)) as [->|Hd].
          * exists dt2. rewrite Hdt in Ht. injection Ht as <-.
            split; [by rewrite Hloc_other|]. split; [done|].
            change (t_ents dt2) with (t_ents dt1). rewrite Hde. by apply lookup_app_l_Some.
          * exists t. split; [by rewrite Hloc_other|]. split; [|done].
            rewrite Htl. destruct (decide (tid = src)); [done|]. by destruct (decide (tid = dst)).
      - intros tid t row e Ht Hr. rewrite Htl in Ht.
        destruct (decide (tid = src)) as [->|Hs]; [injection Ht as <-; by rewrite Hre in Hr|].
        destruct (decide (tid = dst)) as [->|Hd].
        + injection Ht as <-. change (t_ents dt2) with (t_ents dt1) in Hr. rewrite Hde in Hr. apply lookup_app_Some in Hr as [Hr|[Hge Hr]].
          * destruct (so_rows _ _ S dst dt row e Hdt Hr) as [He Hl]. split; [done|].
            rewrite Hloc_other; [done|done|]. by eapply (Hnot e dst row dt).
          * destruct (Hin e (elem_of_list_lookup_2 _ _ _ Hr)) as [He _]. split; [done|].
            rewrite (Hloc_moved _ e Hr). do 2 f_equal. unfold tlen. lia.
        + destruct (so_rows _ _ S tid t row e Ht Hr) as [He Hl]. split; [done|].
          rewrite Hloc_other; [done|done|]. by eapply (Hnot e tid row t).
      - intros tid t Ht. rewrite Htl in Ht.
        destruct (decide (tid = src)) as [->|Hs]; [injection Ht as <-; exists sn; by rewrite Hrn|].
        destruct (decide (tid = dst)) as [->|Hd]; [injection Ht as <-; exists dn; change (t_node dt2) with (t_node dt1); by rewrite Hdn1|].
        by apply (so_table _ _ S tid). }
    split; [done|]. split; [done|]. split; [done|]. split; [done|].
    split; [change (w_tables w2) with tabs; unfold tabs; by rewrite !insert_length|]. split; [done|].
    split.
    { intros e He Hn. unfold ent_cells. rewrite (Hloc_other e He Hn).
      destruct (so_loc _ _ S e He) as (tid & row & t & Hl & Ht & Hr). rewrite Hl. simpl. rewrite Htl, Ht.
      destruct (decide (tid = src)) as [->|Hs].
      { exfalso. rewrite Hst in Ht. injection Ht as <-. apply Hn. by eapply elem_of_list_lookup_2. }
      destruct (decide (tid = dst)) as [->|Hd]; [|done].
      rewrite Hdt in Ht. injection Ht as <-. simpl. rewrite Hrow_old by (by apply lookup_lt_Some in Hr). by rewrite Hdn1, Hdt1. }
    split.
    { intros i e srow Hi Hs. unfold ent_cells. rewrite (Hloc_moved i e Hi). cbn [mbind option_bind]. rewrite Hdt2. cbn [mbind option_bind].
      change (t_rows dt2) with rows. rewrite (Hrow_new i srow); [|by apply lookup_lt_Some in Hi|done]. cbn [mbind option_bind].
      change (t_node dt2) with (t_node dt1). change (t_target dt2) with (t_target dt1). by rewrite Hdn1, Hdt1. }
    split; [intros tid H1 H2; rewrite Htl; destruct (decide (tid = src)); [done|]; by destruct (decide (tid = dst))|].
    split; [by exists st1|].
    split; [|done].
    exists dt2. split; [done|]. change (t_ents dt2) with (t_ents dt1). change (t_node dt2) with (t_node dt1).
    change (t_target dt2) with (t_target dt1). change (t_active dt2) with (t_active dt1). done.
  Qed.
End move_all.
