(** Bit-set lemmas for the [N] masks of the model. *)
From Arche Require Import Model.Base.

#[global] Arguments bit : simpl never.
#[global] Arguments setb : simpl never.

Lemma bit_setb m i v j : bit (setb m i v) j = if decide (j = i) then v else bit m j.
Proof.
  unfold bit, setb. destruct v; cbv beta iota.
  - rewrite N.setbit_eqb. destruct (decide (j = i)) as [->|Hne].
    + rewrite N.eqb_refl. reflexivity.
    + rewrite (proj2 (N.eqb_neq (N.of_nat i) (N.of_nat j))); [reflexivity|lia].
  - rewrite N.clearbit_eqb. destruct (decide (j = i)) as [->|Hne].
    + rewrite N.eqb_refl. simpl. apply andb_false_r.
    + rewrite (proj2 (N.eqb_neq (N.of_nat i) (N.of_nat j))); [simpl; apply andb_true_r|lia].
Qed.

Lemma bit_setb_eq m i v : bit (setb m i v) i = v.
Proof. rewrite bit_setb. by destruct (decide (i = i)). Qed.
Lemma bit_setb_ne m i v j : j <> i -> bit (setb m i v) j = bit m j.
Proof. intros. rewrite bit_setb. by destruct (decide (j = i)). Qed.

Lemma bit_zero i : bit 0 i = false.
Proof. apply N.bits_0. Qed.

Lemma mask_nonzero_iff m : (m =? 0)%N = false <-> exists i, bit m i = true.
Proof.
  rewrite N.eqb_neq. split.
  - intros Hne. exists (N.to_nat (N.log2 m)). unfold bit. rewrite N2Nat.id. by apply N.bit_log2.
  - intros [i Hi] ->. by rewrite bit_zero in Hi.
Qed.

Lemma mask_ext a b : (forall i, bit a i = bit b i) -> a = b.
Proof.
  intros H. apply N.bits_inj. intros k. specialize (H (N.to_nat k)). unfold bit in H. by rewrite N2Nat.id in H.
Qed.
