(** * C07: the lists kept for registered filters stay equal (as duplicate-free sets) to
      what an uncached evaluation selects, through table creation, re-use, retirement,
      cleanup, entity moves, creation, removal and registration of component types. *)
From Arche Require Import Model.Base Model.Pool Model.Filter Model.World Model.Ops
  Proofs.Tables Proofs.Bits Proofs.Store Proofs.Graph Proofs.WorldInv Proofs.Cursor
  Proofs.RelGraph Proofs.RelWorld Proofs.QueryExact Proofs.GhostBase Proofs.GhostGraph.

(** ** swap-remove is removal up to order *)
Lemma swap_remove_perm {A} (l : list A) i x : l !! i = Some x -> x :: swap_remove i l ≡ₚ l.
Proof.
  intros Hx. assert (Hi : i < length l) by (by apply lookup_lt_Some in Hx).
  assert (Hex : exists l' z, l = l' ++ [z]).
  { destruct l as [|a r _] using rev_ind; [simpl in Hi; lia|]. by exists r, a. }
  destruct Hex as (l' & z & ->). rewrite app_length in Hi. simpl in Hi.
  unfold swap_remove. rewrite app_length. simpl. replace (length l' + 1 - 1) with (length l') by lia.
  destruct (Nat.eqb_spec i (length l')) as [->|Hne].
  - rewrite take_app. rewrite lookup_app_r, Nat.sub_diag in Hx by lia. injection Hx as ->.
    apply Permutation_cons_append.
  - assert (Hlt : i < length l') by lia. rewrite lookup_app_l in Hx by done.
    rewrite lookup_app_r, Nat.sub_diag by lia. simpl.
    rewrite insert_app_l by done. rewrite take_app_alt by (by rewrite insert_length).
    rewrite insert_take_drop by done. rewrite <- (take_drop_middle l' i x Hx) at 3.
    set (A0 := take i l'). set (B0 := drop (S i) l').
    apply Permutation_trans with (x :: z :: A0 ++ B0).
    { f_equiv. symmetry. apply Permutation_middle. }
    rewrite <- app_assoc. simpl. rewrite <- Permutation_middle. f_equiv.
    rewrite (Permutation_app_comm B0 [z]). simpl. apply Permutation_middle.
Qed.

Lemma swap_remove_nodup {A} (l : list A) i : i < length l -> NoDup l -> NoDup (swap_remove i l).
Proof.
  intros Hi Hnd. destruct (lookup_lt_is_Some_2 l i Hi) as [x Hx].
  assert (Hnd' : NoDup (x :: swap_remove i l)) by (by rewrite (swap_remove_perm l i x Hx)).
  by apply NoDup_cons in Hnd' as [_ ?].
Qed.
Lemma swap_remove_mem {A} (l : list A) i x z : l !! i = Some x -> NoDup l -> (z ∈ swap_remove i l <-> z ∈ l /\ z <> x).
Proof.
  intros Hx Hnd. pose proof (swap_remove_perm l i x Hx) as HP.
  assert (Hnd' : NoDup (x :: swap_remove i l)) by (by rewrite HP).
  apply NoDup_cons in Hnd' as [Hnx Hnd'].
  assert (Hiff : z ∈ l <-> z ∈ x :: swap_remove i l) by (by rewrite HP).
  rewrite Hiff, elem_of_cons. split.
  - intros Hz. split; [by right|]. intros ->. done.
  - intros [[->|Hz] Hne]; done.
Qed.

(** ** Worlds that agree on node masks / relations and on table node / target / activity
       select the same tables *)
Definition tabs_sim (w w' : world) : Prop :=
  forall tid, match w_tables w !! tid, w_tables w' !! tid with
              | Some t, Some t' => t_node t' = t_node t /\ t_target t' = t_target t /\ t_active t' = t_active t
              | None, None => True
              | _, _ => False
              end.

Lemma get_tables_sim w w' f tid :
  rgraph_ok w -> rgraph_ok w' -> nodes_same w w' -> tabs_sim w w' ->
  (tid ∈ get_tables w' f <-> tid ∈ get_tables w f).
Proof.
  intros G G' HN HT. rewrite !get_tables_mem by done. specialize (HT tid). split.
  - intros (t' & Ht' & Ha & nd' & Hnd' & Hf & Hc). rewrite Ht' in HT.
    destruct (w_tables w !! tid) as [t|] eqn:Ht; [|done]. destruct HT as (Hn & Htg & Hact).
    exists t. split; [done|]. split; [congruence|].
    destruct (rg_table _ G tid t Ht) as (nd & Hnd & _). destruct (HN _ nd Hnd) as (nd2 & Hnd2 & Hm & _ & Hr).
    rewrite Hn, Hnd2 in Hnd'. injection Hnd' as <-. exists nd. split; [done|]. rewrite <- Hm, <- Hr, <- Htg. done.
  - intros (t & Ht & Ha & nd & Hnd & Hf & Hc). rewrite Ht in HT.
    destruct (w_tables w' !! tid) as [t'|] eqn:Ht'; [|done]. destruct HT as (Hn & Htg & Hact).
    exists t'. split; [done|]. split; [congruence|].
    destruct (HN _ nd Hnd) as (nd2 & Hnd2 & Hm & _ & Hr). exists nd2. rewrite Hn. split; [done|]. rewrite Hm, Hr, Htg. done.
Qed.

Lemma cache_ok_sim w w' :
  rgraph_ok w -> rgraph_ok w' -> nodes_same w w' -> tabs_sim w w' -> w_cache w' = w_cache w ->
  cache_ok w -> cache_ok w'.
Proof.
  intros G G' HN HT Hc C ce Hce. rewrite Hc in Hce. destruct (C ce Hce) as [H1 H2]. split; [done|].
  intros tid. rewrite H2. symmetry. by apply get_tables_sim.
Qed.

Lemma tabs_sim_refl w : tabs_sim w w.
Proof. intros tid. by destruct (w_tables w !! tid). Qed.
Lemma tabs_sim_eq w w' : w_tables w' = w_tables w -> tabs_sim w w'.
Proof. intros H tid. rewrite H. by destruct (w_tables w !! tid). Qed.

(** Node creation and the exchange walk. *)
Lemma cache_ok_ext w w1 :
  rgraph_ok w -> rgraph_ok w1 -> ext w w1 -> w_cache w1 = w_cache w -> w_tables w1 = w_tables w ->
  cache_ok w -> cache_ok w1.
Proof.
  intros G G1 E Hc Ht. apply cache_ok_sim; try done.
  - apply ext_r_nodes. by apply ext_ext_r.
  - by apply tabs_sim_eq.
Qed.

(** ** Creation of a table (fresh or re-used) *)
Lemma create_table_shape w nid nd target fs :
  w_nodes w !! nid = Some nd ->
  let '(w1, tid) := create_table w nid target fs in
  w_cache w1 = map (centry_add nd (if node_has_rel nd then target else ezero) tid) (w_cache w) /\
  (forall tid0, tid0 <> tid -> w_tables w1 !! tid0 = w_tables w !! tid0) /\
  (w_tables w !! tid = None \/ (tid ∈ n_free nd /\ node_has_rel nd = true)).
Proof.
  intros Hnd. unfold create_table. rewrite Hnd. destruct (node_has_rel nd) eqn:Hr.
  - destruct (last (n_free nd)) as [tid|] eqn:Hl.
    + simpl. split; [done|]. split; [intros tid0 Hne; by rewrite list_lookup_alter_ne|].
      right. split; [|done]. apply last_Some in Hl as [l' ->]. apply elem_of_app. right. apply elem_of_list_here.
    + simpl. split; [done|]. split.
      * intros tid0 Hne. destruct (decide (tid0 < length (w_tables w))); [by rewrite lookup_app_l|].
        rewrite lookup_app_r by lia. destruct (tid0 - length (w_tables w)) as [|k] eqn:Hk; [lia|].
        simpl. symmetry. apply lookup_ge_None. lia.
      * left. apply lookup_ge_None. lia.
  - simpl. split; [done|]. split.
    * intros tid0 Hne. destruct (decide (tid0 < length (w_tables w))); [by rewrite lookup_app_l|].
      rewrite lookup_app_r by lia. destruct (tid0 - length (w_tables w)) as [|k] eqn:Hk; [lia|].
      simpl. symmetry. apply lookup_ge_None. lia.
    * left. apply lookup_ge_None. lia.
Qed.

Lemma centry_add_tables nd target tid ce :
  c_filter (centry_add nd target tid ce) = c_filter ce /\
  (c_tables (centry_add nd target tid ce) = c_tables ce ++ [tid] \/ c_tables (centry_add nd target tid ce) = c_tables ce) /\
  (c_tables (centry_add nd target tid ce) = c_tables ce ++ [tid] <->
     fmatches (c_filter ce) (n_mask nd) = true /\
     match ftarget (c_filter ce), n_rel nd with Some t, Some _ => target = t | _, _ => True end) /\
  (c_tables (centry_add nd target tid ce) = c_tables ce <->
     ~ (fmatches (c_filter ce) (n_mask nd) = true /\
        match ftarget (c_filter ce), n_rel nd with Some t, Some _ => target = t | _, _ => True end)).
Proof.
  assert (Hneq : forall l : list nat, l ++ [tid] <> l).
  { intros l H. apply (f_equal length) in H. rewrite app_length in H. simpl in H. lia. }
  assert (Hneq2 : forall l : list nat, l <> l ++ [tid]) by (intros l H; symmetry in H; by apply Hneq in H).
  unfold centry_add. destruct (fmatches (c_filter ce) (n_mask nd)) eqn:Hf.
  2:{ split; [done|]. split; [by right|]. split; [split; [intros H; by apply Hneq2 in H|intros [? _]; done]|]. split; [intros _ [? _]; done|done]. }
  unfold node_has_rel. destruct (n_rel nd) as [r|] eqn:Hr.
  - rewrite bool_decide_eq_true_2 by (by eexists). destruct (ftarget (c_filter ce)) as [t|].
    + destruct (ent_eqb t target) eqn:He.
      * apply ent_eqb_eq in He as ->. simpl. split; [done|]. split; [by left|]. split; [done|].
        split; [intros H; by apply Hneq in H|intros H; exfalso; by apply H].
      * apply ent_eqb_neq in He. split; [done|]. split; [by right|]. split.
        -- split; [intros H; by apply Hneq2 in H|intros [_ ->]; done].
        -- split; [intros _ [_ ->]; done|done].
    + simpl. split; [done|]. split; [by left|]. split; [done|].
      split; [intros H; by apply Hneq in H|intros H; exfalso; by apply H].
  - rewrite bool_decide_eq_false_2 by (intros [? ?]; done). simpl. split; [done|]. split; [by left|].
    split; [split; [intros _; split; [done|by destruct (ftarget _)]|done]|].
    split; [intros H; by apply Hneq in H|intros H; exfalso; apply H; split; [done|by destruct (ftarget _)]].
Qed.

Lemma cache_ok_create w nid nd target fs :
  rgraph_ok w -> cache_ok w -> w_nodes w !! nid = Some nd -> node_get_table nd target = None ->
  cache_ok (fst (create_table w nid target fs)).
Proof.
  intros G C Hnd Hget.
  pose proof (create_table_rok w nid nd target fs G Hnd Hget) as Hrok.
  pose proof (create_table_shape w nid nd target fs Hnd) as Hshape.
  destruct (create_table w nid target fs) as [w1 tid]. simpl.
  destruct Hrok as (E & G1 & t & nd' & Ht & Htn & _ & Hta & Htt & Hnd' & Hm' & Hr' & _).
  destruct Hshape as (Hcache & Hother & Hfresh).
  set (tgt' := if node_has_rel nd then target else ezero) in *.
  (* the new table was not selected before *)
  assert (F0 : forall f, tid ∉ get_tables w f).
  { intros f Hin. apply (get_tables_mem w f tid G) in Hin as (t0 & Ht0 & Ha0 & _).
    destruct Hfresh as [Hn|[Hfree _]]; [congruence|].
    destruct (rg_free _ G nid nd Hnd) as [_ Hall]. destruct (Hall tid Hfree) as (t1 & Ht1 & _ & Ha1). congruence. }
  (* other tables are selected as before *)
  assert (F1 : forall f tid0, tid0 <> tid -> (tid0 ∈ get_tables w1 f <-> tid0 ∈ get_tables w f)).
  { intros f tid0 Hne. rewrite !get_tables_mem by done. rewrite (Hother tid0 Hne). split.
    - intros (t0 & Ht0 & Ha0 & n0' & Hn0' & Hf & Hc). exists t0. split; [done|]. split; [done|].
      destruct (rg_table _ G tid0 t0 Ht0) as (n0 & Hn0 & _). destruct (xr_nodes _ _ E _ n0 Hn0) as (n2 & Hn2 & Hm & _ & Hr).
      rewrite Hn2 in Hn0'. injection Hn0' as <-. exists n0. split; [done|]. by rewrite <- Hm, <- Hr.
    - intros (t0 & Ht0 & Ha0 & n0 & Hn0 & Hf & Hc). exists t0. split; [done|]. split; [done|].
      destruct (xr_nodes _ _ E _ n0 Hn0) as (n2 & Hn2 & Hm & _ & Hr). exists n2. split; [done|]. by rewrite Hm, Hr. }
  (* the new table is selected iff the entry accepts it *)
  assert (F2 : forall f, tid ∈ get_tables w1 f <->
            (fmatches f (n_mask nd) = true /\ match ftarget f, n_rel nd with Some tg, Some _ => tgt' = tg | _, _ => True end)).
  { intros f. rewrite get_tables_mem by done. split.
    - intros (t0 & Ht0 & _ & n0 & Hn0 & Hf & Hc). rewrite Ht in Ht0. injection Ht0 as <-.
      rewrite Htn, Hnd' in Hn0. injection Hn0 as <-. rewrite Hm', Hr', Htt in *. done.
    - intros (Hf & Hc). exists t. split; [done|]. split; [done|]. exists nd'. rewrite Htn. split; [done|]. rewrite Hm', Hr', Htt. done. }
  intros ce' Hce'. rewrite Hcache in Hce'. apply elem_of_list_fmap in Hce' as (ce & -> & Hce).
  destruct (C ce Hce) as [Hnodup Hmem].
  destruct (centry_add_tables nd tgt' tid ce) as (Hfil & Hcases & Happ & Hsame). rewrite Hfil.
  destruct Hcases as [Heq|Heq]; rewrite Heq.
  - pose proof (proj1 Happ Heq) as Hcond. split.
    + apply NoDup_app. split; [done|]. split; [|apply NoDup_singleton].
      intros x Hx Hx2. apply elem_of_list_singleton in Hx2 as ->. apply Hmem in Hx. by apply F0 in Hx.
    + intros tid0. rewrite elem_of_app, elem_of_list_singleton. destruct (decide (tid0 = tid)) as [->|Hne].
      * split; [intros _; by apply F2|intros _; by right].
      * rewrite F1 by done. rewrite <- Hmem. split; [intros [?|?]; done|intros ?; by left].
  - pose proof (proj1 Hsame Heq) as Hcond. split; [done|].
    intros tid0. destruct (decide (tid0 = tid)) as [->|Hne].
    + split; [intros Hx; apply Hmem in Hx; by apply F0 in Hx|intros Hx; apply F2 in Hx; done].
    + rewrite F1 by done. apply Hmem.
Qed.

(** ** Retirement *)
Lemma cache_ok_retire_gen w tid t nd r :
  rgraph_ok w -> cache_ok w -> w_tables w !! tid = Some t -> w_nodes w !! t_node t = Some nd ->
  n_rel nd = Some r -> t_active t = true -> cache_ok (retire_table w tid).
Proof.
  intros G C Ht Hnd Hrel Hact.
  pose proof (retire_table_rok_gen w tid t nd r G Ht Hnd Hrel Hact) as G'.
  pose proof (retire_table_nodes w tid) as HN.
  assert (Hshape : w_cache (retire_table w tid) = map (centry_remove tid) (w_cache w) /\
                   (forall tid0, tid0 <> tid -> w_tables (retire_table w tid) !! tid0 = w_tables w !! tid0) /\
                   exists t', w_tables (retire_table w tid) !! tid = Some t' /\ t_active t' = false).
  { unfold retire_table. rewrite Ht, Hnd. simpl. split; [done|]. split.
    - intros tid0 Hne. by rewrite list_lookup_insert_ne.
    - eexists. split; [apply list_lookup_insert; by apply lookup_lt_Some in Ht|done]. }
  destruct Hshape as (Hcache & Hother & t' & Ht' & Ha').
  set (w' := retire_table w tid) in *.
  assert (F0 : forall f, tid ∉ get_tables w' f).
  { intros f Hin. apply (get_tables_mem w' f tid G') in Hin as (t0 & Ht0 & Ha0 & _). congruence. }
  assert (F1 : forall f tid0, tid0 <> tid -> (tid0 ∈ get_tables w' f <-> tid0 ∈ get_tables w f)).
  { intros f tid0 Hne. rewrite !get_tables_mem by done. rewrite (Hother tid0 Hne). split.
    - intros (t0 & Ht0 & Ha0 & n0' & Hn0' & Hf & Hc). exists t0. split; [done|]. split; [done|].
      destruct (rg_table _ G tid0 t0 Ht0) as (n0 & Hn0 & _). destruct (HN _ n0 Hn0) as (n2 & Hn2 & Hm & _ & Hr).
      rewrite Hn2 in Hn0'. injection Hn0' as <-. exists n0. split; [done|]. by rewrite <- Hm, <- Hr.
    - intros (t0 & Ht0 & Ha0 & n0 & Hn0 & Hf & Hc). exists t0. split; [done|]. split; [done|].
      destruct (HN _ n0 Hn0) as (n2 & Hn2 & Hm & _ & Hr). exists n2. split; [done|]. by rewrite Hm, Hr. }
  intros ce' Hce'. rewrite Hcache in Hce'. apply elem_of_list_fmap in Hce' as (ce & -> & Hce).
  destruct (C ce Hce) as [Hnodup Hmem]. unfold centry_remove.
  destruct (find_index (Nat.eqb tid) (c_tables ce)) as [i|] eqn:Hfi.
  - apply find_index_Some_lookup in Hfi as (y & Hy & Hey). apply Nat.eqb_eq in Hey. subst y. simpl.
    split; [apply swap_remove_nodup; [by apply lookup_lt_Some in Hy|done]|].
    intros tid0. rewrite (swap_remove_mem _ i tid tid0 Hy Hnodup). destruct (decide (tid0 = tid)) as [->|Hne].
    + split; [intros [_ ?]; done|intros Hx; by apply F0 in Hx].
    + rewrite F1 by done. rewrite <- Hmem. split; [by intros [? _]|done].
  - apply find_index_None_notin in Hfi. split; [done|]. intros tid0. destruct (decide (tid0 = tid)) as [->|Hne].
    + split; [done|intros Hx; by apply F0 in Hx].
    + rewrite F1 by done. apply Hmem.
Qed.

Lemma cache_ok_retire w tid t nd r :
  rgraph_ok w -> cache_ok w -> w_tables w !! tid = Some t -> w_nodes w !! t_node t = Some nd ->
  n_rel nd = Some r -> t_active t = true -> tlen t = 0 -> cache_ok (retire_table w tid).
Proof. intros G C Ht Hnd Hrel Hact _. by eapply cache_ok_retire_gen. Qed.

Lemma cache_ok_cleanup_table w tid : rgraph_ok w -> cache_ok w -> cache_ok (cleanup_table w tid).
Proof.
  intros G C. unfold cleanup_table. destruct (w_tables w !! tid) as [t|] eqn:Ht; [|done].
  destruct (w_nodes w !! t_node t) as [nd|] eqn:Hnd; [|done].
  destruct (0 <? tlen t) eqn:Hl; [done|]. destruct (node_has_rel nd) eqn:Hr; [|done].
  destruct (t_active t) eqn:Ha; [|done]. simpl.
  destruct (ent_is_zero (t_target t) || pool_alive (w_pool w) (t_target t)); [done|].
  apply node_has_rel_true in Hr as [r Hr]. apply Nat.ltb_ge in Hl.
  eapply cache_ok_retire; try done. lia.
Qed.

Lemma cache_ok_cleanup_tables_for w target : rgraph_ok w -> cache_ok w -> cache_ok (cleanup_tables_for w target).
Proof.
  unfold cleanup_tables_for. generalize (seq 0 (length (w_nodes w))). intros l. revert w.
  induction l as [|nid l IH]; intros w G C; simpl; [done|].
  assert (Hstep : forall w2, w2 = match w_nodes w !! nid with
        | Some nd => match assoc_get target (n_tmap nd) with
                     | Some tid => match w_tables w !! tid with Some t => if tlen t =? 0 then retire_table w tid else w | None => w end
                     | None => w end
        | None => w end -> rgraph_ok w2 /\ cache_ok w2).
  { intros w2 ->. destruct (w_nodes w !! nid) as [nd|] eqn:Hnd; [|done].
    destruct (assoc_get target (n_tmap nd)) as [tid|] eqn:Hg; [|done].
    destruct (rg_tmap _ G nid nd target tid Hnd Hg) as (t & Ht & Htn & Htt & Hta). rewrite Ht.
    destruct (tlen t =? 0) eqn:Hl; [|done]. apply Nat.eqb_eq in Hl.
    destruct (n_rel nd) as [r|] eqn:Hr; [|destruct (rg_norel _ G nid nd Hnd Hr) as [Hm _]; by rewrite Hm in Hg].
    rewrite <- Htn in Hnd. split; [by eapply retire_table_rok|by eapply cache_ok_retire]. }
  destruct (Hstep _ eq_refl) as [G2 C2]. by apply IH.
Qed.

(** ** The destination table of an exchange *)
Lemma cache_ok_foc w src add rem target st sn mask w1 dst :
  rgraph_ok w -> cache_ok w -> w_tables w !! src = Some st -> w_nodes w !! t_node st = Some sn ->
  exchange_mask (n_mask sn) add rem = Some mask ->
  Forall (fun id => id < length (w_reg w)) add ->
  find_or_create_table w src add rem target = Some (w1, dst) -> cache_ok w1.
Proof.
  intros G C Hst Hsn Hmask Hreg H. unfold find_or_create_table in H. rewrite Hst, Hsn in H.
  unfold exchange_mask in Hmask. destruct (exmask_rem (n_mask sn) rem) as [m1'|] eqn:Hrem; [|done]. simpl in Hmask.
  pose proof (walk_rem_rok rem w (n_mask sn) (n_rel sn) m1' G (rg_rel _ G _ _ Hsn) (fun id => rg_bits _ G _ _ id Hsn)
                (ex_intro _ _ (ex_intro _ sn (conj Hsn eq_refl))) Hrem) as H1.
  destruct (walk_rem w (n_mask sn) (n_rel sn) rem) as [[wa m1] r1].
  destruct H1 as (E1 & G1 & Hc1 & Ht1 & HP1 & -> & Hn1 & Hb1).
  assert (Ca : cache_ok wa) by (by eapply (cache_ok_ext w wa)).
  destruct (walk_add wa (n_mask sn) m1' r1 add) as [[[wb m2] r2]|] eqn:Hadd; [|done].
  assert (Hb1' : forall id, bit m1' id = true -> id < length (w_reg wa)) by (by rewrite (ex_reg _ _ E1)).
  assert (Hreg1 : Forall (fun id => id < length (w_reg wa)) add) by (by rewrite (ex_reg _ _ E1)).
  destruct (walk_add_rok add wa (n_mask sn) m1' r1 wb m2 r2 G1 HP1 Hb1' Hn1 Hreg1 Hadd) as (E2 & G2 & Hc2 & Ht2 & HP2 & Hm2 & Hn2).
  assert (Cb : cache_ok wb) by (by eapply (cache_ok_ext wa wb)).
  destruct (find_node wb m2) as [nid|]; [|done]. destruct (w_nodes wb !! nid) as [nd|] eqn:Hnd; [|done].
  destruct (node_get_table nd target) as [tid|] eqn:Hget.
  - by injection H as <- _.
  - pose proof (cache_ok_create wb nid nd target true G2 Cb Hnd Hget) as Hc.
    destruct (create_table wb nid target true) as [wc tid]. by injection H as <- _.
Qed.

(** ** Moves *)
Lemma move_graphs w1 live e src row dst keep st dt sn1 dn :
  store_ok w1 live -> rgraph_ok w1 -> e ∈ live -> loc w1 e = Some (src, row) -> src <> dst ->
  w_tables w1 !! src = Some st -> w_tables w1 !! dst = Some dt ->
  w_nodes w1 !! t_node st = Some sn1 -> w_nodes w1 !! t_node dt = Some dn -> t_active dt = true ->
  let w2 := move_entity w1 e src row dst keep in
  rgraph_ok w2 /\ tabs_sim w1 w2 /\ w_nodes w2 = w_nodes w1 /\ w_cache w2 = w_cache w1.
Proof.
  intros S1 G1 Hlive Hloc1 Hsd Hst1 Hdt Hsn1 Hdn Hdact.
  assert (Hcap : 0 < node_capinc w1 dn).
  { unfold node_capinc. destruct (rg_capinc _ G1). by destruct (node_has_rel dn). }
  destruct (move_entity_ok w1 live e src row dst keep st dt sn1 dn S1 Hlive Hloc1 Hsd Hst1 Hdt Hsn1 Hdn Hcap)
    as (S2 & Hn2 & Hp2 & Htb2 & Hc2 & Hlen2 & Hother & (srow & Hsrow & Hcells) & Htabs &
        (st1 & Hst1' & _ & Hst1n & Hst1t & Hst1a & _) & (dt2 & Hdt2' & _ & Hdt2n & Hdt2t & Hdt2a & _)).
  intros w2. fold w2 in S2, Hn2, Hp2, Htb2, Hc2, Hlen2, Hother, Hcells, Htabs, Hst1', Hdt2'.
  assert (Hstne : t_ents st <> []).
  { destruct (so_loc _ _ S1 e Hlive) as (tid & r & t & Hl & Ht & Hr). rewrite Hloc1 in Hl. injection Hl as <- <-.
    rewrite Hst1 in Ht. injection Ht as <-. intros Hn. by rewrite Hn in Hr. }
  assert (Hw2f : w_tb w2 = w_tb w1 /\ w_capinc w2 = w_capinc w1 /\ w_relcapinc w2 = w_relcapinc w1 /\ w_reg w2 = w_reg w1).
  { unfold w2, move_entity. rewrite Hst1, Hdt, Hsn1, Hdn. destruct (tbl_alloc _ _ _ _). destruct (tbl_remove _ _ _) as [st1x sw]. done. }
  destruct Hw2f as (Hw2tb & Hw2c & Hw2rc & Hw2reg).
  assert (HT : tabs_sim w1 w2).
  { intros tid. destruct (decide (tid = src)) as [->|Hs]; [by rewrite Hst1, Hst1'|].
    destruct (decide (tid = dst)) as [->|Hd]; [by rewrite Hdt, Hdt2'|].
    rewrite Htabs by done. by destruct (w_tables w1 !! tid). }
  split; [|done].
  eapply (rgraph_ok_same_nodes w1 w2); try done.
  - intros tid t Ht. destruct (decide (tid = src)) as [->|Hs].
    + exists st1. rewrite Hst1 in Ht. injection Ht as <-. repeat split; try done; intros; congruence.
    + destruct (decide (tid = dst)) as [->|Hd].
      * exists dt2. rewrite Hdt in Ht. injection Ht as <-. repeat split; try done; intros; congruence.
      * exists t. by rewrite Htabs.
  - intros tid t' Ht'. apply lookup_lt_is_Some. rewrite <- Hlen2. by apply lookup_lt_Some in Ht'.
Qed.

Lemma cache_ok_set_tbit w e : cache_ok w -> cache_ok (set_tbit w e).
Proof. unfold set_tbit. by destruct (ent_is_zero e). Qed.

Lemma cache_ok_move_cleanup w1 live e src row dst keep target st dt sn1 dn :
  store_ok w1 live -> rgraph_ok w1 -> cache_ok w1 -> e ∈ live -> loc w1 e = Some (src, row) -> src <> dst ->
  w_tables w1 !! src = Some st -> w_tables w1 !! dst = Some dt ->
  w_nodes w1 !! t_node st = Some sn1 -> w_nodes w1 !! t_node dt = Some dn -> t_active dt = true ->
  cache_ok (cleanup_table (set_tbit (move_entity w1 e src row dst keep) target) src).
Proof.
  intros S1 G1 C1 Hlive Hloc1 Hsd Hst1 Hdt Hsn1 Hdn Hdact.
  destruct (move_graphs w1 live e src row dst keep st dt sn1 dn S1 G1 Hlive Hloc1 Hsd Hst1 Hdt Hsn1 Hdn Hdact) as (G2 & HT & Hn2 & Hc2).
  apply cache_ok_cleanup_table; [by apply set_tbit_rok|]. apply cache_ok_set_tbit.
  apply (cache_ok_sim w1); try done. by apply nodes_same_eq.
Qed.

(** ** Operations *)
Lemma exchange_nn_decomp w live e add rem rel w' x :
  store_ok w live -> e ∈ live -> exchange_nn w e add rem rel = Some (w', Some x) ->
  exists src row st sn mask target w1 dst,
    loc w e = Some (src, row) /\ w_tables w !! src = Some st /\ t_ents st !! row = Some e /\
    w_nodes w !! t_node st = Some sn /\
    exchange_mask (n_mask sn) add rem = Some mask /\
    find_or_create_table w src add rem target = Some (w1, dst) /\
    w' = cleanup_table (set_tbit (move_entity w1 e src row dst mask) target) src.
Proof.
  intros S Hlive H. unfold exchange_nn in H.
  destruct (is_locked w); [done|]. destruct (chk_alive w e) as [[]|]; try done. simpl in H.
  destruct (negb _); [done|].
  destruct (so_loc _ _ S e Hlive) as (src & row & st & Hloc & Hst & Hrow).
  destruct (so_table _ _ S src st Hst) as (sn & Hsn & Hsok).
  exists src, row, st, sn. rewrite Hloc, Hst, Hsn in H.
  assert (Hmain : match exchange_mask (n_mask sn) add rem with
                  | Some mask =>
                      match exchange_target w (n_mask sn) mask (t_target st) rem rel with
                      | Some target =>
                          match find_or_create_table w src add rem target with
                          | Some (w1, dst) =>
                              Some (cleanup_table (set_tbit (move_entity w1 e src row dst mask) target) src,
                                    Some (mkX dst (n_mask sn) (t_target st) (n_rel sn)))
                          | None => None
                          end
                      | None => None
                      end
                  | None => None
                  end = Some (w', Some x)).
  { destruct add, rem; try exact H. by destruct (bool_decide _). }
  clear H. destruct (exchange_mask (n_mask sn) add rem) as [mask|]; [|done].
  destruct (exchange_target w (n_mask sn) mask (t_target st) rem rel) as [target|]; [|done].
  destruct (find_or_create_table w src add rem target) as [[w1 dst]|] eqn:Hfoc; [|done].
  injection Hmain as <- _. exists mask, target, w1, dst. done.
Qed.

(** Structure of a successful exchange: source and destination differ, the destination
    is an active table of the node with the exchange mask. *)
Lemma exchange_nn_struct w live e add rem rel w' x :
  world_okr w live -> e ∈ live -> Forall (fun id => id < length (w_reg w)) add ->
  exchange_nn w e add rem rel = Some (w', Some x) ->
  exists src row st mask target w1 dst dt sn1 dn,
    w' = cleanup_table (set_tbit (move_entity w1 e src row dst mask) target) src /\
    store_ok w1 live /\ rgraph_ok w1 /\ (cache_ok w -> cache_ok w1) /\
    loc w1 e = Some (src, row) /\ src <> dst /\
    w_tables w1 !! src = Some st /\ w_tables w1 !! dst = Some dt /\
    w_nodes w1 !! t_node st = Some sn1 /\ w_nodes w1 !! t_node dt = Some dn /\ t_active dt = true.
Proof.
  intros [S G] Hlive Hreg H.
  destruct (exchange_nn_decomp w live e add rem rel w' x S Hlive H)
    as (src & row & st & sn & mask & target & w1 & dst & Hloc & Hst & Hrow & Hsn & Hmask & Hfoc & ->).
  destruct (find_or_create_table_rok w src add rem target st sn mask w1 dst G Hst Hsn Hmask Hreg Hfoc)
    as (E & G1 & dt & dn & Hdt & Hdn & Hdm & Hdact & Hdtg).
  assert (S1 : store_ok w1 live) by (by eapply ext_r_store_ok).
  assert (Hstne : t_ents st <> []) by (intros Hn; by rewrite Hn in Hrow).
  assert (Hst1 : w_tables w1 !! src = Some st).
  { destruct (xr_tables _ _ E src st Hst) as (t' & Ht' & _ & _ & _ & _ & Q). by rewrite (Q Hstne) in Ht'. }
  destruct (xr_nodes _ _ E _ sn Hsn) as (sn1 & Hsn1 & Hsm1 & Hsi1 & Hsr1).
  pose proof (exchange_mask_fold _ _ _ _ Hmask) as Hmf.
  assert (Hnonempty : add <> [] \/ rem <> []).
  { destruct add, rem; try ((by left) || (by right)). exfalso. unfold exchange_nn in H.
    destruct (is_locked w); [done|]. destruct (chk_alive w e) as [[]|]; try done. destruct (negb _); [done|]. by destruct (bool_decide _). }
  assert (Hneq : mask <> n_mask sn).
  { unfold exchange_mask in Hmask. destruct (exmask_rem (n_mask sn) rem) as [m1|] eqn:Hr; [|done]. simpl in Hmask.
    pose proof (exmask_rem_present _ _ _ Hr) as Hpres.
    assert (Hstart : forall id, id ∈ add -> bit (n_mask sn) id = false).
    { unfold find_or_create_table in Hfoc. rewrite Hst, Hsn in Hfoc.
      destruct (walk_rem w (n_mask sn) (n_rel sn) rem) as [[wa ma] ra].
      destruct (walk_add wa (n_mask sn) ma ra add) as [r|] eqn:Hwa; [|done]. by eapply walk_add_start. }
    intros Heq. destruct add as [|a add'].
    - destruct rem as [|r0 rem']; [destruct Hnonempty; done|].
      assert (Hb : bit mask r0 = false).
      { rewrite Hmf, bit_fold_set, bit_fold_clear.
        rewrite (bool_decide_eq_false_2 (r0 ∉ r0 :: rem')) by (intros Hx; apply Hx; apply elem_of_cons; by left).
        rewrite (bool_decide_eq_false_2 (r0 ∈ [])) by (intros Hx; by apply elem_of_nil in Hx).
        by rewrite andb_false_r. }
      rewrite Heq, (Hpres r0) in Hb; [done|apply elem_of_cons; by left].
    - assert (Hb : bit mask a = true).
      { rewrite Hmf, bit_fold_set, bool_decide_eq_true_2; [apply orb_true_r|apply elem_of_cons; by left]. }
      rewrite Heq, (Hstart a) in Hb; [done|apply elem_of_cons; by left]. }
  assert (Hsd : src <> dst).
  { intros <-. rewrite Hst1 in Hdt. injection Hdt as <-. rewrite Hsn1 in Hdn. injection Hdn as <-. congruence. }
  exists src, row, st, mask, target, w1, dst, dt, sn1, dn.
  split; [done|]. split; [done|]. split; [done|]. split.
  { intros C. by eapply (cache_ok_foc w src add rem target st sn mask w1 dst). }
  split; [by rewrite (ext_r_loc _ _ _ E)|]. done.
Qed.

Lemma cache_ok_exchange w live e add rem rel w' x :
  world_okr w live -> cache_ok w -> e ∈ live -> Forall (fun id => id < length (w_reg w)) add ->
  exchange_nn w e add rem rel = Some (w', Some x) -> cache_ok w'.
Proof.
  intros K C Hlive Hreg H.
  destruct (exchange_nn_struct w live e add rem rel w' x K Hlive Hreg H)
    as (src & row & st & mask & target & w1 & dst & dt & sn1 & dn & -> & S1 & G1 & HC & Hloc1 & Hsd & Hst1 & Hdt & Hsn1 & Hdn & Hact).
  by eapply (cache_ok_move_cleanup w1 live); eauto.
Qed.

Lemma cache_ok_set_relation w live e rid target w' evs :
  world_okr w live -> cache_ok w -> e ∈ live ->
  op_set_relation w e rid target = (w', Ok VUnit, evs) -> cache_ok w'.
Proof.
  intros [S G] C Hlive H. unfold op_set_relation in H.
  destruct (is_locked w); [done|]. destruct (chk_alive w e) as [[]|] eqn:Hal; try done.
  destruct (negb (target_ok w target)); [done|].
  destruct (so_loc _ _ S e Hlive) as (src & row & st & Hloc & Hst & Hrow).
  destruct (so_table _ _ S src st Hst) as (sn & Hsn & Hsok).
  unfold ent_table in H. rewrite Hal, Hloc, Hst, Hsn in H.
  destruct (negb (check_relation w src rid)) eqn:Hchk; [done|]. apply negb_false_iff in Hchk.
  unfold check_relation in Hchk. rewrite Hst, Hsn in Hchk.
  destruct (n_rel sn) as [r|] eqn:Hrel; [|done]. apply Nat.eqb_eq in Hchk as ->.
  destruct (ent_eqb (t_target st) target) eqn:Heq; [by injection H as <- _|].
  apply ent_eqb_neq in Heq.
  assert (Hstne : t_ents st <> []) by (intros Hn; by rewrite Hn in Hrow).
  assert (Hdst : exists w1 dst dt dn, (match node_get_table sn target with
                            | Some tid => (w, tid)
                            | None => create_table w (t_node st) target true
                            end) = (w1, dst) /\ ext_r w w1 /\ rgraph_ok w1 /\ cache_ok w1 /\
            w_tables w1 !! dst = Some dt /\ t_node dt = t_node st /\ t_target dt = target /\ t_active dt = true /\
            w_nodes w1 !! t_node st = Some dn).
  { destruct (node_get_table sn target) as [tid|] eqn:Hget.
    - unfold node_get_table in Hget. rewrite (proj2 (node_has_rel_true sn) (ex_intro _ rid Hrel)) in Hget.
      destruct (rg_tmap _ G _ sn target tid Hsn Hget) as (t & Ht & Htn & Htt & Hta).
      exists w, tid, t, sn. split; [done|]. split; [apply ext_r_refl|]. done.
    - pose proof (create_table_rok w (t_node st) sn target true G Hsn Hget) as Hc.
      pose proof (cache_ok_create w (t_node st) sn target true G C Hsn Hget) as Hcc.
      destruct (create_table w (t_node st) target true) as [wc tid].
      destruct Hc as (E3 & G3 & t & nd' & Ht & Htn & _ & Hta & Htt & Hnd' & Hmn & Hrn & Hin).
      rewrite (proj2 (node_has_rel_true sn) (ex_intro _ rid Hrel)) in Htt.
      exists wc, tid, t, nd'. done. }
  destruct Hdst as (w1 & dst & dt & dn & Hgt & E & G1 & C1 & Hdt & Hdtn & Hdtt & Hdta & Hdn).
  rewrite Hgt in H. injection H as <- _.
  assert (S1 : store_ok w1 live) by (by eapply ext_r_store_ok).
  assert (Hst1 : w_tables w1 !! src = Some st).
  { destruct (xr_tables _ _ E src st Hst) as (t' & Ht' & _ & _ & _ & _ & Q). by rewrite (Q Hstne) in Ht'. }
  assert (Hsd : src <> dst) by (intros <-; rewrite Hst1 in Hdt; by injection Hdt as <-).
  assert (Hloc1 : loc w1 e = Some (src, row)) by (by rewrite (ext_r_loc _ _ _ E)).
  assert (Hdn' : w_nodes w1 !! t_node dt = Some dn) by (by rewrite Hdtn).
  by eapply (cache_ok_move_cleanup w1 live e src row dst (n_mask sn) target st dt dn dn).
Qed.

Lemma cache_ok_new_table w ids target w1 tid :
  rgraph_ok w -> cache_ok w -> Forall (fun id => id < length (w_reg w)) ids ->
  (match ids with [] => Some (w, 0) | _ => find_or_create_table w 0 ids [] target end) = Some (w1, tid) ->
  cache_ok w1.
Proof.
  intros G C Hreg H. destruct (rg_table0 _ G) as (t0 & n0 & Ht0 & Hn0 & Hm0).
  destruct ids as [|i0 ids']; [by injection H as <- _|].
  assert (Hm : exists mask, exchange_mask (n_mask n0) (i0 :: ids') [] = Some mask).
  { unfold find_or_create_table in H. rewrite Ht0, Hn0 in H. cbn [walk_rem] in H.
    destruct (walk_add w (n_mask n0) (n_mask n0) (n_rel n0) (i0 :: ids')) as [r|] eqn:Hw; [|done].
    apply walk_add_exmask in Hw as [mask Hm]. exists mask. unfold exchange_mask. cbn [exmask_rem]. simpl. exact Hm. }
  destruct Hm as [mask Hmask]. by eapply (cache_ok_foc w 0 (i0 :: ids') [] target t0 n0 mask w1 tid).
Qed.

Lemma create_entity_cache w tid : w_cache (fst (create_entity w tid)) = w_cache w.
Proof.
  unfold create_entity. destruct (w_tables w !! tid) as [t|]; [|done]. destruct (w_nodes w !! t_node t) as [nd|]; [|done].
  destruct (pool_get (w_pool w)) as [p e]. destruct (tbl_alloc _ _ _ _) as [t' row]. simpl. by destruct (eid e =? _).
Qed.

Lemma cache_ok_create_entity w1 live issued tid dt dn :
  world_okr2 w1 live issued -> cache_ok w1 -> w_tables w1 !! tid = Some dt -> w_nodes w1 !! t_node dt = Some dn ->
  t_active dt = true -> cache_ok (fst (create_entity w1 tid)).
Proof.
  intros K C Hdt Hdn Hact.
  pose proof (create_in_table_rok w1 live issued tid dt dn K Hdt Hdn Hact) as Hc.
  pose proof (create_entity_tables w1 tid) as Ht. pose proof (create_entity_cache w1 tid) as Hca.
  destruct (create_entity w1 tid) as [w2 e2]. simpl in *.
  destruct Hc as (_ & [[_ G2] _ _] & Hn2 & _). destruct Ht as (_ & Hlen & _ & Hoth & Hsame).
  apply (cache_ok_sim w1); try done; [apply (wr_graph _ _ (r2_ok _ _ _ K))|by apply nodes_same_eq|].
  intros tid0. destruct (decide (tid0 = tid)) as [->|Hne].
  - rewrite Hdt. destruct (Hsame dt Hdt) as (t' & -> & A & B & D). done.
  - rewrite (Hoth tid0 Hne). by destruct (w_tables w1 !! tid0).
Qed.

Lemma cache_ok_op_new w live issued ids w' e evs :
  world_okr2 w live issued -> cache_ok w -> Forall (fun id => id < length (w_reg w)) ids ->
  op_new w ids [] = (w', Ok (VEnt e), evs) -> cache_ok w'.
Proof.
  intros K C Hreg H. unfold op_new in H. destruct (is_locked w); [done|].
  destruct (match ids with [] => Some (w, 0) | _ => find_or_create_table w 0 ids [] ezero end) as [[w1 tid]|] eqn:Hf; [|done].
  destruct K as [[S G] [frees P] L].
  destruct (new_table_rok w ids ezero w1 tid G Hreg Hf) as (E & G1 & dt & dn & Hdt & Hdn & Hdm & Hda & Hdtg).
  pose proof (cache_ok_new_table w ids ezero w1 tid G C Hreg Hf) as C1.
  assert (K1 : world_okr2 w1 live issued).
  { split; [split; [by eapply ext_r_store_ok|done]|exists frees; by rewrite (xr_pool _ _ E)|by rewrite (xr_index _ _ E), (xr_pool _ _ E)]. }
  pose proof (cache_ok_create_entity w1 live issued tid dt dn K1 C1 Hdt Hdn Hda) as C2.
  destruct (create_entity w1 tid) as [w2 e2]. simpl in *. destruct (table_mask_rel w2 tid). by injection H as <- _ _.
Qed.

Lemma cache_ok_op_new_target w live issued rid target ids w' e evs :
  world_okr2 w live issued -> cache_ok w -> Forall (fun id => id < length (w_reg w)) ids ->
  op_new_target w rid target ids [] = (w', Ok (VEnt e), evs) -> cache_ok w'.
Proof.
  intros K C Hreg H. unfold op_new_target in H. destruct (is_locked w); [done|]. destruct (negb _); [done|].
  destruct (match ids with [] => Some (w, 0) | _ => find_or_create_table w 0 ids [] target end) as [[w1 tid]|] eqn:Hf; [|done].
  destruct K as [[S G] [frees P] L].
  destruct (new_table_rok w ids target w1 tid G Hreg Hf) as (E & G1 & dt & dn & Hdt & Hdn & Hdm & Hda & Hdtg).
  pose proof (cache_ok_new_table w ids target w1 tid G C Hreg Hf) as C1.
  destruct (negb (check_relation w1 tid rid)); [done|].
  assert (K1 : world_okr2 w1 live issued).
  { split; [split; [by eapply ext_r_store_ok|done]|exists frees; by rewrite (xr_pool _ _ E)|by rewrite (xr_index _ _ E), (xr_pool _ _ E)]. }
  pose proof (cache_ok_create_entity w1 live issued tid dt dn K1 C1 Hdt Hdn Hda) as C2.
  destruct (create_entity w1 tid) as [w2 e2]. simpl in *. destruct (table_mask_rel _ tid). injection H as <- _ _.
  by apply cache_ok_set_tbit.
Qed.

Lemma cache_ok_remove_entity w live e :
  store_ok w live -> rgraph_ok w -> cache_ok w -> e ∈ live -> chk_alive w e = Some true -> is_locked w = false ->
  cache_ok (fst (fst (op_remove_entity w e))).
Proof.
  intros S G C He Hal HL. unfold op_remove_entity. rewrite HL.
  destruct (so_loc _ _ S e He) as (src & row & st & Hloc & Hst & Hrow).
  destruct (so_table _ _ S src st Hst) as (sn & Hsn & Hok).
  unfold ent_table. rewrite Hal, Hloc, Hst, Hsn.
  assert (Hrlt : row < tlen st) by (by apply lookup_lt_Some in Hrow).
  pose proof (tbl_remove_spec (zero_row sn) st row Hok Hrlt) as HR.
  destruct (tbl_remove (zero_row sn) st row) as [st1 swapped].
  destruct HR as (_ & _ & _ & _ & _ & _ & Hst1n & Hst1t & Hst1a & _).
  match goal with |- context [cleanup_table ?x src] => set (w2 := x) end.
  match goal with _ := (if tbit ?y _ then _ else _) |- _ => set (w1 := y) in * end.
  simpl.
  assert (Hstne : t_ents st <> []) by (intros Hn; by rewrite Hn in Hrow).
  assert (HT1 : tabs_sim w w1).
  { intros tid. simpl. destruct (decide (tid = src)) as [->|Hne].
    - rewrite list_lookup_insert by (by apply lookup_lt_Some in Hst). by rewrite Hst.
    - rewrite list_lookup_insert_ne by done. by destruct (w_tables w !! tid). }
  assert (G1 : rgraph_ok w1).
  { eapply (rgraph_ok_same_nodes w w1); try done.
    - intros tid t Ht. simpl. destruct (decide (tid = src)) as [->|Hne].
      + exists st1. rewrite list_lookup_insert by (by apply lookup_lt_Some in Hst). rewrite Hst in Ht. injection Ht as <-.
        repeat split; try done; intros; congruence.
      + exists t. by rewrite list_lookup_insert_ne.
    - intros tid t' Ht'. apply lookup_lt_is_Some. apply lookup_lt_Some in Ht'. simpl in Ht'. by rewrite insert_length in Ht'. }
  assert (C1 : cache_ok w1) by (apply (cache_ok_sim w); try done; by apply nodes_same_eq).
  assert (H2 : rgraph_ok w2 /\ cache_ok w2).
  { unfold w2. destruct (tbit w1 (eid e)); [|done].
    pose proof (cleanup_tables_for_rok w1 e G1) as Ga. pose proof (cache_ok_cleanup_tables_for w1 e G1 C1) as Ca.
    destruct (cleanup_tables_for_side w1 e) as (A1&A2&A3&A4&A5&A6&A7&A8&A9).
    split; [|exact Ca].
    eapply (rgraph_ok_same_nodes (cleanup_tables_for w1 e)); try done. intros tid t Ht. exists t. done. }
  destruct H2 as [G2 C2]. by apply cache_ok_cleanup_table.
Qed.

Lemma cache_ok_register w live issued key isrel zs w' id :
  world_okr2 w live issued -> cache_ok w -> register_comp w key isrel zs = Some (w', id) -> cache_ok w'.
Proof.
  intros K C H. destruct (register_rok w live issued key isrel zs w' id K H) as (K' & HN & _).
  apply (cache_ok_sim w); try done; try apply K; try apply K'.
  - unfold register_comp in H. destruct (find_index _ _); [injection H as <- _; apply tabs_sim_refl|].
    destruct (_ <=? _); [done|]. destruct (is_locked w); [done|].
    destruct (_ && _); injection H as <- _; [|by apply tabs_sim_eq].
    intros tid. destruct (w_tables w !! tid) as [t|] eqn:Ht.
    + match goal with |- context [extend_layouts ?a ?b] => destruct (extend_layouts_same a b tid t Ht) as (t' & -> & _ & _ & A & B & D) end. done.
    + rewrite extend_layouts_lookup. simpl. by rewrite Ht.
  - unfold register_comp in H. destruct (find_index _ _); [by injection H as <- _|].
    destruct (_ <=? _); [done|]. destruct (is_locked w); [done|]. by destruct (_ && _); injection H as <- _.
Qed.

Lemma cache_ok_set_comp w live issued e id v w' :
  world_okr2 w live issued -> cache_ok w -> e ∈ live -> set_comp w e id v = Some w' -> cache_ok w'.
Proof.
  intros K C He H. destruct (set_comp_rok w live issued e id v w' K He H) as (K' & Hn & _).
  apply (cache_ok_sim w); try done; try apply K; try apply K'; [by apply nodes_same_eq| |].
  - unfold set_comp in H. destruct (chk_alive w e) as [[]|]; try done. destruct (loc w e) as [[tid row]|]; [|done].
    destruct (w_tables w !! tid) as [t|] eqn:Ht; [|done]. destruct (w_nodes w !! t_node t); [|done]. destruct (col_of n id); [|done].
    destruct (reg_is_zs w id); injection H as <-; [apply tabs_sim_refl|].
    intros tid0. unfold upd_table. simpl. destruct (decide (tid0 = tid)) as [->|Hne].
    + rewrite list_lookup_insert by (by apply lookup_lt_Some in Ht). by rewrite Ht.
    + rewrite list_lookup_insert_ne by done. by destruct (w_tables w !! tid0).
  - unfold set_comp in H. destruct (chk_alive w e) as [[]|]; try done. destruct (loc w e) as [[tid row]|]; [|done].
    destruct (w_tables w !! tid) as [t|]; [|done]. destruct (w_nodes w !! t_node t); [|done]. destruct (col_of n id); [|done].
    by destruct (reg_is_zs w id); injection H as <-.
Qed.

(** ** Histories: the refinement of Proofs/RelRefine.v together with the cache invariant,
       now including filter registration and unregistration *)
From Arche Require Import Proofs.Atomic Proofs.Frame Proofs.StepFrame Proofs.RelRefine.

Definition op_pre2 (A : astate) (o : op) : Prop :=
  match o with
  | OCacheRegister _ | OCacheUnregister _ => True
  | _ => op_pre A o
  end.

Lemma R_cache_fields w A c n : R w A -> R (w <| w_cache := c |> <| w_cnext := n |>) A.
Proof.
  intros HR. pose proof HR as [[[S G] P L] Hr Hu He].
  apply (R_transfer w); try done.
  split; [split|done|done].
  - destruct S as [S1 S2 S3 S4]. split; [exact S1|exact S2|exact S3|exact S4].
  - eapply (rgraph_ok_same_nodes w); try done. intros tid t Ht. exists t. done.
Qed.

(** The world a panicking creation / exchange leaves behind keeps the cache invariant: new
    nodes are inactive, a new table is entered in exactly the matching entries. *)
Lemma ghost_cache_ok w o :
  rgraph_ok w -> cache_ok w -> Forall (fun id => id < length (w_reg w)) (ghost_ids o) -> cache_ok (ghost_of w o).
Proof.
  intros G C Hreg. destruct (ghost_of_rel w o G Hreg) as [src add rem target st sn mask dst Hst Hsn Hm Hr H|E G1 Hc Ht].
  - by eapply (cache_ok_foc w src add rem target st sn mask).
  - by apply (cache_ok_ext w).
Qed.

Lemma cache_step0 w A o :
  R w A -> cache_ok w -> op_pre2 A o ->
  R (res_world (step0 w o)) (astep A o (snd (fst (step0 w o)))) /\ cache_ok (res_world (step0 w o)).
Proof.
  intros HR C Hpre.
  assert (Hcore : op_pre A o -> cache_ok (res_world (step0 w o)) ->
                  R (res_world (step0 w o)) (astep A o (snd (fst (step0 w o)))) /\ cache_ok (res_world (step0 w o))).
  { intros Hp Hc. split; [by apply rel_step0|done]. }
  pose proof HR as [K Hr Hu He].
  destruct o; try (by destruct Hpre); simpl in Hpre; try (apply Hcore; [exact Hpre|]); simpl.
  - (* ONew *)
    destruct (op_new w ids []) as [[w' out] evs] eqn:H. simpl.
    destruct (op_new_shape _ _ _ _ _ _ H) as [->|[e ->]].
    + apply op_new_panic in H as [-> _]. done.
    + unfold ids_reg in Hpre. rewrite Hr in Hpre. by apply (cache_ok_op_new w (as_live A) (as_issued A) ids w' e evs K C Hpre).
  - (* OBNew *)
    unfold ids_reg in Hpre. rewrite Hr in Hpre.
    destruct Hpre as [Hids Hv]. unfold op_builder_new. destruct target as [tg|].
    + destruct (b_rel b) as [rid|]; [|done]. unfold b_comps. rewrite Hv.
      destruct (op_new_target w rid tg (b_ids b) []) as [[w' out] evs] eqn:H. simpl.
      destruct (op_new_target_shape _ _ _ _ _ _ _ _ H) as [->|[e ->]].
      * apply op_new_target_panic in H as [-> _]. done.
      * by apply (cache_ok_op_new_target w (as_live A) (as_issued A) rid tg (b_ids b) w' e evs K C Hids).
    + unfold b_comps. rewrite Hv.
      destruct (op_new w (b_ids b) []) as [[w' out] evs] eqn:H. simpl.
      destruct (op_new_shape _ _ _ _ _ _ H) as [->|[e ->]].
      * apply op_new_panic in H as [-> _]. done.
      * by apply (cache_ok_op_new w (as_live A) (as_issued A) (b_ids b) w' e evs K C Hids).
  - (* ORemoveEntity *)
    destruct Hpre as [Hiss Hg].
    destruct (decide (e ∈ as_live A)) as [Hlive|Hdead].
    + destruct K as [[S G] [frees P] L].
      apply (cache_ok_remove_entity w (as_live A)); try done.
      unfold chk_alive. by rewrite (live_chk_alive _ _ _ _ _ P Hlive).
    + assert (Hp : op_remove_entity w e = panic w).
      { unfold op_remove_entity. rewrite Hu. unfold ent_table.
        destruct (chk_alive w e) as [[]|] eqn:Hal; try done. exfalso. apply Hdead. by eapply chk_alive_live_r. }
      by rewrite Hp.
  - (* OAlive *) by destruct (chk_alive w e).
  - (* OExchange *)
    destruct Hpre as [Hiss Hadd]. unfold op_exchange.
    destruct (exchange_nn w e add rem None) as [[w1 [x|]]|] eqn:H; simpl; [|by apply exchange_nn_none in H as (_ & _ & ->)|done].
    unfold ids_reg in Hadd. rewrite Hr in Hadd.
    apply (cache_ok_exchange w (as_live A) e add rem None w1 x (r2_ok _ _ _ K) C); [|done|done].
    eapply chk_alive_live_r; [exact K|done|by eapply exchange_alive].
  - (* OSet *)
    destruct (set_comp w e id v) as [w1|] eqn:H; simpl; [|done].
    eapply cache_ok_set_comp; try done.
    eapply chk_alive_live_r; [exact K|done|]. unfold set_comp in H. by destruct (chk_alive w e) as [[]|].
  - by destruct (get_comp w e id).
  - by destruct (ent_table w e) as [[[[? ?] ?] ?]|].
  - by destruct (ent_table w e) as [[[[? ?] ?] ?]|].
  - destruct (ent_table w e) as [[[[? ?] ?] ?]|]; [|done]. by destruct (check_relation _ _ _).
  - (* ORelSet *)
    destruct (op_set_relation w e id t) as [[w' out] evs] eqn:H. simpl.
    destruct (op_set_relation_shape _ _ _ _ _ _ _ H) as [->| ->].
    + assert (Hs : step w (ORelSet e id t) = (w', Panic, evs)) by done. by apply panic_atomic in Hs as [-> _].
    + eapply (cache_ok_set_relation w (as_live A)); try done; [apply K|].
      eapply chk_alive_live_r; [exact K|done|by eapply set_relation_alive].
  - (* ORelExchange *)
    destruct Hpre as [Hiss Hadd]. unfold op_exchange.
    destruct (exchange_nn w e add rem (Some (rid, t))) as [[w1 [x|]]|] eqn:H; simpl; [|by apply exchange_nn_none in H as (_ & _ & ->)|done].
    unfold ids_reg in Hadd. rewrite Hr in Hadd.
    apply (cache_ok_exchange w (as_live A) e add rem (Some (rid, t)) w1 x (r2_ok _ _ _ K) C); [|done|done].
    eapply chk_alive_live_r; [exact K|done|by eapply exchange_alive].
  - (* OCacheRegister *)
    unfold cache_register. simpl. split; [by apply R_cache_fields|].
    apply (cache_register_ok w (as_live A) f (r2_ok _ _ _ K) C).
  - (* OCacheUnregister *)
    destruct (cache_unregister w id) as [[w1 f]|] eqn:H; simpl; [|done].
    split; [|by eapply cache_unregister_ok].
    unfold cache_unregister in H. destruct (find_index _ _) as [i|]; [|done]. destruct (w_cache w !! i); [|done].
    injection H as <- _.
    replace (w <| w_cache := swap_remove i (w_cache w) |>) with (w <| w_cache := swap_remove i (w_cache w) |> <| w_cnext := w_cnext w |>) by done.
    by apply R_cache_fields.
  - (* ORegister *)
    destruct (register_comp w key isrel zs) as [[w1 id]|] eqn:H; simpl; [|done]. by eapply cache_ok_register.
  - (* OSetListener *) exact C.
Qed.

Lemma op_pre2_ghost_ids A o : op_pre2 A o -> ids_reg A (ghost_ids o).
Proof. destruct o; try (intros; by apply Forall_nil); apply op_pre_ghost_ids. Qed.

Theorem cache_step w A o :
  R w A -> cache_ok w -> op_pre2 A o ->
  R (res_world (step w o)) (astep A o (snd (fst (step w o)))) /\ cache_ok (res_world (step w o)).
Proof.
  intros HR C Hpre. destruct (step_cases w o) as [[-> _]|[_ ->]]; [by apply cache_step0|].
  pose proof (op_pre2_ghost_ids A o Hpre) as Hids. simpl. split; [by apply ghost_R|].
  pose proof HR as [[[S G] _ _] Hr _ _]. unfold ids_reg in Hids. rewrite Hr in Hids. by apply ghost_cache_ok.
Qed.


Fixpoint pre_run2 (w : world) (A : astate) (ops : list op) : Prop :=
  match ops with
  | [] => True
  | o :: r => op_pre2 A o /\ pre_run2 (res_world (step w o)) (astep A o (snd (fst (step w o)))) r
  end.

Theorem cache_history ops : forall w A,
  R w A -> cache_ok w -> pre_run2 w A ops ->
  R (run w ops) (snd (arun w A ops)) /\ cache_ok (run w ops).
Proof.
  induction ops as [|o r IH]; intros w A HR C Hp; simpl; [done|].
  destruct Hp as [Hpre Hp]. destruct (cache_step w A o HR C Hpre) as [HR' C']. by apply IH.
Qed.

Lemma cache_ok_init capinc relcapinc tb : cache_ok (world_init capinc relcapinc tb).
Proof. intros ce Hce. unfold world_init in Hce. simpl in Hce. by apply elem_of_nil in Hce. Qed.

(** In every state reachable from a new world by single-entity operations and filter
    (un)registrations, a query through any registered filter visits exactly the alive
    entities matching the ORIGINAL filter, each once. *)
Corollary cached_query_exact_reachable capinc relcapinc tb ops ce b l :
  0 < capinc -> pre_run2 (world_init capinc relcapinc tb) a_init ops ->
  let w := run (world_init capinc relcapinc tb) ops in
  let A := snd (arun (world_init capinc relcapinc tb) a_init ops) in
  ce ∈ w_cache w ->
  exists L, map (pos_ent w) (visit (S (length (enum (plain_segs w (c_tables ce))))) (fresh (plain_segs w (c_tables ce)) b l)) = map Some L /\
    NoDup L /\ forall e, e ∈ L <-> (e ∈ as_live A /\ ent_matches w (c_filter ce) e).
Proof.
  intros Hc Hp w A Hce.
  destruct (cache_history ops _ _ (R_init capinc relcapinc tb Hc) (cache_ok_init capinc relcapinc tb) Hp) as [HR C].
  apply (cached_visits_exact w _ ce b l (r2_ok _ _ _ (r_ok _ _ HR)) C Hce).
Qed.

(** Non-vacuity: a history with a registered relation filter, table creation after the
    registration, retirement of the target's table and re-use. *)
Definition demo_cache_ops : list op :=
  [ORegister 10 false false; ORegister 11 true false;
   ONew [0]; ONew [0];
   OCacheRegister (FRel (FAll 2) demo_e1); OCacheRegister (FAll 1);
   OBNew (mkB [1] None (Some 1)) (Some demo_e1); OBNew (mkB [0; 1] None (Some 1)) (Some demo_e2);
   ORelSet (mkE 3 0) 1 demo_e2; ORemoveEntity demo_e1; ORelSet (mkE 3 0) 1 ezero;
   OBNew (mkB [1] None (Some 1)) (Some demo_e2); OCacheUnregister 1].
Example demo_cache_pre : pre_run2 (world_init 4 4 64) a_init demo_cache_ops.
Proof.
  vm_compute. repeat split; try (repeat (apply List.Forall_cons; [simpl; lia|]); apply List.Forall_nil); try reflexivity;
  repeat (first [apply elem_of_list_here | apply elem_of_list_further]).
Qed.
Example demo_cache_state :
  map (fun ce => (c_id ce, c_tables ce)) (w_cache (run (world_init 4 4 64) demo_cache_ops)) = [(0, [])] /\
  get_tables (run (world_init 4 4 64) demo_cache_ops) (FRel (FAll 2) demo_e1) = [].
Proof. vm_compute. done. Qed.
Example demo_cache_mid :
  let w := run (world_init 4 4 64) (take 8 demo_cache_ops) in
  map (fun ce => (c_id ce, c_tables ce)) (w_cache w) = [(0, [2]); (1, [1; 3])] /\
  get_tables w (FRel (FAll 2) demo_e1) = [2] /\ get_tables w (FAll 1) = [1; 3].
Proof. vm_compute. done. Qed.
