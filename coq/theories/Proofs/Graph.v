(** * Archetype graph: extension of the store by new nodes and empty tables, and the
      lookup of the destination table of an exchange.

    This file treats worlds whose registry has no relation component ([no_rel]): every
    node then has at most one table, nothing is retired or re-used.  (Relation tables are
    covered by the correspondence run and by Proofs/Store.v at the level of the move.) *)
From Arche Require Import Model.Base Model.Pool Model.Filter Model.World Model.Ops Proofs.Tables Proofs.Bits Proofs.Store.

(** [ext w w1]: [w1] has the tables and nodes of [w] (same rows, same masks) plus possibly
    new nodes and new EMPTY tables; pool, index and target bits are untouched. *)
Record ext (w w1 : world) : Prop := {
  ex_pool : w_pool w1 = w_pool w;
  ex_index : w_index w1 = w_index w;
  ex_tbits : w_tbits w1 = w_tbits w;
  ex_reg : w_reg w1 = w_reg w;
  ex_tb : w_tb w1 = w_tb w;
  ex_capinc : w_capinc w1 = w_capinc w /\ w_relcapinc w1 = w_relcapinc w;
  ex_tables : forall tid t, w_tables w !! tid = Some t -> w_tables w1 !! tid = Some t;
  ex_new_tables : forall tid t, w_tables w1 !! tid = Some t -> w_tables w !! tid = None ->
      t_ents t = [] /\ exists nd, w_nodes w1 !! t_node t = Some nd /\ table_ok (zero_row nd) t;
  ex_nodes : forall nid nd, w_nodes w !! nid = Some nd ->
      exists nd', w_nodes w1 !! nid = Some nd' /\ n_mask nd' = n_mask nd /\ n_ids nd' = n_ids nd /\ n_rel nd' = n_rel nd;
}.

Lemma ext_refl w : ext w w.
Proof.
  split; try done.
  - intros tid t H1 H2. congruence.
  - intros nid nd H. by exists nd.
Qed.

Lemma ext_trans a b c : ext a b -> ext b c -> ext a c.
Proof.
  intros E1 E2. split.
  - by rewrite (ex_pool _ _ E2), (ex_pool _ _ E1).
  - by rewrite (ex_index _ _ E2), (ex_index _ _ E1).
  - by rewrite (ex_tbits _ _ E2), (ex_tbits _ _ E1).
  - by rewrite (ex_reg _ _ E2), (ex_reg _ _ E1).
  - by rewrite (ex_tb _ _ E2), (ex_tb _ _ E1).
  - destruct (ex_capinc _ _ E1) as [A1 A2], (ex_capinc _ _ E2) as [B1 B2]. split; [by rewrite B1|by rewrite B2].
  - intros tid t H. by apply (ex_tables _ _ E2), (ex_tables _ _ E1).
  - intros tid t Hc Ha. destruct (w_tables b !! tid) as [tb|] eqn:Hb.
    + pose proof (ex_tables _ _ E2 tid tb Hb) as H. rewrite Hc in H. injection H as ->.
      destruct (ex_new_tables _ _ E1 tid tb Hb Ha) as (He & nd & Hnd & Hok). split; [done|].
      destruct (ex_nodes _ _ E2 _ nd Hnd) as (nd' & Hnd' & _ & Hids & _). exists nd'. split; [done|].
      unfold zero_row in *. by rewrite Hids.
    + by apply (ex_new_tables _ _ E2 tid t Hc Hb).
  - intros nid nd H. destruct (ex_nodes _ _ E1 nid nd H) as (n1 & H1 & M1 & I1 & R1).
    destruct (ex_nodes _ _ E2 nid n1 H1) as (n2 & H2 & M2 & I2 & R2). exists n2. split; [done|]. repeat split; congruence.
Qed.

Lemma ext_loc w w1 e : ext w w1 -> loc w1 e = loc w e.
Proof. intros E. unfold loc. by rewrite (ex_index _ _ E). Qed.

Lemma ext_store_ok w w1 live : ext w w1 -> store_ok w live -> store_ok w1 live.
Proof.
  intros E S. split.
  - apply S.
  - intros e He. destruct (so_loc _ _ S e He) as (tid & row & t & Hl & Ht & Hr).
    exists tid, row, t. rewrite (ext_loc _ _ _ E). split; [done|]. split; [by apply (ex_tables _ _ E)|done].
  - intros tid t row e Ht Hr. destruct (w_tables w !! tid) as [t0|] eqn:H0.
    + pose proof (ex_tables _ _ E tid t0 H0) as H. rewrite Ht in H. injection H as ->.
      rewrite (ext_loc _ _ _ E). by apply (so_rows _ _ S tid t0 row e).
    + destruct (ex_new_tables _ _ E tid t Ht H0) as [He _]. by rewrite He in Hr.
  - intros tid t Ht. destruct (w_tables w !! tid) as [t0|] eqn:H0.
    + pose proof (ex_tables _ _ E tid t0 H0) as H. rewrite Ht in H. injection H as ->.
      destruct (so_table _ _ S tid t0 H0) as (nd & Hnd & Hok).
      destruct (ex_nodes _ _ E _ nd Hnd) as (nd' & Hnd' & _ & Hids & _). exists nd'. split; [done|].
      unfold zero_row in *. by rewrite Hids.
    + by destruct (ex_new_tables _ _ E tid t Ht H0) as [_ H].
Qed.

Lemma ext_cells w w1 live e : ext w w1 -> store_ok w live -> e ∈ live -> ent_cells w1 e = ent_cells w e.
Proof.
  intros E S He. destruct (so_loc _ _ S e He) as (tid & row & t & Hl & Ht & Hr).
  unfold ent_cells. rewrite (ext_loc _ _ _ E), Hl. simpl. by rewrite Ht, (ex_tables _ _ E tid t Ht).
Qed.

(** ** The graph invariant for relation-free worlds *)
Definition no_rel (w : world) : Prop := forall id, reg_is_rel w id = false.

Record graph_ok (w : world) : Prop := {
  go_ids : forall nid nd, w_nodes w !! nid = Some nd -> n_ids nd = mask_ids (w_tb w) (n_mask nd);
  go_norel : forall nid nd, w_nodes w !! nid = Some nd -> n_rel nd = None;
  go_masks : forall i j ni nj, w_nodes w !! i = Some ni -> w_nodes w !! j = Some nj -> n_mask ni = n_mask nj -> i = j;
  go_node_table : forall nid nd tid, w_nodes w !! nid = Some nd -> head (n_tables nd) = Some tid ->
      exists t, w_tables w !! tid = Some t /\ t_node t = nid;
  go_table0 : exists t0 n0, w_tables w !! 0 = Some t0 /\ w_nodes w !! t_node t0 = Some n0 /\ n_mask n0 = 0%N;
  go_capinc : 0 < w_capinc w;
}.

Lemma find_node_spec w m :
  match find_node w m with
  | Some i => exists nd, w_nodes w !! i = Some nd /\ n_mask nd = m
  | None => forall nid nd, w_nodes w !! nid = Some nd -> n_mask nd <> m
  end.
Proof.
  unfold find_node. generalize (w_nodes w). intros l.
  induction l as [|x r IH]; simpl; [done|].
  destruct (N.eqb_spec (n_mask x) m) as [Heq|Hne].
  - exists x. done.
  - destruct (find_index _ r) as [i|]; simpl.
    + exact IH.
    + intros [|nid] nd H; simpl in H; [by injection H as <-|by eapply IH].
Qed.

Lemma find_or_create_node_ok w m :
  graph_ok w -> no_rel w ->
  let '(w1, nid) := find_or_create_node w m None in
  ext w w1 /\ graph_ok w1 /\ w_cache w1 = w_cache w /\ w_tables w1 = w_tables w /\
  exists nd, w_nodes w1 !! nid = Some nd /\ n_mask nd = m.
Proof.
  intros G NR. unfold find_or_create_node. pose proof (find_node_spec w m) as Hf.
  destruct (find_node w m) as [i|].
  - destruct Hf as (nd & Hnd & Hm). split; [apply ext_refl|]. split; [done|]. split; [done|]. split; [done|]. by exists nd.
  - set (nn := new_node w m None).
    assert (Hlk : forall nid, (w_nodes w ++ [nn]) !! nid =
              if decide (nid = length (w_nodes w)) then Some nn else w_nodes w !! nid).
    { intros nid. destruct (decide (nid = length (w_nodes w))) as [->|Hne].
      - rewrite lookup_app_r by lia. by rewrite Nat.sub_diag.
      - destruct (decide (nid < length (w_nodes w))); [by rewrite lookup_app_l|].
        rewrite lookup_app_r by lia. destruct (nid - length (w_nodes w)) as [|k] eqn:Hk; [lia|].
        simpl. symmetry. apply lookup_ge_None. lia. }
    split; [|split; [|split; [done|split; [done|]]]].
    + split; try done.
      * intros tid t H1 H2. simpl in *. congruence.
      * intros nid nd H. exists nd. simpl. rewrite lookup_app_l; [done|]. by apply lookup_lt_Some in H.
    + split; simpl.
      * intros nid nd H. rewrite Hlk in H. destruct (decide _); [injection H as <-; done|by apply (go_ids _ G nid)].
      * intros nid nd H. rewrite Hlk in H. destruct (decide _); [injection H as <-; done|by apply (go_norel _ G nid)].
      * intros i j ni nj Hi Hj Hm. rewrite Hlk in Hi, Hj.
        destruct (decide (i = _)) as [->|], (decide (j = _)) as [->|]; try done.
        -- injection Hi as <-. simpl in Hm. exfalso. by apply (Hf j nj).
        -- injection Hj as <-. simpl in Hm. exfalso. by apply (Hf i ni).
        -- by apply (go_masks _ G i j ni nj).
      * intros nid nd tid H Hh. rewrite Hlk in H. destruct (decide _); [injection H as <-; done|by apply (go_node_table _ G nid nd)].
      * destruct (go_table0 _ G) as (t0 & n0 & H0 & Hn0 & Hm0). exists t0, n0. split; [done|]. split; [|done].
        rewrite lookup_app_l; [done|]. by apply lookup_lt_Some in Hn0.
      * apply G.
    + exists nn. simpl. rewrite Hlk. by destruct (decide _).
Qed.

Lemma no_rel_ext w w1 : ext w w1 -> no_rel w -> no_rel w1.
Proof. intros E NR id. unfold reg_is_rel. rewrite (ex_reg _ _ E). apply NR. Qed.

Definition has_node (w : world) (m : N) : Prop := exists nid nd, w_nodes w !! nid = Some nd /\ n_mask nd = m.

Lemma has_node_ext w w1 m : ext w w1 -> has_node w m -> has_node w1 m.
Proof.
  intros E (nid & nd & Hnd & Hm). destruct (ex_nodes _ _ E nid nd Hnd) as (nd' & H' & Hm' & _).
  exists nid, nd'. split; [done|congruence].
Qed.

Lemma walk_rem_ok ids : forall w m,
  graph_ok w -> no_rel w -> has_node w m ->
  let '(w1, m1, r1) := walk_rem w m None ids in
  ext w w1 /\ graph_ok w1 /\ w_cache w1 = w_cache w /\ w_tables w1 = w_tables w /\ r1 = None /\
  m1 = foldl (fun m id => setb m id false) m ids /\ has_node w1 m1.
Proof.
  induction ids as [|id r IH]; intros w m G NR Hn; simpl.
  - split; [apply ext_refl|]. done.
  - rewrite NR.
    pose proof (find_or_create_node_ok w (setb m id false) G NR) as H1.
    destruct (find_or_create_node w (setb m id false) None) as [w1 nid]. simpl.
    destruct H1 as (E1 & G1 & C1 & T1 & nd & Hnd & Hm).
    specialize (IH w1 (setb m id false) G1 (no_rel_ext _ _ E1 NR) (ex_intro _ nid (ex_intro _ nd (conj Hnd Hm)))).
    destruct (walk_rem w1 (setb m id false) None r) as [[w2 m2] r2].
    destruct IH as (E2 & G2 & C2 & T2 & R2 & M2 & H2).
    split; [by eapply ext_trans|]. split; [done|]. split; [congruence|]. split; [congruence|]. done.
Qed.

Lemma walk_add_ok ids : forall w start m w2 m2 r2,
  graph_ok w -> no_rel w -> has_node w m ->
  walk_add w start m None ids = Some (w2, m2, r2) ->
  ext w w2 /\ graph_ok w2 /\ w_cache w2 = w_cache w /\ w_tables w2 = w_tables w /\ r2 = None /\
  m2 = foldl (fun m id => setb m id true) m ids /\ has_node w2 m2.
Proof.
  induction ids as [|id r IH]; intros w start m w2 m2 r2 G NR Hn H; simpl in H.
  - injection H as <- <- <-. split; [apply ext_refl|]. done.
  - destruct (bit m id); [done|]. destruct (bit start id); [done|]. rewrite NR in H. simpl in H.
    pose proof (find_or_create_node_ok w (setb m id true) G NR) as H1.
    destruct (find_or_create_node w (setb m id true) None) as [w1 nid]. simpl in H.
    destruct H1 as (E1 & G1 & C1 & T1 & nd & Hnd & Hm).
    destruct (IH w1 start (setb m id true) w2 m2 r2 G1 (no_rel_ext _ _ E1 NR) (ex_intro _ nid (ex_intro _ nd (conj Hnd Hm))) H)
      as (E2 & G2 & C2 & T2 & R2 & M2 & H2).
    split; [by eapply ext_trans|]. split; [done|]. split; [congruence|]. split; [congruence|]. done.
Qed.

Lemma exmask_rem_fold rem : forall m m1, exmask_rem m rem = Some m1 -> m1 = foldl (fun m id => setb m id false) m rem.
Proof.
  induction rem as [|id r IH]; intros m m1 H; simpl in *; [by injection H|].
  destruct (bit m id); [|done]. by apply IH.
Qed.
Lemma exmask_add_fold add : forall m m1, exmask_add m add = Some m1 -> m1 = foldl (fun m id => setb m id true) m add.
Proof.
  induction add as [|id r IH]; intros m m1 H; simpl in *; [by injection H|].
  destruct (bit m id); [done|]. by apply IH.
Qed.
Lemma exchange_mask_fold m add rem mask :
  exchange_mask m add rem = Some mask ->
  mask = foldl (fun m id => setb m id true) (foldl (fun m id => setb m id false) m rem) add.
Proof.
  unfold exchange_mask. intros H.
  destruct (exmask_rem m rem) as [m1|] eqn:H1; [|done]. simpl in H.
  apply exmask_rem_fold in H1 as ->. by apply exmask_add_fold.
Qed.

(** Creating the single table of a relation-free node. *)
Lemma create_table_ok w nid nd target fs :
  graph_ok w -> w_nodes w !! nid = Some nd -> n_rel nd = None -> n_tables nd = [] ->
  let '(w1, tid) := create_table w nid target fs in
  ext w w1 /\ graph_ok w1 /\ tid = length (w_tables w) /\
  exists t nd', w_tables w1 !! tid = Some t /\ t_node t = nid /\ t_ents t = [] /\ t_target t = ezero /\
                w_nodes w1 !! nid = Some nd' /\ n_mask nd' = n_mask nd.
Proof.
  intros G Hnd Hrel Hnt. unfold create_table. rewrite Hnd. unfold node_has_rel. rewrite Hrel.
  rewrite bool_decide_eq_false_2 by (intros [? ?]; done).
  set (tid := length (w_tables w)).
  set (cap := if fs then w_capinc w else 1).
  set (t := mkTable nid ezero [] (replicate cap (zero_row nd)) true (layouts_for w)).
  set (nd' := nd <| n_active := true |> <| n_tables := n_tables nd ++ [tid] |>).
  assert (Hnlt : nid < length (w_nodes w)) by (by apply lookup_lt_Some in Hnd).
  assert (Hnl : forall j, (<[nid := nd']> (w_nodes w)) !! j = if decide (j = nid) then Some nd' else w_nodes w !! j).
  { intros j. by eapply lookup_insert_cases. }
  assert (Htl : forall j, (w_tables w ++ [t]) !! j = if decide (j = tid) then Some t else w_tables w !! j).
  { intros j. destruct (decide (j = tid)) as [->|Hne].
    - rewrite lookup_app_r by (unfold tid; lia). unfold tid. by rewrite Nat.sub_diag.
    - destruct (decide (j < tid)); [by rewrite lookup_app_l|].
      rewrite lookup_app_r by (unfold tid in *; lia). destruct (j - length (w_tables w)) as [|k] eqn:Hk; [unfold tid in *; lia|].
      simpl. symmetry. apply lookup_ge_None. unfold tid in *. lia. }
  assert (Htok : table_ok (zero_row nd') t).
  { split; unfold tlen; simpl.
    - lia.
    - intros i r Hi. apply lookup_replicate in Hi as [-> _]. done.
    - intros i _ Hi. rewrite replicate_length in Hi. by apply lookup_replicate_2. }
  split; [|split; [|split; [done|]]].
  - split; simpl; try done.
    + intros j t0 H. rewrite Htl. destruct (decide (j = tid)) as [->|]; [|done]. apply lookup_lt_Some in H. unfold tid in H. lia.
    + intros j t0 H Hnone. rewrite Htl in H. destruct (decide (j = tid)) as [->|]; [|congruence].
      injection H as <-. split; [done|]. exists nd'. change (t_node t) with nid. simpl. rewrite Hnl.
      destruct (decide (nid = nid)); [|done]. split; [done|exact Htok].
    + intros j n0 H. rewrite Hnl. destruct (decide (j = nid)) as [->|]; [|by exists n0].
      rewrite Hnd in H. injection H as <-. exists nd'. done.
  - split; simpl.
    + intros j n0 H. rewrite Hnl in H. destruct (decide (j = nid)) as [->|]; [injection H as <-; simpl; by apply (go_ids _ G nid)|by apply (go_ids _ G j)].
    + intros j n0 H. rewrite Hnl in H. destruct (decide (j = nid)) as [->|]; [injection H as <-; done|by apply (go_norel _ G j)].
    + intros i j ni nj Hi Hj Hm. rewrite Hnl in Hi, Hj.
      destruct (decide (i = nid)) as [->|], (decide (j = nid)) as [->|]; try done.
      * injection Hi as <-. simpl in Hm. by apply (go_masks _ G nid j nd nj).
      * injection Hj as <-. simpl in Hm. by apply (go_masks _ G i nid ni nd).
      * by apply (go_masks _ G i j ni nj).
    + intros j n0 tid0 H Hh. rewrite Hnl in H. destruct (decide (j = nid)) as [->|].
      * injection H as <-. simpl in Hh. rewrite Hnt in Hh. simpl in Hh. injection Hh as <-.
        exists t. rewrite Htl. by destruct (decide (tid = tid)).
      * destruct (go_node_table _ G j n0 tid0 H Hh) as (t0 & Ht0 & Hn0). exists t0. split; [|done].
        rewrite Htl. destruct (decide (tid0 = tid)) as [->|]; [|done]. apply lookup_lt_Some in Ht0. unfold tid in Ht0. lia.
    + destruct (go_table0 _ G) as (t0 & n0 & H0 & Hn0 & Hm0).
      exists t0. rewrite Htl. destruct (decide (0 = tid)) as [He|]; [apply lookup_lt_Some in H0; unfold tid in He; lia|].
      destruct (decide (t_node t0 = nid)) as [Heq|Hneq].
      * exists nd'. rewrite Hnl, Heq. destruct (decide (nid = nid)); [|done]. split; [done|]. split; [done|].
        rewrite Heq, Hnd in Hn0. by injection Hn0 as <-.
      * exists n0. rewrite Hnl. by destruct (decide (t_node t0 = nid)).
    + apply G.
  - exists t, nd'. rewrite Htl, Hnl. destruct (decide (tid = tid)); [|done]. by destruct (decide (nid = nid)).
Qed.

(** The destination table of an exchange: found or created for the node whose mask is
    the exchange mask; everything that exists stays as it is. *)
Lemma find_or_create_table_ok w src add rem target st sn w1 dst :
  graph_ok w -> no_rel w -> w_tables w !! src = Some st -> w_nodes w !! t_node st = Some sn ->
  find_or_create_table w src add rem target = Some (w1, dst) ->
  ext w w1 /\ graph_ok w1 /\
  exists dt dn, w_tables w1 !! dst = Some dt /\ w_nodes w1 !! t_node dt = Some dn /\
    n_mask dn = foldl (fun m id => setb m id true) (foldl (fun m id => setb m id false) (n_mask sn) rem) add.
Proof.
  intros G NR Hst Hsn H. unfold find_or_create_table in H. rewrite Hst, Hsn in H.
  rewrite (go_norel _ G _ _ Hsn) in H.
  pose proof (walk_rem_ok rem w (n_mask sn) G NR (ex_intro _ _ (ex_intro _ sn (conj Hsn eq_refl)))) as H1.
  destruct (walk_rem w (n_mask sn) None rem) as [[wa m1] r1].
  destruct H1 as (E1 & G1 & _ & _ & -> & Hm1 & Hn1).
  destruct (walk_add wa (n_mask sn) m1 None add) as [[[wb m2] r2]|] eqn:Hadd; [|done].
  destruct (walk_add_ok add wa (n_mask sn) m1 wb m2 r2 G1 (no_rel_ext _ _ E1 NR) Hn1 Hadd) as (E2 & G2 & _ & _ & -> & Hm2 & Hn2).
  pose proof (find_node_spec wb m2) as Hf. destruct (find_node wb m2) as [nid|]; [|destruct Hn2 as (i & n & Hi & Hmi); by apply Hf in Hi].
  destruct Hf as (nd & Hnd & Hmnd). rewrite Hnd in H.
  assert (Hrel : n_rel nd = None) by (by apply (go_norel _ G2 nid)).
  unfold node_get_table, node_has_rel in H. rewrite Hrel in H.
  rewrite bool_decide_eq_false_2 in H by (intros [? ?]; done).
  assert (E12 : ext w wb) by (by eapply ext_trans).
  destruct (head (n_tables nd)) as [tid|] eqn:Hh.
  - injection H as <- <-. split; [done|]. split; [done|].
    destruct (go_node_table _ G2 nid nd tid Hnd Hh) as (t & Ht & Htn).
    exists t, nd. split; [done|]. split; [by rewrite Htn|]. by rewrite Hmnd, Hm2, Hm1.
  - assert (Hnt : n_tables nd = []) by (by destruct (n_tables nd)).
    pose proof (create_table_ok wb nid nd target true G2 Hnd Hrel Hnt) as Hc.
    destruct (create_table wb nid target true) as [wc tid]. injection H as <- <-.
    destruct Hc as (E3 & G3 & _ & t & nd' & Ht & Htn & _ & Htg & Hnd' & Hmn).
    split; [by eapply ext_trans|]. split; [done|].
    exists t, nd'. split; [done|]. split; [by rewrite Htn|]. by rewrite Hmn, Hmnd, Hm2, Hm1.
Qed.
