(** * C08 / C01: Builder.NewBatch of a VALUE builder = NewBatch of the ids, then one Set per
      given value and created entity - as worlds by definition ([new_entities_nn_split]) and
      as abstract stores ([batch_new_with_refines]); with [batch_new_equals_singles] this is
      n times (create, write the values), i.e. n calls of Builder.New of the same builder. *)
From Arche Require Import Model.Base Model.Pool Model.Filter Model.World Model.Ops
  Proofs.Tables Proofs.Bits Proofs.Store Proofs.Graph Proofs.Atomic Proofs.WorldInv
  Proofs.Frame Proofs.StepFrame Proofs.RelGraph Proofs.RelWorld Proofs.RelRefine Proofs.QueryExact Proofs.CacheInv
  Proofs.SpecDet Proofs.IlenInv Proofs.BatchCreate Proofs.CreateWith.

Definition b_novals (b : bspec) : bspec := mkB (b_ids b) None (b_rel b).

Lemma foldl_set_comps_nil es : forall w, foldl (fun w e => set_comps w e []) w es = w.
Proof. induction es as [|e r IH]; intros w; simpl; [done|apply IH]. Qed.

Lemma new_entities_nn_split w count b target :
  new_entities_nn w count b target =
  match new_entities_nn w count (b_novals b) target with
  | Some (w3, tid, start, es) => Some (foldl (fun w e => set_comps w e (b_comps b)) w3 es, tid, start, es)
  | None => None
  end.
Proof.
  unfold new_entities_nn, b_novals. cbn [b_ids b_rel]. unfold b_comps at 2. cbn [b_vals].
  destruct target as [t|], (b_rel b) as [rid|]; try done;
    (destruct (is_locked w); [done|]); (destruct (count <? 1)%Z; [done|]); (destruct (negb _); [done|]);
    (destruct (match b_ids b with [] => _ | _ => _ end) as [[w1 tid]|]; [|done]);
    try (destruct (negb (check_relation w1 tid rid)); [done|]);
    (destruct (create_entities _ tid (Z.to_nat count)) as [w3 es]); by rewrite foldl_set_comps_nil.
Qed.

(** Writing the values of every created entity. *)
Definition a_sets_all (A : astate) (es : list Entity) (cs : list (nat * Z)) : astate :=
  foldl (fun A e => a_sets A e cs) A es.

Lemma a_sets_fields cs : forall A e,
  as_live (a_sets A e cs) = as_live A /\ as_issued (a_sets A e cs) = as_issued A /\ as_reg (a_sets A e cs) = as_reg A /\
  (forall e', e' <> e -> assoc_get e' (as_ents (a_sets A e cs)) = assoc_get e' (as_ents A)).
Proof.
  induction cs as [|[id v] r IH]; intros A e; [done|].
  unfold a_sets. cbn [foldl]. fold (a_sets (a_set1 A e id v) e r).
  destruct (IH (a_set1 A e id v) e) as (H1 & H2 & H3 & H4). destruct (a_set1_fields A e id v) as (F1 & F2 & F3 & _).
  split; [congruence|]. split; [congruence|]. split; [congruence|].
  intros e' Hne. rewrite (H4 e' Hne). unfold a_set1, astep, a_upd. destruct (assoc_get e (as_ents A)); [|done]. simpl.
  rewrite assoc_get_set. by rewrite (proj2 (ent_eqb_neq e' e) Hne).
Qed.

Lemma set_comps_inv cs : forall w A e a,
  R w A -> cache_ok w -> e ∈ as_issued A -> e ∈ as_live A -> assoc_get e (as_ents A) = Some a ->
  Forall (fun p => bit (a_mask a) (fst p) = true /\ fst p < w_tb w) cs ->
  R (set_comps w e cs) (a_sets A e cs) /\ cache_ok (set_comps w e cs) /\ w_tb (set_comps w e cs) = w_tb w.
Proof.
  induction cs as [|[id v] r IH]; intros w A e a HR C Hiss Hlive Ha Hall; [done|].
  apply Forall_cons in Hall as [[Hbit Hid] Hall]. simpl in Hbit, Hid.
  unfold set_comps, a_sets. cbn [foldl]. fold (set_comps (default w (set_comp w e id v)) e r). fold (a_sets (a_set1 A e id v) e r).
  pose proof (new_entity_alive w A e HR Hlive Hiss) as Hal.
  pose proof (set_outcome w A e id v HR Hiss Hid) as Hout. unfold spec_set in Hout. rewrite Hal, Ha, Hbit in Hout. simpl in Hout.
  destruct (set_comp w e id v) as [w1|] eqn:Hs; [|done]. simpl.
  pose proof (R_set w A e id v w1 HR Hiss Hs) as HR1. change (R w1 (a_set1 A e id v)) in HR1.
  destruct (a_set1_fields A e id v) as (F1 & F2 & F3 & F4). destruct (F4 a Ha) as (a' & Ha' & Hm').
  pose proof HR as [K _ _ _].
  pose proof (cache_ok_set_comp w (as_live A) (as_issued A) e id v w1 K C Hlive Hs) as C1.
  pose proof (frame_set_comp w e id v w1 Hs) as F.
  destruct (IH w1 (a_set1 A e id v) e a' HR1 C1) as (X1 & X2 & X3); try done.
  - by rewrite F2.
  - by rewrite F1.
  - by rewrite Hm', (fr_tb _ _ F).
  - split; [done|]. split; [done|]. by rewrite X3, (fr_tb _ _ F).
Qed.

Lemma sets_all_inv cs m : forall es w A,
  R w A -> cache_ok w -> NoDup es ->
  (forall e, e ∈ es -> e ∈ as_issued A /\ e ∈ as_live A /\ exists a, assoc_get e (as_ents A) = Some a /\ a_mask a = m) ->
  Forall (fun p => bit m (fst p) = true /\ fst p < w_tb w) cs ->
  R (foldl (fun w e => set_comps w e cs) w es) (a_sets_all A es cs) /\ cache_ok (foldl (fun w e => set_comps w e cs) w es).
Proof.
  induction es as [|e r IH]; intros w A HR C Hnd Hes Hcs; [done|].
  apply NoDup_cons in Hnd as [Hni Hnd]. unfold a_sets_all. cbn [foldl]. fold (a_sets_all (a_sets A e cs) r cs).
  destruct (Hes e (elem_of_list_here _ _)) as (Hi & Hl & a & Ha & Hm).
  destruct (set_comps_inv cs w A e a HR C Hi Hl Ha) as (HR1 & C1 & Htb1); [by rewrite Hm|].
  destruct (a_sets_fields cs A e) as (F1 & F2 & F3 & F4).
  apply IH; try done.
  - intros e' Hin. destruct (Hes e' (elem_of_list_further _ _ _ Hin)) as (Hi' & Hl' & a' & Ha' & Hm').
    rewrite F1, F2. split; [done|]. split; [done|]. exists a'. split; [|done].
    rewrite F4; [done|]. intros ->. done.
  - by rewrite Htb1.
Qed.

Theorem batch_new_with_refines w A count b target w' es evs :
  R w A -> cache_ok w -> ilen w -> ids_reg A (b_ids b) ->
  op_new_batch w count b target = (w', Ok (VEnts es), evs) ->
  let a0 := mkA (new_mask (b_ids b)) (default ezero target) [] in
  Z.of_nat (length es) = count /\ NoDup es /\ (forall e, e ∈ es -> e ∉ as_issued A) /\
  R w' (a_sets_all (a_add_all A es a0) es (b_comps b)) /\ cache_ok w' /\ ilen w'.
Proof.
  intros HR C Hil Hids H a0.
  assert (Hil' : ilen w').
  { pose proof (ilen_step0 w (OBBatch b count target) Hil) as X. simpl in X. by rewrite H in X. }
  unfold op_new_batch in H. rewrite new_entities_nn_split in H.
  destruct (new_entities_nn w count (b_novals b) target) as [[[[w3 tid] start] es3]|] eqn:Hn; [|done].
  destruct (table_mask_rel _ tid) as [m r]. injection H as <- <- _.
  (* the batch without values *)
  assert (H0 : exists evs0, op_new_batch w count (b_novals b) target = (w3, Ok (VEnts es3), evs0)).
  { unfold op_new_batch. rewrite Hn. destruct (table_mask_rel w3 tid). by eexists. }
  destruct H0 as [evs0 H0].
  destruct (batch_new_refines w A count (b_novals b) target w3 es3 evs0 HR C Hil Hids eq_refl H0) as (Hlen & Hnd & Hfresh & HR3 & C3 & _).
  cbn [b_novals b_ids] in HR3. fold a0 in HR3.
  split; [done|]. split; [done|]. split; [done|].
  destruct (a_add_all_fields es3 a0 A) as (Hal & Hai & Har).
  destruct (sets_all_inv (b_comps b) (new_mask (b_ids b)) es3 w3 (a_add_all A es3 a0) HR3 C3 Hnd) as [X1 X2].
  - intros e Hin. rewrite Hal, Hai. split; [apply elem_of_app; left; by apply elem_of_rev|]. split; [apply elem_of_app; left; by apply elem_of_rev|].
    exists a0. split; [|done]. rewrite a_add_all_get. by rewrite bool_decide_eq_true_2.
  - unfold b_comps. destruct (b_vals b) as [vs|]; [|constructor]. apply Forall_forall. intros [id v] Hin. simpl.
    apply elem_of_zip_l in Hin. split; [rewrite bit_new_mask; by apply bool_decide_eq_true_2|].
    pose proof HR3 as [[[_ G3] _ _] Hr3 _ _]. pose proof (rg_reglen _ G3) as Hle.
    unfold ids_reg in Hids. rewrite Forall_forall in Hids. specialize (Hids id Hin). rewrite <- Har, Hr3 in Hids. lia.
  - done.
Qed.

(** Single creations with values, with the cache invariant. *)
Theorem new_with_inv w A ids cs w' e evs :
  R w A -> cache_ok w -> ids_reg A ids -> Forall (fun p => fst p ∈ ids) cs ->
  op_new w ids cs = (w', Ok (VEnt e), evs) ->
  R w' (a_sets (a_add A e (mkA (new_mask ids) ezero [])) e cs) /\ cache_ok w'.
Proof.
  intros HR C Hids Hcs H. pose proof (op_new_split w ids cs) as Hsp. rewrite H in Hsp. simpl in Hsp.
  destruct (op_new w ids []) as [[w0 out0] evs0] eqn:H0.
  destruct (op_new_shape _ _ _ _ _ _ H0) as [->|[e0 ->]]; [done|]. destruct Hsp as [-> [= ->]].
  pose proof (R_new w A ids w0 e0 evs0 HR Hids H0) as HR0.
  pose proof HR as [K Hr _ _]. pose proof Hids as Hids'. unfold ids_reg in Hids'. rewrite Hr in Hids'.
  pose proof (cache_ok_op_new w (as_live A) (as_issued A) ids w0 e0 evs0 K C Hids' H0) as C0.
  set (A0 := a_add A e0 (mkA (new_mask ids) ezero [])) in *.
  destruct (set_comps_inv cs w0 A0 e0 (mkA (new_mask ids) ezero []) HR0 C0) as (X1 & X2 & _); try done; try apply elem_of_list_here.
  - unfold A0, a_add. simpl. by rewrite assoc_get_set, (proj2 (ent_eqb_eq e0 e0) eq_refl).
  - eapply Forall_impl; [exact Hcs|]. intros [id v] Hin. simpl in *. split.
    + rewrite bit_new_mask. by apply bool_decide_eq_true_2.
    + pose proof HR0 as [[[_ G0] _ _] Hr0 _ _]. pose proof (rg_reglen _ G0) as Hle.
      unfold ids_reg in Hids. rewrite Forall_forall in Hids. specialize (Hids id Hin).
      assert (Hreg : as_reg A0 = as_reg A) by done. rewrite <- Hreg, Hr0 in Hids. lia.
Qed.

Theorem new_target_with_inv w A rid tg ids cs w' e evs :
  R w A -> cache_ok w -> ids_reg A ids -> Forall (fun p => fst p ∈ ids) cs ->
  op_new_target w rid tg ids cs = (w', Ok (VEnt e), evs) ->
  R w' (a_sets (a_add A e (mkA (new_mask ids) tg [])) e cs) /\ cache_ok w'.
Proof.
  intros HR C Hids Hcs H. pose proof (op_new_target_split w rid tg ids cs) as Hsp. rewrite H in Hsp. simpl in Hsp.
  destruct (op_new_target w rid tg ids []) as [[w0 out0] evs0] eqn:H0.
  destruct (op_new_target_shape _ _ _ _ _ _ _ _ H0) as [->|[e0 ->]]; [done|]. destruct Hsp as [-> [= ->]].
  pose proof (R_new_target w A rid tg ids w0 e0 evs0 HR Hids H0) as HR0.
  pose proof HR as [K Hr _ _]. pose proof Hids as Hids'. unfold ids_reg in Hids'. rewrite Hr in Hids'.
  pose proof (cache_ok_op_new_target w (as_live A) (as_issued A) rid tg ids w0 e0 evs0 K C Hids' H0) as C0.
  set (A0 := a_add A e0 (mkA (new_mask ids) tg [])) in *.
  destruct (set_comps_inv cs w0 A0 e0 (mkA (new_mask ids) tg []) HR0 C0) as (X1 & X2 & _); try done; try apply elem_of_list_here.
  - unfold A0, a_add. simpl. by rewrite assoc_get_set, (proj2 (ent_eqb_eq e0 e0) eq_refl).
  - eapply Forall_impl; [exact Hcs|]. intros [id v] Hin. simpl in *. split.
    + rewrite bit_new_mask. by apply bool_decide_eq_true_2.
    + pose proof HR0 as [[[_ G0] _ _] Hr0 _ _]. pose proof (rg_reglen _ G0) as Hle.
      unfold ids_reg in Hids. rewrite Forall_forall in Hids. specialize (Hids id Hin).
      assert (Hreg : as_reg A0 = as_reg A) by done. rewrite <- Hreg, Hr0 in Hids. lia.
Qed.
