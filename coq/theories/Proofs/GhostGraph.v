(** * The world a panicking creation / exchange leaves behind is an extension of the world it
      was given by empty graph nodes and at most one empty table, and keeps the graph
      invariant ([rgraph_ok]).  Consequences for the refinement relation and the filter cache
      are in RelRefine.v ([ghost_R]) and CacheInv.v ([ghost_cache_ok]). *)
From Arche Require Import Model.Base Model.Pool Model.Filter Model.World Model.Ops
  Proofs.Tables Proofs.Bits Proofs.Store Proofs.Graph Proofs.Frame Proofs.Atomic Proofs.GhostBase Proofs.RelGraph.

(** How the ghost world relates to [w]: either a completed find-or-create (with its mask), or
    graph nodes only (cache and tables untouched). *)
Inductive ghost_rel (w w1 : world) : Prop :=
| gr_done src add rem target st sn mask dst :
    w_tables w !! src = Some st -> w_nodes w !! t_node st = Some sn ->
    exchange_mask (n_mask sn) add rem = Some mask -> Forall (fun id => id < length (w_reg w)) add ->
    find_or_create_table w src add rem target = Some (w1, dst) -> ghost_rel w w1
| gr_nodes : ext w w1 -> rgraph_ok w1 -> w_cache w1 = w_cache w -> w_tables w1 = w_tables w -> ghost_rel w w1.

Lemma prefix_Forall {X} (P : X -> Prop) (pre l : list X) : pre `prefix_of` l -> Forall P l -> Forall P pre.
Proof. intros [k ->] H. by apply Forall_app in H as [? _]. Qed.

Lemma foc_world_rel w src add rem target st sn m1 :
  rgraph_ok w -> w_tables w !! src = Some st -> w_nodes w !! t_node st = Some sn ->
  exmask_rem (n_mask sn) rem = Some m1 -> Forall (fun id => id < length (w_reg w)) add ->
  ghost_rel w (foc_world w src add rem target).
Proof.
  intros G Hst Hsn Hrem Hreg.
  pose proof (walk_rem_rok rem w (n_mask sn) (n_rel sn) m1 G (rg_rel _ G _ _ Hsn) (fun id => rg_bits _ G _ _ id Hsn)
                (ex_intro _ _ (ex_intro _ sn (conj Hsn eq_refl))) Hrem) as H1.
  apply (foc_world_ind (fun w w1 => ghost_rel w w1)).
  - apply gr_nodes; [apply ext_refl|done|done|done].
  - intros w1 tid H.
    (* the walk succeeded: the exchange mask exists *)
    assert (Hmask : exists mask, exchange_mask (n_mask sn) add rem = Some mask).
    { unfold find_or_create_table in H. rewrite Hst, Hsn in H.
      destruct (walk_rem w (n_mask sn) (n_rel sn) rem) as [[wa ma] ra].
      destruct H1 as (E1 & G1 & _ & _ & HP1 & -> & Hn1 & Hb1).
      destruct (walk_add wa (n_mask sn) m1 ra add) as [[[wb m2] r2]|] eqn:Hadd; [|done].
      assert (Hb1' : forall id, bit m1 id = true -> id < length (w_reg wa)) by (by rewrite (ex_reg _ _ E1)).
      assert (Hreg1 : Forall (fun id => id < length (w_reg wa)) add) by (by rewrite (ex_reg _ _ E1)).
      destruct (walk_add_rok add wa (n_mask sn) m1 ra wb m2 r2 G1 HP1 Hb1' Hn1 Hreg1 Hadd) as (_ & _ & _ & _ & _ & Hm2 & _).
      exists m2. unfold exchange_mask. rewrite Hrem. simpl. exact Hm2. }
    destruct Hmask as [mask Hmask]. by eapply (gr_done w w1 src add rem target st sn mask tid).
  - intros st' sn' wa ma ra pre m2 r2 w1 Hst' Hsn' Hr Hp Ha.
    rewrite Hst in Hst'. injection Hst' as <-. rewrite Hsn in Hsn'. injection Hsn' as <-.
    rewrite Hr in H1. destruct H1 as (E1 & G1 & C1 & T1 & HP1 & -> & Hn1 & Hb1).
    assert (Hb1' : forall id, bit m1 id = true -> id < length (w_reg wa)) by (by rewrite (ex_reg _ _ E1)).
    assert (Hreg1 : Forall (fun id => id < length (w_reg wa)) pre) by (rewrite (ex_reg _ _ E1); by eapply prefix_Forall).
    destruct (walk_add_rok pre wa (n_mask sn) m1 ra w1 m2 r2 G1 HP1 Hb1' Hn1 Hreg1 Ha) as (E2 & G2 & C2 & T2 & _).
    apply gr_nodes; [by eapply ext_trans|done|congruence|congruence].
Qed.

Lemma ghost_rel_rok w w1 : rgraph_ok w -> ghost_rel w w1 -> ext_r w w1 /\ rgraph_ok w1.
Proof.
  intros G [src add rem target st sn mask dst Hst Hsn Hm Hreg H|E G1 _ _].
  - by destruct (find_or_create_table_rok w src add rem target st sn mask w1 dst G Hst Hsn Hm Hreg H) as (E & G1 & _).
  - split; [by apply ext_ext_r|done].
Qed.

(** The ghost of an operation whose added ids are registered. *)
Lemma ghost_of_rel w o :
  rgraph_ok w -> Forall (fun id => id < length (w_reg w)) (ghost_ids o) -> ghost_rel w (ghost_of w o).
Proof.
  intros G Hreg.
  assert (Hsame : ghost_rel w w) by (apply gr_nodes; [apply ext_refl|done|done|done]).
  destruct (ghost_of_case w o) as [->|[(tg & Hne & _ & ->)|(e & rem & rel & ->)]]; [done| |].
  - destruct (rg_table0 _ G) as (t0 & n0 & Ht0 & Hn0 & Hm0).
    by apply (foc_world_rel w 0 (ghost_ids o) [] tg t0 n0 (n_mask n0) G Ht0 Hn0 eq_refl).
  - destruct (exchange_ghost_case w e (ghost_ids o) rem rel) as [->|(src & row & st & sn & mask & tg & _ & _ & _ & Hst & Hsn & Hm & _ & ->)]; [done|].
    unfold exchange_mask in Hm. destruct (exmask_rem (n_mask sn) rem) as [m1|] eqn:Hrem; [|done].
    by apply (foc_world_rel w src (ghost_ids o) rem tg st sn m1 G Hst Hsn Hrem).
Qed.

Corollary ghost_of_rok w o :
  rgraph_ok w -> Forall (fun id => id < length (w_reg w)) (ghost_ids o) ->
  ext_r w (ghost_of w o) /\ rgraph_ok (ghost_of w o).
Proof. intros G Hreg. apply ghost_rel_rok; [done|by apply ghost_of_rel]. Qed.
