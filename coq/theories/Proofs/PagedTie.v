(** * The paged slice of ecs/util.go (storage of archetypes and nodes), as translated, is
    a list: Add appends, Get/Set read and write position i, Len is the length.

    [Gen/GoPaged.v] contains the translation of pagedSlice.Add/Get/Set/Len (elements are
    opaque values, pages have 32 slots).  Pointer persistence - the reason the type
    exists - is a property of Go's memory model and is not expressed here. *)
From Arche Require Import Model.Base Proofs.GoLemmas.
From Arche Require Import Pure.MachInt Pure.GoRt Gen.GoPaged.
From Coq Require Import ZifyN ZifyNat.
Local Open Scope nat_scope.

Definition flat (pages : list (slice N)) : list N := concat (map s_data pages).
Definition uniform (pages : list (slice N)) : Prop := Forall (fun pg => length (s_data pg) = 32) pages.

Record ps_rel (g : go_pagedSlice) (l : list N) : Prop := {
  ps_uniform : uniform (s_data (pagedSlice_pages g));
  ps_len : pagedSlice_len g = N.of_nat (length l);
  ps_flat : exists pad, flat (s_data (pagedSlice_pages g)) = l ++ pad /\
      ((s_data (pagedSlice_pages g) = [] /\ l = [] /\ pad = []) \/
       (s_data (pagedSlice_pages g) <> [] /\ l <> [] /\
        (1 <= pagedSlice_lenLast g <= 32)%N /\ N.of_nat (length pad) = (32 - pagedSlice_lenLast g)%N));
}.

Lemma flat_length pages : uniform pages -> length (flat pages) = 32 * length pages.
Proof.
  induction 1 as [|pg pages Hpg _ IH]; [done|]. unfold flat in *. cbn. rewrite app_length, IH, Hpg. lia.
Qed.

Lemma flat_nth pages q r d :
  uniform pages -> r < 32 -> q < length pages ->
  nth r (s_data (nth q pages s_nil)) d = nth (q * 32 + r) (flat pages) d.
Proof.
  intros Hu Hr. revert q. induction Hu as [|pg pages Hpg _ IH]; intros q Hq; [simpl in Hq; lia|].
  unfold flat. cbn [map concat]. destruct q as [|q].
  - cbn. rewrite app_nth1 by lia. done.
  - cbn [nth]. rewrite app_nth2 by lia. rewrite Hpg.
    replace (S q * 32 + r - 32) with (q * 32 + r) by lia. apply IH. simpl in Hq. lia.
Qed.

Lemma flat_upd pages q r v :
  uniform pages -> r < 32 -> q < length pages ->
  flat (list_upd pages q (s_set (nth q pages s_nil) (N.of_nat r) v)) = <[q * 32 + r := v]> (flat pages) /\
  uniform (list_upd pages q (s_set (nth q pages s_nil) (N.of_nat r) v)).
Proof.
  intros Hu Hr. revert q. induction Hu as [|pg pages Hpg Hu IH]; intros q Hq; [simpl in Hq; lia|].
  destruct q as [|q].
  - cbn [list_upd nth]. unfold flat. cbn [map concat s_set s_data]. split.
    + unfold a_set. rewrite Nat2N.id, list_upd_insert. cbn [Nat.mul Nat.add].
      rewrite insert_app_l by lia. done.
    + constructor; [|done]. cbn. unfold a_set. by rewrite list_upd_length.
  - cbn [list_upd nth]. destruct (IH q ltac:(simpl in Hq; lia)) as [IH1 IH2]. split.
    + unfold flat in *. cbn [map concat]. rewrite IH1.
      rewrite insert_app_r_alt by lia. rewrite Hpg. f_equal. f_equal. lia.
    + by constructor.
Qed.

Theorem zero_rel : ps_rel zero_pagedSlice [].
Proof. split; cbn; [constructor|done|]. exists []. split; [done|]. left. done. Qed.

Theorem Len_tie g l : ps_rel g l -> pagedSlice_Len g = N.of_nat (length l).
Proof. intros R. apply R. Qed.

Lemma rel_pages g l :
  ps_rel g l -> l <> [] ->
  exists np, length (s_data (pagedSlice_pages g)) = S np /\
    length l = np * 32 + N.to_nat (pagedSlice_lenLast g) /\ (1 <= pagedSlice_lenLast g <= 32)%N.
Proof.
  intros R Hl. destruct (ps_flat _ _ R) as (pad & Hf & [(_ & -> & _)|(Hne & _ & Hll & Hpad)]); [done|].
  pose proof (flat_length _ (ps_uniform _ _ R)) as Hfl. rewrite Hf, app_length in Hfl.
  destruct (s_data (pagedSlice_pages g)) as [|pg pages] eqn:Hp; [done|].
  exists (length pages). cbn [length] in *. split; [done|]. split; [lia|done].
Qed.

Theorem Get_tie g l i x :
  ps_rel g l -> l !! i = Some x -> pagedSlice_Get g (N.of_nat i) = Ret x.
Proof.
  intros R Hl. unfold pagedSlice_Get.
  pose proof (lookup_lt_Some _ _ _ Hl) as Hi.
  assert (Hne : l <> []) by (intros ->; simpl in Hi; lia).
  destruct (rel_pages g l R Hne) as (np & Hnp & Hlen & Hll).
  pose proof (ps_uniform _ _ R) as Hu.
  assert (Hq : i / 32 < S np).
  { apply Nat.div_lt_upper_bound; lia. }
  assert (Hr : i mod 32 < 32) by (apply Nat.mod_upper_bound; lia).
  replace (N.of_nat i / 32)%N with (N.of_nat (i / 32)) by (rewrite Nat2N.inj_div; done).
  replace (N.of_nat i mod 32)%N with (N.of_nat (i mod 32)) by (rewrite Nat2N.inj_mod; done).
  unfold s_len, s_get, a_get. rewrite !Nat2N.id. rewrite Hnp.
  assert (Hpg : length (s_data (nth (i / 32) (s_data (pagedSlice_pages g)) s_nil)) = 32).
  { eapply Forall_forall in Hu; [exact Hu|]. apply elem_of_list_In, nth_In. lia. }
  rewrite Hpg.
  assert (N.ltb (N.of_nat (i / 32)) (N.of_nat (S np)) = true) as -> by (apply N.ltb_lt; lia).
  assert (N.ltb (N.of_nat (i mod 32)) (N.of_nat 32) = true) as -> by (apply N.ltb_lt; lia).
  unfold go_guard. cbn [andb]. f_equal.
  rewrite (flat_nth _ _ _ _ Hu Hr) by lia.
  destruct (ps_flat _ _ R) as (pad & Hf & _). rewrite Hf.
  replace (i / 32 * 32 + i mod 32) with i by (pose proof (Nat.div_mod i 32); lia).
  rewrite app_nth1 by done. by apply nth_lookup_Some.
Qed.

Theorem Set_tie g l i v :
  ps_rel g l -> i < length l ->
  exists g', pagedSlice_Set g (N.of_nat i) v = Ret g' /\ ps_rel g' (<[i := v]> l).
Proof.
  intros R Hi. unfold pagedSlice_Set. cbv zeta.
  assert (Hne : l <> []) by (intros ->; simpl in Hi; lia).
  destruct (rel_pages g l R Hne) as (np & Hnp & Hlen & Hll).
  pose proof (ps_uniform _ _ R) as Hu.
  assert (Hq : i / 32 < S np) by (apply Nat.div_lt_upper_bound; lia).
  assert (Hr : i mod 32 < 32) by (apply Nat.mod_upper_bound; lia).
  replace (N.of_nat i / 32)%N with (N.of_nat (i / 32)) by (rewrite Nat2N.inj_div; done).
  replace (N.of_nat i mod 32)%N with (N.of_nat (i mod 32)) by (rewrite Nat2N.inj_mod; done).
  unfold s_len, s_get, a_get. rewrite !Nat2N.id. rewrite Hnp.
  assert (Hpg : length (s_data (nth (i / 32) (s_data (pagedSlice_pages g)) s_nil)) = 32).
  { eapply Forall_forall in Hu; [exact Hu|]. apply elem_of_list_In, nth_In. lia. }
  rewrite Hpg.
  assert (N.ltb (N.of_nat (i / 32)) (N.of_nat (S np)) = true) as -> by (apply N.ltb_lt; lia).
  assert (N.ltb (N.of_nat (i mod 32)) (N.of_nat 32) = true) as -> by (apply N.ltb_lt; lia).
  unfold go_guard. cbn [andb]. eexists. split; [reflexivity|].
  destruct (flat_upd _ (i / 32) (i mod 32) v Hu Hr ltac:(lia)) as [Hfu Huu].
  replace (i / 32 * 32 + i mod 32) with i in Hfu by (pose proof (Nat.div_mod i 32); lia).
  destruct (ps_flat _ _ R) as (pad & Hf & Hcase).
  split; cbn [pagedSlice_pages set_pagedSlice_pages pagedSlice_len pagedSlice_lenLast s_set s_data].
  - unfold a_set. rewrite Nat2N.id. exact Huu.
  - rewrite insert_length. apply R.
  - exists pad. unfold a_set. rewrite Nat2N.id. split.
    + rewrite Hfu, Hf. by rewrite insert_app_l.
    + right. destruct Hcase as [(_ & -> & _)|(Hne' & _ & H1 & H2)]; [done|].
      split; [|split; [|done]].
      * intros Heq. apply (f_equal length) in Heq. rewrite list_upd_length in Heq. rewrite Hnp in Heq. done.
      * intros Heq. apply (f_equal length) in Heq. rewrite insert_length in Heq. simpl in Heq. lia.
Qed.

Lemma flat_app pages pg : flat (pages ++ [pg]) = flat pages ++ s_data pg.
Proof. unfold flat. rewrite map_app, concat_app. cbn. by rewrite app_nil_r. Qed.

Theorem Add_tie g l v :
  ps_rel g l -> (N.of_nat (length l) + 1 < 2 ^ 31)%N ->
  exists g', pagedSlice_Add g v = Ret g' /\ ps_rel g' (l ++ [v]).
Proof.
  intros R Hsmall. unfold pagedSlice_Add.
  pose proof (ps_uniform _ _ R) as Hu. pose proof (ps_len _ _ R) as Hlen.
  destruct (ps_flat _ _ R) as (pad & Hf & Hcase).
  assert (Hnewpage : (pagedSlice_len g =? 0)%N || (pagedSlice_lenLast g =? 32)%N = true ->
            pad = [] /\ length l = 32 * length (s_data (pagedSlice_pages g))).
  { intros Hc. pose proof (flat_length _ Hu) as Hfl. rewrite Hf, app_length in Hfl.
    destruct Hcase as [(Hp & -> & ->)|(Hne & Hlne & H1 & H2)]; [rewrite Hp; done|].
    apply orb_true_iff in Hc as [Hc|Hc].
    - apply N.eqb_eq in Hc. rewrite Hlen in Hc. destruct l; [done|simpl in Hc; lia].
    - apply N.eqb_eq in Hc. rewrite Hc in H2. destruct pad; [|simpl in H2; lia].
      split; [done|]. simpl in Hfl. lia. }
  destruct ((pagedSlice_len g =? 0)%N || (pagedSlice_lenLast g =? 32)%N) eqn:Hc.
  - (* a new page *)
    destruct (Hnewpage eq_refl) as [-> Hll]. rewrite app_nil_r in Hf.
    cbv zeta. unfold go_guard, go_inside.
    cbn [N.leb N.compare Pos.compare Pos.compare_cont].
    cbn [pagedSlice_pages set_pagedSlice_pages pagedSlice_len pagedSlice_lenLast set_pagedSlice_lenLast
         set_pagedSlice_len].
    set (pages := s_data (pagedSlice_pages g)) in *.
    assert (Hsl : s_len (s_append (pagedSlice_pages g) (s_make 0%N 32 32)) = N.of_nat (S (length pages))).
    { unfold s_len. rewrite s_append_data, app_length. fold pages. cbn [length]. f_equal. lia. }
    rewrite Hsl.
    assert (N.leb 1 (N.of_nat (S (length pages))) = true) as -> by (apply N.leb_le; lia).
    replace (N.of_nat (S (length pages)) - 1)%N with (N.of_nat (length pages)) by lia.
    assert (N.ltb (N.of_nat (length pages)) (N.of_nat (S (length pages))) = true) as -> by (apply N.ltb_lt; lia).
    assert (Hnew : s_get s_nil (s_append (pagedSlice_pages g) (s_make 0%N 32 32)) (N.of_nat (length pages))
                   = s_make 0%N 32 32).
    { unfold s_get, a_get. rewrite s_append_data, Nat2N.id. fold pages. rewrite app_nth2 by lia.
      by rewrite Nat.sub_diag. }
    rewrite Hnew. cbn [andb].
    assert (N.ltb 0 (s_len (s_make 0%N 32 32)) = true) as -> by done.
    rewrite Hlen.
    assert (N.ltb (N.of_nat (length l) + 1) (2 ^ 31) = true) as -> by (by apply N.ltb_lt).
    assert (N.ltb (0 + 1) (2 ^ 31) = true) as -> by done.
    eexists. split; [reflexivity|].
    split; cbn [pagedSlice_pages set_pagedSlice_pages pagedSlice_len pagedSlice_lenLast set_pagedSlice_lenLast
                set_pagedSlice_len s_set s_data].
    + unfold a_set. rewrite Nat2N.id, list_upd_insert, s_append_data. fold pages.
      rewrite insert_app_r_alt by lia. rewrite Nat.sub_diag. cbn [insert list_insert].
      apply Forall_app. split; [exact Hu|]. constructor; [|constructor]. cbn. unfold a_set. by rewrite list_upd_length.
    + rewrite app_length. simpl. lia.
    + exists (repeat 0%N 31). unfold a_set. rewrite Nat2N.id, list_upd_insert, s_append_data. fold pages.
      rewrite insert_app_r_alt by lia. rewrite Nat.sub_diag. cbn [insert list_insert].
      rewrite flat_app. fold pages in Hf. rewrite Hf. cbn [s_set s_data s_make].
      split; [by rewrite <- app_assoc|].
      right. split; [by destruct pages|]. split; [by destruct l|]. split; [lia|done].
  - (* room in the last page *)
    apply orb_false_iff in Hc as [Hc1 Hc2]. apply N.eqb_neq in Hc1, Hc2.
    assert (Hne : l <> []) by (intros ->; simpl in Hlen; lia).
    destruct (rel_pages g l R Hne) as (np & Hnp & Hll & Hlast).
    destruct Hcase as [(_ & -> & _)|(_ & _ & _ & Hpad)]; [done|].
    destruct pad as [|x pad']; [cbn [length] in Hpad; lia|].
    cbv zeta. unfold go_guard, go_inside.
    assert (Hsl : s_len (pagedSlice_pages g) = N.of_nat (S np)) by (unfold s_len; by rewrite Hnp).
    rewrite !Hsl.
    assert (N.leb 1 (N.of_nat (S np)) = true) as -> by (apply N.leb_le; lia).
    replace (N.of_nat (S np) - 1)%N with (N.of_nat np) by lia.
    assert (N.ltb (N.of_nat np) (N.of_nat (S np)) = true) as -> by (apply N.ltb_lt; lia).
    cbn [andb].
    assert (Hpg : length (s_data (nth np (s_data (pagedSlice_pages g)) s_nil)) = 32).
    { eapply Forall_forall in Hu; [exact Hu|]. apply elem_of_list_In, nth_In. lia. }
    assert (Hpgl : s_len (s_get s_nil (pagedSlice_pages g) (N.of_nat np)) = 32%N).
    { unfold s_len, s_get, a_get. rewrite Nat2N.id, Hpg. done. }
    rewrite Hpgl.
    assert (N.ltb (pagedSlice_lenLast g) 32 = true) as -> by (apply N.ltb_lt; lia).
    cbn [pagedSlice_pages set_pagedSlice_pages pagedSlice_len pagedSlice_lenLast set_pagedSlice_lenLast
         set_pagedSlice_len].
    rewrite Hlen.
    assert (N.ltb (N.of_nat (length l) + 1) (2 ^ 31) = true) as -> by (by apply N.ltb_lt).
    assert (N.ltb (pagedSlice_lenLast g + 1) (2 ^ 31) = true) as ->.
    { apply N.ltb_lt. change (2 ^ 31)%N with 2147483648%N. lia. }
    eexists. split; [reflexivity|].
    set (r := N.to_nat (pagedSlice_lenLast g)).
    assert (Hr : r < 32) by (unfold r; lia).
    destruct (flat_upd _ np r v Hu Hr ltac:(lia)) as [Hfu Huu].
    assert (Hsame : s_set (pagedSlice_pages g) (N.of_nat np)
               (s_set (s_get s_nil (pagedSlice_pages g) (N.of_nat np)) (pagedSlice_lenLast g) v)
             = mkSlice (list_upd (s_data (pagedSlice_pages g)) np
                          (s_set (nth np (s_data (pagedSlice_pages g)) s_nil) (N.of_nat r) v))
                       (s_cap (pagedSlice_pages g))).
    { unfold s_set at 1, a_set at 1. rewrite Nat2N.id. unfold s_get, a_get. rewrite Nat2N.id.
      unfold r. rewrite N2Nat.id. done. }
    rewrite Hsame.
    split; cbn [pagedSlice_pages set_pagedSlice_pages pagedSlice_len pagedSlice_lenLast set_pagedSlice_lenLast
                set_pagedSlice_len s_data].
    + exact Huu.
    + rewrite app_length. simpl. lia.
    + exists pad'. rewrite Hfu, Hf. split.
      * replace (np * 32 + r) with (length l + 0) by (unfold r; lia).
        rewrite insert_app_r. cbn. by rewrite <- app_assoc.
      * right. split.
        -- intros Heq. apply (f_equal length) in Heq. rewrite list_upd_length, Hnp in Heq. done.
        -- split; [by destruct l|]. cbn [length] in Hpad. split; lia.
Qed.

(** A concrete run: 40 appends cross a page boundary; reads return what was written. *)
Example paged_run :
  let g := fold_left (fun r v => rbind r (fun g => pagedSlice_Add g v)) (map N.of_nat (seq 100 40)) (Ret zero_pagedSlice) in
  rbind g (fun g => rbind (pagedSlice_Set g 35 7) (fun g' =>
    rbind (pagedSlice_Get g' 35) (fun a => rbind (pagedSlice_Get g' 31) (fun b =>
    rbind (pagedSlice_Get g' 32) (fun c => Ret (a, b, c, pagedSlice_Len g')))))) = Ret (7, 131, 132, 40)%N.
Proof. vm_compute. reflexivity. Qed.
