(** * Entity pool invariant (C02).

    Ghost state: [live] (handles currently alive) and [issued] (every handle returned
    since the pool was created or reset).  The invariant says the implicit free list
    threaded through the id fields is a duplicate-free chain of exactly [p_avail] dead
    slots, every other slot holds an alive handle pointing to itself, and every issued
    handle that is no longer alive has a generation strictly below its slot's.  The
    last clause needs generations not to wrap: [no_wrap] is a visible hypothesis (see
    finding K1 and [gen_wrap_refuted]). *)
From Arche Require Import Model.Base Model.Pool.

Fixpoint chain (ents : list (nat * N)) (next : nat) (frees : list nat) : Prop :=
  match frees with
  | [] => True
  | i :: r => next = i /\ exists link g, ents !! i = Some (link, g) /\ chain ents link r
  end.

Definition slot_gen (p : pool) (i : nat) : N :=
  match p_ents p !! i with Some (_, g) => g | None => 0%N end.

Record pool_inv (p : pool) (live issued : list Entity) (frees : list nat) : Prop := {
  pi_zero : p_ents p !! 0 = Some (0, gen_max);
  pi_live_nodup : NoDup (map eid live);
  pi_live_slot : forall e, e ∈ live -> eid e <> 0 /\ p_ents p !! eid e = Some (eid e, egen e);
  pi_frees_nodup : NoDup frees;
  pi_frees_len : length frees = p_avail p;
  pi_frees_chain : chain (p_ents p) (p_next p) frees;
  pi_frees_dead : forall i, i ∈ frees -> i <> 0 /\ i < length (p_ents p) /\ i ∉ map eid live;
  pi_cover : forall i, 0 < i < length (p_ents p) -> i ∈ map eid live \/ i ∈ frees;
  pi_live_issued : forall e, e ∈ live -> e ∈ issued;
  pi_issued_range : forall e, e ∈ issued -> eid e <> 0 /\ eid e < length (p_ents p);
  pi_issued_dead : forall e, e ∈ issued -> e ∉ live -> (egen e < slot_gen p (eid e))%N;
  pi_issued_le : forall e, e ∈ issued -> (egen e <= slot_gen p (eid e))%N;
}.

Lemma pool_init_inv : pool_inv pool_init [] [] [].
Proof.
  split; simpl; try done; try (intros ? H; by apply elem_of_nil in H).
  - constructor.
  - constructor.
  - intros i [H1 H2]. lia.
Qed.

Lemma chain_insert_notin ents next frees i v :
  i ∉ frees -> chain ents next frees -> chain (<[i := v]> ents) next frees.
Proof.
  revert next. induction frees as [|j r IH]; intros next Hni Hc; simpl in *; [done|].
  destruct Hc as [-> (link & g & Hl & Hc)].
  apply not_elem_of_cons in Hni as [Hne Hni].
  split; [done|]. exists link, g. split.
  - rewrite list_lookup_insert_ne; done.
  - by apply IH.
Qed.

Lemma chain_app ents next frees x :
  chain ents next frees -> chain (ents ++ [x]) next frees.
Proof.
  revert next. induction frees as [|j r IH]; intros next Hc; simpl in *; [done|].
  destruct Hc as [-> (link & g & Hl & Hc)]. split; [done|].
  exists link, g. split; [|by apply IH].
  rewrite lookup_app_l; [done|]. by apply lookup_lt_Some in Hl.
Qed.

Lemma slot_gen_insert_ne p i j v n a :
  i <> j -> slot_gen (mkPool (<[i := v]> (p_ents p)) n a) j = slot_gen p j.
Proof. intros. unfold slot_gen. simpl. by rewrite list_lookup_insert_ne. Qed.

(** ** Get *)
Definition no_wrap (p : pool) : Prop :=
  forall i l g, p_ents p !! i = Some (l, g) -> i <> 0 -> (g < gen_max)%N.

Lemma pool_get_inv p live issued frees :
  pool_inv p live issued frees ->
  let '(p', e) := pool_get p in
  exists frees',
    pool_inv p' (e :: live) (e :: issued) frees' /\
    e ∉ issued /\ eid e <> 0 /\ pool_alive p' e = true /\
    (forall e', e' ∈ issued -> pool_alive p' e' = pool_alive p e').
Proof.
  intros I. unfold pool_get.
  destruct (p_avail p =? 0) eqn:Hav.
  - (* fresh slot *)
    apply Nat.eqb_eq in Hav.
    assert (frees = []) as -> by (destruct frees; [done|]; pose proof (pi_frees_len _ _ _ _ I); simpl in *; lia).
    set (n := length (p_ents p)).
    assert (Hn0 : n <> 0).
    { pose proof (pi_zero _ _ _ _ I) as H. apply lookup_lt_Some in H. unfold n. lia. }
    assert (Hfresh : forall e, e ∈ issued -> eid e <> n).
    { intros e He. apply (pi_issued_range _ _ _ _ I) in He. unfold n. lia. }
    exists []. split; [split; simpl|].
    + rewrite lookup_app_l; [apply I|]. fold n. lia.
    + constructor; [|apply I]. intros Hin. apply elem_of_list_fmap in Hin as (e & He1 & He2).
      apply (pi_live_issued _ _ _ _ I) in He2. by apply Hfresh in He2.
    + intros e He. apply elem_of_cons in He as [->|He]; simpl.
      * split; [done|]. fold n. rewrite lookup_app_r; [|lia]. by rewrite Nat.sub_diag.
      * destruct (pi_live_slot _ _ _ _ I e He) as [H1 H2]. split; [done|].
        rewrite lookup_app_l; [done|]. by apply lookup_lt_Some in H2.
    + constructor.
    + pose proof (pi_frees_len _ _ _ _ I). simpl in *. lia.
    + done.
    + intros i Hi. by apply elem_of_nil in Hi.
    + intros i [Hi1 Hi2]. rewrite app_length in Hi2. simpl in Hi2. fold n in Hi2.
      destruct (decide (i = n)) as [->|Hne].
      * left. simpl. apply elem_of_cons. by left.
      * destruct (pi_cover _ _ _ _ I i) as [H|H]; [fold n; lia| |by apply elem_of_nil in H].
        left. simpl. apply elem_of_cons. by right.
    + intros e He. apply elem_of_cons in He as [->|He]; apply elem_of_cons; [by left|right]. by apply I.
    + intros e He. rewrite app_length. simpl. fold n. apply elem_of_cons in He as [->|He]; simpl; [lia|].
      apply (pi_issued_range _ _ _ _ I) in He. fold n in He. lia.
    + intros e He Hnl. apply elem_of_cons in He as [->|He]; [exfalso; apply Hnl, elem_of_cons; by left|].
      assert (e ∉ live) by (intros ?; apply Hnl, elem_of_cons; by right).
      pose proof (pi_issued_dead _ _ _ _ I e He H) as Hd.
      unfold slot_gen in *. simpl. rewrite lookup_app_l; [done|].
      apply (pi_issued_range _ _ _ _ I) in He. lia.
    + intros e He. apply elem_of_cons in He as [->|He].
      * unfold slot_gen. simpl. fold n. rewrite lookup_app_r; [|lia]. rewrite Nat.sub_diag. simpl. lia.
      * pose proof (pi_issued_le _ _ _ _ I e He) as Hd.
        unfold slot_gen in *. simpl. rewrite lookup_app_l; [done|].
        apply (pi_issued_range _ _ _ _ I) in He. lia.
    + split; [|split; [done|split]].
      * intros He. by apply Hfresh in He.
      * unfold pool_alive, pool_alive_opt. simpl. fold n. rewrite lookup_app_r; [|lia].
        rewrite Nat.sub_diag. simpl. done.
      * intros e' He'. unfold pool_alive, pool_alive_opt. simpl.
        rewrite lookup_app_l; [done|]. apply (pi_issued_range _ _ _ _ I) in He'. lia.
  - (* recycled slot *)
    apply Nat.eqb_neq in Hav.
    destruct frees as [|i r]; [pose proof (pi_frees_len _ _ _ _ I); simpl in *; lia|].
    pose proof (pi_frees_chain _ _ _ _ I) as Hc. simpl in Hc.
    destruct Hc as [Hnext (link & g & Hl & Hc)]. rewrite Hnext, Hl.
    pose proof (pi_frees_nodup _ _ _ _ I) as Hnd. apply NoDup_cons in Hnd as [Hir Hndr].
    destruct (pi_frees_dead _ _ _ _ I i) as (Hi0 & Hilen & Hinl); [apply elem_of_cons; by left|].
    assert (Hissued_i : forall e, e ∈ issued -> eid e = i -> (egen e < g)%N).
    { intros e He Hei. assert (e ∉ live).
      { intros Hin. apply Hinl. apply elem_of_list_fmap. by exists e. }
      pose proof (pi_issued_dead _ _ _ _ I e He H) as Hd. unfold slot_gen in Hd. by rewrite Hei, Hl in Hd. }
    exists r. split; [split; simpl|].
    + rewrite list_lookup_insert_ne; [apply I|done].
    + constructor; [done|apply I].
    + intros e He. apply elem_of_cons in He as [->|He]; simpl.
      * split; [done|]. by rewrite list_lookup_insert.
      * destruct (pi_live_slot _ _ _ _ I e He) as [H1 H2]. split; [done|].
        rewrite list_lookup_insert_ne; [done|]. intros ->. apply Hinl.
        apply elem_of_list_fmap. by exists e.
    + done.
    + pose proof (pi_frees_len _ _ _ _ I). simpl in *. lia.
    + by apply chain_insert_notin.
    + intros j Hj. destruct (pi_frees_dead _ _ _ _ I j) as (H1 & H2 & H3); [apply elem_of_cons; by right|].
      split; [done|]. split; [by rewrite insert_length|].
      simpl. intros Hin. apply elem_of_cons in Hin as [->|Hin]; [done|done].
    + intros j Hj. rewrite insert_length in Hj.
      destruct (pi_cover _ _ _ _ I j Hj) as [H|H].
      * left. simpl. apply elem_of_cons. by right.
      * apply elem_of_cons in H as [->|H]; [left; simpl; apply elem_of_cons; by left|by right].
    + intros e He. apply elem_of_cons in He as [->|He]; apply elem_of_cons; [by left|right]. by apply I.
    + intros e He. rewrite insert_length. apply elem_of_cons in He as [->|He]; simpl; [done|by apply I].
    + intros e He Hnl. apply elem_of_cons in He as [->|He]; [exfalso; apply Hnl, elem_of_cons; by left|].
      assert (e ∉ live) by (intros ?; apply Hnl, elem_of_cons; by right).
      pose proof (pi_issued_dead _ _ _ _ I e He H) as Hd.
      unfold slot_gen in *. simpl. destruct (decide (eid e = i)) as [Hei|Hne].
      * rewrite Hei, list_lookup_insert; [|done]. by apply Hissued_i.
      * rewrite list_lookup_insert_ne; done.
    + intros e He. apply elem_of_cons in He as [->|He].
      * unfold slot_gen. simpl. rewrite list_lookup_insert; [simpl; lia|done].
      * unfold slot_gen. simpl. destruct (decide (eid e = i)) as [Hei|Hne].
        -- rewrite Hei, list_lookup_insert; [|done]. pose proof (Hissued_i e He Hei). lia.
        -- rewrite list_lookup_insert_ne; [|done]. apply (pi_issued_le _ _ _ _ I e He).
    + split; [|split; [done|split]].
      * intros He. pose proof (Hissued_i _ He eq_refl) as H. simpl in H. lia.
      * unfold pool_alive, pool_alive_opt. simpl. rewrite list_lookup_insert; [|done]. simpl. apply N.eqb_refl.
      * intros e' He'. unfold pool_alive, pool_alive_opt. simpl.
        destruct (decide (eid e' = i)) as [Hei|Hne].
        -- rewrite Hei, list_lookup_insert; [|done]. rewrite Hl. simpl. done.
        -- rewrite list_lookup_insert_ne; done.
Qed.

(** ** Alive is membership in the ghost alive set, for every issued handle. *)
Lemma pool_alive_iff p live issued frees e :
  pool_inv p live issued frees -> e ∈ issued ->
  pool_alive p e = true <-> e ∈ live.
Proof.
  intros I He. split.
  - intros Ha. destruct (decide (e ∈ live)) as [|Hn]; [done|exfalso].
    pose proof (pi_issued_dead _ _ _ _ I e He Hn) as Hd.
    unfold pool_alive, pool_alive_opt, slot_gen in *.
    destruct (p_ents p !! eid e) as [[l g]|]; simpl in *; [|done].
    apply N.eqb_eq in Ha. lia.
  - intros Hl. destruct (pi_live_slot _ _ _ _ I e Hl) as [_ H].
    unfold pool_alive, pool_alive_opt. rewrite H. simpl. apply N.eqb_refl.
Qed.

(** The zero entity is never alive. *)
Lemma pool_zero_dead p live issued frees :
  pool_inv p live issued frees -> pool_alive p ezero = false.
Proof.
  intros I. unfold pool_alive, pool_alive_opt. simpl. by rewrite (pi_zero _ _ _ _ I).
Qed.

(** ** Recycle *)
Lemma pool_recycle_inv p live issued frees e :
  pool_inv p live issued frees -> e ∈ live -> (egen e < gen_max)%N ->
  pool_inv (pool_recycle p e) (filter (fun x => x <> e) live) issued (eid e :: frees) /\
  pool_alive (pool_recycle p e) e = false /\
  (forall e', e' ∈ issued -> e' <> e -> pool_alive (pool_recycle p e) e' = pool_alive p e').
Proof.
  intros I Hl Hg.
  destruct (pi_live_slot _ _ _ _ I e Hl) as [He0 Hslot].
  unfold pool_recycle. rewrite Hslot.
  assert (Hmod : ((egen e + 1) mod gen_mod = egen e + 1)%N).
  { apply N.mod_small. unfold gen_mod, gen_max in *. lia. }
  rewrite Hmod.
  assert (Hlt : eid e < length (p_ents p)) by (by apply lookup_lt_Some in Hslot).
  assert (Hnf : eid e ∉ frees).
  { intros Hin. destruct (pi_frees_dead _ _ _ _ I _ Hin) as (_ & _ & H). apply H.
    apply elem_of_list_fmap. by exists e. }
  assert (Huniq : forall x, x ∈ live -> eid x = eid e -> x = e).
  { intros x Hx Hxe. pose proof (pi_live_nodup _ _ _ _ I) as Hnd.
    destruct (pi_live_slot _ _ _ _ I x Hx) as [_ Hsx]. rewrite Hxe, Hslot in Hsx.
    destruct x, e; simpl in *. congruence. }
  split; [split; simpl|split].
  - rewrite list_lookup_insert_ne; [apply I|done].
  - pose proof (pi_live_nodup _ _ _ _ I) as Hnd.
    clear -Hnd. induction live as [|x l IH]; simpl; [constructor|].
    apply NoDup_cons in Hnd as [Hx Hnd]. rewrite filter_cons. destruct (decide (x <> e)).
    + simpl. constructor; [|by apply IH]. intros Hin. apply Hx.
      apply elem_of_list_fmap in Hin as (y & -> & Hy). apply elem_of_list_filter in Hy as [_ Hy].
      apply elem_of_list_fmap. by exists y.
    + by apply IH.
  - intros x Hx. apply elem_of_list_filter in Hx as [Hne Hx].
    destruct (pi_live_slot _ _ _ _ I x Hx) as [H1 H2]. split; [done|].
    rewrite list_lookup_insert_ne; [done|]. intros Heq. apply Hne. by apply Huniq.
  - constructor; [done|apply I].
  - pose proof (pi_frees_len _ _ _ _ I). simpl. lia.
  - split; [done|]. exists (p_next p), (egen e + 1)%N. split; [by rewrite list_lookup_insert|].
    apply chain_insert_notin; [done|apply I].
  - intros i Hi. rewrite insert_length. apply elem_of_cons in Hi as [->|Hi].
    + split; [done|]. split; [done|]. intros Hin. apply elem_of_list_fmap in Hin as (x & Hxe & Hx).
      apply elem_of_list_filter in Hx as [Hne Hx]. apply Hne. by apply Huniq.
    + destruct (pi_frees_dead _ _ _ _ I i Hi) as (H1 & H2 & H3). split; [done|split; [done|]].
      intros Hin. apply H3. apply elem_of_list_fmap in Hin as (x & -> & Hx).
      apply elem_of_list_filter in Hx as [_ Hx]. apply elem_of_list_fmap. by exists x.
  - intros i Hi. rewrite insert_length in Hi.
    destruct (decide (i = eid e)) as [->|Hne]; [right; apply elem_of_cons; by left|].
    destruct (pi_cover _ _ _ _ I i Hi) as [H|H]; [left|right; apply elem_of_cons; by right].
    apply elem_of_list_fmap in H as (x & -> & Hx). apply elem_of_list_fmap. exists x. split; [done|].
    apply elem_of_list_filter. split; [|done]. intros ->. done.
  - intros x Hx. apply elem_of_list_filter in Hx as [_ Hx]. by apply I.
  - intros x Hx. rewrite insert_length. by apply I.
  - intros x Hx Hnl. unfold slot_gen. simpl.
    destruct (decide (eid x = eid e)) as [Heq|Hne].
    + rewrite Heq, list_lookup_insert; [|done].
      pose proof (pi_issued_le _ _ _ _ I x Hx) as Hle. unfold slot_gen in Hle. rewrite Heq, Hslot in Hle. lia.
    + rewrite list_lookup_insert_ne; [|done].
      apply (pi_issued_dead _ _ _ _ I x Hx). intros Hin. apply Hnl.
      apply elem_of_list_filter. split; [|done]. intros ->. done.
  - intros x Hx. unfold slot_gen. simpl.
    destruct (decide (eid x = eid e)) as [Heq|Hne].
    + rewrite Heq, list_lookup_insert; [|done].
      pose proof (pi_issued_le _ _ _ _ I x Hx) as Hle. unfold slot_gen in Hle. rewrite Heq, Hslot in Hle. lia.
    + rewrite list_lookup_insert_ne; [|done]. apply (pi_issued_le _ _ _ _ I x Hx).
  - unfold pool_alive, pool_alive_opt. simpl. rewrite list_lookup_insert; [|done]. simpl.
    apply N.eqb_neq. lia.
  - intros e' He' Hne. unfold pool_alive, pool_alive_opt. simpl.
    destruct (decide (eid e' = eid e)) as [Heq|Hne'].
    + rewrite Heq, list_lookup_insert; [|done]. rewrite Hslot. simpl.
      pose proof (pi_issued_le _ _ _ _ I e' He') as Hle. unfold slot_gen in Hle. rewrite Heq, Hslot in Hle.
      assert (egen e' <> egen e). { intros Hg'. apply Hne. destruct e', e; simpl in *; congruence. }
      rewrite (proj2 (N.eqb_neq _ _)); [|lia]. rewrite (proj2 (N.eqb_neq _ _)); [done|lia].
    + rewrite list_lookup_insert_ne; done.
Qed.

(** Number of alive entities. *)
Lemma pool_len_live p live issued frees :
  pool_inv p live issued frees -> pool_len p = length live.
Proof.
  intros I. unfold pool_len.
  (* slots 1..n-1 are partitioned into live ids and frees *)
  pose proof (pi_frees_len _ _ _ _ I) as Hfl.
  set (n := length (p_ents p)).
  assert (Hn : 0 < n). { pose proof (pi_zero _ _ _ _ I) as H. apply lookup_lt_Some in H. done. }
  assert (Hperm : map eid live ++ frees ≡ₚ seq 1 (n - 1)).
  { apply NoDup_Permutation.
    - apply NoDup_app. split; [apply I|]. split; [|apply I].
      intros i Hi Hf. by destruct (pi_frees_dead _ _ _ _ I i Hf) as (_ & _ & H).
    - apply NoDup_seq.
    - intros i. rewrite elem_of_app, elem_of_seq. split.
      + intros [H|H].
        * apply elem_of_list_fmap in H as (e & -> & He).
          destruct (pi_live_slot _ _ _ _ I e He) as [H0 Hs]. apply lookup_lt_Some in Hs. fold n in Hs. lia.
        * destruct (pi_frees_dead _ _ _ _ I i H) as (H0 & Hl & _). fold n in Hl. lia.
      + intros Hi. apply (pi_cover _ _ _ _ I). fold n. lia. }
  apply Permutation_length in Hperm. rewrite app_length, map_length, seq_length in Hperm.
  fold n. lia.
Qed.

(** ** Histories of pool operations *)
Inductive pop := PGet | PRecycle (e : Entity).

(** Ghost-instrumented run.  A recycle is performed only for an issued handle that is
    alive (the world checks [Alive] before every removal) and whose generation can still
    be incremented without wrapping (the bound of finding K1). *)
Definition precycle_ok (p : pool) (issued : list Entity) (e : Entity) : bool :=
  bool_decide (e ∈ issued) && pool_alive p e && (egen e <? gen_max)%N.

Fixpoint prun (p : pool) (live issued : list Entity) (ops : list pop) : pool * list Entity * list Entity :=
  match ops with
  | [] => (p, live, issued)
  | PGet :: r => let '(p', e) := pool_get p in prun p' (e :: live) (e :: issued) r
  | PRecycle e :: r =>
      if precycle_ok p issued e
      then prun (pool_recycle p e) (filter (fun x => x <> e) live) issued r
      else prun p live issued r
  end.

Lemma prun_inv ops : forall p live issued frees,
  pool_inv p live issued frees -> NoDup issued ->
  let '(p', live', issued') := prun p live issued ops in
  (exists frees', pool_inv p' live' issued' frees') /\ NoDup issued' /\
  (forall e, e ∈ issued -> e ∉ live -> e ∉ live') /\
  (forall e, e ∈ issued -> e ∈ issued').
Proof.
  induction ops as [|o r IH]; intros p live issued frees I Hnd; simpl.
  - split; [by exists frees|]. done.
  - destruct o as [|e].
    + pose proof (pool_get_inv p live issued frees I) as H.
      destruct (pool_get p) as [p' e]. destruct H as (frees' & I' & Hfresh & _).
      specialize (IH p' (e :: live) (e :: issued) frees' I').
      destruct (prun p' (e :: live) (e :: issued) r) as [[p'' live''] issued''].
      destruct IH as (H1 & H2 & H3 & H4); [by constructor|].
      split; [done|]. split; [done|]. split.
      * intros x Hx Hnl. apply H3; [apply elem_of_cons; by right|].
        intros Hin. apply elem_of_cons in Hin as [->|Hin]; done.
      * intros x Hx. apply H4. apply elem_of_cons. by right.
    + destruct (precycle_ok p issued e) eqn:Hok.
      * unfold precycle_ok in Hok. apply andb_true_iff in Hok as [Hok Hg].
        apply andb_true_iff in Hok as [Hi Ha]. apply bool_decide_eq_true in Hi.
        apply N.ltb_lt in Hg.
        assert (Hl : e ∈ live) by (by apply (pool_alive_iff p live issued frees)).
        destruct (pool_recycle_inv p live issued frees e I Hl Hg) as (I' & _ & _).
        specialize (IH _ _ _ _ I' Hnd).
        destruct (prun (pool_recycle p e) (filter (λ x : Entity, x ≠ e) live) issued r) as [[p'' live''] issued''].
        destruct IH as (H1 & H2 & H3 & H4). split; [done|]. split; [done|]. split; [|done].
        intros x Hx Hnl. apply H3; [done|]. intros Hin. apply elem_of_list_filter in Hin as [_ Hin]. done.
      * specialize (IH _ _ _ _ I Hnd).
        destruct (prun p live issued r) as [[p'' live''] issued'']. done.
Qed.

(** The handle-level statement of C02 for every history of creations and removals,
    starting from a new (or reset) pool. *)
Theorem pool_history ops :
  let '(p, live, issued) := prun pool_init [] [] ops in
  (* no two alive entities share an id *)
  NoDup (map eid live) /\
  (* every issued handle differs from every other issued handle *)
  NoDup issued /\
  (* alive <-> not yet removed, for every handle ever issued *)
  (forall e, e ∈ issued -> pool_alive p e = true <-> e ∈ live) /\
  (* the zero entity is never alive *)
  pool_alive p ezero = false /\
  (* number of alive entities *)
  pool_len p = length live.
Proof.
  pose proof (prun_inv ops pool_init [] [] [] pool_init_inv (NoDup_nil_2)) as H.
  destruct (prun pool_init [] [] ops) as [[p live] issued].
  destruct H as ((frees & I) & Hnd & _ & _).
  split; [apply I|]. split; [done|]. split.
  - intros e He. by apply (pool_alive_iff p live issued frees).
  - split; [by apply (pool_zero_dead p live issued frees)|by apply (pool_len_live p live issued frees)].
Qed.

(** A removed handle is never alive again, whatever follows (within the no-wrap bound
    built into [prun]). *)
Theorem dead_stays_dead ops1 ops2 e :
  let '(p1, live1, issued1) := prun pool_init [] [] ops1 in
  e ∈ issued1 -> e ∉ live1 ->
  let '(p2, live2, issued2) := prun p1 live1 issued1 ops2 in
  pool_alive p2 e = false.
Proof.
  pose proof (prun_inv ops1 pool_init [] [] [] pool_init_inv (NoDup_nil_2)) as H.
  destruct (prun pool_init [] [] ops1) as [[p1 live1] issued1].
  destruct H as ((frees & I) & Hnd & _ & _). intros He Hnl.
  pose proof (prun_inv ops2 p1 live1 issued1 frees I Hnd) as H.
  destruct (prun p1 live1 issued1 ops2) as [[p2 live2] issued2].
  destruct H as ((frees2 & I2) & Hnd2 & Hdead & Hmono).
  destruct (pool_alive p2 e) eqn:Ha; [|done]. exfalso.
  apply (pool_alive_iff p2 live2 issued2 frees2) in Ha; [|done|by apply Hmono].
  by apply (Hdead e).
Qed.

(** ** Finding K1: without the bound the generation wraps and a stale handle is alive
    again.  One recycle at generation 2^32-1 brings the slot back to generation 0. *)
Example gen_wrap_refuted :
  let p := mkPool [(0, gen_max); (1, gen_max)] 0 0 in
  let stale := mkE 1 0 in
  pool_alive p stale = false /\
  pool_alive (pool_recycle p (mkE 1 gen_max)) stale = true /\
  snd (pool_get (pool_recycle p (mkE 1 gen_max))) = stale.
Proof. vm_compute. done. Qed.

(** Non-vacuity: a concrete history with recycling satisfies the theorem's premises. *)
Example pool_history_example :
  let '(p, live, issued) := prun pool_init [] [] [PGet; PGet; PRecycle (mkE 1 0); PGet; PGet; PRecycle (mkE 2 0)] in
  live = [mkE 3 0; mkE 1 1] /\ length issued = 4 /\ pool_len p = 2.
Proof. vm_compute. done. Qed.
