(** * C01 for the structural core: exchange (Add / Remove / Exchange / Assign), Set,
      on worlds without relation components.  The component set an entity reports is the
      one the exchange dictates, kept components keep their values, added ones read zero,
      and no other entity is affected - for every capacity increment, every table size,
      every position of the entity in its table. *)
From Arche Require Import Model.Base Model.Pool Model.Filter Model.World Model.Ops
  Proofs.Tables Proofs.Bits Proofs.Store Proofs.Graph Proofs.Atomic Proofs.GhostBase.

Definition ent_mask (w : world) (e : Entity) : option N :=
  ent_cells w e ≫= fun '(nid, _, _) => w_nodes w !! nid ≫= fun nd => Some (n_mask nd).
Definition comp_val (w : world) (e : Entity) (id : nat) : option Z :=
  ent_cells w e ≫= fun '(nid, _, r) => w_nodes w !! nid ≫= fun nd => col_of nd id ≫= fun c => r !! c.

Record world_ok (w : world) (live : list Entity) : Prop := {
  wk_store : store_ok w live;
  wk_graph : graph_ok w;
  wk_norel : no_rel w;
}.

(** Fold lemmas for the exchange mask. *)
Lemma bit_fold_clear ids : forall m a, bit (foldl (fun m id => setb m id false) m ids) a = bit m a && bool_decide (a ∉ ids).
Proof.
  induction ids as [|id r IH]; intros m a; cbn [foldl].
  - rewrite bool_decide_eq_true_2; [by rewrite andb_true_r|]. intros H. by apply elem_of_nil in H.
  - rewrite IH, bit_setb. destruct (decide (a = id)) as [->|Hne].
    + simpl. rewrite bool_decide_eq_false_2; [by rewrite andb_false_r|]. intros H. apply H. apply elem_of_cons. by left.
    + f_equal. apply bool_decide_ext. rewrite not_elem_of_cons. naive_solver.
Qed.
Lemma bit_fold_set ids : forall m a, bit (foldl (fun m id => setb m id true) m ids) a = bit m a || bool_decide (a ∈ ids).
Proof.
  induction ids as [|id r IH]; intros m a; cbn [foldl].
  - rewrite bool_decide_eq_false_2; [by rewrite orb_false_r|]. intros H. by apply elem_of_nil in H.
  - rewrite IH, bit_setb. destruct (decide (a = id)) as [->|Hne].
    + simpl. rewrite bool_decide_eq_true_2; [by rewrite orb_true_r|]. apply elem_of_cons. by left.
    + f_equal. apply bool_decide_ext. rewrite elem_of_cons. naive_solver.
Qed.

Lemma walk_add_start ids : forall w start m rel r, walk_add w start m rel ids = Some r -> forall id, id ∈ ids -> bit start id = false.
Proof.
  induction ids as [|id0 r0 IH]; intros w start m rel r H id Hin; [by apply elem_of_nil in Hin|].
  simpl in H. destruct (bit m id0); [done|]. destruct (bit start id0) eqn:Hs; [done|].
  destruct (_ && _); [done|]. apply elem_of_cons in Hin as [->|Hin]; [done|]. by eapply IH.
Qed.
Lemma exmask_rem_present rem : forall m m1, exmask_rem m rem = Some m1 -> forall id, id ∈ rem -> bit m id = true.
Proof.
  induction rem as [|id0 r IH]; intros m m1 H id Hin; [by apply elem_of_nil in Hin|].
  simpl in H. destruct (bit m id0) eqn:Hb; [|done]. apply elem_of_cons in Hin as [->|Hin]; [done|].
  specialize (IH _ _ H id Hin). rewrite bit_setb in IH. by destruct (decide (id = id0)) as [->|].
Qed.

(** Operations that keep nodes and every table's node keep the graph invariant. *)
Lemma graph_ok_same_nodes w w' :
  graph_ok w -> w_nodes w' = w_nodes w -> w_tb w' = w_tb w -> w_capinc w' = w_capinc w ->
  (forall tid t, w_tables w !! tid = Some t -> exists t', w_tables w' !! tid = Some t' /\ t_node t' = t_node t) ->
  graph_ok w'.
Proof.
  intros G Hn Htb Hc Ht. split; rewrite ?Hn, ?Htb, ?Hc; try apply G.
  - intros nid nd tid Hnd Hh. destruct (go_node_table _ G nid nd tid Hnd Hh) as (t & Htt & Htn).
    destruct (Ht tid t Htt) as (t' & Ht' & Hn'). exists t'. split; [done|congruence].
  - destruct (go_table0 _ G) as (t0 & n0 & H0 & Hn0 & Hm0). destruct (Ht 0 t0 H0) as (t' & Ht' & Hn').
    exists t', n0. rewrite Hn'. done.
Qed.

Lemma cleanup_table_norel w tid : graph_ok w -> (forall t, w_tables w !! tid = Some t -> is_Some (w_nodes w !! t_node t)) -> cleanup_table w tid = w.
Proof.
  intros G Hn. unfold cleanup_table. destruct (w_tables w !! tid) as [t|] eqn:Ht; [|done].
  destruct (w_nodes w !! t_node t) as [nd|] eqn:Hnd; [|done].
  unfold node_has_rel. rewrite (go_norel _ G _ _ Hnd). rewrite bool_decide_eq_false_2 by (intros [? ?]; done).
  simpl. by rewrite orb_true_r.
Qed.

Lemma set_tbit_keeps w live e : store_ok w live -> graph_ok w ->
  store_ok (set_tbit w e) live /\ graph_ok (set_tbit w e) /\ w_nodes (set_tbit w e) = w_nodes w /\
  w_tables (set_tbit w e) = w_tables w /\ w_index (set_tbit w e) = w_index w /\ w_reg (set_tbit w e) = w_reg w.
Proof.
  intros S G. unfold set_tbit. destruct (ent_is_zero e); [done|].
  split; [|split; [|done]].
  - destruct S as [S1 S2 S3 S4]. split; [exact S1|exact S2|exact S3|exact S4].
  - destruct G as [G1 G2 G3 G4 G5 G6]. split; [exact G1|exact G2|exact G3|exact G4|exact G5|exact G6].
Qed.

Lemma ent_cells_same w w' e : w_index w' = w_index w -> w_tables w' = w_tables w -> ent_cells w' e = ent_cells w e.
Proof. intros H1 H2. unfold ent_cells, loc. by rewrite H1, H2. Qed.

(** ** The exchange theorem *)
Theorem exchange_ok w live e add rem w' x :
  world_ok w live -> e ∈ live -> exchange_nn w e add rem None = Some (w', Some x) ->
  world_ok w' live /\
  (forall e', e' ∈ live -> e' <> e -> ent_mask w' e' = ent_mask w e' /\ forall id, comp_val w' e' id = comp_val w e' id) /\
  exists oldmask newmask,
    ent_mask w e = Some oldmask /\ exchange_mask oldmask add rem = Some newmask /\
    ent_mask w' e = Some newmask /\ newmask <> oldmask /\
    forall id, id < w_tb w -> bit newmask id = true ->
      comp_val w' e id = if bit oldmask id then comp_val w e id else Some 0%Z.
Proof.
  intros [S G NR] Hlive H. unfold exchange_nn in H.
  destruct (is_locked w); [done|]. destruct (chk_alive w e) as [[]|]; try done. simpl in H.
  destruct (so_loc _ _ S e Hlive) as (src & row & st & Hloc & Hst & Hrow).
  destruct (so_table _ _ S src st Hst) as (sn & Hsn & Hsok).
  assert (Hmain : match exchange_mask (n_mask sn) add rem with
                  | Some mask =>
                      match exchange_target w (n_mask sn) mask (t_target st) rem None with
                      | Some target =>
                          match find_or_create_table w src add rem target with
                          | Some (w1, dst) =>
                              Some (cleanup_table (set_tbit (move_entity w1 e src row dst mask) target) src,
                                    Some (mkX dst (n_mask sn) (t_target st) (n_rel sn)))
                          | None => None
                          end
                      | None => None
                      end
                  | None => None
                  end = Some (w', Some x) /\ (add <> [] \/ rem <> [])).
  { rewrite Hloc, Hst, Hsn in H. destruct add, rem; try (split; [exact H|]; (by left) || (by right)). done. }
  clear H. destruct Hmain as [H Hnonempty].
  destruct (exchange_mask (n_mask sn) add rem) as [mask|] eqn:Hmask; [|done].
  destruct (exchange_target w (n_mask sn) mask (t_target st) rem None) as [target|]; [|done].
  destruct (find_or_create_table w src add rem target) as [[w1 dst]|] eqn:Hfoc; [|done].
  injection H as <- _.
  destruct (find_or_create_table_ok w src add rem target st sn w1 dst G NR Hst Hsn Hfoc) as (E & G1 & dt & dn & Hdt & Hdn & Hdm).
  pose proof (exchange_mask_fold _ _ _ _ Hmask) as Hmf. rewrite <- Hmf in Hdm.
  assert (S1 : store_ok w1 live) by (by eapply ext_store_ok).
  pose proof (ex_tables _ _ E src st Hst) as Hst1.
  destruct (ex_nodes _ _ E _ sn Hsn) as (sn1 & Hsn1 & Hsm1 & Hsi1 & _).
  (* the new mask differs from the old one *)
  assert (Hneq : mask <> n_mask sn).
  { unfold exchange_mask in Hmask. destruct (exmask_rem (n_mask sn) rem) as [m1|] eqn:Hr; [|done]. simpl in Hmask.
    pose proof (exmask_rem_present _ _ _ Hr) as Hpres.
    assert (Hstart : forall id, id ∈ add -> bit (n_mask sn) id = false).
    { unfold find_or_create_table in Hfoc. rewrite Hst, Hsn in Hfoc.
      destruct (walk_rem w (n_mask sn) (n_rel sn) rem) as [[wa ma] ra].
      destruct (walk_add wa (n_mask sn) ma ra add) as [r|] eqn:Hwa; [|done]. by eapply walk_add_start. }
    intros Heq. destruct add as [|a add'].
    - destruct rem as [|r0 rem']; [destruct Hnonempty; done|].
      assert (bit mask r0 = false).
      { rewrite Hmf, bit_fold_set, bit_fold_clear.
        rewrite (bool_decide_eq_false_2 (r0 ∉ r0 :: rem')) by (intros Hx; apply Hx; apply elem_of_cons; by left).
        rewrite (bool_decide_eq_false_2 (r0 ∈ [])) by (intros Hx; by apply elem_of_nil in Hx).
        by rewrite andb_false_r. }
      rewrite Heq, (Hpres r0) in H; [done|apply elem_of_cons; by left].
    - assert (bit mask a = true).
      { rewrite Hmf, bit_fold_set, bool_decide_eq_true_2; [apply orb_true_r|apply elem_of_cons; by left]. }
      rewrite Heq, (Hstart a) in H; [done|apply elem_of_cons; by left]. }
  assert (Hsd : src <> dst).
  { intros <-. rewrite Hst1 in Hdt. injection Hdt as <-. rewrite Hsn1 in Hdn. injection Hdn as <-. congruence. }
  assert (Hcap : 0 < node_capinc w1 dn).
  { unfold node_capinc, node_has_rel. rewrite (go_norel _ G1 _ _ Hdn).
    rewrite bool_decide_eq_false_2 by (intros [? ?]; done). apply G1. }
  assert (Hloc1 : loc w1 e = Some (src, row)) by (by rewrite (ext_loc _ _ _ E)).
  destruct (move_entity_ok w1 live e src row dst mask st dt sn1 dn S1 Hlive Hloc1 Hsd Hst1 Hdt Hsn1 Hdn Hcap)
    as (S2 & Hn2 & Hp2 & Htb2 & Hc2 & Hlen2 & Hother & (srow & Hsrow & Hcells) & Htabs & (st1 & Hst1' & _ & Hst1n & _) & (dt2 & Hdt2' & _ & Hdt2n & _)).
  set (w2 := move_entity w1 e src row dst mask) in *.
  assert (G2 : graph_ok w2).
  { eapply (graph_ok_same_nodes w1 w2); try done.
    - unfold w2, move_entity. rewrite Hst1, Hdt, Hsn1, Hdn. destruct (tbl_alloc _ _ _ _). by destruct (tbl_remove _ _ _).
    - unfold w2, move_entity. rewrite Hst1, Hdt, Hsn1, Hdn. destruct (tbl_alloc _ _ _ _). by destruct (tbl_remove _ _ _).
    - intros tid t Ht. destruct (decide (tid = src)) as [->|Hs]; [exists st1; rewrite Hst1 in Ht; injection Ht as <-; done|].
      destruct (decide (tid = dst)) as [->|Hd]; [exists dt2; rewrite Hdt in Ht; injection Ht as <-; done|].
      exists t. by rewrite Htabs. }
  destruct (set_tbit_keeps w2 live target S2 G2) as (S3 & G3 & Hn3 & Ht3 & Hi3 & Hr3).
  set (w3 := set_tbit w2 target) in *.
  assert (Hcl : cleanup_table w3 src = w3).
  { apply cleanup_table_norel; [done|]. intros t Ht. by destruct (so_table _ _ S3 src t Ht) as (nd & -> & _). }
  rewrite Hcl.
  assert (NR3 : no_rel w3).
  { intros id. unfold reg_is_rel. rewrite Hr3.
    assert (w_reg w2 = w_reg w1) as ->.
    { unfold w2, move_entity. rewrite Hst1, Hdt, Hsn1, Hdn. destruct (tbl_alloc _ _ _ _). by destruct (tbl_remove _ _ _). }
    rewrite (ex_reg _ _ E). apply NR. }
  split; [by split|].
  assert (Hcells3 : forall e0, ent_cells w3 e0 = ent_cells w2 e0) by (intros; by apply ent_cells_same).
  assert (Hnodes3 : w_nodes w3 = w_nodes w1) by congruence.
  (* views are read through the nodes of w1, whose masks and ids extend those of w *)
  assert (Hview : forall e0 (c : option (nat * Entity * list Z)), e0 ∈ live -> ent_cells w e0 = c -> ent_cells w3 e0 = c ->
            ent_mask w3 e0 = ent_mask w e0 /\ forall id, comp_val w3 e0 id = comp_val w e0 id).
  { intros e0 c He0 Hc0 Hc3. unfold ent_mask, comp_val. rewrite Hc0, Hc3. destruct c as [[[nid tg] r]|]; [|done]. simpl.
    rewrite Hnodes3.
    destruct (so_loc _ _ S e0 He0) as (t0id & r0 & t0 & Hl0 & Ht0 & _).
    assert (nid = t_node t0) as ->.
    { unfold ent_cells in Hc0. rewrite Hl0 in Hc0. simpl in Hc0. rewrite Ht0 in Hc0. simpl in Hc0.
      destruct (t_rows t0 !! r0); [|done]. by injection Hc0 as <- _ _. }
    destruct (so_table _ _ S t0id t0 Ht0) as (n0 & Hn0 & _).
    destruct (ex_nodes _ _ E _ n0 Hn0) as (n0' & Hn0' & Hm0 & Hi0 & _). rewrite Hn0, Hn0'. simpl.
    split; [by rewrite Hm0|]. intros id. unfold col_of. by rewrite Hi0. }
  split.
  - intros e' He' Hne. apply (Hview e' (ent_cells w e') He' eq_refl).
    rewrite Hcells3, (Hother e' He' Hne). by apply (ext_cells w w1 live).
  - exists (n_mask sn), mask.
    assert (Hce : ent_cells w e = Some (t_node st, t_target st, srow)).
    { unfold ent_cells. rewrite Hloc. simpl. rewrite Hst. simpl. by rewrite Hsrow. }
    split; [unfold ent_mask; rewrite Hce; simpl; by rewrite Hsn|]. split; [done|].
    assert (Hce3 : ent_cells w3 e = Some (t_node dt, t_target dt, copy_cells mask (n_ids sn1) srow (n_ids dn) (zero_row dn))).
    { by rewrite Hcells3. }
    split; [unfold ent_mask; rewrite Hce3; simpl; rewrite Hnodes3, Hdn; simpl; by rewrite Hdm|].
    split; [done|].
    intros id Hid Hbit. unfold comp_val. rewrite Hce3, Hce. simpl. rewrite Hnodes3, Hdn, Hsn. simpl.
    (* columns *)
    assert (Hdids : n_ids dn = mask_ids (w_tb w) mask).
    { rewrite (go_ids _ G1 _ _ Hdn), (ex_tb _ _ E). by rewrite Hdm. }
    assert (Hsids : n_ids sn1 = mask_ids (w_tb w) (n_mask sn)).
    { rewrite Hsi1. apply (go_ids _ G _ _ Hsn). }
    assert (Hndd : NoDup (n_ids dn)) by (rewrite Hdids; apply NoDup_filter, NoDup_seq).
    assert (Hnds : NoDup (n_ids sn1)) by (rewrite Hsids; apply NoDup_filter, NoDup_seq).
    assert (Hin : id ∈ n_ids dn).
    { rewrite Hdids. unfold mask_ids. apply elem_of_list_filter. split; [done|]. apply elem_of_seq. lia. }
    apply elem_of_list_lookup in Hin as [j Hj].
    unfold col_of at 1. rewrite (find_index_nodup _ j id Hndd Hj). simpl.
    rewrite (copy_cells_spec mask (n_ids sn1) srow (n_ids dn) (zero_row dn) j id Hnds Hndd); try done.
    + rewrite Hbit. unfold col_of. rewrite <- Hsi1.
      destruct (find_index (Nat.eqb id) (n_ids sn1)) as [i|] eqn:Hfi.
      * apply find_index_Some_lookup in Hfi as (y & Hy & Hey). apply Nat.eqb_eq in Hey. subst y.
        assert (Hb : bit (n_mask sn) id = true).
        { apply elem_of_list_lookup_2 in Hy. rewrite Hsids in Hy. unfold mask_ids in Hy. by apply elem_of_list_filter in Hy as [? _]. }
        by rewrite Hb.
      * apply find_index_None_notin in Hfi.
        assert (Hb : bit (n_mask sn) id = false).
        { destruct (bit (n_mask sn) id) eqn:Hb; [|done]. exfalso. apply Hfi. rewrite Hsids. unfold mask_ids.
          apply elem_of_list_filter. split; [done|]. apply elem_of_seq. lia. }
        rewrite Hb. unfold zero_row. apply lookup_replicate_2. by apply lookup_lt_Some in Hj.
    + destruct Hsok as [_ Hw _]. rewrite (Hw row srow Hsrow). unfold zero_row. by rewrite replicate_length, Hsi1.
    + unfold zero_row. by rewrite replicate_length.
Qed.

(** ** World-level invariant including the entity pool, and entity creation *)
Record world_ok2 (w : world) (live issued : list Entity) : Prop := {
  w2_ok : world_ok w live;
  w2_pool : exists frees, Proofs.PoolInv.pool_inv (w_pool w) live issued frees;
  w2_ilen : length (w_index w) = length (p_ents (w_pool w));
}.

Lemma exchange_ok2 w live issued e add rem w' x :
  world_ok2 w live issued -> e ∈ live -> exchange_nn w e add rem None = Some (w', Some x) -> world_ok2 w' live issued.
Proof.
  intros [K P L] He H. destruct (exchange_ok w live e add rem w' x K He H) as (K' & _).
  (* pool and index length: the exchange touches neither the pool nor the index length *)
  assert (Hp : w_pool w' = w_pool w /\ length (w_index w') = length (w_index w)).
  { unfold exchange_nn in H. destruct (is_locked w); [done|]. destruct (chk_alive w e) as [[]|]; try done. simpl in H.
    destruct K as [S G NR]. destruct (so_loc _ _ S e He) as (src & row & st & Hloc & Hst & Hrow).
    destruct (so_table _ _ S src st Hst) as (sn & Hsn & _). rewrite Hloc, Hst, Hsn in H.
    assert (Hm : match exchange_mask (n_mask sn) add rem with
                  | Some mask => match exchange_target w (n_mask sn) mask (t_target st) rem None with
                      | Some target => match find_or_create_table w src add rem target with
                          | Some (w1, dst) => Some (cleanup_table (set_tbit (move_entity w1 e src row dst mask) target) src,
                                    Some (mkX dst (n_mask sn) (t_target st) (n_rel sn)))
                          | None => None end
                      | None => None end
                  | None => None end = Some (w', Some x)) by (destruct add, rem; done).
    clear H. destruct (exchange_mask _ _ _) as [mask|]; [|done]. destruct (exchange_target _ _ _ _ _ _) as [target|]; [|done].
    destruct (find_or_create_table w src add rem target) as [[w1 dst]|] eqn:Hf; [|done]. injection Hm as <- _.
    destruct (find_or_create_table_ok w src add rem target st sn w1 dst G NR Hst Hsn Hf) as (E & G1 & _).
    assert (Hcl : forall w0 tid, w_pool (cleanup_table w0 tid) = w_pool w0 /\ length (w_index (cleanup_table w0 tid)) = length (w_index w0)).
    { intros w0 tid. unfold cleanup_table. destruct (w_tables w0 !! tid) as [tc|] eqn:Htc; [|done].
      destruct (w_nodes w0 !! t_node tc) as [nc|] eqn:Hnc; [|done].
      destruct (_ || _ || _); [done|]. destruct (_ || _); [done|]. unfold retire_table. by rewrite Htc, Hnc. }
    destruct (Hcl (set_tbit (move_entity w1 e src row dst mask) target) src) as [-> ->].
    assert (Hst' : forall w0 tg, w_pool (set_tbit w0 tg) = w_pool w0 /\ w_index (set_tbit w0 tg) = w_index w0).
    { intros. unfold set_tbit. by destruct (ent_is_zero tg). }
    destruct (Hst' (move_entity w1 e src row dst mask) target) as [-> ->].
    unfold move_entity. destruct (w_tables w1 !! src), (w_tables w1 !! dst); try (by rewrite (ex_pool _ _ E), (ex_index _ _ E)).
    destruct (w_nodes w1 !! t_node t), (w_nodes w1 !! t_node t0); try (by rewrite (ex_pool _ _ E), (ex_index _ _ E)).
    destruct (tbl_alloc _ _ _ _). destruct (tbl_remove _ _ _) as [st1 sw]. simpl.
    rewrite (ex_pool _ _ E). split; [done|]. rewrite insert_length.
    destruct sw; [destruct (t_ents st1 !! row); [rewrite insert_length|]|]; by rewrite (ex_index _ _ E). }
  destruct Hp as [Hp Hl]. split; [done|by rewrite Hp|by rewrite Hl, Hp].
Qed.

(** NewEntity(ids...): a fresh handle, the requested component set, all values zero,
    nothing else changes. *)
Theorem new_entity_ok w live issued ids w' e evs :
  world_ok2 w live issued -> op_new w ids [] = (w', Ok (VEnt e), evs) ->
  e ∉ issued /\ world_ok2 w' (e :: live) (e :: issued) /\
  (forall e', e' ∈ live -> ent_mask w' e' = ent_mask w e' /\ forall id, comp_val w' e' id = comp_val w e' id) /\
  ent_mask w' e = Some (foldl (fun m id => setb m id true) 0%N ids) /\
  forall id, id < w_tb w -> bit (foldl (fun m id => setb m id true) 0%N ids) id = true -> comp_val w' e id = Some 0%Z.
Proof.
  intros [[S G NR] [frees P] L] H. unfold op_new in H. destruct (is_locked w); [done|].
  destruct (go_table0 _ G) as (t0 & n0 & Ht0 & Hn0 & Hm0).
  assert (Hfoc : exists w1 tid, (match ids with [] => Some (w, 0) | _ => find_or_create_table w 0 ids [] ezero end) = Some (w1, tid) /\
            ext w w1 /\ graph_ok w1 /\ exists dt dn, w_tables w1 !! tid = Some dt /\ w_nodes w1 !! t_node dt = Some dn /\
            n_mask dn = foldl (fun m id => setb m id true) 0%N ids).
  { destruct (match ids with [] => Some (w, 0) | _ => find_or_create_table w 0 ids [] ezero end) as [[w1 tid]|] eqn:Hf; [|done].
    exists w1, tid. split; [done|]. destruct ids as [|i0 ids'].
    - injection Hf as <- <-. split; [apply ext_refl|]. split; [done|]. exists t0, n0. done.
    - destruct (find_or_create_table_ok w 0 (i0 :: ids') [] ezero t0 n0 w1 tid G NR Ht0 Hn0 Hf) as (E & G1 & dt & dn & Hdt & Hdn & Hdm).
      split; [done|]. split; [done|]. exists dt, dn. split; [done|]. split; [done|]. rewrite Hdm. cbn [foldl]. by rewrite Hm0. }
  destruct Hfoc as (w1 & tid & Hf & E & G1 & dt & dn & Hdt & Hdn & Hdm). rewrite Hf in H.
  assert (S1 : store_ok w1 live) by (by eapply ext_store_ok).
  assert (P1 : Proofs.PoolInv.pool_inv (w_pool w1) live issued frees) by (by rewrite (ex_pool _ _ E)).
  assert (L1 : length (w_index w1) = length (p_ents (w_pool w1))) by (by rewrite (ex_index _ _ E), (ex_pool _ _ E)).
  assert (Hcap : 0 < node_capinc w1 dn).
  { unfold node_capinc, node_has_rel. rewrite (go_norel _ G1 _ _ Hdn). rewrite bool_decide_eq_false_2 by (intros [? ?]; done). apply G1. }
  pose proof (create_entity_ok w1 live issued frees tid dt dn S1 P1 L1 Hdt Hdn Hcap) as Hc.
  destruct (create_entity w1 tid) as [w2 e2]. simpl in H.
  destruct Hc as (Hnl & Hni & S2 & P2 & L2 & Hn2 & Hr2 & Htb2 & Hci2 & Hold & Hnew & Htn).
  destruct (table_mask_rel w2 tid). injection H as <- <- _.
  assert (G2 : graph_ok w2) by (by eapply (graph_ok_same_nodes w1 w2)).
  assert (NR2 : no_rel w2).
  { intros id. unfold reg_is_rel. rewrite Hr2, (ex_reg _ _ E). apply NR. }
  split; [done|]. split; [split; [by split|done|done]|].
  split.
  { intros e' He'. unfold ent_mask, comp_val. rewrite (Hold e' He'), (ext_cells w w1 live e' E S He'), Hn2.
    destruct (ent_cells w e') as [[[nid tg] r]|] eqn:Hc; [|done]. simpl.
    destruct (so_loc _ _ S e' He') as (t1id & r1 & t1 & Hl1 & Ht1 & _).
    assert (nid = t_node t1) as ->.
    { unfold ent_cells in Hc. rewrite Hl1 in Hc. simpl in Hc. rewrite Ht1 in Hc. simpl in Hc.
      destruct (t_rows t1 !! r1); [|done]. by injection Hc as <- _ _. }
    destruct (so_table _ _ S t1id t1 Ht1) as (n1 & Hn1 & _).
    destruct (ex_nodes _ _ E _ n1 Hn1) as (n1' & Hn1' & Hm1 & Hi1 & _). rewrite Hn1, Hn1'. simpl.
    split; [by rewrite Hm1|]. intros id. unfold col_of. by rewrite Hi1. }
  split; [unfold ent_mask; rewrite Hnew; simpl; rewrite Hn2, Hdn; simpl; by rewrite Hdm|].
  intros id Hid Hbit. unfold comp_val. rewrite Hnew. simpl. rewrite Hn2, Hdn. simpl.
  assert (Hdids : n_ids dn = mask_ids (w_tb w) (n_mask dn)) by (rewrite (go_ids _ G1 _ _ Hdn), (ex_tb _ _ E); done).
  assert (Hin : id ∈ n_ids dn).
  { rewrite Hdids, Hdm. unfold mask_ids. apply elem_of_list_filter. split; [done|]. apply elem_of_seq. lia. }
  apply elem_of_list_lookup in Hin as [j Hj].
  assert (Hndd : NoDup (n_ids dn)) by (rewrite Hdids; apply NoDup_filter, NoDup_seq).
  unfold col_of. rewrite (find_index_nodup _ j id Hndd Hj). simpl.
  unfold zero_row. apply lookup_replicate_2. by apply lookup_lt_Some in Hj.
Qed.

(** The initial world satisfies the invariant (no entity alive, no handle issued). *)
Lemma world_init_ok capinc relcapinc tb : 0 < capinc -> world_ok2 (world_init capinc relcapinc tb) [] [].
Proof.
  intros Hc. unfold world_init. cbn -[mask_ids replicate locks_init].
  set (nd0 := mkNode 0 (mask_ids tb 0) None true [0] [] []).
  split; [split|exists []; apply Proofs.PoolInv.pool_init_inv|done].
  - split; simpl.
    + constructor.
    + intros e He. by apply elem_of_nil in He.
    + intros tid t row e Ht Hr. destruct tid; simpl in Ht; [injection Ht as <-; by simpl in Hr|done].
    + intros tid t Ht. destruct tid; simpl in Ht; [|done]. injection Ht as <-. simpl. eexists. split; [reflexivity|].
      split; unfold tlen; simpl.
      * lia.
      * intros i r Hi. destruct i; simpl in Hi; [by injection Hi as <-|done].
      * intros i _ Hi. destruct i; simpl in *; [done|lia].
  - split; simpl.
    + intros nid nd H. destruct nid; simpl in H; [by injection H as <-|done].
    + intros nid nd H. destruct nid; simpl in H; [by injection H as <-|done].
    + intros i j ni nj Hi Hj _. destruct i, j; simpl in *; done.
    + intros nid nd tid H Hh. destruct nid; simpl in H; [|done]. injection H as <-. simpl in Hh. injection Hh as <-.
      eexists. split; [reflexivity|done].
    + eexists _, _. split; [reflexivity|]. simpl. split; [reflexivity|done].
    + done.
  - intros id. unfold reg_is_rel. simpl. done.
Qed.

(** ** Registration of a non-relation component type keeps the invariant *)
Lemma register_ok w live issued key zs w' id :
  world_ok2 w live issued -> register_comp w key false zs = Some (w', id) -> world_ok2 w' live issued.
Proof.
  intros K H. unfold register_comp in H. destruct (find_index _ _); [by injection H as <- _|].
  destruct (_ <=? _); [done|]. destruct (is_locked w); [done|].
  set (w1 := w <| w_reg := w_reg w ++ [mkCI key false zs] |>) in *.
  assert (K1 : world_ok2 w1 live issued).
  { destruct K as [[S G NR] P L]. split; [split|done|done].
    - destruct S as [S1 S2 S3 S4]. by split.
    - destruct G as [G1 G2 G3 G4 G5 G6]. by split.
    - intros i. unfold reg_is_rel. simpl. destruct (decide (i < length (w_reg w))).
      + rewrite lookup_app_l by done. apply (NR i).
      + rewrite lookup_app_r by lia. destruct (i - length (w_reg w)) as [|k]; [done|]. by destruct k. }
  destruct (_ && _); injection H as <- _; [|done].
  (* extend_layouts only changes t_layouts *)
  destruct K1 as [[S G NR] P L].
  assert (Hlk : forall tid, w_tables (extend_layouts w1 (length (w_reg w) + 16)) !! tid =
            (fun t => match w_nodes w1 !! t_node t with
                      | Some nd => if n_active nd && (t_layouts t <? length (w_reg w) + 16) then t <| t_layouts := length (w_reg w) + 16 |> else t
                      | None => t end) <$> w_tables w1 !! tid).
  { intros tid. unfold extend_layouts. simpl. by rewrite list_lookup_fmap. }
  assert (Hsame : forall tid t', w_tables (extend_layouts w1 (length (w_reg w) + 16)) !! tid = Some t' ->
            exists t, w_tables w1 !! tid = Some t /\ t_ents t' = t_ents t /\ t_rows t' = t_rows t /\ t_node t' = t_node t /\ t_target t' = t_target t).
  { intros tid t' Ht'. rewrite Hlk in Ht'. destruct (w_tables w1 !! tid) as [t|]; [|done]. simpl in Ht'. injection Ht' as <-.
    exists t. split; [done|]. cbv beta.
    change (w_nodes w1) with (w_nodes w).
    destruct (w_nodes w !! t_node t) as [n1|]; [destruct (n_active n1 && (t_layouts t <? length (w_reg w) + 16))|];
      repeat split; reflexivity. }
  split; [split|done|done].
  - split.
    + apply S.
    + intros e He. destruct (so_loc _ _ S e He) as (tid & row & t & Hl & Ht & Hr). exists tid, row.
      eexists. split; [exact Hl|]. rewrite Hlk, Ht. simpl. split; [reflexivity|].
      destruct (w_nodes w !! t_node t) as [n1|]; [|done]. by destruct (n_active n1 && (t_layouts t <? length (w_reg w) + 16)).
    + intros tid t' row e Ht' Hr. destruct (Hsame tid t' Ht') as (t & Ht & He & _). rewrite He in Hr.
      by apply (so_rows _ _ S tid t row e).
    + intros tid t' Ht'. destruct (Hsame tid t' Ht') as (t & Ht & He & Hr & Hn & _).
      destruct (so_table _ _ S tid t Ht) as (nd & Hnd & [Hc Hw Hz]). exists nd. rewrite Hn. split; [done|].
      split; unfold tlen in *; rewrite ?He, ?Hr; done.
  - eapply (graph_ok_same_nodes w1); try done.
    intros tid t Ht. eexists. rewrite Hlk, Ht. simpl. split; [reflexivity|].
    destruct (w_nodes w !! t_node t) as [n1|]; [|done]. by destruct (n_active n1 && (t_layouts t <? length (w_reg w) + 16)).
  - done.
Qed.

Lemma exchange_nn_none_same w e add rem rel w1 : exchange_nn w e add rem rel = Some (w1, None) -> w1 = w.
Proof.
  unfold exchange_nn. intros H. destruct (is_locked w); [done|]. destruct (chk_alive w e) as [[]|]; try done.
  destruct (negb _); [done|].
  assert (Hm : forall (o : option (world * option xinfo)),
    o = match loc w e with
    | Some (src, row) => match w_tables w !! src with
        | Some st => match w_nodes w !! t_node st with
            | Some sn => match exchange_mask (n_mask sn) add rem with
                | Some mask => match exchange_target w (n_mask sn) mask (t_target st) rem rel with
                    | Some target => match find_or_create_table w src add rem target with
                        | Some (w1, dst) => Some (cleanup_table (set_tbit (move_entity w1 e src row dst mask) target) src,
                                                  Some (mkX dst (n_mask sn) (t_target st) (n_rel sn)))
                        | None => None end
                    | None => None end
                | None => None end
            | None => None end
        | None => None end
    | None => None end -> o = Some (w1, None) -> False).
  { intros o -> Ho. destruct (loc w e) as [[src row]|]; [|done]. destruct (w_tables w !! src) as [st|]; [|done].
    destruct (w_nodes w !! t_node st) as [sn|]; [|done]. destruct (exchange_mask _ _ _); [|done].
    destruct (exchange_target _ _ _ _ _ _); [|done]. by destruct (find_or_create_table _ _ _ _ _) as [[? ?]|]. }
  destruct add, rem; try (exfalso; by eapply Hm).
  destruct (bool_decide _); [done|]. by injection H as <-.
Qed.

(** ** Histories over the structural core *)
Inductive core_op : op -> Prop :=
| co_reg key zs : core_op (ORegister key false zs)
| co_new ids : core_op (ONew ids)
| co_xchg e add rem : core_op (OExchange e add rem)
| co_set e id v : core_op (OSet e id v)
| co_get e id : core_op (OGet e id)
| co_mask e : core_op (OMask e).

(** An operation addressing an entity is assumed to address an issued handle (the API
    hands out nothing else); [chk_alive] then decides aliveness exactly. *)
Definition addresses_issued (issued : list Entity) (o : op) : Prop :=
  match o with
  | OExchange e _ _ | OSet e _ _ => e ∈ issued
  | _ => True
  end.

Lemma chk_alive_live w live issued e :
  world_ok2 w live issued -> e ∈ issued -> chk_alive w e = Some true -> e ∈ live.
Proof.
  intros [_ [frees P] _] Hi Ha.
  apply (Proofs.PoolInv.pool_alive_iff (w_pool w) live issued frees e P Hi).
  unfold chk_alive in Ha. unfold pool_alive. by rewrite Ha.
Qed.

(** Handles issued so far: every entity a creation call has returned. *)
Definition issued_after (w : world) (o : op) (issued : list Entity) : list Entity :=
  match step w o with
  | (_, Ok (VEnt e), _) => match o with ONew _ => e :: issued | _ => issued end
  | _ => issued
  end.

(** The world a panicking creation or exchange leaves behind keeps the invariant: it is an
    extension of [w] by empty graph nodes (and at most one empty table). *)
Lemma ext_ok2 w w1 live issued : ext w w1 -> graph_ok w1 -> world_ok2 w live issued -> world_ok2 w1 live issued.
Proof.
  intros E G1 [[S G NR] [frees P] L]. split; [split|exists frees; by rewrite (ex_pool _ _ E)|by rewrite (ex_index _ _ E), (ex_pool _ _ E)].
  - by eapply ext_store_ok.
  - done.
  - by eapply no_rel_ext.
Qed.

Lemma foc_world_ok2 w live issued src add rem tg :
  world_ok2 w live issued -> world_ok2 (foc_world w src add rem tg) live issued.
Proof.
  intros K. pose proof K as [[S G NR] _ _].
  apply (foc_world_ind (fun _ w1 => world_ok2 w1 live issued)); [done| |].
  - intros w1 tid H. unfold find_or_create_table in H.
    destruct (w_tables w !! src) as [st|] eqn:Hst; [|done]. destruct (w_nodes w !! t_node st) as [sn|] eqn:Hsn; [|done].
    assert (H' : find_or_create_table w src add rem tg = Some (w1, tid)) by (unfold find_or_create_table; by rewrite Hst, Hsn).
    destruct (find_or_create_table_ok w src add rem tg st sn w1 tid G NR Hst Hsn H') as (E & G1 & _). by apply (ext_ok2 w).
  - intros st sn wa m1 rel1 pre m2 r2 w1 Hst Hsn Hr Hp Ha.
    rewrite (go_norel _ G _ _ Hsn) in Hr.
    pose proof (walk_rem_ok rem w (n_mask sn) G NR (ex_intro _ _ (ex_intro _ sn (conj Hsn eq_refl)))) as H1.
    rewrite Hr in H1. destruct H1 as (E1 & G1 & _ & _ & -> & _ & Hn1).
    destruct (walk_add_ok pre wa (n_mask sn) m1 w1 m2 r2 G1 (no_rel_ext _ _ E1 NR) Hn1 Ha) as (E2 & G2 & _).
    apply (ext_ok2 w); [by eapply ext_trans|done|done].
Qed.

Lemma ghost_of_ok2 w live issued o : world_ok2 w live issued -> world_ok2 (ghost_of w o) live issued.
Proof.
  intros K. destruct (ghost_of_case w o) as [->|[(tg & _ & _ & ->)|(e & rem & rel & ->)]]; [done|by apply foc_world_ok2|].
  destruct (exchange_ghost_case w e (ghost_ids o) rem rel) as [->|(src & row & st & sn & mask & tg & _ & _ & _ & _ & _ & _ & _ & ->)];
    [done|by apply foc_world_ok2].
Qed.

Theorem core_step_ok w live issued o :
  world_ok2 w live issued -> core_op o -> addresses_issued issued o ->
  exists live', world_ok2 (fst (fst (step w o))) live' (issued_after w o issued).
Proof.
  intros K Hc Ha. unfold issued_after. destruct Hc; simpl.
  - destruct (register_comp w key false zs) as [[w1 id]|] eqn:H; simpl; [|by exists live].
    exists live. by eapply register_ok.
  - destruct (op_new w ids []) as [[w1 [v| |]] evs] eqn:H; simpl.
    + destruct v; try (exfalso; unfold op_new in H; destruct (is_locked w); [done|];
        destruct (match ids with [] => _ | _ => _ end) as [[? ?]|]; [|done]; destruct (create_entity _ _); destruct (table_mask_rel _ _); done).
      destruct (new_entity_ok w live issued ids w1 e evs K H) as (_ & K1 & _). by exists (e :: live).
    + apply Proofs.Atomic.op_new_panic in H as [-> _]. exists live. by apply (ghost_of_ok2 w live issued (ONew ids)).
    + exfalso. unfold op_new in H. destruct (is_locked w); [done|].
      destruct (match ids with [] => _ | _ => _ end) as [[? ?]|]; [|done]. destruct (create_entity _ _). destruct (table_mask_rel _ _). done.
  - unfold op_exchange. destruct (exchange_nn w e add rem None) as [[w1 [x|]]|] eqn:H; simpl.
    + assert (He : e ∈ live).
      { eapply chk_alive_live; [exact K|exact Ha|]. unfold exchange_nn in H. destruct (is_locked w); [done|]. by destruct (chk_alive w e) as [[]|]. }
      assert (K1 : world_ok2 (set_comps w1 e []) live issued) by (simpl; by eapply exchange_ok2).
      by exists live.
    + assert (w1 = w) as -> by (by eapply exchange_nn_none_same).
      by exists live.
    + exists live. by apply (ghost_of_ok2 w live issued (OExchange e add rem)).
  - destruct (set_comp w e id v) as [w1|] eqn:H; simpl; [|by exists live].
    assert (He : e ∈ live).
    { eapply chk_alive_live; [exact K|exact Ha|]. unfold set_comp in H. by destruct (chk_alive w e) as [[]|]. }
    destruct K as [[S G NR] P L].
    destruct (set_comp_spec w live e id v w1 S He H) as (S1 & Hn & Hi & Hp & _).
    exists live. split; [split|by rewrite Hp|by rewrite Hi, Hp].
    + done.
    + unfold set_comp in H. destruct (chk_alive w e) as [[]|]; try done. destruct (loc w e) as [[tid row]|]; [|done].
      destruct (w_tables w !! tid) as [t|] eqn:Ht; [|done]. destruct (w_nodes w !! t_node t); [|done]. destruct (col_of n id); [|done].
      destruct (reg_is_zs w id); injection H as <-; [done|].
      eapply (graph_ok_same_nodes w); try done. intros tid0 t0 Ht0. unfold upd_table. simpl.
      destruct (decide (tid0 = tid)) as [->|].
      * rewrite list_lookup_insert by (by apply lookup_lt_Some in Ht). rewrite Ht in Ht0. injection Ht0 as <-. by eexists.
      * rewrite list_lookup_insert_ne by done. by exists t0.
    + intros i. unfold reg_is_rel. unfold set_comp in H. destruct (chk_alive w e) as [[]|]; try done. destruct (loc w e) as [[tid row]|]; [|done].
      destruct (w_tables w !! tid) as [t|]; [|done]. destruct (w_nodes w !! t_node t); [|done]. destruct (col_of n id); [|done].
      destruct (reg_is_zs w id); injection H as <-; apply (NR i).
  - destruct (get_comp w e id); by exists live.
  - destruct (ent_table w e) as [[[[? ?] ?] ?]|]; by exists live.
Qed.

(** A history of core operations in which every operation that addresses an entity
    addresses a handle issued earlier in that same history. *)
Fixpoint core_run_ok (w : world) (issued : list Entity) (ops : list op) : Prop :=
  match ops with
  | [] => True
  | o :: r => core_op o /\ addresses_issued issued o /\ core_run_ok (fst (fst (step w o))) (issued_after w o issued) r
  end.

(** The storage invariant holds after EVERY such history, from a new world with any
    capacity increment: unbounded numbers of entities, table growths, swap-removes. *)
Theorem core_history ops : forall w live issued,
  world_ok2 w live issued -> core_run_ok w issued ops -> exists live' issued', world_ok2 (run w ops) live' issued'.
Proof.
  induction ops as [|o r IH]; intros w live issued K Hr; simpl.
  - by exists live, issued.
  - destruct Hr as (Hc & Ha & Hr). destruct (core_step_ok w live issued o K Hc Ha) as (live' & K').
    by apply (IH _ live' _ K').
Qed.
