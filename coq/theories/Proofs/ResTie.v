(** * The resource storage of /repo (ecs/resources.go: Add, Remove, Get, Has, reset), as
    translated into [Gen/GoResources.v], is the model's list of optional values [w_res]:
    on related states every call returns what the model's step returns, panics included
    (double add, removal of an absent resource, id out of range); reset clears every slot.
    A value of type [any] is nil or an opaque number; [f] maps the model's values to them. *)
From Arche Require Import Model.Base Proofs.GoLemmas.
From Arche Require Import Pure.MachInt Pure.GoRt Gen.Mask256 Gen.GoResources.
From Coq Require Import ZifyN ZifyNat.
Local Open Scope nat_scope.

Section WithValues.
Context (f : Z -> N).

Definition rr (g : go_Resources) (l : list (option Z)) : Prop :=
  s_data (Resources_resources g) = map (fmap f) l.

Lemma rr_len g l : rr g l -> s_len (Resources_resources g) = N.of_nat (length l).
Proof. intros R. unfold s_len. by rewrite R, map_length. Qed.

Lemma rr_get g l i : rr g l ->
  (N.ltb (N.of_nat i) (s_len (Resources_resources g)), s_get None (Resources_resources g) (N.of_nat i)) =
  match l !! i with Some o => (true, fmap f o) | None => (false, None) end.
Proof.
  intros R. rewrite (rr_len _ _ R). unfold s_get. rewrite R.
  destruct (l !! i) as [o|] eqn:Hl.
  - pose proof (lookup_lt_Some _ _ _ Hl). rewrite (a_get_map _ _ _ _ _ Hl).
    f_equal. apply N.ltb_lt. lia.
  - apply lookup_ge_None in Hl. f_equal; [apply N.ltb_ge; lia|].
    unfold a_get. rewrite Nat2N.id. apply nth_overflow. rewrite map_length. lia.
Qed.

Lemma is_some_fmap (o : option Z) : is_some (fmap f o) = bool_decide (is_Some o).
Proof.
  destruct o as [z|].
  - transitivity true; [done|]. symmetry. apply bool_decide_eq_true_2. by eexists.
  - transitivity false; [done|]. symmetry. apply bool_decide_eq_false_2. intros [? ?]. done.
Qed.

Theorem Add_tie g l i v :
  rr g l ->
  match l !! i with
  | Some None => exists g', Resources_Add g (N.of_nat i) (Some (f v)) = Ret g' /\ rr g' (<[i := Some v]> l)
  | _ => Resources_Add g (N.of_nat i) (Some (f v)) = Panicked
  end.
Proof.
  intros R. unfold Resources_Add. cbv zeta. pose proof (rr_get g l i R) as Hg.
  destruct (l !! i) as [[x|]|] eqn:Hl; inversion Hg as [[H1 H2]]; rewrite ?H1, ?H2; unfold go_guard; cbn; try done.
  eexists. split; [reflexivity|]. unfold rr, s_set. cbn. rewrite R.
  change (Some (f v)) with (fmap f (Some v)). by rewrite a_set_map.
Qed.

Theorem Remove_tie g l i :
  rr g l ->
  match l !! i with
  | Some (Some _) => exists g', Resources_Remove g (N.of_nat i) = Ret g' /\ rr g' (<[i := None]> l)
  | _ => Resources_Remove g (N.of_nat i) = Panicked
  end.
Proof.
  intros R. unfold Resources_Remove. cbv zeta. pose proof (rr_get g l i R) as Hg.
  destruct (l !! i) as [[x|]|] eqn:Hl; inversion Hg as [[H1 H2]]; rewrite ?H1, ?H2; unfold go_guard; cbn; try done.
  eexists. split; [reflexivity|]. unfold rr, s_set. cbn. rewrite R.
  change (@None N) with (fmap f (@None Z)). by rewrite a_set_map.
Qed.

Theorem Get_tie g l i :
  rr g l ->
  Resources_Get g (N.of_nat i) = match l !! i with Some o => Ret (fmap f o) | None => Panicked end.
Proof.
  intros R. unfold Resources_Get. pose proof (rr_get g l i R) as Hg.
  destruct (l !! i) as [o|]; inversion Hg as [[H1 H2]]; rewrite H1; unfold go_guard; [by rewrite H2|done].
Qed.

Theorem Has_tie g l i :
  rr g l ->
  Resources_Has g (N.of_nat i) =
  match l !! i with Some o => Ret (bool_decide (is_Some o)) | None => Panicked end.
Proof.
  intros R. unfold Resources_Has. pose proof (rr_get g l i R) as Hg.
  destruct (l !! i) as [o|]; inversion Hg as [[H1 H2]]; rewrite H1; unfold go_guard; [|done].
  by rewrite H2, is_some_fmap.
Qed.

Lemma reset_loop (ws : list (option N)) cap : forall k,
  k <= length ws ->
  fold_left (fun acc_ i => rbind acc_ (fun r =>
     go_guard (N.ltb i (s_len (Resources_resources r)))
       (Ret (set_Resources_resources r (s_set (Resources_resources r) i None)))))
    (map N.of_nat (seq k (length ws - k)))
    (Ret (mk_Resources (mkSlice (repeat None k ++ skipn k ws) cap)))
  = Ret (mk_Resources (mkSlice (repeat None (length ws)) cap)).
Proof.
  intros k. remember (length ws - k) as d eqn:Hd. revert k Hd.
  induction d as [|d IH]; intros k Hd Hk.
  - assert (k = length ws) as -> by lia. cbn. by rewrite skipn_all, app_nil_r.
  - cbn [seq map fold_left rbind].
    unfold s_len. cbn [Resources_resources s_data].
    rewrite app_length, repeat_length, skipn_length.
    assert (N.ltb (N.of_nat k) (N.of_nat (k + (length ws - k))) = true) as -> by (apply N.ltb_lt; lia).
    unfold go_guard.
    specialize (IH (S k) ltac:(lia) ltac:(lia)).
    match goal with |- fold_left ?ff ?ll (Ret ?x) = _ =>
      replace x with (mk_Resources (mkSlice (repeat None (S k) ++ skipn (S k) ws) cap)); [exact IH|] end.
    unfold set_Resources_resources, s_set. cbn [Resources_resources s_data s_cap]. f_equal. f_equal.
    unfold a_set. rewrite Nat2N.id. rewrite list_upd_insert.
    rewrite insert_app_r_alt by (rewrite repeat_length; lia).
    rewrite repeat_length, Nat.sub_diag.
    destruct (skipn k ws) as [|x t] eqn:Hsk.
    { exfalso. assert (length (skipn k ws) = 0) by (by rewrite Hsk). rewrite skipn_length in H. lia. }
    cbn. replace (skipn (S k) ws) with t.
    + change (None :: repeat None k ++ t) with ((None :: repeat (@None N) k) ++ t).
      rewrite (repeat_cons k (@None N)). rewrite <- app_assoc. done.
    + replace (S k) with (k + 1) by lia. rewrite <- drop_drop. by rewrite Hsk.
Qed.

Theorem reset_tie g l :
  rr g l -> exists g', Resources_reset g = Ret g' /\ rr g' (replicate (length l) None).
Proof.
  intros R. unfold Resources_reset. cbv zeta.
  destruct g as [[ws cap]]. unfold rr in R. cbn [Resources_resources s_data] in R.
  unfold n_range, s_len. cbn [Resources_resources s_data]. rewrite Nat2N.id.
  pose proof (reset_loop ws cap 0 ltac:(lia)) as H. rewrite Nat.sub_0_r in H. cbn [repeat app] in H.
  change (drop 0 ws) with ws in H. unfold s_len in H.
  rewrite H. cbn [rbind]. eexists. split; [reflexivity|].
  unfold rr. cbn. rewrite R, map_length. clear. induction (length l) as [|n IH]; [done|]. cbn. by rewrite IH.
Qed.

End WithValues.

(** A concrete run: add, read, double add panics, remove, remove again panics. *)
Example res_run :
  let g0 := mk_Resources (s_make None 4 4) in
  (rbind (Resources_Add g0 2 (Some 7%N)) (fun g1 =>
   rbind (Resources_Get g1 2) (fun a => rbind (Resources_Has g1 1) (fun b =>
   rbind (Resources_Remove g1 2) (fun g2 => rbind (Resources_Has g2 2) (fun c => Ret (a, b, c)))))),
   rbind (Resources_Add g0 2 (Some 7%N)) (fun g1 => Resources_Add g1 2 (Some 8%N)),
   Resources_Remove g0 3, Resources_Get g0 4)
  = (Ret (Some 7%N, false, false), Panicked, Panicked, Panicked).
Proof. vm_compute. reflexivity. Qed.
