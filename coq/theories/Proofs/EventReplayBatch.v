(** * C11 at history level, batch operations included: replaying the events of Batch.Add /
      Remove / Exchange, Batch.SetRelation and Batch.RemoveEntities rebuilds the component
      sets as well ([replay_history_b]): the events of a batch touch pairwise distinct
      entities, each carrying the difference of that entity's sets. *)
From Arche Require Import Model.Base Model.Pool Model.Filter Model.World Model.Ops
  Proofs.Tables Proofs.Bits Proofs.Store Proofs.Graph Proofs.Atomic Proofs.WorldInv
  Proofs.Frame Proofs.StepFrame Proofs.RelGraph Proofs.RelWorld Proofs.RelRefine Proofs.QueryExact Proofs.CacheInv
  Proofs.EventsExact Proofs.SpecDet Proofs.IlenInv Proofs.BatchMove Proofs.BatchExchange Proofs.BatchSetRel Proofs.BatchRemove
  Proofs.BatchQ Proofs.BatchEvents Proofs.ResetInv Proofs.EventReplay Proofs.BatchCached Proofs.BatchEventsCached.

(** Events of pairwise distinct entities, each changing only its own shadow entry. *)
Lemma replay_flat_map (evf : Entity -> list event) (upd : Entity -> option N -> option N) L : forall S,
  NoDup L ->
  (forall e S0, e ∈ L ->
     assoc_get e (sh_replay S0 (evf e)) = upd e (assoc_get e S0) /\
     forall e', e' <> e -> assoc_get e' (sh_replay S0 (evf e)) = assoc_get e' S0) ->
  forall e', assoc_get e' (sh_replay S (flat_map evf L)) = if decide (e' ∈ L) then upd e' (assoc_get e' S) else assoc_get e' S.
Proof.
  induction L as [|e r IH]; intros S Hnd Hev e'; simpl.
  - destruct (decide (e' ∈ [])) as [Hx|]; [by apply elem_of_nil in Hx|done].
  - apply NoDup_cons in Hnd as [Hni Hnd]. unfold sh_replay. rewrite foldl_app. fold (sh_replay S (evf e)). fold (sh_replay (sh_replay S (evf e)) (flat_map evf r)).
    destruct (Hev e S (elem_of_list_here _ _)) as [He Hoth].
    rewrite IH; [|done|intros e0 S0 Hin; apply Hev; by apply elem_of_list_further].
    destruct (decide (e' = e)) as [->|Hne].
    + rewrite decide_False by done. rewrite decide_True by apply elem_of_list_here. done.
    + rewrite (Hoth e' Hne). destruct (decide (e' ∈ r)) as [Hr|Hr].
      * rewrite decide_True by (by apply elem_of_list_further). done.
      * rewrite decide_False; [done|]. intros Hx. apply elem_of_cons in Hx as [?|?]; done.
Qed.

(** One event that is neither a creation nor a removal. *)
Lemma replay_change_event S e added removed aids rids orl nrl ot bits lk to :
  N.testbit bits 0 = false -> N.testbit bits 1 = false ->
  assoc_get e (sh_replay S [mkEv e added removed aids rids orl nrl ot bits lk to]) =
    option_map (fun m => N.ldiff (N.lor m added) removed) (assoc_get e S) /\
  forall e', e' <> e -> assoc_get e' (sh_replay S [mkEv e added removed aids rids orl nrl ot bits lk to]) = assoc_get e' S.
Proof.
  intros H0 H1. unfold sh_replay. cbn [foldl]. unfold sh_apply. cbn [ev_types ev_ent ev_added ev_removed]. rewrite H0, H1.
  destruct (assoc_get e S) as [m|] eqn:Hm; simpl.
  - split; [by rewrite assoc_get_set, ent_eqb_refl|]. intros e' Hne. by rewrite assoc_get_set, (proj2 (ent_eqb_neq e' e) Hne).
  - split; [done|done].
Qed.

Lemma shadow_a_map A S S' L g :
  shadow_ok A S ->
  (forall e, assoc_get e S' = if decide (e ∈ L) then option_map (fun a => a_mask (g a)) (assoc_get e (as_ents A)) else assoc_get e S) ->
  (forall e, e ∈ L -> e ∈ as_live A) ->
  shadow_ok (a_map A L g) S'.
Proof.
  intros HS HS' HL e. rewrite (HS' e). unfold a_map. cbn [as_live as_ents].
  pose proof (assoc_get_a_map (as_ents A) L g e) as Hag. cbn beta in Hag. rewrite Hag.
  destruct (decide (e ∈ L)) as [Hin|Hin].
  - rewrite decide_True by (by apply HL). by destruct (assoc_get e (as_ents A)).
  - rewrite (HS e). destruct (decide (e ∈ as_live A)); [|done]. by destruct (assoc_get e (as_ents A)).
Qed.

(** Batch.Add / Remove / Exchange, Relations.ExchangeBatch. *)
Theorem replay_batch_exchange w A S (fa : farg) l f add rem rel w' n evs :
  R w A -> cache_ok w -> arg_tables w fa = Some l -> NoDup l -> (forall tid, tid ∈ l <-> tid ∈ World.get_tables w f) ->
  w_listener w = Some lall -> shadow_ok A S ->
  Forall (fun id => id < length (as_reg A)) add -> (add <> [] \/ rem <> []) ->
  op_batch_exchange w fa add rem rel = (w', Ok (VNat n), evs) ->
  shadow_ok (a_map A (table_ents w l) (fun a => a_exchange (as_reg A) a add rem rel)) (sh_replay S evs).
Proof.
  intros HR C Harg Hndl Hsel Hlis HS Hadd Hne H.
  destruct (batch_exchange_refines_arg w A fa l f add rem rel w' n evs HR C Harg Hndl Hsel Hadd Hne H) as (_ & Hnd & Hmem & HR' & _).
  rewrite (batch_exchange_events_exact_arg w A fa l f add rem rel w' n evs HR C Harg Hndl Hsel Hadd Hne Hlis H).
  set (L := table_ents w l) in *.
  set (g := fun a => a_exchange (as_reg A) a add rem rel) in *.
  apply (shadow_a_map A S); [done| |intros e He; by apply Hmem in He as [? _]].
  intros e.
  rewrite (replay_flat_map (ev_of w w' add rem)
             (fun e0 x => match ent_mask w e0, ent_mask w' e0, ent_rel w e0, ent_rel w' e0, ent_target w e0, ent_target w' e0 with
                          | Some om, Some nm, Some _, Some _, Some _, Some _ =>
                              option_map (fun m => N.ldiff (N.lor m (N.land nm (N.lxor om nm))) (N.land om (N.lxor om nm))) x
                          | _, _, _, _, _, _ => x end) L S Hnd).
  - destruct (decide (e ∈ L)) as [Hin|Hin]; [|done].
    assert (Hl : e ∈ as_live A) by (by apply Hmem in Hin as [? _]).
    destruct (R_live_entry w A e HR Hl) as (a & Ha & Hm).
    assert (Hl' : e ∈ as_live (a_map A L g)) by done.
    destruct (R_live_entry w' _ e HR' Hl') as (a' & Ha' & Hm').
    unfold a_map in Ha'. cbn [as_ents] in Ha'.
    pose proof (assoc_get_a_map (as_ents A) L g e) as Hag. cbn beta in Hag. rewrite Hag, Ha in Ha'. simpl in Ha'.
    rewrite decide_True in Ha' by done. injection Ha' as <-.
    pose proof HR as [K _ _ _]. pose proof HR' as [K' _ _ _].
    destruct (r_ents _ _ HR e Hl) as (a0 & Ha0 & V). rewrite Ha in Ha0. injection Ha0 as <-.
    destruct (r_ents _ _ HR' e Hl') as (a1 & Ha1 & V').
    rewrite Hm, Hm', (ent_rel_arel w (as_live A) e (a_mask a) (r2_ok _ _ _ K) Hl Hm),
      (ent_rel_arel w' (as_live (a_map A L g)) e _ (r2_ok _ _ _ K') Hl' Hm'), (v_target _ _ _ _ V), (v_target _ _ _ _ V').
    rewrite (HS e), decide_True, Ha by done. simpl. by rewrite replay_masks.
  - intros e0 S0 Hin. unfold ev_of.
    destruct (ent_mask w e0) as [om|], (ent_mask w' e0) as [nm|]; try (split; done);
      destruct (ent_rel w e0) as [orl|], (ent_rel w' e0) as [nrl|]; try (split; done);
      destruct (ent_target w e0) as [ot|], (ent_target w' e0) as [nt|]; try (split; done).
    unfold xbits. apply replay_change_event; apply change_bits.
Qed.

(** Events that change no component set leave the shadow as it is. *)
Lemma replay_noop evs : forall S,
  Forall (fun ev => N.testbit (ev_types ev) 0 = false /\ N.testbit (ev_types ev) 1 = false /\ ev_added ev = 0%N /\ ev_removed ev = 0%N) evs ->
  forall e, assoc_get e (sh_replay S evs) = assoc_get e S.
Proof.
  induction evs as [|ev r IH]; intros S Hall e; [done|].
  apply Forall_cons in Hall as [(H0 & H1 & Ha & Hr) Hall]. unfold sh_replay. cbn [foldl]. fold (sh_replay (sh_apply S ev) r).
  rewrite IH by done. unfold sh_apply. rewrite H0, H1, Ha, Hr.
  destruct (assoc_get (ev_ent ev) S) as [m|] eqn:Hm; [|done].
  rewrite assoc_get_set, N.lor_0_r, N.ldiff_0_r. destruct (ent_eqb e (ev_ent ev)) eqn:Heq; [|done].
  apply ent_eqb_eq in Heq as ->. done.
Qed.

(** Batch.SetRelation / Relations.SetBatch: TargetChanged events only. *)
Theorem replay_batch_set_relation w A S (fa : farg) l f rid T w' n evs :
  R w A -> cache_ok w -> arg_tables w fa = Some l -> NoDup l -> (forall tid, tid ∈ l <-> tid ∈ World.get_tables w f) ->
  w_listener w = Some lall -> shadow_ok A S ->
  op_batch_set_relation w fa rid T = (w', Ok (VNat n), evs) ->
  forall L, shadow_ok (a_map A L (fun a => mkA (a_mask a) T (a_vals a))) (sh_replay S evs).
Proof.
  intros HR C Harg Hndl Hsel Hlis HS H L.
  rewrite (batch_set_relation_events_exact_arg w A fa l f rid T w' n evs HR C Harg Hndl Hsel Hlis H).
  intros e. rewrite replay_noop.
  - rewrite (HS e). unfold a_map. cbn [as_live as_ents].
    pose proof (assoc_get_a_map (as_ents A) L (fun a => mkA (a_mask a) T (a_vals a)) e) as Hag. cbn beta in Hag. rewrite Hag.
    destruct (decide (e ∈ as_live A)); [|done]. destruct (assoc_get e (as_ents A)); [|done]. simpl. by destruct (decide (e ∈ L)).
  - apply Forall_forall. intros ev Hev. apply elem_of_list_In, in_flat_map in Hev as (e0 & _ & Hev).
    unfold sr_ev in Hev. destruct (ent_target w e0); [|done]. destruct Hev as [<-|[]]. done.
Qed.

(** Batch.RemoveEntities: one removal event per entity. *)
Theorem replay_batch_remove w A S (fa : farg) l f w' n evs L' :
  R w A -> cache_ok w -> arg_tables w fa = Some l -> NoDup l -> (forall tid, tid ∈ l <-> tid ∈ World.get_tables w f) ->
  w_listener w = Some lall -> shadow_ok A S ->
  (forall e, e ∈ table_ents w l -> (egen e < gen_max)%N) ->
  op_remove_entities w fa = (w', Ok (VNat n), evs) ->
  (forall e, e ∈ table_ents w l <-> e ∈ L') ->
  shadow_ok (a_remove_all A L') (sh_replay S evs).
Proof.
  intros HR C Harg Hndl Hsel Hlis HS Hgen H HL'.
  destruct (batch_remove_refines_arg w A fa l f w' n evs HR C Harg Hndl Hsel Hgen H) as (_ & Hnd & Hmem & _ & _).
  rewrite (batch_remove_events_exact_arg w A fa l f w' n evs HR C Harg Hndl Hsel Hlis Hgen H).
  set (L := table_ents w l) in *.
  destruct (a_remove_all_fields L' A) as (Fl & _ & _).
  intros e.
  rewrite (replay_flat_map (rm_ev w)
             (fun e0 x => match ent_mask w e0, ent_rel w e0, ent_target w e0 with Some _, Some _, Some _ => None | _, _, _ => x end) L S Hnd).
  - rewrite Fl. destruct (decide (e ∈ L)) as [Hin|Hin].
    + assert (Hl : e ∈ as_live A) by (by apply Hmem in Hin as [? _]).
      pose proof HR as [K _ _ _]. destruct (r_ents _ _ HR e Hl) as (a & Ha & V).
      rewrite (v_mask _ _ _ _ V), (ent_rel_arel w (as_live A) e (a_mask a) (r2_ok _ _ _ K) Hl (v_mask _ _ _ _ V)), (v_target _ _ _ _ V).
      rewrite decide_False; [done|]. intros Hx. apply elem_of_list_filter in Hx as [Hn _]. apply Hn. by apply HL'.
    + rewrite (HS e). destruct (decide (e ∈ as_live A)) as [Hl|Hl].
      * rewrite decide_True by (apply elem_of_list_filter; split; [by rewrite <- HL'|done]).
        rewrite a_remove_all_get; [done|]. by rewrite <- HL'.
      * rewrite decide_False; [done|]. intros Hx. by apply elem_of_list_filter in Hx as [_ ?].
  - intros e0 S0 Hin. unfold rm_ev.
    destruct (ent_mask w e0) as [m|]; try (split; done). destruct (ent_rel w e0) as [rl|]; try (split; done).
    destruct (ent_target w e0) as [tg|]; try (split; done).
    unfold sh_replay. cbn [foldl]. unfold sh_apply. cbn [ev_types ev_ent].
    destruct (removed_bits false (negb (bool_decide (mask_ids (w_tb w) m = []))) (bool_decide (is_Some rl)) (bool_decide (is_Some rl))) as [-> ->].
    split; [by rewrite assoc_get_del, ent_eqb_refl|]. intros e' Hne. by rewrite assoc_get_del, (proj2 (ent_eqb_neq e' e0) Hne).
Qed.

From Arche Require Import Proofs.BatchCreate.
(** The events of Builder.NewBatch: one creation event per created entity, carrying the
    component set of the ids. *)
Theorem batch_new_events w A count b target w' es evs :
  R w A -> cache_ok w -> ilen w -> ids_reg A (b_ids b) -> b_vals b = None ->
  op_new_batch w count b target = (w', Ok (VEnts es), evs) ->
  exists r, evs = flat_map (fun e => ev_create w' e (new_mask (b_ids b)) (b_ids b) r) es.
Proof.
  intros HR C Hil Hids Hv H. pose proof HR as [K Hr Hu He]. unfold ids_reg in Hids. rewrite Hr in Hids.
  unfold op_new_batch in H.
  destruct (new_entities_nn w count b target) as [[[[w4 tid] start] es0]|] eqn:Hn; [|done].
  pose proof (frame_new_entities_nn _ _ _ _ _ _ _ _ Hn) as F.
  destruct (table_mask_rel w4 tid) as [m r] eqn:Htm. injection H as Hw4 Hes0 Hevs. subst w4 es0.
  unfold new_entities_nn in Hn. rewrite Hu in Hn.
  assert (Hcomps : b_comps b = []) by (unfold b_comps; by rewrite Hv).
  set (tg := default ezero target) in *.
  assert (Hrelok : forall t, target = Some t -> exists rid, b_rel b = Some rid).
  { intros t ->. destruct (b_rel b); [by eexists|done]. }
  assert (Hbody :
    (if (count <? 1)%Z then None else
     if negb (target_ok w tg) then None else
     match (match b_ids b with [] => Some (w, 0) | _ => find_or_create_table w 0 (b_ids b) [] tg end) with
     | None => None
     | Some (w1, tid0) =>
         if match target, b_rel b with Some _, Some rid => negb (check_relation w1 tid0 rid) | _, _ => false end then None else
         let w2 := match target with Some t => set_tbit w1 t | None => w1 end in
         let start0 := match w_tables w2 !! tid0 with Some t => tlen t | None => 0 end in
         let '(w3, es1) := create_entities w2 tid0 (Z.to_nat count) in
         Some (foldl (fun w e => set_comps w e (b_comps b)) w3 es1, tid0, start0, es1)
     end) = Some (w', tid, start, es)).
  { destruct target as [t|]; [destruct (b_rel b); [exact Hn|done]|destruct (b_rel b); exact Hn]. }
  clear Hn. destruct (count <? 1)%Z eqn:Hcnt; [done|]. apply Z.ltb_ge in Hcnt.
  destruct (negb (target_ok w tg)) eqn:Htok; [done|].
  destruct (match b_ids b with [] => Some (w, 0) | _ => find_or_create_table w 0 (b_ids b) [] tg end) as [[w1 tid0]|] eqn:Hf; [|done].
  destruct K as [[S G] [frees P] L].
  destruct (new_table_rok w (b_ids b) tg w1 tid0 G Hids Hf) as (E & G1 & dt & dn & Hdt & Hdn & Hdm & Hda & Hdtg).
  pose proof (cache_ok_new_table w (b_ids b) tg w1 tid0 G C Hids Hf) as C1.
  apply exmask_add_fold in Hdm. change (n_mask dn = new_mask (b_ids b)) in Hdm.
  assert (K1 : world_okr2 w1 (as_live A) (as_issued A)).
  { split; [split; [by eapply ext_r_store_ok|done]|exists frees; by rewrite (xr_pool _ _ E)|by rewrite (xr_index _ _ E), (xr_pool _ _ E)]. }
  assert (Hil1 : ilen w1).
  { unfold ilen. rewrite (xr_index _ _ E). destruct E. congruence. }
  destruct (match target, b_rel b with Some _, Some rid => negb (check_relation w1 tid0 rid) | _, _ => false end) eqn:Hchk; [done|].
  set (w2 := match target with Some t => set_tbit w1 t | None => w1 end) in *. cbv zeta in Hbody.
  assert (K2 : world_okr2 w2 (as_live A) (as_issued A)) by (unfold w2; destruct target; [by apply set_tbit_okr2|done]).
  assert (C2 : cache_ok w2) by (unfold w2; destruct target; [by apply cache_ok_set_tbit|done]).
  assert (Hil2 : ilen w2) by (unfold w2; destruct target; [by apply set_tbit_ilen|done]).
  assert (F2 : w_nodes w2 = w_nodes w1 /\ w_tables w2 = w_tables w1 /\ w_index w2 = w_index w1 /\ w_reg w2 = w_reg w1 /\
               w_tb w2 = w_tb w1 /\ w_locks w2 = w_locks w1 /\ w_listener w2 = w_listener w1).
  { unfold w2. destruct target as [t|]; [|done]. destruct (set_tbit_fields w1 t) as (?&?&?&?&?&?&?&?). done. }
  destruct F2 as (Hn2 & Ht2 & Hi2 & Hr2 & Htb2 & Hlk2 & Hls2).
  assert (Hdt2 : w_tables w2 !! tid0 = Some dt) by (by rewrite Ht2).
  assert (Hdn2 : w_nodes w2 !! t_node dt = Some dn) by (by rewrite Hn2).
  pose proof (create_n_rok (Z.to_nat count) w2 (as_live A) (as_issued A) tid0 dt dn K2 Hdt2 Hdn2 Hda Hil2) as Hc.
  destruct (create_entities w2 tid0 (Z.to_nat count)) as [w3 es1] eqn:Hce.
  rewrite Hcomps in Hbody.
  assert (Hfold : foldl (fun w0 e => set_comps w0 e []) w3 es1 = w3) by (clear; induction es1; simpl; done).
  rewrite Hfold in Hbody. injection Hbody as <- <- <- <-.
  destruct Hc as (_ & _ & _ & _ & Hn3 & _ & _ & _ & _ & _ & _ & (dt' & Hdt' & Hdtn' & _) & _).
  exists r. rewrite <- Hevs. unfold table_mask_rel in Htm. rewrite Hdt', Hdtn', Hn3, Hdn2 in Htm. injection Htm as <- _. by rewrite Hdm.
Qed.

Lemma create_bits_nonzero c r : (subscription true false c false r r =? 0)%N = false.
Proof. by destruct c, r. Qed.

(** Builder.NewBatch (ids only): one creation event per entity. *)
Theorem replay_batch_new w A S count b target w' es evs :
  R w A -> cache_ok w -> ilen w -> w_listener w = Some lall -> ids_reg A (b_ids b) -> b_vals b = None -> shadow_ok A S ->
  op_new_batch w count b target = (w', Ok (VEnts es), evs) ->
  shadow_ok (a_add_all A es (mkA (new_mask (b_ids b)) (default ezero target) [])) (sh_replay S evs).
Proof.
  intros HR C Hil Hlis Hids Hv HS H.
  destruct (batch_new_refines w A count b target w' es evs HR C Hil Hids Hv H) as (_ & Hnd & _ & _ & _ & _).
  destruct (batch_new_events w A count b target w' es evs HR C Hil Hids Hv H) as [r ->].
  assert (Hl' : w_listener w' = Some lall).
  { rewrite <- Hlis. pose proof (step_frame_rr w (OBBatch b count target) eq_refl) as F.
    assert (Hs : step w (OBBatch b count target) = step0 w (OBBatch b count target)) by (apply step_not_panic; change (step0 w (OBBatch b count target)) with (op_new_batch w count b target); by rewrite H).
    rewrite Hs in F. change (step0 w (OBBatch b count target)) with (op_new_batch w count b target) in F. rewrite H in F. apply F. }
  set (a0 := mkA (new_mask (b_ids b)) (default ezero target) []).
  destruct (a_add_all_fields es a0 A) as (Fl & _ & _).
  intros e.
  rewrite (replay_flat_map (fun e0 => ev_create w' e0 (new_mask (b_ids b)) (b_ids b) r) (fun _ _ => Some (new_mask (b_ids b))) es S Hnd).
  - rewrite Fl, a_add_all_get. destruct (decide (e ∈ es)) as [Hin|Hin].
    + rewrite decide_True by (apply elem_of_app; left; by apply (proj2 (elem_of_rev _ _))). by rewrite bool_decide_eq_true_2.
    + rewrite bool_decide_eq_false_2 by done. rewrite (HS e).
      destruct (decide (e ∈ as_live A)) as [Hl|Hl].
      * rewrite decide_True by (apply elem_of_app; by right). done.
      * rewrite decide_False; [done|]. intros Hx. apply elem_of_app in Hx as [Hx|Hx]; [apply (proj1 (elem_of_rev _ _)) in Hx; done|done].
  - intros e0 S0 _. unfold ev_create. rewrite Hl'. rewrite recipients_all by apply subscription_lt.
    rewrite create_bits_nonzero. simpl.
    unfold sh_replay. cbn [foldl]. unfold sh_apply. cbn [ev_types ev_ent ev_added]. rewrite created_bit.
    split; [by rewrite assoc_get_set, ent_eqb_refl|]. intros e' Hne. by rewrite assoc_get_set, (proj2 (ent_eqb_neq e' e0) Hne).
Qed.

(** ** Histories with batch operations *)
From Arche Require Import Proofs.BatchCached Proofs.CreateWith Proofs.BatchCreateWith Proofs.BatchHist.

Definition op_preEB (w : world) (A : astate) (o : op) : Prop :=
  match o with
  | OBatchExchange false _ add _ _ => ids_reg A add /\ returns_ok w o
  | OBatchSetRel false _ _ _ => returns_ok w o
  | OBatchRemove _ => (forall e, e ∈ as_live A -> (egen e < gen_max)%N) /\ returns_ok w o
  | OBBatch b _ _ => ids_reg A (b_ids b) /\ b_vals b = None /\ returns_ok w o
  | _ => op_preE A o
  end.

Lemma a_sets_all_nil es : forall A, BatchCreateWith.a_sets_all A es [] = A.
Proof. induction es as [|e r IH]; intros A; [done|]. unfold BatchCreateWith.a_sets_all. cbn [foldl]. apply IH. Qed.

Lemma op_preEB_pre4 w A o : op_preEB w A o -> op_pre4 w A o.
Proof.
  destruct o; simpl; try done; try (intros H; exact H); try (by intros (? & _ & ?)); by destruct q.
Qed.

Theorem replay_step_b w A S o :
  inv3 w A -> w_listener w = Some lall -> op_preEB w A o -> shadow_ok A S ->
  let r := step w o in
  shadow_ok (astep_b w A o (snd (fst r))) (sh_replay S (snd r)) /\ w_listener (fst (fst r)) = Some lall /\
  inv3 (fst (fst r)) (astep_b w A o (snd (fst r))).
Proof.
  intros HI Hlis Hpre HS r. pose proof HI as (HR & C & Hil).
  pose proof (batch_step w A o HI (op_preEB_pre4 w A o Hpre)) as HI'. fold r in HI'.
  assert (Hcore : op_preE A o -> astep_b w A o (snd (fst r)) = astep A o (snd (fst r)) ->
            shadow_ok (astep_b w A o (snd (fst r))) (sh_replay S (snd r)) /\ w_listener (fst (fst r)) = Some lall /\
            inv3 (fst (fst r)) (astep_b w A o (snd (fst r)))).
  { intros Hp Heq. destruct (replay_step w A S o HR Hlis Hp HS) as [H1 H2]. fold r in H1, H2. rewrite Heq. split; [done|]. split; [done|]. by rewrite <- Heq. }
  assert (Hl' : touches_rr o = false -> w_listener (fst (fst r)) = Some lall).
  { intros Ht. rewrite <- Hlis. apply (rr_listener _ _ (step_frame_rr w o Ht)). }
  destruct o; try (apply Hcore; [exact Hpre|reflexivity]); try done.
  - (* OBBatch *)
    destruct Hpre as (Hids & Hv & [v Hok]). split; [|split; [by apply Hl'|done]].
    assert (Hs : step w (OBBatch b count target) = step0 w (OBBatch b count target))
      by (apply step_not_panic; rewrite <- step_out_eq, Hok; done).
    unfold r in *. rewrite Hs in *. clear Hs. simpl in Hok |- *.
    destruct (op_new_batch w count b target) as [[w' out] evs] eqn:H. simpl in Hok |- *. subst out.
    assert (Hes : exists es, v = VEnts es).
    { unfold op_new_batch in H. destruct (new_entities_nn w count b target) as [[[[w4 tid] start] es0]|]; [|done].
      destruct (table_mask_rel w4 tid). injection H as _ <- _. by eexists. }
    destruct Hes as [es ->].
    assert (Hc : b_comps b = []) by (unfold b_comps; by rewrite Hv). rewrite Hc, a_sets_all_nil.
    by apply (replay_batch_new w A S count b target w' es evs).
  - (* OBatchExchange *)
    destruct q; [done|]. destruct Hpre as (Hids & [v Hok]).
    split; [|split; [by apply Hl'|done]].
    unfold r in *. simpl in Hok |- *.
    destruct (op_batch_exchange w a add rem rel) as [[w' out] evs] eqn:H. simpl in Hok |- *. subst out.
    assert (Hn : exists n, v = VNat n).
    { unfold op_batch_exchange, batch_result in H. destruct (exchange_batch_nn w a add rem rel) as [[[[w1 n] segs]|]|[]]; try done.
      injection H as _ <- _. by eexists. }
    destruct Hn as [n ->].
    destruct (decide (add = [] /\ rem = [])) as [[-> ->]|Hne].
    + assert (evs = []) as ->.
      { unfold op_batch_exchange, exchange_batch_nn in H. destruct (is_locked w); [done|]. destruct (negb _); [done|].
        destruct (bool_decide _); [done|]. simpl in H. injection H as _ _ <-. unfold ev_batch. by destruct (w_listener w). }
      by destruct (arg_filter w a).
    + assert (Hne' : add <> [] \/ rem <> []).
      { destruct add; [|by left]. destruct rem; [|by right]. exfalso. by apply Hne. }
      assert (Hl : exists l, arg_tables w a = Some l).
      { unfold op_batch_exchange, exchange_batch_nn in H. destruct (is_locked w); [done|]. destruct (negb _); [done|].
        destruct (arg_tables w a) as [l|]; [by eexists|]. destruct add, rem; try done. exfalso; by apply Hne. }
      destruct Hl as [l Hl]. destruct (arg_filter_some w a l Hl) as [f Hf]. rewrite Hf.
      destruct (arg_ok w A a l f HR C Hl Hf) as [Hndl Hsel].
      pose proof (replay_batch_exchange w A S a l f add rem rel w' n evs HR C Hl Hndl Hsel Hlis HS Hids Hne' H) as HS'.
      destruct (batch_exchange_refines_arg w A a l f add rem rel w' n evs HR C Hl Hndl Hsel Hids Hne' H) as (_ & _ & Hmem & _ & _).
      assert (Hsame : forall e, e ∈ table_ents w l <-> e ∈ a_sel A f) by (intros e; by rewrite Hmem, (a_sel_exact w A f HR)).
      rewrite (a_map_ext_mem A _ _ _ Hsame) in HS'.
      destruct add; [destruct rem; [exfalso; by apply Hne|]|]; done.
  - (* OBatchSetRel *)
    destruct q; [done|]. destruct Hpre as [v Hok].
    split; [|split; [by apply Hl'|done]].
    unfold r in *. simpl in Hok |- *.
    destruct (op_batch_set_relation w a rid t) as [[w' out] evs] eqn:H. simpl in Hok |- *. subst out.
    assert (Hn : exists n, v = VNat n).
    { unfold op_batch_set_relation, batch_result in H. destruct (set_relation_batch_nn w a rid t) as [[[[w1 n] segs]|]|[]]; try done.
      injection H as _ <- _. by eexists. }
    destruct Hn as [n ->].
    assert (Hl : exists l, arg_tables w a = Some l).
    { unfold op_batch_set_relation, set_relation_batch_nn in H. destruct (is_locked w); [done|]. destruct (negb _); [done|].
      destruct (arg_tables w a) as [l|]; [by eexists|done]. }
    destruct Hl as [l Hl]. destruct (arg_filter_some w a l Hl) as [f Hf]. rewrite Hf.
    destruct (arg_ok w A a l f HR C Hl Hf) as [Hndl Hsel].
    by apply (replay_batch_set_relation w A S a l f rid t w' n evs).
  - (* OBatchRemove *)
    destruct Hpre as (Hgen & [v Hok]).
    split; [|split; [by apply Hl'|done]].
    unfold r in *. simpl in Hok |- *.
    destruct (op_remove_entities w a) as [[w' out] evs] eqn:H. simpl in Hok |- *. subst out.
    assert (Hl : exists l n, arg_tables w a = Some l /\ v = VNat n).
    { unfold op_remove_entities in H. destruct (is_locked w); [done|].
      destruct (arg_tables w a) as [l|]; [|done]. destruct (locks_lock _ _) as [[lk b]|]; [|done].
      destruct (foldl _ _ _). injection H as _ <- _. by eexists _, _. }
    destruct Hl as (l & n & Hl & ->). destruct (arg_filter_some w a l Hl) as [f Hf]. rewrite Hf.
    destruct (arg_ok w A a l f HR C Hl Hf) as [Hndl Hsel].
    assert (Hgen' : forall e, e ∈ table_ents w l -> (egen e < gen_max)%N).
    { intros e Hin. apply Hgen. pose proof HR as [K _ _ _].
      assert (HLmem : forall e, e ∈ table_ents w l <-> (e ∈ as_live A /\ ent_matches w f e)).
      { apply (table_ents_exact w (as_live A) (r2_ok _ _ _ K)). intros tid t0 Ht Hne0. rewrite Hsel, get_tables_contrib.
        by apply (selected_exact w (as_live A) true f (r2_ok _ _ _ K)). }
      by apply HLmem in Hin as [? _]. }
    destruct (batch_remove_refines_arg w A a l f w' n evs HR C Hl Hndl Hsel Hgen' H) as (_ & _ & Hmem & _ & _).
    apply (replay_batch_remove w A S a l f w' n evs (a_sel A f) HR C Hl Hndl Hsel Hlis HS Hgen' H).
    intros e. by rewrite Hmem, (a_sel_exact w A f HR).
Qed.

Fixpoint pre_runEB (w : world) (A : astate) (ops : list op) : Prop :=
  match ops with
  | [] => True
  | o :: r => op_preEB w A o /\ pre_runEB (fst (fst (step w o))) (astep_b w A o (snd (fst (step w o)))) r
  end.

Theorem replay_history_b ops : forall w A S,
  inv3 w A -> w_listener w = Some lall -> shadow_ok A S -> pre_runEB w A ops ->
  shadow_ok (arun4 w A ops) (sh_replay S (events_of w ops)) /\ inv3 (run w ops) (arun4 w A ops).
Proof.
  induction ops as [|o r IH]; intros w A S HI Hlis HS Hp; simpl; [done|].
  destruct Hp as [Hpre Hp]. destruct (replay_step_b w A S o HI Hlis Hpre HS) as (HS' & Hl' & HI').
  unfold sh_replay. rewrite foldl_app. by apply IH.
Qed.

Corollary replay_rebuilds_world_b ops w A S :
  inv3 w A -> w_listener w = Some lall -> shadow_ok A S -> pre_runEB w A ops ->
  let w' := run w ops in let A' := arun4 w A ops in let S' := sh_replay S (events_of w ops) in
  (forall e, e ∈ as_live A' -> assoc_get e S' = ent_mask w' e) /\
  (forall e, e ∉ as_live A' -> assoc_get e S' = None).
Proof.
  intros HI Hlis HS Hp. cbv zeta. destruct (replay_history_b ops w A S HI Hlis HS Hp) as [HS' (HR' & _)].
  split; intros e He; rewrite (HS' e).
  - rewrite decide_True by done. destruct (R_live_entry _ _ e HR' He) as (a & Ha & Hm). rewrite Ha. simpl. by rewrite Hm.
  - by rewrite decide_False.
Qed.

(** Non-vacuity: creations, a batch Remove(component) over three tables, a batch SetRelation, a batch
    Add, a batch removal, a batch creation. *)
Definition demo_replay_b_ops : list op :=
  [ONew [0]; ONew [0; 2]; ONew [1]; ONew [0; 1];
   OBatchExchange false (FPlain (FAll 1)) [] [0] None;
   OBatchSetRel false (FPlain (FAll 2)) 1 (mkE 1 0);
   OBatchExchange false (FPlain (FAll 2)) [0] [] None;
   OBatchRemove (FPlain (FAll 4)); ONew [2]; OBBatch (mkB [0; 2] None None) 2 None].
Example demo_replay_b_pre :
  let w := run (world_init 2 2 64) demo_replay_setup in
  let A := snd (arun (world_init 2 2 64) a_init demo_replay_setup) in
  w_listener w = Some lall /\ pre_runEB w A demo_replay_b_ops.
Proof.
  split; [by vm_compute|]. unfold demo_replay_b_ops. cbn [pre_runEB].
  repeat (split; [first
    [ split; [intros e He; vm_compute in He; repeat (apply elem_of_cons in He as [->|He]); try reflexivity; by apply elem_of_nil in He
             |vm_compute; by eexists]
    | vm_compute; repeat split; try (repeat (apply List.Forall_cons; [simpl; lia|]); apply List.Forall_nil); try reflexivity;
      try (by eexists); repeat (first [apply elem_of_list_here | apply elem_of_list_further]) ]|]).
  exact I.
Qed.
Example demo_replay_b_result :
  let w := run (world_init 2 2 64) demo_replay_setup in
  sh_replay [] (events_of w demo_replay_b_ops) =
    [(mkE 6 0, 5%N); (mkE 5 0, 5%N); (mkE 2 1, 4%N); (mkE 4 0, 3%N); (mkE 3 0, 3%N); (mkE 1 0, 0%N)] /\
  length (events_of w demo_replay_b_ops) = 15.
Proof. vm_compute. done. Qed.

(** Non-vacuity with a REGISTERED filter as batch argument. *)
Definition demo_replay_c_setup : list op :=
  [ORegister 10 false false; ORegister 11 true false; ORegister 12 false false; OCacheRegister (FAll 1);
   OSetListener (Some lall)].
Definition demo_replay_c_ops : list op :=
  [ONew [0]; ONew [0; 2]; ONew [2]; OBatchExchange false (FCached 0) [] [0] None; ONew [0];
   OBatchRemove (FCached 0)].
Example demo_replay_c_pre :
  let w := run (world_init 2 2 64) demo_replay_c_setup in
  let A := snd (arun (world_init 2 2 64) a_init demo_replay_c_setup) in
  w_listener w = Some lall /\ pre_runEB w A demo_replay_c_ops.
Proof.
  split; [by vm_compute|]. unfold demo_replay_c_ops. cbn [pre_runEB].
  repeat (split; [first
    [ split; [intros e He; vm_compute in He; repeat (apply elem_of_cons in He as [->|He]); try reflexivity; by apply elem_of_nil in He
             |vm_compute; by eexists]
    | vm_compute; repeat split; try (repeat (apply List.Forall_cons; [simpl; lia|]); apply List.Forall_nil); try reflexivity;
      try (by eexists); repeat (first [apply elem_of_list_here | apply elem_of_list_further]) ]|]).
  exact I.
Qed.
Example demo_replay_c_result :
  let w := run (world_init 2 2 64) demo_replay_c_setup in
  sh_replay [] (events_of w demo_replay_c_ops) = [(mkE 2 0, 4%N); (mkE 1 0, 0%N); (mkE 3 0, 4%N)] /\
  length (events_of w demo_replay_c_ops) = 7.
Proof. vm_compute. done. Qed.
