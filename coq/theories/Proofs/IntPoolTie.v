(** * The ID pool of the filter cache (intPool[uint32] of ecs/pool.go), as translated,
    never hands out an ID that is in use.

    Proved directly on the translator's output [Gen/GoIntPool.v]: an invariant over the
    implicit free list threaded through the pool slice, preserved by Get, Recycle (of an
    ID in use) and Reset; hence in every history the IDs in use are pairwise distinct and
    every Get returns an ID that is not in use (C07: two registered filters never share
    a cache entry). *)
From Arche Require Import Model.Base Proofs.Locks Proofs.GoLemmas.
From Arche Require Import Pure.MachInt Pure.GoRt Gen.GoIntPool.
From Coq Require Import ZifyN ZifyNat.
Local Open Scope nat_scope.

Record ip_inv (g : go_intPool) (ds used frees : list nat) : Prop := {
  ii_data : s_data (intPool_pool g) = map N.of_nat ds;
  ii_chain : lchain ds (N.to_nat (intPool_next g)) frees;
  ii_avail : intPool_available g = N.of_nat (length frees);
  ii_used_nodup : NoDup used;
  ii_frees_nodup : NoDup frees;
  ii_disjoint : forall i, i ∈ frees -> i ∉ used;
  ii_range : forall i, i ∈ used \/ i ∈ frees -> i < length ds;
  ii_cover : forall i, i < length ds -> i ∈ used \/ i ∈ frees;
  ii_self : forall i, i ∈ used -> ds !! i = Some i;
  ii_cap : (s_len (intPool_pool g) <= s_cap (intPool_pool g))%N;
  ii_inc : (intPool_capacityIncrement g < 2 ^ 32)%N;
}.

Lemma ip_len g ds used frees : ip_inv g ds used frees -> s_len (intPool_pool g) = N.of_nat (length ds).
Proof. intros I. unfold s_len. by rewrite (ii_data _ _ _ _ I), map_length. Qed.

Lemma ip_count g ds used frees : ip_inv g ds used frees -> length used + length frees = length ds.
Proof.
  intros I.
  assert (Hperm : used ++ frees ≡ₚ seq 0 (length ds)).
  { apply NoDup_Permutation.
    - apply NoDup_app. split; [apply I|]. split; [|apply I].
      intros b Hb Hf. by apply (ii_disjoint _ _ _ _ I b Hf).
    - apply NoDup_seq.
    - intros b. rewrite elem_of_app, elem_of_seq. split.
      + intros H. pose proof (ii_range _ _ _ _ I b H). lia.
      + intros [_ H]. apply (ii_cover _ _ _ _ I). lia. }
  apply Permutation_length in Hperm. by rewrite app_length, seq_length in Hperm.
Qed.

Lemma ip_inv_empty g :
  s_data (intPool_pool g) = [] -> intPool_available g = 0%N ->
  (s_len (intPool_pool g) <= s_cap (intPool_pool g))%N -> (intPool_capacityIncrement g < 2 ^ 32)%N ->
  ip_inv g [] [] [].
Proof.
  intros Hd Ha Hc Hi. split.
  - by rewrite Hd.
  - done.
  - done.
  - constructor.
  - constructor.
  - intros i H. by apply elem_of_nil in H.
  - intros i [H|H]; by apply elem_of_nil in H.
  - intros i H. simpl in H. lia.
  - intros i H. by apply elem_of_nil in H.
  - done.
  - done.
Qed.

Theorem ip_new inc :
  (inc < 2 ^ 32)%N -> exists g, go_newIntPool inc = Ret g /\ ip_inv g [] [] [].
Proof.
  intros Hinc. unfold go_newIntPool, go_guard.
  assert (N.leb 0 inc = true) as -> by (apply N.leb_le; lia).
  eexists. split; [reflexivity|]. apply ip_inv_empty; cbn; try done. unfold s_len. cbn. lia.
Qed.

Theorem ip_Get g ds used frees :
  ip_inv g ds used frees -> (N.of_nat (length ds) + 1 < 2 ^ 32)%N ->
  exists g' ds' v frees',
    intPool_Get g = Ret (g', N.of_nat v) /\ v ∉ used /\ ip_inv g' ds' (v :: used) frees' /\
    length ds' <= S (length ds).
Proof.
  intros I Hs. unfold intPool_Get. rewrite (ii_avail _ _ _ _ I).
  pose proof (ip_len _ _ _ _ I) as Hlen. pose proof (ip_count _ _ _ _ I) as Hcnt.
  destruct frees as [|b r].
  - (* a new ID *)
    cbn [length N.of_nat N.eqb]. unfold intPool_getNew. cbv zeta. rewrite Hlen.
    rewrite wrap_small by (change (2 ^ 32)%N with 4294967296%N in *; lia).
    set (n := length ds) in *.
    assert (Hfresh : n ∉ used).
    { intros Hin. pose proof (ii_range _ _ _ _ I n (or_introl Hin)). unfold n in *. lia. }
    assert (Happ : forall sl, s_data sl = s_data (intPool_pool g) ->
      ip_inv (set_intPool_pool g (s_append sl (N.of_nat n))) (ds ++ [n]) (n :: used) []).
    { intros sl Hsl. split; cbn [intPool_pool set_intPool_pool intPool_next intPool_available
                                  intPool_capacityIncrement].
      - rewrite s_append_data, Hsl, (ii_data _ _ _ _ I), map_app. done.
      - done.
      - pose proof (ii_avail _ _ _ _ I). done.
      - constructor; [done|apply I].
      - constructor.
      - intros i Hi. by apply elem_of_nil in Hi.
      - intros i [Hi|Hi]; [|by apply elem_of_nil in Hi]. rewrite app_length. simpl.
        apply elem_of_cons in Hi as [->|Hi]; [unfold n; lia|].
        pose proof (ii_range _ _ _ _ I i (or_introl Hi)). lia.
      - intros i Hi. rewrite app_length in Hi. simpl in Hi. left.
        destruct (decide (i = n)) as [->|Hne]; [apply elem_of_cons; by left|].
        destruct (ii_cover _ _ _ _ I i) as [H|H]; [unfold n in *; lia| |by apply elem_of_nil in H].
        apply elem_of_cons. by right.
      - intros i Hi. apply elem_of_cons in Hi as [->|Hi].
        + rewrite lookup_app_r by (unfold n; lia). unfold n. by rewrite Nat.sub_diag.
        + rewrite lookup_app_l; [by apply (ii_self _ _ _ _ I)|]. apply (ii_range _ _ _ _ I). by left.
      - apply s_append_cap.
      - apply I. }
    destruct (N.eqb_spec (N.of_nat n) (s_cap (intPool_pool g))) as [Hc|Hc].
    + unfold go_guard, go_inside. pose proof (ii_inc _ _ _ _ I) as Hinc.
      assert (N.ltb (N.of_nat n + intPool_capacityIncrement g) (2 ^ 63) = true) as ->.
      { apply N.ltb_lt. change (2 ^ 63)%N with 9223372036854775808%N. change (2 ^ 32)%N with 4294967296%N in *. lia. }
      assert (N.leb (N.of_nat n) (N.of_nat n + intPool_capacityIncrement g) = true) as -> by (apply N.leb_le; lia).
      cbn [rbind fst snd]. eexists _, (ds ++ [n]), n, []. split; [reflexivity|]. split; [done|]. split.
      * cbn [intPool_pool set_intPool_pool]. rewrite s_copy_all.
        -- apply (Happ (mkSlice _ _)). done.
        -- cbn. rewrite a_make_length, Nat2N.id. by rewrite (ii_data _ _ _ _ I), map_length.
      * rewrite app_length. simpl. lia.
    + cbn [rbind fst snd]. eexists _, (ds ++ [n]), n, []. split; [reflexivity|]. split; [done|]. split.
      * by apply Happ.
      * rewrite app_length. simpl. lia.
  - (* a recycled ID *)
    assert (N.eqb (N.of_nat (length (b :: r))) 0 = false) as -> by (apply N.eqb_neq; simpl; lia).
    pose proof (ii_chain _ _ _ _ I) as Hc. simpl in Hc. destruct Hc as [Hnext (link & Hl & Hc)].
    pose proof (ii_frees_nodup _ _ _ _ I) as Hnd. apply NoDup_cons in Hnd as [Hbr Hndr].
    assert (Hbu : b ∉ used) by (apply (ii_disjoint _ _ _ _ I); apply elem_of_cons; by left).
    assert (Hblen : b < length ds) by (apply (ii_range _ _ _ _ I); right; apply elem_of_cons; by left).
    assert (Hnx : intPool_next g = N.of_nat b) by lia.
    cbv zeta. rewrite Hnx, Hlen.
    assert (N.ltb (N.of_nat b) (N.of_nat (length ds)) = true) as Hb by (apply N.ltb_lt; lia).
    rewrite Hb. unfold go_guard. cbn [andb].
    cbn [intPool_pool set_intPool_pool set_intPool_next set_intPool_available intPool_next intPool_available].
    unfold s_get, s_set, s_len. cbn [s_data s_cap]. rewrite (ii_data _ _ _ _ I).
    rewrite (a_get_map N.of_nat _ _ _ _ Hl).
    rewrite a_set_map, map_length, insert_length, Hb.
    rewrite (a_get_map N.of_nat _ _ _ b) by (by rewrite list_lookup_insert).
    eexists _, (<[b := b]> ds), b, r. split; [reflexivity|]. split; [done|]. split; [|rewrite insert_length; lia].
    split; cbn [intPool_pool set_intPool_pool set_intPool_next set_intPool_available intPool_next intPool_available intPool_capacityIncrement s_data s_cap].
    + done.
    + rewrite Nat2N.id. by apply lchain_insert_notin.
    + rewrite (ii_avail _ _ _ _ I). unfold sub_w, wrap. change (2 ^ 32)%N with 4294967296%N in *.
      cbn [length]. simpl in Hcnt.
      rewrite (N.mod_small (N.of_nat (S (length r)))) by lia. rewrite (N.mod_small 1) by lia.
      replace (N.of_nat (S (length r)) + 4294967296 - 1)%N with (4294967296 + N.of_nat (length r))%N by lia.
      rewrite <- N.add_mod_idemp_l by lia. rewrite N.mod_same by lia. rewrite N.add_0_l.
      apply N.mod_small. lia.
    + constructor; [done|apply I].
    + done.
    + intros c Hc' Hin. apply elem_of_cons in Hin as [->|Hin]; [done|].
      apply (ii_disjoint _ _ _ _ I c); [apply elem_of_cons; by right|done].
    + intros c [H|H]; rewrite insert_length.
      * apply elem_of_cons in H as [->|H]; [done|]. apply (ii_range _ _ _ _ I). by left.
      * apply (ii_range _ _ _ _ I). right. apply elem_of_cons. by right.
    + intros c Hc'. rewrite insert_length in Hc'. destruct (ii_cover _ _ _ _ I c Hc') as [H|H].
      * left. apply elem_of_cons. by right.
      * apply elem_of_cons in H as [->|H]; [left; apply elem_of_cons; by left|by right].
    + intros c Hc'. apply elem_of_cons in Hc' as [->|Hc'].
      * by rewrite list_lookup_insert.
      * rewrite list_lookup_insert_ne by (intros ->; done). by apply (ii_self _ _ _ _ I).
    + unfold s_len. cbn. rewrite map_length, insert_length.
      pose proof (ii_cap _ _ _ _ I) as Hcap. by rewrite Hlen in Hcap.
    + apply I.
Qed.

Theorem ip_Recycle g ds used frees v :
  ip_inv g ds used frees -> v ∈ used -> (N.of_nat (length ds) + 1 < 2 ^ 32)%N ->
  exists g' ds', intPool_Recycle g (N.of_nat v) = Ret g' /\
    ip_inv g' ds' (filter (fun x => x <> v) used) (v :: frees) /\ length ds' = length ds.
Proof.
  intros I Hv Hs. unfold intPool_Recycle. cbv zeta.
  pose proof (ip_len _ _ _ _ I) as Hlen. pose proof (ip_count _ _ _ _ I) as Hcnt.
  assert (Hvlen : v < length ds) by (apply (ii_range _ _ _ _ I); by left).
  assert (Hvf : v ∉ frees) by (intros Hin; by apply (ii_disjoint _ _ _ _ I v Hin)).
  rewrite Hlen.
  assert (N.ltb (N.of_nat v) (N.of_nat (length ds)) = true) as -> by (apply N.ltb_lt; lia).
  unfold go_guard.
  cbn [intPool_pool set_intPool_pool set_intPool_next set_intPool_available intPool_next intPool_available].
  unfold s_set. rewrite (ii_data _ _ _ _ I).
  replace (intPool_next g) with (N.of_nat (N.to_nat (intPool_next g))) by lia.
  rewrite a_set_map.
  eexists _, (<[v := N.to_nat (intPool_next g)]> ds). split; [reflexivity|]. split; [|by rewrite insert_length].
  split; cbn [intPool_pool set_intPool_pool set_intPool_next set_intPool_available intPool_next intPool_available intPool_capacityIncrement s_data s_cap].
  - done.
  - rewrite Nat2N.id. simpl. split; [done|]. exists (N.to_nat (intPool_next g)). split.
    + by rewrite list_lookup_insert.
    + apply lchain_insert_notin; [done|apply I].
  - rewrite (ii_avail _ _ _ _ I). unfold add_w. cbn [length].
    rewrite wrap_small by (change (2 ^ 32)%N with 4294967296%N in *; lia). lia.
  - apply NoDup_filter, I.
  - constructor; [done|apply I].
  - intros c Hc Hin. apply elem_of_list_filter in Hin as [Hne Hin].
    apply elem_of_cons in Hc as [->|Hc]; [done|]. by apply (ii_disjoint _ _ _ _ I c Hc).
  - intros c [H|H]; rewrite insert_length.
    + apply elem_of_list_filter in H as [_ H]. apply (ii_range _ _ _ _ I). by left.
    + apply elem_of_cons in H as [->|H]; [done|]. apply (ii_range _ _ _ _ I). by right.
  - intros c Hc. rewrite insert_length in Hc. destruct (decide (c = v)) as [->|Hne].
    + right. apply elem_of_cons. by left.
    + destruct (ii_cover _ _ _ _ I c Hc) as [H|H].
      * left. apply elem_of_list_filter. done.
      * right. apply elem_of_cons. by right.
  - intros c Hc. apply elem_of_list_filter in Hc as [Hne Hc].
    rewrite list_lookup_insert_ne by done. by apply (ii_self _ _ _ _ I).
  - unfold s_len. cbn. rewrite map_length, insert_length.
    pose proof (ii_cap _ _ _ _ I) as Hcap. by rewrite Hlen in Hcap.
  - apply I.
Qed.

Theorem ip_Reset g ds used frees :
  ip_inv g ds used frees -> exists g', intPool_Reset g = Ret g' /\ ip_inv g' [] [] [].
Proof.
  intros I. unfold intPool_Reset, go_inside, go_guard.
  assert (N.leb 0 (s_len (intPool_pool g)) = true) as -> by (apply N.leb_le; lia).
  assert (N.leb 0 (s_cap (intPool_pool g)) = true) as -> by (apply N.leb_le; lia).
  eexists. split; [reflexivity|]. apply ip_inv_empty.
  - done.
  - done.
  - unfold s_len, s_prefix. cbn [intPool_pool set_intPool_pool set_intPool_next set_intPool_available s_data s_cap].
    change (N.to_nat 0) with 0. rewrite take_0. cbn [length]. lia.
  - apply I.
Qed.

(** ** Histories *)
Inductive iop := IGet | IRecycle (v : nat) | IReset.

(** [irun g used ops]: the translated code on a call sequence, with the ghost list of
    IDs in use; a Recycle of an ID that is not in use ends the run ([None]) - the cache
    only recycles the ID of a registered filter. *)
Fixpoint irun (g : go_intPool) (used : list nat) (ops : list iop) : option (res (go_intPool * list nat * list N)) :=
  match ops with
  | [] => Some (Ret (g, used, []))
  | IGet :: r =>
      match intPool_Get g with
      | Ret (g', v) =>
          match irun g' (N.to_nat v :: used) r with
          | Some (Ret (g'', u, outs)) => Some (Ret (g'', u, v :: outs))
          | x => x
          end
      | Panicked => Some Panicked
      | Outside => Some Outside
      end
  | IRecycle v :: r =>
      if bool_decide (v ∈ used) then
        match intPool_Recycle g (N.of_nat v) with
        | Ret g' => irun g' (filter (fun x => x <> v) used) r
        | Panicked => Some Panicked
        | Outside => Some Outside
        end
      else None
  | IReset :: r =>
      match intPool_Reset g with
      | Ret g' => irun g' [] r
      | Panicked => Some Panicked
      | Outside => Some Outside
      end
  end.

Theorem ip_history ops : forall g ds used frees x,
  ip_inv g ds used frees -> (N.of_nat (length ds + length ops) + 1 < 2 ^ 32)%N ->
  irun g used ops = Some x ->
  exists g' used' outs ds' frees', x = Ret (g', used', outs) /\ ip_inv g' ds' used' frees' /\ NoDup used'.
Proof.
  induction ops as [|o r IH]; intros g ds used frees x I Hs Hrun.
  - simpl in Hrun. inversion Hrun; subst. exists g, used, [], ds, frees. split; [done|]. split; [done|apply I].
  - destruct o as [|v|]; cbn [irun] in Hrun.
    + destruct (ip_Get g ds used frees I) as (g' & ds' & v & frees' & Hg & Hfresh & I' & Hlen').
      { simpl in Hs. lia. }
      rewrite Hg in Hrun. rewrite Nat2N.id in Hrun.
      destruct (irun g' (v :: used) r) as [y|] eqn:Hr; [|done].
      destruct (IH g' ds' (v :: used) frees' y I') as (g'' & u & outs & ds'' & frees'' & -> & I'' & Hnd); [simpl in Hs; lia|done|].
      inversion Hrun; subst. eauto 10.
    + destruct (bool_decide (v ∈ used)) eqn:Hin; [|done]. apply bool_decide_eq_true in Hin.
      destruct (ip_Recycle g ds used frees v I Hin) as (g' & ds' & Hg & I' & Hlen').
      { simpl in Hs. lia. }
      rewrite Hg in Hrun.
      apply (IH g' ds' _ _ x I'); [simpl in Hs; lia|done].
    + destruct (ip_Reset g ds used frees I) as (g' & Hg & I'). rewrite Hg in Hrun.
      apply (IH g' [] [] [] x I'); [simpl in *; lia|done].
Qed.

(** Every ID handed out is fresh: stated on one step, for every reachable pool. *)
Corollary ip_fresh g ds used frees :
  ip_inv g ds used frees -> (N.of_nat (length ds) + 1 < 2 ^ 32)%N ->
  exists g' v, intPool_Get g = Ret (g', v) /\ N.to_nat v ∉ used.
Proof.
  intros I Hs. destruct (ip_Get g ds used frees I Hs) as (g' & ds' & v & frees' & Hg & Hf & _).
  exists g', (N.of_nat v). by rewrite Nat2N.id.
Qed.

Example ip_run :
  match go_newIntPool 2 with
  | Ret g => irun g [] [IGet; IGet; IGet; IRecycle 1; IRecycle 0; IGet; IGet; IGet; IReset; IGet]
  | _ => None
  end = match go_newIntPool 2 with Ret g =>
          match irun g [] [IGet; IGet; IGet; IRecycle 1; IRecycle 0; IGet; IGet; IGet; IReset; IGet] with
          | Some (Ret (g', u, outs)) => if decide (outs = [0; 1; 2; 0; 1; 3; 0]%N) then Some (Ret (g', u, outs)) else None
          | _ => None end | _ => None end.
Proof. vm_compute. reflexivity. Qed.
