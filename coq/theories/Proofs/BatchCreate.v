(** * Batch creation = single creations (C08).

    [create_entities w tid n] (World.createEntities: n handles from the pool, one AllocN,
    one index pass) yields the same world and the same handles as n calls of
    [create_entity w tid], provided the index and the target bits have the pool's length.
    On top of it: Builder.NewBatch refines n abstract creations. *)
From Arche Require Import Model.Base Model.Pool Model.Filter Model.World Model.Ops.
From Arche Require Import Proofs.PoolInv Proofs.Tables Proofs.Store Proofs.Graph Proofs.WorldInv Proofs.Frame Proofs.StepFrame
  Proofs.RelGraph Proofs.RelWorld Proofs.RelRefine Proofs.QueryExact Proofs.CacheInv Proofs.IlenInv.

(** ** Capacity: the least multiple of the increment that holds the size *)
Lemma capacity_bounds size inc : 0 < inc -> size <= capacity size inc < size + inc /\ capacity size inc mod inc = 0.
Proof.
  intros Hinc. unfold capacity.
  pose proof (Nat.div_mod size inc ltac:(lia)) as Hdm.
  pose proof (Nat.mod_upper_bound size inc ltac:(lia)) as Hm.
  destruct (Nat.eqb_spec (size mod inc) 0) as [He|He].
  - rewrite Nat.add_0_r. split; [lia|]. rewrite Nat.mul_comm. apply Nat.mod_mul. lia.
  - split; [lia|].
    replace (inc * (size / inc) + inc) with ((size / inc + 1) * inc) by lia. apply Nat.mod_mul. lia.
Qed.

Lemma capacity_unique size inc c :
  0 < inc -> size <= c < size + inc -> c mod inc = 0 -> c = capacity size inc.
Proof.
  intros Hinc Hc Hm. destruct (capacity_bounds size inc Hinc) as [H1 H3].
  apply Nat.mod_divides in Hm as [k Hk]; [|lia]. apply Nat.mod_divides in H3 as [j Hj]; [|lia].
  rewrite Hj in *. subst c.
  assert (k < j + 1) by (apply (Nat.mul_lt_mono_pos_l inc); lia).
  assert (j < k + 1) by (apply (Nat.mul_lt_mono_pos_l inc); lia).
  f_equal. lia.
Qed.

Lemma capacity_mono s1 s2 inc : 0 < inc -> s1 <= s2 -> capacity s1 inc <= capacity s2 inc.
Proof.
  intros Hinc Hs. destruct (capacity_bounds s1 inc Hinc) as [H1 H1m]. destruct (capacity_bounds s2 inc Hinc) as [H2 H2m].
  apply Nat.mod_divides in H1m as [k Hk]; [|lia]. apply Nat.mod_divides in H2m as [j Hj]; [|lia].
  rewrite Hk, Hj in *. apply Nat.mul_le_mono_l.
  assert (k < j + 1) by (apply (Nat.mul_lt_mono_pos_l inc); lia). lia.
Qed.

(** ** AllocN = Alloc, Alloc, ... *)
Lemma table_ext (t t' : table) :
  t_node t = t_node t' -> t_target t = t_target t' -> t_ents t = t_ents t' -> t_rows t = t_rows t' ->
  t_active t = t_active t' -> t_layouts t = t_layouts t' -> t = t'.
Proof. destruct t, t'. simpl. by intros -> -> -> -> -> ->. Qed.

Lemma tbl_allocn_cons capinc zr t e es :
  0 < capinc ->
  tbl_allocn capinc zr t (e :: es) =
  (fst (tbl_allocn capinc zr (fst (tbl_alloc capinc zr t e)) es), tlen t).
Proof.
  intros Hinc. unfold tbl_allocn, tbl_alloc, tbl_extend, tlen. cbn [fst length].
  set (len := length (t_ents t)). set (cap := length (t_rows t)). set (n := length es).
  f_equal.
  destruct (Nat.leb_spec (len + 1) cap) as [H1|H1].
  - (* the first Alloc does not grow *)
    simpl. rewrite app_length. simpl. fold len cap.
    replace (len + 1 + n) with (len + S n) by lia.
    destruct (Nat.leb_spec (len + S n) cap) as [H2|H2]; apply table_ext; simpl; try done; by rewrite <- app_assoc.
  - (* the first Alloc grows to capacity (len+1) *)
    assert (Hgrow : (len + S n <=? cap) = false) by (apply Nat.leb_gt; lia). rewrite Hgrow.
    simpl. rewrite !app_length, replicate_length. simpl. fold len cap.
    replace (len + 1 + n) with (len + S n) by lia.
    destruct (capacity_bounds (len + 1) capinc Hinc) as [[B1 B2] B3].
    replace (cap + (capacity (len + 1) capinc - cap)) with (capacity (len + 1) capinc) by lia.
    destruct (Nat.leb_spec (len + S n) (capacity (len + 1) capinc)) as [H2|H2].
    + assert (capacity (len + 1) capinc = capacity (len + S n) capinc) as <-.
      { apply capacity_unique; [done| |done]. lia. }
      apply table_ext; simpl; try done. by rewrite <- app_assoc.
    + pose proof (capacity_mono (len + 1) (len + S n) capinc Hinc ltac:(lia)).
      destruct (capacity_bounds (len + S n) capinc Hinc) as [[C1 C2] C3].
      apply table_ext; simpl; try done; [by rewrite <- app_assoc|].
      rewrite <- app_assoc, <- replicate_add. do 2 f_equal. lia.
Qed.

(** ** createEntities = createEntity, createEntity, ... *)
Lemma index_set_single idx tb i v :
  length tb = length idx -> i <= length idx ->
  index_set idx tb i v =
  if i =? length idx then (idx ++ [Some v], tb ++ [false]) else (<[i := Some v]> idx, <[i := false]> tb).
Proof.
  intros Hl Hi. unfold index_set.
  destruct (Nat.eqb_spec i (length idx)) as [->|Hne].
  - rewrite (proj2 (Nat.leb_le _ _)) by lia. rewrite Nat.sub_diag. simpl.
    rewrite Hl. replace (S (length idx) - length idx) with 1 by lia. done.
  - rewrite (proj2 (Nat.leb_gt _ _)) by lia. done.
Qed.

Lemma index_set_lengths idx tb i v :
  length tb = length idx ->
  length (index_set idx tb i v).2 = length (index_set idx tb i v).1 /\
  length idx <= length (index_set idx tb i v).1 /\ i < length (index_set idx tb i v).1.
Proof.
  intros Hl. unfold index_set. destruct (Nat.leb_spec (length idx) i) as [H|H]; simpl.
  - rewrite !app_length, !replicate_length. simpl. lia.
  - rewrite !insert_length. lia.
Qed.

Definition idx_step (tid start : nat) : list (option (nat * nat)) * list bool -> nat * Entity -> list (option (nat * nat)) * list bool :=
  fun '(idx, tb) '(k, e) => index_set idx tb (eid e) (tid, start + k).

Lemma foldl_index_shift (tid start : nat) (es : list Entity) : forall j acc,
  foldl (idx_step tid start) acc (imap (fun k e => (j + S k, e)) es) =
  foldl (idx_step tid (S start)) acc (imap (fun k e => (j + k, e)) es).
Proof.
  induction es as [|e es IH]; intros j acc; [done|].
  rewrite !imap_cons. cbn [foldl].
  assert (Hhd : idx_step tid start acc (j + 1, e) = idx_step tid (S start) acc (j + 0, e)).
  { destruct acc as [idx tb]. unfold idx_step. do 2 f_equal. lia. }
  rewrite Hhd.
  rewrite (imap_ext _ (fun k e0 => (S j + S k, e0))) by (intros; simpl; f_equal; lia).
  rewrite (imap_ext ((fun k e0 => (j + k, e0)) ∘ S) (fun k e0 => (S j + k, e0))) by (intros; simpl; f_equal; lia).
  apply IH.
Qed.

Lemma create_entities_unfold w tid count :
  create_entities w tid count =
  match w_tables w !! tid with
  | None => (w, [])
  | Some t =>
      match w_nodes w !! t_node t with
      | None => (w, [])
      | Some nd =>
          let '(p, es) := pool_get_n (w_pool w) count in
          let '(t', start) := tbl_allocn (node_capinc w nd) (zero_row nd) t es in
          let w1 := upd_table (w <| w_pool := p |>) tid t' in
          let '(idx, tb) := foldl (idx_step tid start) (w_index w1, w_tbits w1) (imap (fun k e => (k, e)) es) in
          (w1 <| w_index := idx |> <| w_tbits := tb |>, es)
      end
  end.
Proof. reflexivity. Qed.

Lemma pool_get_id_le p live issued frees :
  pool_inv p live issued frees -> eid (pool_get p).2 <= length (p_ents p).
Proof.
  intros I. pose proof (pool_get_inv p live issued frees I) as H.
  unfold pool_get in *. destruct (p_avail p =? 0); simpl in *; [lia|].
  destruct (p_ents p !! p_next p) as [[link g]|] eqn:Hl; simpl in *.
  - apply lookup_lt_Some in Hl. lia.
  - lia.
Qed.

Theorem create_entities_cons w tid n t nd live issued frees :
  w_tables w !! tid = Some t -> w_nodes w !! t_node t = Some nd -> 0 < node_capinc w nd ->
  pool_inv (w_pool w) live issued frees ->
  length (w_index w) = length (p_ents (w_pool w)) -> length (w_tbits w) = length (w_index w) ->
  create_entities w tid (S n) =
  (let '(w1, e) := create_entity w tid in
   let '(w2, es) := create_entities w1 tid n in (w2, e :: es)).
Proof.
  intros Ht Hnd Hinc I Hil Htl.
  pose proof (pool_get_id_le _ _ _ _ I) as Hid.
  rewrite create_entities_unfold. unfold create_entity. rewrite Ht, Hnd.
  cbn [pool_get_n]. destruct (pool_get (w_pool w)) as [p1 e] eqn:Hg. cbn [snd] in Hid.
  destruct (pool_get_n p1 n) as [p2 es] eqn:Hgn.
  rewrite (tbl_allocn_cons _ _ _ _ _ Hinc).
  set (t1 := fst (tbl_alloc (node_capinc w nd) (zero_row nd) t e)).
  assert (Hal : tbl_alloc (node_capinc w nd) (zero_row nd) t e = (t1, tlen t)) by done.
  rewrite Hal.
  assert (Hlt : tid < length (w_tables w)) by (by apply lookup_lt_Some in Ht).
  assert (Ht1n : t_node t1 = t_node t).
  { unfold t1, tbl_alloc, tbl_extend. simpl. by destruct (_ <=? _). }
  assert (Ht1l : tlen t1 = S (tlen t)).
  { unfold t1, tbl_alloc, tbl_extend, tlen. simpl. destruct (_ <=? _); simpl; rewrite app_length; simpl; lia. }
  (* the world after the single creation *)
  match goal with |- _ = (let '(w1, e0) := ?X in _) =>
    assert (Hx : exists wa, X = (wa, e) /\ w_tables wa = <[tid := t1]> (w_tables w) /\ w_nodes wa = w_nodes w /\
       w_pool wa = p1 /\ node_capinc wa nd = node_capinc w nd /\
       (w_index wa, w_tbits wa) = index_set (w_index w) (w_tbits w) (eid e) (tid, tlen t) /\
       forall p t' idx tb,
         upd_table (wa <| w_pool := p |>) tid t' <| w_index := idx |> <| w_tbits := tb |> =
         upd_table (w <| w_pool := p |>) tid t' <| w_index := idx |> <| w_tbits := tb |>) end.
  { rewrite (index_set_single _ _ _ _ Htl) by (rewrite Hil; exact Hid).
    change (w_index (upd_table (w <| w_pool := p1 |>) tid t1)) with (w_index w).
    change (w_tbits (upd_table (w <| w_pool := p1 |>) tid t1)) with (w_tbits w).
    destruct (eid e =? length (w_index w)); eexists; (split; [reflexivity|]);
      repeat split; try done; intros; unfold upd_table; destruct w; simpl; by rewrite list_insert_insert. }
  destruct Hx as (wa & -> & Hwat & Hwan & Hwap & Hwac & Hwai & Hrest).
  rewrite create_entities_unfold.
  rewrite Hwat, list_lookup_insert by done. rewrite Hwan, Ht1n, Hnd, Hwap, Hgn, Hwac.
  destruct (tbl_allocn (node_capinc w nd) (zero_row nd) t1 es) as [t2 start2] eqn:Ha2.
  assert (Hstart2 : start2 = S (tlen t)).
  { unfold tbl_allocn in Ha2. injection Ha2 as _ <-. done. }
  cbn [fst]. subst start2.
  (* the index pass *)
  rewrite imap_cons. cbn [foldl].
  rewrite (imap_ext _ (fun k e0 => (0 + S k, e0))) by done.
  rewrite foldl_index_shift. cbn [Nat.add].
  change (w_index (upd_table (w <| w_pool := p2 |>) tid t2)) with (w_index w).
  change (w_tbits (upd_table (w <| w_pool := p2 |>) tid t2)) with (w_tbits w).
  assert (Hfirst : idx_step tid (tlen t) (w_index w, w_tbits w) (0, e) = (w_index wa, w_tbits wa)).
  { unfold idx_step. by rewrite Nat.add_0_r, Hwai. }
  rewrite Hfirst.
  change (w_index (upd_table (wa <| w_pool := p2 |>) tid t2)) with (w_index wa).
  change (w_tbits (upd_table (wa <| w_pool := p2 |>) tid t2)) with (w_tbits wa).
  destruct (foldl (idx_step tid (S (tlen t))) (w_index wa, w_tbits wa) (imap (fun k e0 => (k, e0)) es)) as [idx tb].
  f_equal. symmetry. apply Hrest.
Qed.


Lemma create_entities_zero w tid t nd :
  w_tables w !! tid = Some t -> w_nodes w !! t_node t = Some nd -> tlen t <= length (t_rows t) ->
  create_entities w tid 0 = (w, []).
Proof.
  intros Ht Hnd Hcap. rewrite create_entities_unfold, Ht, Hnd. cbn [pool_get_n].
  unfold tbl_allocn, tbl_extend. cbn [length]. rewrite Nat.add_0_r.
  rewrite (proj2 (Nat.leb_le _ _) Hcap). cbn [imap foldl]. f_equal.
  assert (Hteq : t <| t_ents := t_ents t ++ [] |> = t) by (apply table_ext; simpl; try done; by rewrite app_nil_r).
  rewrite Hteq. unfold upd_table. destruct w. simpl in *. by rewrite list_insert_id.
Qed.

Theorem create_n_rok n : forall w live issued tid dt dn,
  world_okr2 w live issued -> w_tables w !! tid = Some dt -> w_nodes w !! t_node dt = Some dn ->
  t_active dt = true -> ilen w ->
  let '(w2, es) := create_entities w tid n in
  length es = n /\ NoDup es /\ (forall e, e ∈ es -> e ∉ issued) /\
  world_okr2 w2 (rev es ++ live) (rev es ++ issued) /\ w_nodes w2 = w_nodes w /\ w_reg w2 = w_reg w /\
  w_tb w2 = w_tb w /\ w_locks w2 = w_locks w /\ ilen w2 /\
  (forall e', e' ∈ live -> ent_cells w2 e' = ent_cells w e') /\
  (forall e, e ∈ es -> ent_cells w2 e = Some (t_node dt, t_target dt, zero_row dn)) /\
  (exists dt', w_tables w2 !! tid = Some dt' /\ t_node dt' = t_node dt /\ t_target dt' = t_target dt /\ t_active dt' = true) /\
  (cache_ok w -> cache_ok w2).
Proof.
  induction n as [|n IH]; intros w live issued tid dt dn K Hdt Hdn Hact Hil.
  - destruct K as [[S G] P L].
    destruct (so_table _ _ S tid dt Hdt) as (nd & Hnd & Hok). rewrite Hdn in Hnd. injection Hnd as <-.
    rewrite (create_entities_zero w tid dt dn Hdt Hdn (tok_cap _ _ Hok)).
    split; [done|]. split; [constructor|]. split; [intros e He; by apply elem_of_nil in He|].
    split; [done|]. repeat (split; [done|]). split; [intros e He; by apply elem_of_nil in He|]. split; [by exists dt|done].
  - pose proof K as [[S G] [frees P] L].
    assert (Hcap : 0 < node_capinc w dn).
    { unfold node_capinc. destruct (rg_capinc _ G). by destruct (node_has_rel dn). }
    rewrite (create_entities_cons w tid n dt dn live issued frees Hdt Hdn Hcap P L Hil).
    pose proof (create_in_table_rok w live issued tid dt dn K Hdt Hdn Hact) as Hc.
    pose proof (create_entity_tables w tid) as Ht. pose proof (ilen_create_entity w tid Hil) as Hil1.
    pose proof (fun C => cache_ok_create_entity w live issued tid dt dn K C Hdt Hdn Hact) as HC1.
    destruct (create_entity w tid) as [w1 e]. cbn [fst] in Hil1, HC1.
    destruct Hc as (Hni & K1 & Hn1 & Hr1 & Htb1 & Hlk1 & Hold1 & Hnew1).
    destruct Ht as (_ & _ & _ & _ & Hsame). destruct (Hsame dt Hdt) as (dt1 & Hdt1 & Hn & Htg & Ha).
    assert (Hdn1 : w_nodes w1 !! t_node dt1 = Some dn) by (by rewrite Hn1, Hn).
    assert (Hact1 : t_active dt1 = true) by congruence.
    specialize (IH w1 (e :: live) (e :: issued) tid dt1 dn K1 Hdt1 Hdn1 Hact1 Hil1).
    destruct (create_entities w1 tid n) as [w2 es].
    destruct IH as (Hlen & Hnd & Hfresh & K2 & Hn2 & Hr2 & Htb2 & Hlk2 & Hil2 & Hold2 & Hnew2 & (dt2 & Hdt2 & Hn2' & Htg2 & Ha2) & HC2).
    assert (He_es : e ∉ es).
    { intros Hin. apply (Hfresh e Hin). apply elem_of_cons. by left. }
    split; [simpl; lia|]. split; [by constructor|]. split.
    { intros e0 He0 Hi0. apply elem_of_cons in He0 as [->|He0]; [done|].
      apply (Hfresh e0 He0). apply elem_of_cons. by right. }
    split.
    { simpl. rewrite <- !app_assoc. simpl. done. }
    split; [congruence|]. split; [congruence|]. split; [congruence|]. split; [congruence|]. split; [done|].
    split.
    { intros e' He'. rewrite Hold2 by (apply elem_of_cons; by right). by apply Hold1. }
    split.
    { intros e0 He0. apply elem_of_cons in He0 as [->|He0].
      - rewrite Hold2 by (apply elem_of_cons; by left). done.
      - rewrite (Hnew2 e0 He0). by rewrite Hn, Htg. }
    split; [exists dt2; repeat split; congruence|]. intros C. by apply HC2, HC1.
Qed.

(** ** Builder.NewBatch refines n abstract creations *)

Lemma set_tbit_fields w t :
  w_nodes (set_tbit w t) = w_nodes w /\ w_tables (set_tbit w t) = w_tables w /\
  w_index (set_tbit w t) = w_index w /\ w_reg (set_tbit w t) = w_reg w /\
  w_pool (set_tbit w t) = w_pool w /\ w_tb (set_tbit w t) = w_tb w /\ w_locks (set_tbit w t) = w_locks w /\
  w_listener (set_tbit w t) = w_listener w.
Proof. unfold set_tbit. by destruct (ent_is_zero t). Qed.

Lemma set_tbit_okr2 w live issued t : world_okr2 w live issued -> world_okr2 (set_tbit w t) live issued.
Proof.
  intros [[S G] P L]. destruct (set_tbit_fields w t) as (Hn & Ht & Hi & Hr & Hp & _).
  split; [split; [|by apply set_tbit_rok]|by rewrite Hp|by rewrite Hi, Hp].
  destruct S as [A1 A2 A3 A4]. split; unfold loc in *; rewrite ?Hi, ?Ht, ?Hn; done.
Qed.

Lemma set_tbit_ilen w t : ilen w -> ilen (set_tbit w t).
Proof. unfold ilen, set_tbit. destruct (ent_is_zero t); [done|]. simpl. by rewrite insert_length. Qed.

Lemma elem_of_rev {X} (l : list X) x : x ∈ rev l <-> x ∈ l.
Proof. rewrite !elem_of_list_In. symmetry. apply in_rev. Qed.

Definition a_add_all (A : astate) (es : list Entity) (a : aent) : astate :=
  foldl (fun A e => a_add A e a) A es.

Lemma a_add_all_fields es a : forall A,
  as_live (a_add_all A es a) = rev es ++ as_live A /\ as_issued (a_add_all A es a) = rev es ++ as_issued A /\
  as_reg (a_add_all A es a) = as_reg A.
Proof.
  induction es as [|e es IH]; intros A; [done|]. cbn [a_add_all foldl]. fold (a_add_all (a_add A e a) es a).
  destruct (IH (a_add A e a)) as (H1 & H2 & H3). rewrite H1, H2, H3. simpl. by rewrite <- !app_assoc.
Qed.

Lemma a_add_all_get es a : forall A e,
  assoc_get e (as_ents (a_add_all A es a)) = if bool_decide (e ∈ es) then Some a else assoc_get e (as_ents A).
Proof.
  induction es as [|e0 es IH]; intros A e.
  - rewrite bool_decide_eq_false_2; [done|]. apply not_elem_of_nil.
  - cbn [a_add_all foldl]. fold (a_add_all (a_add A e0 a) es a). rewrite IH. simpl.
    destruct (decide (e ∈ es)) as [Hin|Hni].
    + rewrite !bool_decide_eq_true_2; [done| |done]. apply elem_of_cons. by right.
    + rewrite (bool_decide_eq_false_2 _ Hni). rewrite assoc_get_set.
      destruct (ent_eqb e e0) eqn:Heq.
      * apply ent_eqb_eq in Heq as ->. rewrite bool_decide_eq_true_2; [done|]. apply elem_of_cons. by left.
      * apply ent_eqb_neq in Heq. rewrite bool_decide_eq_false_2; [done|]. intros Hin. apply elem_of_cons in Hin as [->|Hin]; done.
Qed.

Theorem batch_new_refines w A count b target w' es evs :
  R w A -> cache_ok w -> ilen w -> ids_reg A (b_ids b) -> b_vals b = None ->
  op_new_batch w count b target = (w', Ok (VEnts es), evs) ->
  Z.of_nat (length es) = count /\ NoDup es /\ (forall e, e ∈ es -> e ∉ as_issued A) /\
  R w' (a_add_all A es (mkA (new_mask (b_ids b)) (default ezero target) [])) /\ cache_ok w' /\ ilen w'.
Proof.
  intros HR C Hil Hids Hv H. pose proof HR as [K Hr Hu He]. unfold ids_reg in Hids. rewrite Hr in Hids.
  unfold op_new_batch in H.
  destruct (new_entities_nn w count b target) as [[[[w4 tid] start] es0]|] eqn:Hn; [|done].
  pose proof (frame_new_entities_nn _ _ _ _ _ _ _ _ Hn) as F.
  destruct (table_mask_rel w4 tid) as [m r]. injection H as Hw4 Hes0 _. subst w4 es0.
  unfold new_entities_nn in Hn. rewrite Hu in Hn.
  assert (Hcomps : b_comps b = []) by (unfold b_comps; by rewrite Hv).
  set (tg := default ezero target) in *.
  assert (Hrelok : forall t, target = Some t -> exists rid, b_rel b = Some rid).
  { intros t ->. destruct (b_rel b); [by eexists|done]. }
  assert (Hbody :
    (if (count <? 1)%Z then None else
     if negb (target_ok w tg) then None else
     match (match b_ids b with [] => Some (w, 0) | _ => find_or_create_table w 0 (b_ids b) [] tg end) with
     | None => None
     | Some (w1, tid0) =>
         if match target, b_rel b with Some _, Some rid => negb (check_relation w1 tid0 rid) | _, _ => false end then None else
         let w2 := match target with Some t => set_tbit w1 t | None => w1 end in
         let start0 := match w_tables w2 !! tid0 with Some t => tlen t | None => 0 end in
         let '(w3, es1) := create_entities w2 tid0 (Z.to_nat count) in
         Some (foldl (fun w e => set_comps w e (b_comps b)) w3 es1, tid0, start0, es1)
     end) = Some (w', tid, start, es)).
  { destruct target as [t|]; [destruct (b_rel b); [exact Hn|done]|destruct (b_rel b); exact Hn]. }
  clear Hn. destruct (count <? 1)%Z eqn:Hcnt; [done|]. apply Z.ltb_ge in Hcnt.
  destruct (negb (target_ok w tg)) eqn:Htok; [done|].
  destruct (match b_ids b with [] => Some (w, 0) | _ => find_or_create_table w 0 (b_ids b) [] tg end) as [[w1 tid0]|] eqn:Hf; [|done].
  destruct K as [[S G] [frees P] L].
  destruct (new_table_rok w (b_ids b) tg w1 tid0 G Hids Hf) as (E & G1 & dt & dn & Hdt & Hdn & Hdm & Hda & Hdtg).
  pose proof (cache_ok_new_table w (b_ids b) tg w1 tid0 G C Hids Hf) as C1.
  apply exmask_add_fold in Hdm. change (n_mask dn = new_mask (b_ids b)) in Hdm.
  assert (K1 : world_okr2 w1 (as_live A) (as_issued A)).
  { split; [split; [by eapply ext_r_store_ok|done]|exists frees; by rewrite (xr_pool _ _ E)|by rewrite (xr_index _ _ E), (xr_pool _ _ E)]. }
  assert (Hil1 : ilen w1).
  { unfold ilen. rewrite (xr_index _ _ E). destruct E. congruence. }
  destruct (match target, b_rel b with Some _, Some rid => negb (check_relation w1 tid0 rid) | _, _ => false end) eqn:Hchk; [done|].
  set (w2 := match target with Some t => set_tbit w1 t | None => w1 end) in *. cbv zeta in Hbody.
  assert (K2 : world_okr2 w2 (as_live A) (as_issued A)) by (unfold w2; destruct target; [by apply set_tbit_okr2|done]).
  assert (C2 : cache_ok w2) by (unfold w2; destruct target; [by apply cache_ok_set_tbit|done]).
  assert (Hil2 : ilen w2) by (unfold w2; destruct target; [by apply set_tbit_ilen|done]).
  assert (F2 : w_nodes w2 = w_nodes w1 /\ w_tables w2 = w_tables w1 /\ w_index w2 = w_index w1 /\ w_reg w2 = w_reg w1 /\
               w_tb w2 = w_tb w1 /\ w_locks w2 = w_locks w1 /\ w_listener w2 = w_listener w1).
  { unfold w2. destruct target as [t|]; [|done]. destruct (set_tbit_fields w1 t) as (?&?&?&?&?&?&?&?). done. }
  destruct F2 as (Hn2 & Ht2 & Hi2 & Hr2 & Htb2 & Hlk2 & Hls2).
  assert (Hdt2 : w_tables w2 !! tid0 = Some dt) by (by rewrite Ht2).
  assert (Hdn2 : w_nodes w2 !! t_node dt = Some dn) by (by rewrite Hn2).
  pose proof (create_n_rok (Z.to_nat count) w2 (as_live A) (as_issued A) tid0 dt dn K2 Hdt2 Hdn2 Hda Hil2) as Hc.
  destruct (create_entities w2 tid0 (Z.to_nat count)) as [w3 es1] eqn:Hce.
  rewrite Hcomps in Hbody.
  assert (Hfold : foldl (fun w0 e => set_comps w0 e []) w3 es1 = w3) by (clear; induction es1; simpl; done).
  rewrite Hfold in Hbody. injection Hbody as <- <- <- <-.
  destruct Hc as (Hlen & Hnd & Hfresh & K3 & Hn3 & Hr3 & Htb3 & Hlk3 & Hil3 & Hold & Hnew & _ & HC3).
  split; [rewrite Hlen; lia|]. split; [done|]. split; [done|].
  destruct (a_add_all_fields es1 (mkA (new_mask (b_ids b)) tg []) A) as (Hal & Hai & Har).
  assert (Hcells12 : forall e0, ent_cells w2 e0 = ent_cells w1 e0) by (intros; by apply ent_cells_same).
  assert (HN : nodes_same w w3).
  { eapply nodes_same_trans; [apply (ext_r_nodes _ _ E)|]. apply nodes_same_eq. congruence. }
  split; [|split; [|done]].
  - split.
    + by rewrite Hal, Hai.
    + rewrite Har, Hr. symmetry. apply F.
    + unfold is_locked in *. by rewrite (fr_locks _ _ F).
    + rewrite Hal, Har. intros e Hin. rewrite a_add_all_get.
      apply elem_of_app in Hin as [Hin|Hin].
      * apply (proj1 (elem_of_rev _ _)) in Hin. rewrite bool_decide_eq_true_2 by done. eexists. split; [done|].
        specialize (Hnew e Hin).
        assert (Hm : ent_mask w3 e = Some (new_mask (b_ids b))).
        { unfold ent_mask. rewrite Hnew. simpl. rewrite Hn3, Hn2, Hdn. simpl. by rewrite Hdm. }
        split; simpl.
        -- done.
        -- unfold ent_target. rewrite Hnew. simpl. rewrite Hdtg.
           destruct (node_has_rel dn) eqn:Hhr; [done|].
           (* no relation component: the target argument, if any, was refused *)
           unfold tg. destruct target as [t|]; [|done]. simpl.
           destruct (Hrelok t eq_refl) as [rid Hbr]. rewrite Hbr in Hchk.
           apply negb_false_iff in Hchk. unfold check_relation in Hchk. rewrite Hdt, Hdn in Hchk.
           apply node_has_rel_false in Hhr. by rewrite Hhr in Hchk.
        -- intros id Hid Hbit. unfold comp_val. rewrite Hnew. simpl. rewrite Hn3, Hn2, Hdn. simpl.
           assert (Hdids : n_ids dn = mask_ids (w_tb w) (n_mask dn)) by (rewrite (rg_ids _ G1 _ _ Hdn), (xr_tb _ _ E); done).
           assert (Hin' : id ∈ n_ids dn).
           { rewrite Hdids, Hdm. unfold mask_ids. apply elem_of_list_filter. split; [done|]. apply elem_of_seq.
             rewrite Htb3, Htb2, (xr_tb _ _ E) in Hid. lia. }
           apply elem_of_list_lookup in Hin' as [j Hj].
           assert (Hndd : NoDup (n_ids dn)) by (rewrite Hdids; apply NoDup_filter, NoDup_seq).
           unfold col_of. rewrite (find_index_nodup _ j id Hndd Hj). simpl.
           unfold zero_row, aval. simpl. apply lookup_replicate_2. by apply lookup_lt_Some in Hj.
        -- done.
        -- intros id Hb. rewrite bit_new_mask in Hb. apply bool_decide_eq_true in Hb. rewrite Hr. by eapply Forall_lt_in.
        -- intros Hn. destruct (node_has_rel dn) eqn:Hhr.
           ++ exfalso. assert (Hin3 : e ∈ rev es1 ++ as_live A) by (apply elem_of_app; left; by apply elem_of_rev).
              pose proof (ent_rel_arel w3 _ e (new_mask (b_ids b)) (r2_ok _ _ _ K3) Hin3 Hm) as Hrel.
              unfold ent_rel in Hrel. rewrite Hnew in Hrel. simpl in Hrel. rewrite Hn3, Hn2, Hdn in Hrel. simpl in Hrel.
              rewrite Hr3, Hr2, (xr_reg _ _ E), <- Hr in Hrel. apply node_has_rel_true in Hhr as [rr Hrr]. congruence.
           ++ unfold tg. destruct target as [t|]; [|done]. simpl.
              destruct (Hrelok t eq_refl) as [rid Hbr]. rewrite Hbr in Hchk.
              apply negb_false_iff in Hchk. unfold check_relation in Hchk. rewrite Hdt, Hdn in Hchk.
              apply node_has_rel_false in Hhr. by rewrite Hhr in Hchk.
      * assert (Hni : e ∉ es1).
        { intros Hin'. apply (Hfresh e Hin'). by apply (Proofs.PoolInv.pi_live_issued _ _ _ _ P). }
        rewrite bool_decide_eq_false_2 by done. destruct (He e Hin) as (a0 & Ha0 & V0). exists a0. split; [done|].
        assert (Hc3 : ent_cells w3 e = ent_cells w e).
        { rewrite (Hold e Hin), Hcells12. by apply (ext_r_cells w w1 (as_live A)). }
        destruct (views_same w w3 (as_live A) e S Hin HN Hc3) as (A1 & A2 & _ & A4).
        apply (views_keep w); try done. rewrite Htb3, Htb2. by rewrite (xr_tb _ _ E).
  - by apply HC3.
Qed.

(** The abstract effect is that of [count] single creations through the same builder. *)
Lemma a_add_all_singles A b target es :
  a_add_all A es (mkA (new_mask (b_ids b)) (default ezero target) []) =
  foldl (fun A e => astep A (OBNew b target) (Ok (VEnt e))) A es.
Proof.
  unfold a_add_all. revert A. induction es as [|e es IH]; intros A; [done|]. simpl. rewrite IH. by destruct target.
Qed.

Theorem batch_new_equals_singles w A count b target w' es evs :
  R w A -> cache_ok w -> ilen w -> ids_reg A (b_ids b) -> b_vals b = None ->
  op_new_batch w count b target = (w', Ok (VEnts es), evs) ->
  Z.of_nat (length es) = count /\ NoDup es /\ (forall e, e ∈ es -> e ∉ as_issued A) /\
  R w' (foldl (fun A e => astep A (OBNew b target) (Ok (VEnt e))) A es) /\ cache_ok w' /\ ilen w'.
Proof. intros. rewrite <- a_add_all_singles. by eapply batch_new_refines. Qed.

(** Non-vacuity: a batch of three entities with a relation target in a world that already has entities. *)
Definition demo_bc_ops : list op :=
  [ORegister 10 false false; ORegister 11 true false; ONew [0]; OBNew (mkB [0; 1] None (Some 1)) (Some (mkE 1 0))].
Definition demo_bc_world : world := run (world_init 2 2 64) demo_bc_ops.
Example demo_bc :
  res_world (step demo_bc_world (OBBatch (mkB [0; 1] None (Some 1)) 3 (Some (mkE 1 0)))) =
  run demo_bc_world [OBNew (mkB [0; 1] None (Some 1)) (Some (mkE 1 0)); OBNew (mkB [0; 1] None (Some 1)) (Some (mkE 1 0));
                     OBNew (mkB [0; 1] None (Some 1)) (Some (mkE 1 0))] /\
  snd (fst (step demo_bc_world (OBBatch (mkB [0; 1] None (Some 1)) 3 (Some (mkE 1 0))))) = Ok (VEnts [mkE 3 0; mkE 4 0; mkE 5 0]).
Proof. vm_compute. done. Qed.
