(** * C01 / C05 for arbitrary registries: the exchange family with relation components.

    [exchange_rok] is the relation-aware form of [WorldInv.exchange_ok]: for every world
    satisfying the storage invariant and the graph invariant of Proofs/RelGraph.v
    (relation tables per target, target map, free list, re-use), every alive entity,
    every add / remove list and every optional relation argument, a successful exchange
    gives the entity exactly the exchange mask, the relation target the call dictates,
    the old values of kept components and zero for added ones, and changes nothing for
    any other entity (mask, target, values). *)
From Arche Require Import Model.Base Model.Pool Model.Filter Model.World Model.Ops
  Proofs.Tables Proofs.Bits Proofs.Store Proofs.Graph Proofs.Atomic Proofs.WorldInv Proofs.RelGraph.

Record world_okr (w : world) (live : list Entity) : Prop := {
  wr_store : store_ok w live;
  wr_graph : rgraph_ok w;
}.

Definition ent_target (w : world) (e : Entity) : option Entity :=
  ent_cells w e ≫= fun '(_, tg, _) => Some tg.
Definition ent_rel (w : world) (e : Entity) : option (option nat) :=
  ent_cells w e ≫= fun '(nid, _, _) => w_nodes w !! nid ≫= fun nd => Some (n_rel nd).

(** Nodes keep mask, column layout and relation. *)
Definition nodes_same (w w' : world) : Prop :=
  forall nid nd, w_nodes w !! nid = Some nd ->
    exists nd', w_nodes w' !! nid = Some nd' /\ n_mask nd' = n_mask nd /\ n_ids nd' = n_ids nd /\ n_rel nd' = n_rel nd.

Lemma nodes_same_refl w : nodes_same w w.
Proof. intros nid nd H. by exists nd. Qed.
Lemma nodes_same_eq w w' : w_nodes w' = w_nodes w -> nodes_same w w'.
Proof. intros H nid nd Hn. exists nd. by rewrite H. Qed.
Lemma nodes_same_trans a b c : nodes_same a b -> nodes_same b c -> nodes_same a c.
Proof.
  intros H1 H2 nid nd H. destruct (H1 nid nd H) as (n1 & Hn1 & M1 & I1 & R1).
  destruct (H2 nid n1 Hn1) as (n2 & Hn2 & M2 & I2 & R2). exists n2. split; [done|]. repeat split; congruence.
Qed.

Lemma retire_table_nodes w tid : nodes_same w (retire_table w tid).
Proof.
  unfold retire_table. destruct (w_tables w !! tid) as [t|]; [|apply nodes_same_refl].
  destruct (w_nodes w !! t_node t) as [nd|] eqn:Hnd; [|apply nodes_same_refl].
  intros nid n0 H. simpl. destruct (decide (nid = t_node t)) as [->|Hne].
  - rewrite Hnd in H. injection H as <-. eexists. split; [apply list_lookup_insert; by apply lookup_lt_Some in Hnd|done].
  - exists n0. by rewrite list_lookup_insert_ne.
Qed.
Lemma cleanup_table_nodes w tid : nodes_same w (cleanup_table w tid).
Proof.
  unfold cleanup_table. destruct (w_tables w !! tid) as [t|]; [|apply nodes_same_refl].
  destruct (w_nodes w !! t_node t); [|apply nodes_same_refl].
  destruct (_ || _); [apply nodes_same_refl|]. destruct (_ || _); [apply nodes_same_refl|]. apply retire_table_nodes.
Qed.
Lemma cleanup_tables_for_nodes w target : nodes_same w (cleanup_tables_for w target).
Proof.
  unfold cleanup_tables_for. generalize (seq 0 (length (w_nodes w))). intros l. revert w.
  induction l as [|nid l IH]; intros w; simpl; [apply nodes_same_refl|].
  eapply nodes_same_trans; [|apply IH].
  destruct (w_nodes w !! nid) as [nd|]; [|apply nodes_same_refl].
  destruct (assoc_get target (n_tmap nd)) as [tid|]; [|apply nodes_same_refl].
  destruct (w_tables w !! tid) as [t|]; [|apply nodes_same_refl].
  destruct (tlen t =? 0); [apply retire_table_nodes|apply nodes_same_refl].
Qed.
Lemma ext_r_nodes w w1 : ext_r w w1 -> nodes_same w w1.
Proof. intros E. exact (xr_nodes _ _ E). Qed.

(** The views of an entity depend on its cells and on mask / layout / relation of its node. *)
Lemma views_same w w' live e :
  store_ok w live -> e ∈ live -> nodes_same w w' -> ent_cells w' e = ent_cells w e ->
  ent_mask w' e = ent_mask w e /\ ent_target w' e = ent_target w e /\ ent_rel w' e = ent_rel w e /\
  forall id, comp_val w' e id = comp_val w e id.
Proof.
  intros S He HN Hc. unfold ent_mask, ent_target, ent_rel, comp_val. rewrite Hc.
  destruct (so_loc _ _ S e He) as (tid & row & t & Hl & Ht & Hr).
  destruct (so_table _ _ S tid t Ht) as (nd & Hnd & Hok).
  unfold ent_cells. rewrite Hl. simpl. rewrite Ht. simpl.
  destruct (t_rows t !! row) as [r|]; [|done]. simpl.
  destruct (HN _ nd Hnd) as (nd' & Hnd' & Hm & Hi & Hrel). rewrite Hnd, Hnd'. simpl.
  unfold col_of. rewrite Hm, Hi, Hrel. done.
Qed.

(** ** The exchange theorem with relations *)
Theorem exchange_rok w live e add rem rel w' x :
  world_okr w live -> e ∈ live -> Forall (fun id => id < length (w_reg w)) add ->
  exchange_nn w e add rem rel = Some (w', Some x) ->
  world_okr w' live /\ w_pool w' = w_pool w /\ length (w_index w') = length (w_index w) /\ w_reg w' = w_reg w /\
  (forall e', e' ∈ live -> e' <> e ->
     ent_mask w' e' = ent_mask w e' /\ ent_target w' e' = ent_target w e' /\ ent_rel w' e' = ent_rel w e' /\
     forall id, comp_val w' e' id = comp_val w e' id) /\
  exists oldmask newmask oldtarget newtarget newrel,
    ent_mask w e = Some oldmask /\ ent_target w e = Some oldtarget /\
    exchange_mask oldmask add rem = Some newmask /\
    exchange_target w oldmask newmask oldtarget rem rel = Some newtarget /\
    ent_mask w' e = Some newmask /\ newmask <> oldmask /\
    ent_rel w' e = Some newrel /\ relP w newmask newrel /\
    ent_target w' e = Some (match newrel with Some _ => newtarget | None => ezero end) /\
    forall id, id < w_tb w -> bit newmask id = true ->
      comp_val w' e id = if bit oldmask id then comp_val w e id else Some 0%Z.
Proof.
  intros [S G] Hlive Hreg H. unfold exchange_nn in H.
  destruct (is_locked w); [done|]. destruct (chk_alive w e) as [[]|]; try done. simpl in H.
  destruct (negb _) eqn:Htok; [done|].
  destruct (so_loc _ _ S e Hlive) as (src & row & st & Hloc & Hst & Hrow).
  destruct (so_table _ _ S src st Hst) as (sn & Hsn & Hsok).
  assert (Hmain : match exchange_mask (n_mask sn) add rem with
                  | Some mask =>
                      match exchange_target w (n_mask sn) mask (t_target st) rem rel with
                      | Some target =>
                          match find_or_create_table w src add rem target with
                          | Some (w1, dst) =>
                              Some (cleanup_table (set_tbit (move_entity w1 e src row dst mask) target) src,
                                    Some (mkX dst (n_mask sn) (t_target st) (n_rel sn)))
                          | None => None
                          end
                      | None => None
                      end
                  | None => None
                  end = Some (w', Some x) /\ (add <> [] \/ rem <> [])).
  { rewrite Hloc, Hst, Hsn in H. destruct add, rem; try (split; [exact H|]; (by left) || (by right)).
    by destruct (bool_decide _). }
  clear H. destruct Hmain as [H Hnonempty].
  destruct (exchange_mask (n_mask sn) add rem) as [mask|] eqn:Hmask; [|done].
  destruct (exchange_target w (n_mask sn) mask (t_target st) rem rel) as [target|] eqn:Htarget; [|done].
  destruct (find_or_create_table w src add rem target) as [[w1 dst]|] eqn:Hfoc; [|done].
  injection H as <- _.
  destruct (find_or_create_table_rok w src add rem target st sn mask w1 dst G Hst Hsn Hmask Hreg Hfoc)
    as (E & G1 & dt & dn & Hdt & Hdn & Hdm & Hdact & Hdtg).
  assert (S1 : store_ok w1 live) by (by eapply ext_r_store_ok).
  assert (Hstne : t_ents st <> []) by (intros Hn; by rewrite Hn in Hrow).
  assert (Hst1 : w_tables w1 !! src = Some st).
  { destruct (xr_tables _ _ E src st Hst) as (t' & Ht' & _ & _ & _ & _ & Q). by rewrite (Q Hstne) in Ht'. }
  destruct (xr_nodes _ _ E _ sn Hsn) as (sn1 & Hsn1 & Hsm1 & Hsi1 & Hsr1).
  (* the new mask differs from the old one *)
  pose proof (exchange_mask_fold _ _ _ _ Hmask) as Hmf.
  assert (Hneq : mask <> n_mask sn).
  { unfold exchange_mask in Hmask. destruct (exmask_rem (n_mask sn) rem) as [m1|] eqn:Hr; [|done]. simpl in Hmask.
    pose proof (exmask_rem_present _ _ _ Hr) as Hpres.
    assert (Hstart : forall id, id ∈ add -> bit (n_mask sn) id = false).
    { unfold find_or_create_table in Hfoc. rewrite Hst, Hsn in Hfoc.
      destruct (walk_rem w (n_mask sn) (n_rel sn) rem) as [[wa ma] ra].
      destruct (walk_add wa (n_mask sn) ma ra add) as [r|] eqn:Hwa; [|done]. by eapply walk_add_start. }
    intros Heq. destruct add as [|a add'].
    - destruct rem as [|r0 rem']; [destruct Hnonempty; done|].
      assert (bit mask r0 = false).
      { rewrite Hmf, bit_fold_set, bit_fold_clear.
        rewrite (bool_decide_eq_false_2 (r0 ∉ r0 :: rem')) by (intros Hx; apply Hx; apply elem_of_cons; by left).
        rewrite (bool_decide_eq_false_2 (r0 ∈ [])) by (intros Hx; by apply elem_of_nil in Hx).
        by rewrite andb_false_r. }
      rewrite Heq, (Hpres r0) in H; [done|apply elem_of_cons; by left].
    - assert (bit mask a = true).
      { rewrite Hmf, bit_fold_set, bool_decide_eq_true_2; [apply orb_true_r|apply elem_of_cons; by left]. }
      rewrite Heq, (Hstart a) in H; [done|apply elem_of_cons; by left]. }
  assert (Hsd : src <> dst).
  { intros <-. rewrite Hst1 in Hdt. injection Hdt as <-. rewrite Hsn1 in Hdn. injection Hdn as <-. congruence. }
  assert (Hcap : 0 < node_capinc w1 dn).
  { unfold node_capinc. destruct (rg_capinc _ G1). by destruct (node_has_rel dn). }
  assert (Hloc1 : loc w1 e = Some (src, row)) by (by rewrite (ext_r_loc _ _ _ E)).
  destruct (move_entity_ok w1 live e src row dst mask st dt sn1 dn S1 Hlive Hloc1 Hsd Hst1 Hdt Hsn1 Hdn Hcap)
    as (S2 & Hn2 & Hp2 & Htb2 & Hc2 & Hlen2 & Hother & (srow & Hsrow & Hcells) & Htabs &
        (st1 & Hst1' & _ & Hst1n & Hst1t & Hst1a & _) & (dt2 & Hdt2' & _ & Hdt2n & Hdt2t & Hdt2a & _)).
  set (w2 := move_entity w1 e src row dst mask) in *.
  assert (Hw2f : w_tb w2 = w_tb w1 /\ w_capinc w2 = w_capinc w1 /\ w_relcapinc w2 = w_relcapinc w1 /\ w_reg w2 = w_reg w1 /\
                 length (w_index w2) = length (w_index w1)).
  { unfold w2, move_entity. rewrite Hst1, Hdt, Hsn1, Hdn. destruct (tbl_alloc _ _ _ _). destruct (tbl_remove _ _ _) as [st1x sw].
    simpl. repeat split; try done. rewrite insert_length. destruct sw; [|done]. destruct (t_ents st1x !! row); [|done]. by rewrite insert_length. }
  destruct Hw2f as (Hw2tb & Hw2c & Hw2rc & Hw2reg & Hw2il).
  assert (G2 : rgraph_ok w2).
  { eapply (rgraph_ok_same_nodes w1 w2); try done.
    - intros tid t Ht. destruct (decide (tid = src)) as [->|Hs].
      + exists st1. rewrite Hst1 in Ht. injection Ht as <-. repeat split; try done; intros; congruence.
      + destruct (decide (tid = dst)) as [->|Hd].
        * exists dt2. rewrite Hdt in Ht. injection Ht as <-. repeat split; try done; intros; congruence.
        * exists t. by rewrite Htabs.
    - intros tid t' Ht'. apply lookup_lt_is_Some. rewrite <- Hlen2. by apply lookup_lt_Some in Ht'. }
  set (w3 := set_tbit w2 target).
  assert (Hw3 : w_nodes w3 = w_nodes w2 /\ w_tables w3 = w_tables w2 /\ w_index w3 = w_index w2 /\ w_reg w3 = w_reg w2 /\
                w_pool w3 = w_pool w2 /\ store_ok w3 live).
  { unfold w3, set_tbit. destruct (ent_is_zero target); [done|]. simpl. do 5 (split; [done|]).
    destruct S2 as [A1 A2 A3 A4]. split; [exact A1|exact A2|exact A3|exact A4]. }
  destruct Hw3 as (Hn3 & Ht3 & Hi3 & Hr3 & Hp3 & S3).
  assert (G3 : rgraph_ok w3) by (by apply set_tbit_rok).
  destruct (cleanup_table_keeps w3 live src S3) as (S4 & Hp4 & Hcells4).
  pose proof (cleanup_table_rok w3 src G3) as G4.
  set (w4 := cleanup_table w3 src) in *.
  assert (HN : nodes_same w w4).
  { eapply nodes_same_trans; [apply (ext_r_nodes _ _ E)|].
    eapply nodes_same_trans; [apply (nodes_same_eq w1 w3); congruence|apply cleanup_table_nodes]. }
  assert (Hcells3 : forall e0, ent_cells w3 e0 = ent_cells w2 e0) by (intros; by apply ent_cells_same).
  assert (Hreg4 : w_reg w4 = w_reg w).
  { unfold w4, cleanup_table. destruct (w_tables w3 !! src) as [tt|]; [|by rewrite Hr3, Hw2reg, (xr_reg _ _ E)].
    destruct (w_nodes w3 !! t_node tt); [|by rewrite Hr3, Hw2reg, (xr_reg _ _ E)].
    destruct (_ || _); [by rewrite Hr3, Hw2reg, (xr_reg _ _ E)|]. destruct (_ || _); [by rewrite Hr3, Hw2reg, (xr_reg _ _ E)|].
    unfold retire_table. destruct (w_tables w3 !! src) as [t5|]; [|by rewrite Hr3, Hw2reg, (xr_reg _ _ E)].
    destruct (w_nodes w3 !! t_node t5); simpl; by rewrite Hr3, Hw2reg, (xr_reg _ _ E). }
  assert (Hil4 : length (w_index w4) = length (w_index w)).
  { transitivity (length (w_index w3)); [|by rewrite Hi3, Hw2il, (xr_index _ _ E)].
    unfold w4, cleanup_table. destruct (w_tables w3 !! src) as [tt|]; [|done].
    destruct (w_nodes w3 !! t_node tt); [|done]. destruct (_ || _); [done|]. destruct (_ || _); [done|].
    unfold retire_table. destruct (w_tables w3 !! src) as [t5|]; [|done]. by destruct (w_nodes w3 !! t_node t5). }
  split; [by split|]. split; [by rewrite Hp4, Hp3, Hp2, (xr_pool _ _ E)|]. split; [done|]. split; [done|].
  split.
  - intros e' He' Hne. apply (views_same w w4 live e' S He' HN).
    rewrite Hcells4, Hcells3, (Hother e' He' Hne). by apply (ext_r_cells w w1 live).
  - exists (n_mask sn), mask, (t_target st), target, (n_rel dn).
    assert (Hce : ent_cells w e = Some (t_node st, t_target st, srow)).
    { unfold ent_cells. rewrite Hloc. simpl. rewrite Hst. simpl. by rewrite Hsrow. }
    assert (Hce4 : ent_cells w4 e = Some (t_node dt, t_target dt, copy_cells mask (n_ids sn1) srow (n_ids dn) (zero_row dn))).
    { by rewrite Hcells4, Hcells3. }
    destruct (cleanup_table_nodes w3 src _ dn (eq_trans (f_equal (fun l => l !! t_node dt) (eq_trans Hn3 Hn2)) Hdn))
      as (dn4 & Hdn4 & Hdm4 & Hdi4 & Hdr4).
    change (cleanup_table w3 src) with w4 in Hdn4.
    split; [unfold ent_mask; rewrite Hce; simpl; by rewrite Hsn|].
    split; [unfold ent_target; by rewrite Hce|]. split; [done|]. split; [done|].
    split; [unfold ent_mask; rewrite Hce4; simpl; rewrite Hdn4; simpl; congruence|].
    split; [done|].
    split; [unfold ent_rel; rewrite Hce4; simpl; rewrite Hdn4; simpl; congruence|].
    split.
    { intros id. pose proof (rg_rel _ G1 _ dn Hdn id) as HH. unfold reg_is_rel in *. rewrite (xr_reg _ _ E) in HH. by rewrite <- Hdm. }
    split.
    { unfold ent_target. rewrite Hce4. simpl. rewrite Hdtg. unfold node_has_rel.
      destruct (n_rel dn); [by rewrite bool_decide_eq_true_2 by (by eexists)|].
      by rewrite bool_decide_eq_false_2 by (intros [? ?]; done). }
    intros id Hid Hbit. unfold comp_val. rewrite Hce4, Hce. simpl. rewrite Hdn4, Hsn. simpl.
    (* columns *)
    assert (Hdids : n_ids dn = mask_ids (w_tb w) mask).
    { rewrite (rg_ids _ G1 _ _ Hdn), (xr_tb _ _ E). by rewrite Hdm. }
    assert (Hsids : n_ids sn1 = mask_ids (w_tb w) (n_mask sn)).
    { rewrite Hsi1. apply (rg_ids _ G _ _ Hsn). }
    assert (Hndd : NoDup (n_ids dn)) by (rewrite Hdids; apply NoDup_filter, NoDup_seq).
    assert (Hnds : NoDup (n_ids sn1)) by (rewrite Hsids; apply NoDup_filter, NoDup_seq).
    assert (Hin : id ∈ n_ids dn).
    { rewrite Hdids. unfold mask_ids. apply elem_of_list_filter. split; [done|]. apply elem_of_seq. lia. }
    apply elem_of_list_lookup in Hin as [j Hj].
    unfold col_of at 1. rewrite Hdi4. rewrite (find_index_nodup _ j id Hndd Hj). simpl.
    rewrite (copy_cells_spec mask (n_ids sn1) srow (n_ids dn) (zero_row dn) j id Hnds Hndd); try done.
    + rewrite Hbit. unfold col_of. rewrite <- Hsi1.
      destruct (find_index (Nat.eqb id) (n_ids sn1)) as [i|] eqn:Hfi.
      * apply find_index_Some_lookup in Hfi as (y & Hy & Hey). apply Nat.eqb_eq in Hey. subst y.
        assert (Hb : bit (n_mask sn) id = true).
        { apply elem_of_list_lookup_2 in Hy. rewrite Hsids in Hy. unfold mask_ids in Hy. by apply elem_of_list_filter in Hy as [? _]. }
        by rewrite Hb.
      * apply find_index_None_notin in Hfi.
        assert (Hb : bit (n_mask sn) id = false).
        { destruct (bit (n_mask sn) id) eqn:Hb; [|done]. exfalso. apply Hfi. rewrite Hsids. unfold mask_ids.
          apply elem_of_list_filter. split; [done|]. apply elem_of_seq. lia. }
        rewrite Hb. unfold zero_row. apply lookup_replicate_2. by apply lookup_lt_Some in Hj.
    + destruct Hsok as [_ Hw _]. rewrite (Hw row srow Hsrow). unfold zero_row. by rewrite replicate_length, Hsi1.
    + unfold zero_row. by rewrite replicate_length.
Qed.
