(** * C01 / C05 for arbitrary registries: the exchange family with relation components.

    [exchange_rok] is the relation-aware form of [WorldInv.exchange_ok]: for every world
    satisfying the storage invariant and the graph invariant of Proofs/RelGraph.v
    (relation tables per target, target map, free list, re-use), every alive entity,
    every add / remove list and every optional relation argument, a successful exchange
    gives the entity exactly the exchange mask, the relation target the call dictates,
    the old values of kept components and zero for added ones, and changes nothing for
    any other entity (mask, target, values). *)
From Arche Require Import Model.Base Model.Pool Model.Filter Model.World Model.Ops
  Proofs.Tables Proofs.Bits Proofs.Store Proofs.Graph Proofs.Atomic Proofs.WorldInv Proofs.RelGraph.

Record world_okr (w : world) (live : list Entity) : Prop := {
  wr_store : store_ok w live;
  wr_graph : rgraph_ok w;
}.

Definition ent_target (w : world) (e : Entity) : option Entity :=
  ent_cells w e ≫= fun '(_, tg, _) => Some tg.
Definition ent_rel (w : world) (e : Entity) : option (option nat) :=
  ent_cells w e ≫= fun '(nid, _, _) => w_nodes w !! nid ≫= fun nd => Some (n_rel nd).

(** Nodes keep mask, column layout and relation. *)
Definition nodes_same (w w' : world) : Prop :=
  forall nid nd, w_nodes w !! nid = Some nd ->
    exists nd', w_nodes w' !! nid = Some nd' /\ n_mask nd' = n_mask nd /\ n_ids nd' = n_ids nd /\ n_rel nd' = n_rel nd.

Lemma nodes_same_refl w : nodes_same w w.
Proof. intros nid nd H. by exists nd. Qed.
Lemma nodes_same_eq w w' : w_nodes w' = w_nodes w -> nodes_same w w'.
Proof. intros H nid nd Hn. exists nd. by rewrite H. Qed.
Lemma nodes_same_trans a b c : nodes_same a b -> nodes_same b c -> nodes_same a c.
Proof.
  intros H1 H2 nid nd H. destruct (H1 nid nd H) as (n1 & Hn1 & M1 & I1 & R1).
  destruct (H2 nid n1 Hn1) as (n2 & Hn2 & M2 & I2 & R2). exists n2. split; [done|]. repeat split; congruence.
Qed.

Lemma retire_table_nodes w tid : nodes_same w (retire_table w tid).
Proof.
  unfold retire_table. destruct (w_tables w !! tid) as [t|]; [|apply nodes_same_refl].
  destruct (w_nodes w !! t_node t) as [nd|] eqn:Hnd; [|apply nodes_same_refl].
  intros nid n0 H. simpl. destruct (decide (nid = t_node t)) as [->|Hne].
  - rewrite Hnd in H. injection H as <-. eexists. split; [apply list_lookup_insert; by apply lookup_lt_Some in Hnd|done].
  - exists n0. by rewrite list_lookup_insert_ne.
Qed.
Lemma cleanup_table_nodes w tid : nodes_same w (cleanup_table w tid).
Proof.
  unfold cleanup_table. destruct (w_tables w !! tid) as [t|]; [|apply nodes_same_refl].
  destruct (w_nodes w !! t_node t); [|apply nodes_same_refl].
  destruct (_ || _); [apply nodes_same_refl|]. destruct (_ || _); [apply nodes_same_refl|]. apply retire_table_nodes.
Qed.
Lemma cleanup_tables_for_nodes w target : nodes_same w (cleanup_tables_for w target).
Proof.
  unfold cleanup_tables_for. generalize (seq 0 (length (w_nodes w))). intros l. revert w.
  induction l as [|nid l IH]; intros w; simpl; [apply nodes_same_refl|].
  eapply nodes_same_trans; [|apply IH].
  destruct (w_nodes w !! nid) as [nd|]; [|apply nodes_same_refl].
  destruct (assoc_get target (n_tmap nd)) as [tid|]; [|apply nodes_same_refl].
  destruct (w_tables w !! tid) as [t|]; [|apply nodes_same_refl].
  destruct (tlen t =? 0); [apply retire_table_nodes|apply nodes_same_refl].
Qed.
Lemma ext_r_nodes w w1 : ext_r w w1 -> nodes_same w w1.
Proof. intros E. exact (xr_nodes _ _ E). Qed.

(** The views of an entity depend on its cells and on mask / layout / relation of its node. *)
Lemma views_same w w' live e :
  store_ok w live -> e ∈ live -> nodes_same w w' -> ent_cells w' e = ent_cells w e ->
  ent_mask w' e = ent_mask w e /\ ent_target w' e = ent_target w e /\ ent_rel w' e = ent_rel w e /\
  forall id, comp_val w' e id = comp_val w e id.
Proof.
  intros S He HN Hc. unfold ent_mask, ent_target, ent_rel, comp_val. rewrite Hc.
  destruct (so_loc _ _ S e He) as (tid & row & t & Hl & Ht & Hr).
  destruct (so_table _ _ S tid t Ht) as (nd & Hnd & Hok).
  unfold ent_cells. rewrite Hl. simpl. rewrite Ht. simpl.
  destruct (t_rows t !! row) as [r|]; [|done]. simpl.
  destruct (HN _ nd Hnd) as (nd' & Hnd' & Hm & Hi & Hrel). rewrite Hnd, Hnd'. simpl.
  unfold col_of. rewrite Hm, Hi, Hrel. done.
Qed.

(** ** The exchange theorem with relations *)
Theorem exchange_rok w live e add rem rel w' x :
  world_okr w live -> e ∈ live -> Forall (fun id => id < length (w_reg w)) add ->
  exchange_nn w e add rem rel = Some (w', Some x) ->
  world_okr w' live /\ w_pool w' = w_pool w /\ length (w_index w') = length (w_index w) /\ w_reg w' = w_reg w /\
  (forall e', e' ∈ live -> e' <> e ->
     ent_mask w' e' = ent_mask w e' /\ ent_target w' e' = ent_target w e' /\ ent_rel w' e' = ent_rel w e' /\
     forall id, comp_val w' e' id = comp_val w e' id) /\
  exists oldmask newmask oldtarget newtarget newrel,
    ent_mask w e = Some oldmask /\ ent_target w e = Some oldtarget /\
    exchange_mask oldmask add rem = Some newmask /\
    exchange_target w oldmask newmask oldtarget rem rel = Some newtarget /\
    ent_mask w' e = Some newmask /\ newmask <> oldmask /\
    ent_rel w' e = Some newrel /\ relP w newmask newrel /\
    ent_target w' e = Some (match newrel with Some _ => newtarget | None => ezero end) /\
    forall id, id < w_tb w -> bit newmask id = true ->
      comp_val w' e id = if bit oldmask id then comp_val w e id else Some 0%Z.
Proof.
  intros [S G] Hlive Hreg H. unfold exchange_nn in H.
  destruct (is_locked w); [done|]. destruct (chk_alive w e) as [[]|]; try done. simpl in H.
  destruct (negb _) eqn:Htok; [done|].
  destruct (so_loc _ _ S e Hlive) as (src & row & st & Hloc & Hst & Hrow).
  destruct (so_table _ _ S src st Hst) as (sn & Hsn & Hsok).
  assert (Hmain : match exchange_mask (n_mask sn) add rem with
                  | Some mask =>
                      match exchange_target w (n_mask sn) mask (t_target st) rem rel with
                      | Some target =>
                          match find_or_create_table w src add rem target with
                          | Some (w1, dst) =>
                              Some (cleanup_table (set_tbit (move_entity w1 e src row dst mask) target) src,
                                    Some (mkX dst (n_mask sn) (t_target st) (n_rel sn)))
                          | None => None
                          end
                      | None => None
                      end
                  | None => None
                  end = Some (w', Some x) /\ (add <> [] \/ rem <> [])).
  { rewrite Hloc, Hst, Hsn in H. destruct add, rem; try (split; [exact H|]; (by left) || (by right)).
    by destruct (bool_decide _). }
  clear H. destruct Hmain as [H Hnonempty].
  destruct (exchange_mask (n_mask sn) add rem) as [mask|] eqn:Hmask; [|done].
  destruct (exchange_target w (n_mask sn) mask (t_target st) rem rel) as [target|] eqn:Htarget; [|done].
  destruct (find_or_create_table w src add rem target) as [[w1 dst]|] eqn:Hfoc; [|done].
  injection H as <- _.
  destruct (find_or_create_table_rok w src add rem target st sn mask w1 dst G Hst Hsn Hmask Hreg Hfoc)
    as (E & G1 & dt & dn & Hdt & Hdn & Hdm & Hdact & Hdtg).
  assert (S1 : store_ok w1 live) by (by eapply ext_r_store_ok).
  assert (Hstne : t_ents st <> []) by (intros Hn; by rewrite Hn in Hrow).
  assert (Hst1 : w_tables w1 !! src = Some st).
  { destruct (xr_tables _ _ E src st Hst) as (t' & Ht' & _ & _ & _ & _ & Q). by rewrite (Q Hstne) in Ht'. }
  destruct (xr_nodes _ _ E _ sn Hsn) as (sn1 & Hsn1 & Hsm1 & Hsi1 & Hsr1).
  (* the new mask differs from the old one *)
  pose proof (exchange_mask_fold _ _ _ _ Hmask) as Hmf.
  assert (Hneq : mask <> n_mask sn).
  { unfold exchange_mask in Hmask. destruct (exmask_rem (n_mask sn) rem) as [m1|] eqn:Hr; [|done]. simpl in Hmask.
    pose proof (exmask_rem_present _ _ _ Hr) as Hpres.
    assert (Hstart : forall id, id ∈ add -> bit (n_mask sn) id = false).
    { unfold find_or_create_table in Hfoc. rewrite Hst, Hsn in Hfoc.
      destruct (walk_rem w (n_mask sn) (n_rel sn) rem) as [[wa ma] ra].
      destruct (walk_add wa (n_mask sn) ma ra add) as [r|] eqn:Hwa; [|done]. by eapply walk_add_start. }
    intros Heq. destruct add as [|a add'].
    - destruct rem as [|r0 rem']; [destruct Hnonempty; done|].
      assert (bit mask r0 = false).
      { rewrite Hmf, bit_fold_set, bit_fold_clear.
        rewrite (bool_decide_eq_false_2 (r0 ∉ r0 :: rem')) by (intros Hx; apply Hx; apply elem_of_cons; by left).
        rewrite (bool_decide_eq_false_2 (r0 ∈ [])) by (intros Hx; by apply elem_of_nil in Hx).
        by rewrite andb_false_r. }
      rewrite Heq, (Hpres r0) in H; [done|apply elem_of_cons; by left].
    - assert (bit mask a = true).
      { rewrite Hmf, bit_fold_set, bool_decide_eq_true_2; [apply orb_true_r|apply elem_of_cons; by left]. }
      rewrite Heq, (Hstart a) in H; [done|apply elem_of_cons; by left]. }
  assert (Hsd : src <> dst).
  { intros <-. rewrite Hst1 in Hdt. injection Hdt as <-. rewrite Hsn1 in Hdn. injection Hdn as <-. congruence. }
  assert (Hcap : 0 < node_capinc w1 dn).
  { unfold node_capinc. destruct (rg_capinc _ G1). by destruct (node_has_rel dn). }
  assert (Hloc1 : loc w1 e = Some (src, row)) by (by rewrite (ext_r_loc _ _ _ E)).
  destruct (move_entity_ok w1 live e src row dst mask st dt sn1 dn S1 Hlive Hloc1 Hsd Hst1 Hdt Hsn1 Hdn Hcap)
    as (S2 & Hn2 & Hp2 & Htb2 & Hc2 & Hlen2 & Hother & (srow & Hsrow & Hcells) & Htabs &
        (st1 & Hst1' & _ & Hst1n & Hst1t & Hst1a & _) & (dt2 & Hdt2' & _ & Hdt2n & Hdt2t & Hdt2a & _)).
  set (w2 := move_entity w1 e src row dst mask) in *.
  assert (Hw2f : w_tb w2 = w_tb w1 /\ w_capinc w2 = w_capinc w1 /\ w_relcapinc w2 = w_relcapinc w1 /\ w_reg w2 = w_reg w1 /\
                 length (w_index w2) = length (w_index w1)).
  { unfold w2, move_entity. rewrite Hst1, Hdt, Hsn1, Hdn. destruct (tbl_alloc _ _ _ _). destruct (tbl_remove _ _ _) as [st1x sw].
    simpl. repeat split; try done. rewrite insert_length. destruct sw; [|done]. destruct (t_ents st1x !! row); [|done]. by rewrite insert_length. }
  destruct Hw2f as (Hw2tb & Hw2c & Hw2rc & Hw2reg & Hw2il).
  assert (G2 : rgraph_ok w2).
  { eapply (rgraph_ok_same_nodes w1 w2); try done.
    - intros tid t Ht. destruct (decide (tid = src)) as [->|Hs].
      + exists st1. rewrite Hst1 in Ht. injection Ht as <-. repeat split; try done; intros; congruence.
      + destruct (decide (tid = dst)) as [->|Hd].
        * exists dt2. rewrite Hdt in Ht. injection Ht as <-. repeat split; try done; intros; congruence.
        * exists t. by rewrite Htabs.
    - intros tid t' Ht'. apply lookup_lt_is_Some. rewrite <- Hlen2. by apply lookup_lt_Some in Ht'. }
  set (w3 := set_tbit w2 target).
  assert (Hw3 : w_nodes w3 = w_nodes w2 /\ w_tables w3 = w_tables w2 /\ w_index w3 = w_index w2 /\ w_reg w3 = w_reg w2 /\
                w_pool w3 = w_pool w2 /\ store_ok w3 live).
  { unfold w3, set_tbit. destruct (ent_is_zero target); [done|]. simpl. do 5 (split; [done|]).
    destruct S2 as [A1 A2 A3 A4]. split; [exact A1|exact A2|exact A3|exact A4]. }
  destruct Hw3 as (Hn3 & Ht3 & Hi3 & Hr3 & Hp3 & S3).
  assert (G3 : rgraph_ok w3) by (by apply set_tbit_rok).
  destruct (cleanup_table_keeps w3 live src S3) as (S4 & Hp4 & Hcells4).
  pose proof (cleanup_table_rok w3 src G3) as G4.
  set (w4 := cleanup_table w3 src) in *.
  assert (HN : nodes_same w w4).
  { eapply nodes_same_trans; [apply (ext_r_nodes _ _ E)|].
    eapply nodes_same_trans; [apply (nodes_same_eq w1 w3); congruence|apply cleanup_table_nodes]. }
  assert (Hcells3 : forall e0, ent_cells w3 e0 = ent_cells w2 e0) by (intros; by apply ent_cells_same).
  assert (Hreg4 : w_reg w4 = w_reg w).
  { unfold w4, cleanup_table. destruct (w_tables w3 !! src) as [tt|]; [|by rewrite Hr3, Hw2reg, (xr_reg _ _ E)].
    destruct (w_nodes w3 !! t_node tt); [|by rewrite Hr3, Hw2reg, (xr_reg _ _ E)].
    destruct (_ || _); [by rewrite Hr3, Hw2reg, (xr_reg _ _ E)|]. destruct (_ || _); [by rewrite Hr3, Hw2reg, (xr_reg _ _ E)|].
    unfold retire_table. destruct (w_tables w3 !! src) as [t5|]; [|by rewrite Hr3, Hw2reg, (xr_reg _ _ E)].
    destruct (w_nodes w3 !! t_node t5); simpl; by rewrite Hr3, Hw2reg, (xr_reg _ _ E). }
  assert (Hil4 : length (w_index w4) = length (w_index w)).
  { transitivity (length (w_index w3)); [|by rewrite Hi3, Hw2il, (xr_index _ _ E)].
    unfold w4, cleanup_table. destruct (w_tables w3 !! src) as [tt|]; [|done].
    destruct (w_nodes w3 !! t_node tt); [|done]. destruct (_ || _); [done|]. destruct (_ || _); [done|].
    unfold retire_table. destruct (w_tables w3 !! src) as [t5|]; [|done]. by destruct (w_nodes w3 !! t_node t5). }
  split; [by split|]. split; [by rewrite Hp4, Hp3, Hp2, (xr_pool _ _ E)|]. split; [done|]. split; [done|].
  split.
  - intros e' He' Hne. apply (views_same w w4 live e' S He' HN).
    rewrite Hcells4, Hcells3, (Hother e' He' Hne). by apply (ext_r_cells w w1 live).
  - exists (n_mask sn), mask, (t_target st), target, (n_rel dn).
    assert (Hce : ent_cells w e = Some (t_node st, t_target st, srow)).
    { unfold ent_cells. rewrite Hloc. simpl. rewrite Hst. simpl. by rewrite Hsrow. }
    assert (Hce4 : ent_cells w4 e = Some (t_node dt, t_target dt, copy_cells mask (n_ids sn1) srow (n_ids dn) (zero_row dn))).
    { by rewrite Hcells4, Hcells3. }
    destruct (cleanup_table_nodes w3 src _ dn (eq_trans (f_equal (fun l => l !! t_node dt) (eq_trans Hn3 Hn2)) Hdn))
      as (dn4 & Hdn4 & Hdm4 & Hdi4 & Hdr4).
    change (cleanup_table w3 src) with w4 in Hdn4.
    split; [unfold ent_mask; rewrite Hce; simpl; by rewrite Hsn|].
    split; [unfold ent_target; by rewrite Hce|]. split; [done|]. split; [done|].
    split; [unfold ent_mask; rewrite Hce4; simpl; rewrite Hdn4; simpl; congruence|].
    split; [done|].
    split; [unfold ent_rel; rewrite Hce4; simpl; rewrite Hdn4; simpl; congruence|].
    split.
    { intros id. pose proof (rg_rel _ G1 _ dn Hdn id) as HH. unfold reg_is_rel in *. rewrite (xr_reg _ _ E) in HH. by rewrite <- Hdm. }
    split.
    { unfold ent_target. rewrite Hce4. simpl. rewrite Hdtg. unfold node_has_rel.
      destruct (n_rel dn); [by rewrite bool_decide_eq_true_2 by (by eexists)|].
      by rewrite bool_decide_eq_false_2 by (intros [? ?]; done). }
    intros id Hid Hbit. unfold comp_val. rewrite Hce4, Hce. simpl. rewrite Hdn4, Hsn. simpl.
    (* columns *)
    assert (Hdids : n_ids dn = mask_ids (w_tb w) mask).
    { rewrite (rg_ids _ G1 _ _ Hdn), (xr_tb _ _ E). by rewrite Hdm. }
    assert (Hsids : n_ids sn1 = mask_ids (w_tb w) (n_mask sn)).
    { rewrite Hsi1. apply (rg_ids _ G _ _ Hsn). }
    assert (Hndd : NoDup (n_ids dn)) by (rewrite Hdids; apply NoDup_filter, NoDup_seq).
    assert (Hnds : NoDup (n_ids sn1)) by (rewrite Hsids; apply NoDup_filter, NoDup_seq).
    assert (Hin : id ∈ n_ids dn).
    { rewrite Hdids. unfold mask_ids. apply elem_of_list_filter. split; [done|]. apply elem_of_seq. lia. }
    apply elem_of_list_lookup in Hin as [j Hj].
    unfold col_of at 1. rewrite Hdi4. rewrite (find_index_nodup _ j id Hndd Hj). simpl.
    rewrite (copy_cells_spec mask (n_ids sn1) srow (n_ids dn) (zero_row dn) j id Hnds Hndd); try done.
    + rewrite Hbit. unfold col_of. rewrite <- Hsi1.
      destruct (find_index (Nat.eqb id) (n_ids sn1)) as [i|] eqn:Hfi.
      * apply find_index_Some_lookup in Hfi as (y & Hy & Hey). apply Nat.eqb_eq in Hey. subst y.
        assert (Hb : bit (n_mask sn) id = true).
        { apply elem_of_list_lookup_2 in Hy. rewrite Hsids in Hy. unfold mask_ids in Hy. by apply elem_of_list_filter in Hy as [? _]. }
        by rewrite Hb.
      * apply find_index_None_notin in Hfi.
        assert (Hb : bit (n_mask sn) id = false).
        { destruct (bit (n_mask sn) id) eqn:Hb; [|done]. exfalso. apply Hfi. rewrite Hsids. unfold mask_ids.
          apply elem_of_list_filter. split; [done|]. apply elem_of_seq. lia. }
        rewrite Hb. unfold zero_row. apply lookup_replicate_2. by apply lookup_lt_Some in Hj.
    + destruct Hsok as [_ Hw _]. rewrite (Hw row srow Hsrow). unfold zero_row. by rewrite replicate_length, Hsi1.
    + unfold zero_row. by rewrite replicate_length.
Qed.

(** ** The common tail of exchange and set-relation: move, target bit, cleanup *)
Lemma move_cleanup_rok w1 live e src row dst keep target st dt sn1 dn :
  store_ok w1 live -> rgraph_ok w1 -> e ∈ live -> loc w1 e = Some (src, row) -> src <> dst ->
  w_tables w1 !! src = Some st -> w_tables w1 !! dst = Some dt ->
  w_nodes w1 !! t_node st = Some sn1 -> w_nodes w1 !! t_node dt = Some dn -> t_active dt = true ->
  let w4 := cleanup_table (set_tbit (move_entity w1 e src row dst keep) target) src in
  store_ok w4 live /\ rgraph_ok w4 /\ w_pool w4 = w_pool w1 /\ length (w_index w4) = length (w_index w1) /\
  w_reg w4 = w_reg w1 /\ nodes_same w1 w4 /\
  (forall e', e' ∈ live -> e' <> e -> ent_cells w4 e' = ent_cells w1 e') /\
  exists srow, t_rows st !! row = Some srow /\
    ent_cells w4 e = Some (t_node dt, t_target dt, copy_cells keep (n_ids sn1) srow (n_ids dn) (zero_row dn)).
Proof.
  intros S1 G1 Hlive Hloc1 Hsd Hst1 Hdt Hsn1 Hdn Hdact.
  assert (Hcap : 0 < node_capinc w1 dn).
  { unfold node_capinc. destruct (rg_capinc _ G1). by destruct (node_has_rel dn). }
  destruct (move_entity_ok w1 live e src row dst keep st dt sn1 dn S1 Hlive Hloc1 Hsd Hst1 Hdt Hsn1 Hdn Hcap)
    as (S2 & Hn2 & Hp2 & Htb2 & Hc2 & Hlen2 & Hother & (srow & Hsrow & Hcells) & Htabs &
        (st1 & Hst1' & _ & Hst1n & Hst1t & Hst1a & _) & (dt2 & Hdt2' & _ & Hdt2n & Hdt2t & Hdt2a & _)).
  set (w2 := move_entity w1 e src row dst keep) in *.
  assert (Hstne : t_ents st <> []).
  { destruct (so_loc _ _ S1 e Hlive) as (tid & r & t & Hl & Ht & Hr). rewrite Hloc1 in Hl. injection Hl as <- <-.
    rewrite Hst1 in Ht. injection Ht as <-. intros Hn. by rewrite Hn in Hr. }
  assert (Hw2f : w_tb w2 = w_tb w1 /\ w_capinc w2 = w_capinc w1 /\ w_relcapinc w2 = w_relcapinc w1 /\ w_reg w2 = w_reg w1 /\
                 length (w_index w2) = length (w_index w1)).
  { unfold w2, move_entity. rewrite Hst1, Hdt, Hsn1, Hdn. destruct (tbl_alloc _ _ _ _). destruct (tbl_remove _ _ _) as [st1x sw].
    simpl. repeat split; try done. rewrite insert_length. destruct sw; [|done]. destruct (t_ents st1x !! row); [|done]. by rewrite insert_length. }
  destruct Hw2f as (Hw2tb & Hw2c & Hw2rc & Hw2reg & Hw2il).
  assert (G2 : rgraph_ok w2).
  { eapply (rgraph_ok_same_nodes w1 w2); try done.
    - intros tid t Ht. destruct (decide (tid = src)) as [->|Hs].
      + exists st1. rewrite Hst1 in Ht. injection Ht as <-. repeat split; try done; intros; congruence.
      + destruct (decide (tid = dst)) as [->|Hd].
        * exists dt2. rewrite Hdt in Ht. injection Ht as <-. repeat split; try done; intros; congruence.
        * exists t. by rewrite Htabs.
    - intros tid t' Ht'. apply lookup_lt_is_Some. rewrite <- Hlen2. by apply lookup_lt_Some in Ht'. }
  set (w3 := set_tbit w2 target).
  assert (Hw3 : w_nodes w3 = w_nodes w2 /\ w_tables w3 = w_tables w2 /\ w_index w3 = w_index w2 /\ w_reg w3 = w_reg w2 /\
                w_pool w3 = w_pool w2 /\ store_ok w3 live).
  { unfold w3, set_tbit. destruct (ent_is_zero target); [done|]. simpl. do 5 (split; [done|]).
    destruct S2 as [A1 A2 A3 A4]. split; [exact A1|exact A2|exact A3|exact A4]. }
  destruct Hw3 as (Hn3 & Ht3 & Hi3 & Hr3 & Hp3 & S3).
  assert (G3 : rgraph_ok w3) by (by apply set_tbit_rok).
  destruct (cleanup_table_keeps w3 live src S3) as (S4 & Hp4 & Hcells4).
  pose proof (cleanup_table_rok w3 src G3) as G4.
  assert (Hcells3 : forall e0, ent_cells w3 e0 = ent_cells w2 e0) by (intros; by apply ent_cells_same).
  assert (Hsame : forall w5, (w5 = w3 \/ w5 = retire_table w3 src) -> w_reg w5 = w_reg w3 /\ length (w_index w5) = length (w_index w3)).
  { intros w5 [->| ->]; [done|]. unfold retire_table. destruct (w_tables w3 !! src) as [t5|]; [|done]. by destruct (w_nodes w3 !! t_node t5). }
  assert (Hcl : cleanup_table w3 src = w3 \/ cleanup_table w3 src = retire_table w3 src).
  { unfold cleanup_table. destruct (w_tables w3 !! src) as [tt|]; [|by left].
    destruct (w_nodes w3 !! t_node tt); [|by left]. destruct (_ || _); [by left|]. destruct (_ || _); [by left|by right]. }
  destruct (Hsame _ Hcl) as [Hreg4 Hil4].
  split; [done|]. split; [done|]. split; [by rewrite Hp4, Hp3, Hp2|]. split; [by rewrite Hil4, Hi3|].
  split; [by rewrite Hreg4, Hr3|]. split.
  { eapply nodes_same_trans; [apply (nodes_same_eq w1 w3); congruence|apply cleanup_table_nodes]. }
  split.
  - intros e' He' Hne. by rewrite Hcells4, Hcells3, (Hother e' He' Hne).
  - exists srow. split; [done|]. by rewrite Hcells4, Hcells3.
Qed.

(** Copying all columns of a row into a zero row of the same layout gives the row back. *)
Lemma copy_cells_id tb m ids srow :
  ids = mask_ids tb m -> length srow = length ids ->
  copy_cells m ids srow ids (replicate (length ids) 0%Z) = srow.
Proof.
  intros Hids Hlen. assert (Hnd : NoDup ids) by (rewrite Hids; apply NoDup_filter, NoDup_seq).
  apply list_eq. intros j. destruct (ids !! j) as [id|] eqn:Hj.
  - rewrite (copy_cells_spec m ids srow ids _ j id Hnd Hnd Hlen); [|by rewrite replicate_length|done].
    assert (Hb : bit m id = true).
    { apply elem_of_list_lookup_2 in Hj. rewrite Hids in Hj. unfold mask_ids in Hj. by apply elem_of_list_filter in Hj as [? _]. }
    by rewrite Hb, (find_index_nodup _ j id Hnd Hj).
  - apply lookup_ge_None in Hj. rewrite (proj2 (lookup_ge_None srow j)) by lia.
    apply lookup_ge_None. rewrite copy_cells_length, replicate_length. done.
Qed.

(** ** Relations.Set *)
Theorem set_relation_rok w live e rid target w' evs :
  world_okr w live -> e ∈ live ->
  op_set_relation w e rid target = (w', Ok VUnit, evs) ->
  world_okr w' live /\ w_pool w' = w_pool w /\ length (w_index w') = length (w_index w) /\ w_reg w' = w_reg w /\
  (forall e', e' ∈ live -> e' <> e ->
     ent_mask w' e' = ent_mask w e' /\ ent_target w' e' = ent_target w e' /\ ent_rel w' e' = ent_rel w e' /\
     forall id, comp_val w' e' id = comp_val w e' id) /\
  ent_rel w e = Some (Some rid) /\ ent_rel w' e = Some (Some rid) /\ ent_mask w' e = ent_mask w e /\
  ent_target w' e = Some target /\ forall id, comp_val w' e id = comp_val w e id.
Proof.
  intros [S G] Hlive H. unfold op_set_relation in H.
  destruct (is_locked w); [done|]. destruct (chk_alive w e) as [[]|] eqn:Hal; try done.
  destruct (negb (target_ok w target)); [done|].
  destruct (so_loc _ _ S e Hlive) as (src & row & st & Hloc & Hst & Hrow).
  destruct (so_table _ _ S src st Hst) as (sn & Hsn & Hsok).
  unfold ent_table in H. rewrite Hal, Hloc, Hst, Hsn in H.
  destruct (negb (check_relation w src rid)) eqn:Hchk; [done|]. apply negb_false_iff in Hchk.
  unfold check_relation in Hchk. rewrite Hst, Hsn in Hchk.
  destruct (n_rel sn) as [r|] eqn:Hrel; [|done]. apply Nat.eqb_eq in Hchk as ->.
  assert (Hsrow : exists srow, t_rows st !! row = Some srow).
  { destruct Hsok as [Hl _ _]. apply lookup_lt_is_Some. apply lookup_lt_Some in Hrow. unfold tlen in Hl. lia. }
  destruct Hsrow as [srow Hsrow].
  assert (Hce : ent_cells w e = Some (t_node st, t_target st, srow)).
  { unfold ent_cells. rewrite Hloc. simpl. rewrite Hst. simpl. by rewrite Hsrow. }
  assert (Hrel0 : ent_rel w e = Some (Some rid)) by (unfold ent_rel; rewrite Hce; simpl; rewrite Hsn; simpl; by rewrite Hrel).
  destruct (ent_eqb (t_target st) target) eqn:Heq.
  { injection H as <- _. apply ent_eqb_eq in Heq. split; [done|]. do 3 (split; [done|]). split; [done|].
    split; [done|]. split; [done|]. split; [done|]. split; [|done]. unfold ent_target. rewrite Hce. simpl. by rewrite Heq. }
  apply ent_eqb_neq in Heq.
  assert (Hstne : t_ents st <> []) by (intros Hn; by rewrite Hn in Hrow).
  (* destination table *)
  assert (Hdst : exists w1 dst dt dn, (match node_get_table sn target with
                            | Some tid => (w, tid)
                            | None => create_table w (t_node st) target true
                            end) = (w1, dst) /\ ext_r w w1 /\ rgraph_ok w1 /\
            w_tables w1 !! dst = Some dt /\ t_node dt = t_node st /\ t_target dt = target /\ t_active dt = true /\
            w_nodes w1 !! t_node st = Some dn /\ n_mask dn = n_mask sn /\ n_ids dn = n_ids sn /\ n_rel dn = n_rel sn).
  { destruct (node_get_table sn target) as [tid|] eqn:Hget.
    - unfold node_get_table in Hget. rewrite (proj2 (node_has_rel_true sn) (ex_intro _ rid Hrel)) in Hget.
      destruct (rg_tmap _ G _ sn target tid Hsn Hget) as (t & Ht & Htn & Htt & Hta).
      exists w, tid, t, sn. split; [done|]. split; [apply ext_r_refl|]. done.
    - pose proof (create_table_rok w (t_node st) sn target true G Hsn Hget) as Hc.
      destruct (create_table w (t_node st) target true) as [wc tid].
      destruct Hc as (E3 & G3 & t & nd' & Ht & Htn & _ & Hta & Htt & Hnd' & Hmn & Hrn & Hin).
      rewrite (proj2 (node_has_rel_true sn) (ex_intro _ rid Hrel)) in Htt.
      exists wc, tid, t, nd'. done. }
  destruct Hdst as (w1 & dst & dt & dn & Hgt & E & G1 & Hdt & Hdtn & Hdtt & Hdta & Hdn & Hdm & Hdi & Hdr).
  rewrite Hgt in H. injection H as <- _.
  assert (S1 : store_ok w1 live) by (by eapply ext_r_store_ok).
  assert (Hst1 : w_tables w1 !! src = Some st).
  { destruct (xr_tables _ _ E src st Hst) as (t' & Ht' & _ & _ & _ & _ & Q). by rewrite (Q Hstne) in Ht'. }
  assert (Hsd : src <> dst).
  { intros <-. rewrite Hst1 in Hdt. injection Hdt as <-. done. }
  assert (Hloc1 : loc w1 e = Some (src, row)) by (by rewrite (ext_r_loc _ _ _ E)).
  assert (Hdn' : w_nodes w1 !! t_node dt = Some dn) by (by rewrite Hdtn).
  destruct (move_cleanup_rok w1 live e src row dst (n_mask sn) target st dt dn dn S1 G1 Hlive Hloc1 Hsd Hst1 Hdt Hdn Hdn' Hdta)
    as (S4 & G4 & Hp4 & Hil4 & Hreg4 & HN4 & Hother & (srow' & Hsrow' & Hce4)).
  rewrite Hsrow in Hsrow'. injection Hsrow' as <-.
  set (w4 := cleanup_table (set_tbit (move_entity w1 e src row dst (n_mask sn)) target) src) in *.
  assert (HN : nodes_same w w4) by (eapply nodes_same_trans; [apply (ext_r_nodes _ _ E)|done]).
  split; [by split|]. split; [by rewrite Hp4, (xr_pool _ _ E)|]. split; [by rewrite Hil4, (xr_index _ _ E)|].
  split; [by rewrite Hreg4, (xr_reg _ _ E)|]. split.
  { intros e' He' Hne. apply (views_same w w4 live e' S He' HN). rewrite (Hother e' He' Hne). by apply (ext_r_cells w w1 live). }
  split; [done|].
  (* the row is copied unchanged *)
  assert (Hrow_same : copy_cells (n_mask sn) (n_ids dn) srow (n_ids dn) (zero_row dn) = srow).
  { unfold zero_row. rewrite Hdi. apply (copy_cells_id (w_tb w)); [by apply (rg_ids _ G _ _ Hsn)|].
    destruct Hsok as [_ Hw _]. rewrite (Hw row srow Hsrow). unfold zero_row. by rewrite replicate_length. }
  rewrite Hrow_same, Hdtn, Hdtt in Hce4.
  destruct (HN _ sn Hsn) as (sn4 & Hsn4 & Hm4 & Hi4 & Hr4).
  split; [unfold ent_rel; rewrite Hce4; simpl; rewrite Hsn4; simpl; congruence|].
  split; [unfold ent_mask; rewrite Hce4, Hce; simpl; rewrite Hsn4, Hsn; simpl; congruence|].
  split; [unfold ent_target; by rewrite Hce4|].
  intros id. unfold comp_val. rewrite Hce4, Hce. simpl. rewrite Hsn4, Hsn. simpl. unfold col_of. by rewrite Hi4.
Qed.

(** ** Fields that retirement and cleanup never touch *)
Definition side_same (w w' : world) : Prop :=
  w_pool w' = w_pool w /\ w_index w' = w_index w /\ w_tbits w' = w_tbits w /\ w_reg w' = w_reg w /\
  w_tb w' = w_tb w /\ w_locks w' = w_locks w /\ w_capinc w' = w_capinc w /\ w_relcapinc w' = w_relcapinc w /\
  length (w_tables w') = length (w_tables w).
Lemma side_same_refl w : side_same w w.
Proof. by repeat split. Qed.
Lemma side_same_trans a b c : side_same a b -> side_same b c -> side_same a c.
Proof. intros (A1&A2&A3&A4&A5&A6&A7&A8&A9) (B1&B2&B3&B4&B5&B6&B7&B8&B9). repeat split; congruence. Qed.
Lemma retire_table_side w tid : side_same w (retire_table w tid).
Proof.
  unfold retire_table. destruct (w_tables w !! tid) as [t|]; [|apply side_same_refl].
  destruct (w_nodes w !! t_node t); [|apply side_same_refl]. repeat split; simpl; try done. by rewrite insert_length.
Qed.
Lemma cleanup_table_side w tid : side_same w (cleanup_table w tid).
Proof.
  unfold cleanup_table. destruct (w_tables w !! tid) as [t|]; [|apply side_same_refl].
  destruct (w_nodes w !! t_node t); [|apply side_same_refl].
  destruct (_ || _); [apply side_same_refl|]. destruct (_ || _); [apply side_same_refl|]. apply retire_table_side.
Qed.
Lemma cleanup_tables_for_side w target : side_same w (cleanup_tables_for w target).
Proof.
  unfold cleanup_tables_for. generalize (seq 0 (length (w_nodes w))). intros l. revert w.
  induction l as [|nid l IH]; intros w; simpl; [apply side_same_refl|].
  eapply side_same_trans; [|apply IH].
  destruct (w_nodes w !! nid) as [nd|]; [|apply side_same_refl].
  destruct (assoc_get target (n_tmap nd)) as [tid|]; [|apply side_same_refl].
  destruct (w_tables w !! tid) as [t|]; [|apply side_same_refl].
  destruct (tlen t =? 0); [apply retire_table_side|apply side_same_refl].
Qed.

(** ** The invariant with the entity pool *)
Record world_okr2 (w : world) (live issued : list Entity) : Prop := {
  r2_ok : world_okr w live;
  r2_pool : exists frees, Proofs.PoolInv.pool_inv (w_pool w) live issued frees;
  r2_ilen : length (w_index w) = length (p_ents (w_pool w));
}.

Lemma chk_alive_live_r w live issued e :
  world_okr2 w live issued -> e ∈ issued -> chk_alive w e = Some true -> e ∈ live.
Proof.
  intros [_ [frees P] _] Hi Ha.
  apply (Proofs.PoolInv.pool_alive_iff (w_pool w) live issued frees e P Hi).
  unfold chk_alive in Ha. unfold pool_alive. by rewrite Ha.
Qed.

(** ** Entity creation, with or without a relation target *)
Lemma walk_add_exmask ids : forall w start m rel r, walk_add w start m rel ids = Some r -> is_Some (exmask_add m ids).
Proof.
  induction ids as [|id ids IH]; intros w start m rel r H; simpl in *; [by eexists|].
  destruct (bit m id); [done|]. destruct (bit start id); [done|]. destruct (_ && _); [done|]. by eapply IH.
Qed.

Lemma create_entity_tables w tid :
  let '(w', e) := create_entity w tid in
  w_relcapinc w' = w_relcapinc w /\ length (w_tables w') = length (w_tables w) /\ w_locks w' = w_locks w /\
  (forall tid', tid' <> tid -> w_tables w' !! tid' = w_tables w !! tid') /\
  (forall t, w_tables w !! tid = Some t -> exists t', w_tables w' !! tid = Some t' /\ t_node t' = t_node t /\
      t_target t' = t_target t /\ t_active t' = t_active t).
Proof.
  unfold create_entity. destruct (w_tables w !! tid) as [t|] eqn:Ht; [|by repeat split; intros; try done; eauto].
  destruct (w_nodes w !! t_node t) as [nd|]; [|split; [done|]; split; [done|]; split; [done|]; split; [done|]; intros t0 [= <-]; by exists t].
  destruct (pool_get (w_pool w)) as [p e]. unfold tbl_alloc.
  set (t1 := tbl_extend (node_capinc w nd) (zero_row nd) t 1).
  assert (Hf : t_node t1 = t_node t /\ t_target t1 = t_target t /\ t_active t1 = t_active t).
  { unfold t1, tbl_extend. by destruct (_ <=? _). }
  simpl. destruct (eid e =? _); simpl; (split; [done|]; split; [by rewrite insert_length|]; split; [done|]; split;
    [intros tid' Hne; by rewrite list_lookup_insert_ne|
     intros t0 [= <-]; eexists; split; [apply list_lookup_insert; by apply lookup_lt_Some in Ht|done]]).
Qed.

Lemma new_table_rok w ids target w1 tid :
  rgraph_ok w -> Forall (fun id => id < length (w_reg w)) ids ->
  (match ids with [] => Some (w, 0) | _ => find_or_create_table w 0 ids [] target end) = Some (w1, tid) ->
  ext_r w w1 /\ rgraph_ok w1 /\
  exists dt dn, w_tables w1 !! tid = Some dt /\ w_nodes w1 !! t_node dt = Some dn /\
    exmask_add 0 ids = Some (n_mask dn) /\ t_active dt = true /\
    t_target dt = (if node_has_rel dn then target else ezero).
Proof.
  intros G Hreg H. destruct (rg_table0 _ G) as (t0 & n0 & Ht0 & Hn0 & Hm0).
  destruct ids as [|i0 ids'].
  - injection H as <- <-. split; [apply ext_r_refl|]. split; [done|]. exists t0, n0. simpl. rewrite Hm0.
    destruct (rg_table _ G 0 t0 Ht0) as (n1 & Hn1 & _ & Hrest). rewrite Hn0 in Hn1. injection Hn1 as <-.
    assert (Hr : n_rel n0 = None).
    { destruct (n_rel n0) as [r|] eqn:Hr; [|done]. pose proof (rg_rel _ G _ n0 Hn0 r) as [_ HH].
      destruct (HH Hr) as [Hb _]. by rewrite Hm0, bit_zero in Hb. }
    rewrite Hr in Hrest. destruct Hrest as (_ & Htt & Hta). rewrite (proj2 (node_has_rel_false n0) Hr). done.
  - assert (Hm : exists mask, exchange_mask (n_mask n0) (i0 :: ids') [] = Some mask).
    { unfold find_or_create_table in H. rewrite Ht0, Hn0 in H. cbn [walk_rem] in H.
      destruct (walk_add w (n_mask n0) (n_mask n0) (n_rel n0) (i0 :: ids')) as [r|] eqn:Hw; [|done].
      apply walk_add_exmask in Hw as [mask Hm]. exists mask. unfold exchange_mask. cbn [exmask_rem]. simpl. exact Hm. }
    destruct Hm as [mask Hmask].
    destruct (find_or_create_table_rok w 0 (i0 :: ids') [] target t0 n0 mask w1 tid G Ht0 Hn0 Hmask Hreg H)
      as (E & G1 & dt & dn & Hdt & Hdn & Hdm & Hda & Hdt').
    split; [done|]. split; [done|]. exists dt, dn. split; [done|]. split; [done|]. split; [|done].
    unfold exchange_mask in Hmask. cbn [exmask_rem] in Hmask. simpl in Hmask. rewrite Hm0 in Hmask. by rewrite Hdm.
Qed.

Lemma create_in_table_rok w1 live issued tid dt dn :
  world_okr2 w1 live issued -> w_tables w1 !! tid = Some dt -> w_nodes w1 !! t_node dt = Some dn -> t_active dt = true ->
  let '(w2, e) := create_entity w1 tid in
  e ∉ issued /\ world_okr2 w2 (e :: live) (e :: issued) /\ w_nodes w2 = w_nodes w1 /\ w_reg w2 = w_reg w1 /\
  w_tb w2 = w_tb w1 /\ w_locks w2 = w_locks w1 /\
  (forall e', e' ∈ live -> ent_cells w2 e' = ent_cells w1 e') /\
  ent_cells w2 e = Some (t_node dt, t_target dt, zero_row dn).
Proof.
  intros [[S1 G1] [frees P1] L1] Hdt Hdn Hact.
  assert (Hcap : 0 < node_capinc w1 dn).
  { unfold node_capinc. destruct (rg_capinc _ G1). by destruct (node_has_rel dn). }
  pose proof (create_entity_ok w1 live issued frees tid dt dn S1 P1 L1 Hdt Hdn Hcap) as Hc.
  pose proof (create_entity_tables w1 tid) as Ht.
  destruct (create_entity w1 tid) as [w2 e2].
  destruct Hc as (Hnl & Hni & S2 & P2 & L2 & Hn2 & Hr2 & Htb2 & Hci2 & Hold & Hnew & Htn).
  destruct Ht as (Hrc & Hlen & Hlk & Hoth & Hsame).
  assert (G2 : rgraph_ok w2).
  { eapply (rgraph_ok_same_nodes w1 w2); try done.
    - intros tid0 t Ht0. destruct (decide (tid0 = tid)) as [->|Hne].
      + destruct (Hsame t Ht0) as (t' & Ht' & A & B & C). exists t'. rewrite Hdt in Ht0. injection Ht0 as <-.
        repeat split; try done. intros; congruence.
      + exists t. rewrite (Hoth tid0 Hne). done.
    - intros tid0 t' Ht'. apply lookup_lt_is_Some. rewrite <- Hlen. by apply lookup_lt_Some in Ht'. }
  split; [done|]. split; [split; [by split|done|done]|]. done.
Qed.

Theorem new_entity_rok w live issued ids w' e evs :
  world_okr2 w live issued -> Forall (fun id => id < length (w_reg w)) ids ->
  op_new w ids [] = (w', Ok (VEnt e), evs) ->
  e ∉ issued /\ world_okr2 w' (e :: live) (e :: issued) /\ w_reg w' = w_reg w /\
  (forall e', e' ∈ live -> ent_mask w' e' = ent_mask w e' /\ ent_target w' e' = ent_target w e' /\
      ent_rel w' e' = ent_rel w e' /\ forall id, comp_val w' e' id = comp_val w e' id) /\
  exists mask rel, exmask_add 0 ids = Some mask /\ ent_mask w' e = Some mask /\ ent_rel w' e = Some rel /\
    relP w mask rel /\ ent_target w' e = Some ezero /\
    forall id, id < w_tb w -> bit mask id = true -> comp_val w' e id = Some 0%Z.
Proof.
  intros K Hreg H. unfold op_new in H. destruct (is_locked w); [done|].
  destruct (match ids with [] => Some (w, 0) | _ => find_or_create_table w 0 ids [] ezero end) as [[w1 tid]|] eqn:Hf; [|done].
  destruct K as [[S G] [frees P] L].
  destruct (new_table_rok w ids ezero w1 tid G Hreg Hf) as (E & G1 & dt & dn & Hdt & Hdn & Hdm & Hda & Hdtg).
  assert (K1 : world_okr2 w1 live issued).
  { split; [split; [by eapply ext_r_store_ok|done]|exists frees; by rewrite (xr_pool _ _ E)|by rewrite (xr_index _ _ E), (xr_pool _ _ E)]. }
  pose proof (create_in_table_rok w1 live issued tid dt dn K1 Hdt Hdn Hda) as Hc.
  destruct (create_entity w1 tid) as [w2 e2]. simpl in H.
  destruct Hc as (Hni & K2 & Hn2 & Hr2 & Htb2 & _ & Hold & Hnew).
  destruct (table_mask_rel w2 tid). injection H as <- <- _.
  split; [done|]. split; [done|]. split; [by rewrite Hr2, (xr_reg _ _ E)|].
  assert (HN : nodes_same w w2) by (eapply nodes_same_trans; [apply (ext_r_nodes _ _ E)|by apply nodes_same_eq]).
  split.
  { intros e' He'. apply (views_same w w2 live e' S He' HN). rewrite (Hold e' He'). by apply (ext_r_cells w w1 live). }
  exists (n_mask dn), (n_rel dn). split; [done|].
  split; [unfold ent_mask; rewrite Hnew; simpl; rewrite Hn2, Hdn; done|].
  split; [unfold ent_rel; rewrite Hnew; simpl; rewrite Hn2, Hdn; done|].
  split.
  { intros id. pose proof (rg_rel _ G1 _ dn Hdn id) as HH. unfold reg_is_rel in *. by rewrite (xr_reg _ _ E) in HH. }
  split; [unfold ent_target; rewrite Hnew; simpl; rewrite Hdtg; by destruct (node_has_rel dn)|].
  intros id Hid Hbit. unfold comp_val. rewrite Hnew. simpl. rewrite Hn2, Hdn. simpl.
  assert (Hdids : n_ids dn = mask_ids (w_tb w) (n_mask dn)) by (rewrite (rg_ids _ G1 _ _ Hdn), (xr_tb _ _ E); done).
  assert (Hin : id ∈ n_ids dn).
  { rewrite Hdids. unfold mask_ids. apply elem_of_list_filter. split; [done|]. apply elem_of_seq. lia. }
  apply elem_of_list_lookup in Hin as [j Hj].
  assert (Hndd : NoDup (n_ids dn)) by (rewrite Hdids; apply NoDup_filter, NoDup_seq).
  unfold col_of. rewrite (find_index_nodup _ j id Hndd Hj). simpl.
  unfold zero_row. apply lookup_replicate_2. by apply lookup_lt_Some in Hj.
Qed.

Theorem new_entity_target_rok w live issued rid target ids w' e evs :
  world_okr2 w live issued -> Forall (fun id => id < length (w_reg w)) ids ->
  op_new_target w rid target ids [] = (w', Ok (VEnt e), evs) ->
  e ∉ issued /\ world_okr2 w' (e :: live) (e :: issued) /\ w_reg w' = w_reg w /\
  (forall e', e' ∈ live -> ent_mask w' e' = ent_mask w e' /\ ent_target w' e' = ent_target w e' /\
      ent_rel w' e' = ent_rel w e' /\ forall id, comp_val w' e' id = comp_val w e' id) /\
  exists mask, exmask_add 0 ids = Some mask /\ ent_mask w' e = Some mask /\ ent_rel w' e = Some (Some rid) /\
    ent_target w' e = Some target /\
    forall id, id < w_tb w -> bit mask id = true -> comp_val w' e id = Some 0%Z.
Proof.
  intros K Hreg H. unfold op_new_target in H. destruct (is_locked w); [done|].
  destruct (negb (target_ok w target)); [done|].
  destruct (match ids with [] => Some (w, 0) | _ => find_or_create_table w 0 ids [] target end) as [[w1 tid]|] eqn:Hf; [|done].
  destruct K as [[S G] [frees P] L].
  destruct (new_table_rok w ids target w1 tid G Hreg Hf) as (E & G1 & dt & dn & Hdt & Hdn & Hdm & Hda & Hdtg).
  destruct (negb (check_relation w1 tid rid)) eqn:Hchk; [done|]. apply negb_false_iff in Hchk.
  unfold check_relation in Hchk. rewrite Hdt, Hdn in Hchk. destruct (n_rel dn) as [r|] eqn:Hrel; [|done].
  apply Nat.eqb_eq in Hchk as ->. rewrite (proj2 (node_has_rel_true dn) (ex_intro _ rid Hrel)) in Hdtg.
  assert (K1 : world_okr2 w1 live issued).
  { split; [split; [by eapply ext_r_store_ok|done]|exists frees; by rewrite (xr_pool _ _ E)|by rewrite (xr_index _ _ E), (xr_pool _ _ E)]. }
  pose proof (create_in_table_rok w1 live issued tid dt dn K1 Hdt Hdn Hda) as Hc.
  destruct (create_entity w1 tid) as [w2 e2]. simpl in H.
  destruct Hc as (Hni & K2 & Hn2 & Hr2 & Htb2 & _ & Hold & Hnew).
  destruct (table_mask_rel (set_tbit w2 target) tid). injection H as <- <- _.
  assert (Hsb : w_nodes (set_tbit w2 target) = w_nodes w2 /\ w_tables (set_tbit w2 target) = w_tables w2 /\
                w_index (set_tbit w2 target) = w_index w2 /\ w_reg (set_tbit w2 target) = w_reg w2 /\
                w_pool (set_tbit w2 target) = w_pool w2).
  { unfold set_tbit. by destruct (ent_is_zero target). }
  destruct Hsb as (Hn3 & Ht3 & Hi3 & Hr3 & Hp3).
  assert (Hcells3 : forall e0, ent_cells (set_tbit w2 target) e0 = ent_cells w2 e0) by (intros; by apply ent_cells_same).
  split; [done|]. split.
  { destruct K2 as [[S2 G2] P2 L2]. split; [split; [|by apply set_tbit_rok]|by rewrite Hp3|by rewrite Hi3, Hp3].
    destruct S2 as [A1 A2 A3 A4]. split; unfold loc in *; rewrite ?Hi3, ?Ht3, ?Hn3; done. }
  split; [by rewrite Hr3, Hr2, (xr_reg _ _ E)|].
  assert (HN : nodes_same w (set_tbit w2 target)).
  { eapply nodes_same_trans; [apply (ext_r_nodes _ _ E)|]. apply nodes_same_eq. congruence. }
  split.
  { intros e' He'. apply (views_same w _ live e' S He' HN). rewrite Hcells3, (Hold e' He'). by apply (ext_r_cells w w1 live). }
  exists (n_mask dn). split; [done|]. rewrite <- Hcells3 in Hnew.
  split; [unfold ent_mask; rewrite Hnew; simpl; rewrite Hn3, Hn2, Hdn; done|].
  split; [unfold ent_rel; rewrite Hnew; simpl; rewrite Hn3, Hn2, Hdn; simpl; by rewrite Hrel|].
  split; [unfold ent_target; rewrite Hnew; simpl; by rewrite Hdtg|].
  intros id Hid Hbit. unfold comp_val. rewrite Hnew. simpl. rewrite Hn3, Hn2, Hdn. simpl.
  assert (Hdids : n_ids dn = mask_ids (w_tb w) (n_mask dn)) by (rewrite (rg_ids _ G1 _ _ Hdn), (xr_tb _ _ E); done).
  assert (Hin : id ∈ n_ids dn).
  { rewrite Hdids. unfold mask_ids. apply elem_of_list_filter. split; [done|]. apply elem_of_seq. lia. }
  apply elem_of_list_lookup in Hin as [j Hj].
  assert (Hndd : NoDup (n_ids dn)) by (rewrite Hdids; apply NoDup_filter, NoDup_seq).
  unfold col_of. rewrite (find_index_nodup _ j id Hndd Hj). simpl.
  unfold zero_row. apply lookup_replicate_2. by apply lookup_lt_Some in Hj.
Qed.

(** ** RemoveEntity, including the cleanup of the tables that had the entity as target *)
Lemma remove_entity_graph w live e :
  store_ok w live -> rgraph_ok w -> e ∈ live -> chk_alive w e = Some true -> is_locked w = false ->
  let w' := fst (fst (op_remove_entity w e)) in
  rgraph_ok w' /\ nodes_same w w' /\ w_reg w' = w_reg w /\ length (w_index w') = length (w_index w) /\
  length (p_ents (w_pool w')) = length (p_ents (w_pool w)).
Proof.
  intros S G He Hal HL. unfold op_remove_entity. rewrite HL.
  destruct (so_loc _ _ S e He) as (src & row & st & Hloc & Hst & Hrow).
  destruct (so_table _ _ S src st Hst) as (sn & Hsn & Hok).
  unfold ent_table. rewrite Hal, Hloc, Hst, Hsn.
  assert (Hrlt : row < tlen st) by (by apply lookup_lt_Some in Hrow).
  pose proof (tbl_remove_spec (zero_row sn) st row Hok Hrlt) as HR.
  destruct (tbl_remove (zero_row sn) st row) as [st1 swapped].
  destruct HR as (_ & _ & _ & _ & _ & _ & Hst1n & Hst1t & Hst1a & _).
  match goal with |- context [cleanup_table ?x src] => set (w2 := x) end.
  match goal with _ := (if tbit ?y _ then _ else _) |- _ => set (w1 := y) in * end.
  simpl.
  assert (Hstne : t_ents st <> []) by (intros Hn; by rewrite Hn in Hrow).
  assert (G1 : rgraph_ok w1).
  { eapply (rgraph_ok_same_nodes w w1); try done.
    - intros tid t Ht. simpl. destruct (decide (tid = src)) as [->|Hne].
      + exists st1. rewrite list_lookup_insert by (by apply lookup_lt_Some in Hst). rewrite Hst in Ht. injection Ht as <-.
        repeat split; try done; intros; congruence.
      + exists t. by rewrite list_lookup_insert_ne.
    - intros tid t' Ht'. apply lookup_lt_is_Some. apply lookup_lt_Some in Ht'. simpl in Ht'. by rewrite insert_length in Ht'. }
  assert (Hi1 : length (w_index w1) = length (w_index w)).
  { simpl. rewrite insert_length. destruct swapped; [|done]. destruct (t_ents st1 !! row); [|done]. by rewrite insert_length. }
  assert (Hp1 : length (p_ents (w_pool w1)) = length (p_ents (w_pool w))).
  { simpl. unfold pool_recycle. destruct (p_ents (w_pool w) !! eid e) as [[? ?]|]; [|done]. simpl. by rewrite insert_length. }
  assert (H2 : rgraph_ok w2 /\ nodes_same w1 w2 /\ w_reg w2 = w_reg w1 /\ w_index w2 = w_index w1 /\ w_pool w2 = w_pool w1).
  { unfold w2. destruct (tbit w1 (eid e)); [|split; [done|]; split; [apply nodes_same_refl|done]].
    pose proof (cleanup_tables_for_rok w1 e G1) as Ga.
    destruct (cleanup_tables_for_side w1 e) as (A1&A2&A3&A4&A5&A6&A7&A8&A9).
    split.
    - eapply (rgraph_ok_same_nodes (cleanup_tables_for w1 e)); try done. intros tid t Ht. exists t. done.
    - split; [|done]. eapply nodes_same_trans; [apply cleanup_tables_for_nodes|]. by apply nodes_same_eq. }
  destruct H2 as (G2 & N2 & R2 & I2 & P2).
  destruct (cleanup_table_side w2 src) as (A1&A2&A3&A4&A5&A6&A7&A8&A9).
  split; [by apply cleanup_table_rok|]. split.
  { eapply nodes_same_trans; [apply (nodes_same_eq w w1); done|].
    eapply nodes_same_trans; [exact N2|apply cleanup_table_nodes]. }
  split; [by rewrite A4, R2|]. split; [by rewrite A2, I2|]. by rewrite A1, P2.
Qed.

Theorem remove_entity_rok w live issued e :
  world_okr2 w live issued -> e ∈ live -> (egen e < gen_max)%N -> is_locked w = false ->
  let r := op_remove_entity w e in
  snd (fst r) = Ok VUnit /\ world_okr2 (fst (fst r)) (filter (fun x => x <> e) live) issued /\
  w_reg (fst (fst r)) = w_reg w /\
  (forall e', e' ∈ live -> e' <> e ->
     ent_mask (fst (fst r)) e' = ent_mask w e' /\ ent_target (fst (fst r)) e' = ent_target w e' /\
     ent_rel (fst (fst r)) e' = ent_rel w e' /\ forall id, comp_val (fst (fst r)) e' id = comp_val w e' id) /\
  pool_alive (w_pool (fst (fst r))) e = false.
Proof.
  intros [[S G] [frees P] L] He Hg HL.
  destruct (remove_entity_ok w live issued frees e S P He Hg HL) as (Hok & S' & P' & Hcells & Hdead).
  assert (Hal : chk_alive w e = Some true) by (unfold chk_alive; by rewrite (live_chk_alive _ _ _ _ _ P He)).
  destruct (remove_entity_graph w live e S G He Hal HL) as (G' & HN & Hreg & Hil & Hpl).
  simpl. split; [done|]. split; [split; [by split|by eexists|congruence]|]. split; [done|]. split; [|done].
  intros e' He' Hne. apply (views_same w _ live e' S He' HN). by apply Hcells.
Qed.

(** ** Registration of any component type, relation or not *)
Lemma extend_layouts_lookup w n tid :
  w_tables (extend_layouts w n) !! tid =
    (fun t => match w_nodes w !! t_node t with
              | Some nd => if n_active nd && (t_layouts t <? n) then t <| t_layouts := n |> else t
              | None => t end) <$> w_tables w !! tid.
Proof. unfold extend_layouts. simpl. by rewrite list_lookup_fmap. Qed.

Lemma extend_layouts_same w n tid t :
  w_tables w !! tid = Some t -> exists t', w_tables (extend_layouts w n) !! tid = Some t' /\
    t_ents t' = t_ents t /\ t_rows t' = t_rows t /\ t_node t' = t_node t /\ t_target t' = t_target t /\ t_active t' = t_active t.
Proof.
  intros Ht. rewrite extend_layouts_lookup, Ht. simpl. eexists. split; [reflexivity|].
  destruct (w_nodes w !! t_node t) as [n1|]; [destruct (n_active n1 && (t_layouts t <? n))|]; repeat split; reflexivity.
Qed.

Lemma extend_layouts_keeps w n live :
  store_ok w live -> store_ok (extend_layouts w n) live /\ forall e, ent_cells (extend_layouts w n) e = ent_cells w e.
Proof.
  intros S.
  assert (Hback : forall tid t', w_tables (extend_layouts w n) !! tid = Some t' -> exists t, w_tables w !! tid = Some t /\
      t_ents t' = t_ents t /\ t_rows t' = t_rows t /\ t_node t' = t_node t /\ t_target t' = t_target t).
  { intros tid t' Ht'. destruct (w_tables w !! tid) as [t|] eqn:Ht.
    - destruct (extend_layouts_same w n tid t Ht) as (t2 & Ht2 & A & B & C & D & _). rewrite Ht' in Ht2. injection Ht2 as <-. by exists t.
    - by rewrite extend_layouts_lookup, Ht in Ht'. }
  split.
  - split.
    + apply S.
    + intros e He. destruct (so_loc _ _ S e He) as (tid & row & t & Hl & Ht & Hr).
      destruct (extend_layouts_same w n tid t Ht) as (t' & Ht' & A & _). exists tid, row, t'. split; [exact Hl|]. split; [done|congruence].
    + intros tid t' row e Ht' Hr. destruct (Hback tid t' Ht') as (t & Ht & He & _). rewrite He in Hr.
      by apply (so_rows _ _ S tid t row e).
    + intros tid t' Ht'. destruct (Hback tid t' Ht') as (t & Ht & He & Hr & Hn & _).
      destruct (so_table _ _ S tid t Ht) as (nd & Hnd & [Hc Hw Hz]). exists nd. rewrite Hn. split; [done|].
      split; unfold tlen in *; rewrite ?He, ?Hr; done.
  - intros e. unfold ent_cells. change (loc (extend_layouts w n) e) with (loc w e).
    destruct (loc w e) as [[tid row]|]; [|done]. cbn [mbind option_bind].
    destruct (w_tables w !! tid) as [t|] eqn:Ht.
    + destruct (extend_layouts_same w n tid t Ht) as (t' & Ht' & A & B & C & D & _). rewrite Ht'. simpl. by rewrite B, C, D.
    + by rewrite extend_layouts_lookup, Ht.
Qed.

Lemma register_rok w live issued key isrel zs w' id :
  world_okr2 w live issued -> register_comp w key isrel zs = Some (w', id) ->
  world_okr2 w' live issued /\ nodes_same w w' /\ (forall e, ent_cells w' e = ent_cells w e) /\
  w_locks w' = w_locks w /\
  (w_reg w' = w_reg w \/ (w_reg w' = w_reg w ++ [mkCI key isrel zs] /\ id = length (w_reg w))).
Proof.
  intros K H. unfold register_comp in H.
  destruct (find_index _ _); [injection H as <- _; split; [done|]; split; [apply nodes_same_refl|]; split; [done|]; split; [done|by left]|].
  destruct (w_tb w <=? length (w_reg w)) eqn:Htb; [done|]. apply Nat.leb_gt in Htb. destruct (is_locked w); [done|].
  set (w1 := w <| w_reg := w_reg w ++ [mkCI key isrel zs] |>) in *.
  destruct K as [[S G] P L].
  assert (G1 : rgraph_ok w1).
  { destruct G as [A1 A2 A3 A4 A5 A6 A7 A8 A9 A10 A11 A12 A13 A14]. split; try done.
    - intros nid nd Hnd i. specialize (A2 nid nd Hnd i). unfold reg_is_rel in *. simpl.
      destruct (decide (i < length (w_reg w))).
      + by rewrite lookup_app_l.
      + rewrite <- A2. split; intros [Hb Hr]; exfalso; apply (A3 nid nd i Hnd) in Hb; lia.
    - intros nid nd i Hnd Hb. simpl. rewrite app_length. specialize (A3 nid nd i Hnd Hb). lia.
    - simpl. rewrite app_length. simpl. lia. }
  assert (S1 : store_ok w1 live).
  { destruct S as [S1 S2 S3 S4]. by split. }
  destruct (_ && _); injection H as <- <-.
  - destruct (extend_layouts_keeps w1 (length (w_reg w) + 16) live S1) as [S2 Hc].
    split; [split; [split|done|done]|].
    + done.
    + eapply (rgraph_ok_same_nodes w1); try done.
      * intros tid t Ht. destruct (extend_layouts_same w1 (length (w_reg w) + 16) tid t Ht) as (t' & Ht' & A & B & C & D & E).
        exists t'. repeat split; try done. intros. congruence.
      * intros tid t' Ht'. apply lookup_lt_is_Some. apply lookup_lt_Some in Ht'. unfold extend_layouts in Ht'. simpl in Ht'.
        by rewrite fmap_length in Ht'.
    + split; [by apply nodes_same_eq|]. split; [done|]. split; [done|]. right. done.
  - split; [split; [by split|done|done]|]. split; [by apply nodes_same_eq|]. split; [done|]. split; [done|]. by right.
Qed.

(** Component writes keep everything but the written cell. *)
Lemma set_comp_rok w live issued e id v w' :
  world_okr2 w live issued -> e ∈ live -> set_comp w e id v = Some w' ->
  world_okr2 w' live issued /\ w_nodes w' = w_nodes w /\ w_reg w' = w_reg w /\ w_locks w' = w_locks w.
Proof.
  intros [[S G] P L] He H.
  destruct (set_comp_spec w live e id v w' S He H) as (S1 & Hn & Hi & Hp & _).
  unfold set_comp in H. destruct (chk_alive w e) as [[]|]; try done. destruct (loc w e) as [[tid row]|]; [|done].
  destruct (w_tables w !! tid) as [t|] eqn:Ht; [|done]. destruct (w_nodes w !! t_node t); [|done]. destruct (col_of n id); [|done].
  destruct (reg_is_zs w id); injection H as <-; [done|].
  split; [|done]. split; [split; [done|]|by rewrite Hp|by rewrite Hi, Hp].
  eapply (rgraph_ok_same_nodes w); try done.
  - intros tid0 t0 Ht0. unfold upd_table. simpl. destruct (decide (tid0 = tid)) as [->|].
    + rewrite list_lookup_insert by (by apply lookup_lt_Some in Ht). rewrite Ht in Ht0. injection Ht0 as <-. eexists. split; [reflexivity|done].
    + rewrite list_lookup_insert_ne by done. by exists t0.
  - intros tid0 t' Ht'. apply lookup_lt_is_Some. apply lookup_lt_Some in Ht'. unfold upd_table in Ht'. simpl in Ht'. by rewrite insert_length in Ht'.
Qed.

(** The initial world. *)
Lemma world_init_rok capinc relcapinc tb : 0 < capinc -> world_okr2 (world_init capinc relcapinc tb) [] [].
Proof.
  intros Hc. destruct (world_init_ok capinc relcapinc tb Hc) as [[S _ _] P L].
  split; [split; [done|]|done|done].
  unfold world_init. cbn -[mask_ids replicate locks_init Nat.ltb].
  split; simpl.
  - intros nid nd H. destruct nid; simpl in H; [by injection H as <-|done].
  - intros nid nd H. destruct nid; simpl in H; [|done]. injection H as <-. simpl. intros id.
    rewrite bit_zero. split; [intros [? _]; done|done].
  - intros nid nd id H Hb. destruct nid; simpl in H; [|done]. injection H as <-. simpl in Hb. by rewrite bit_zero in Hb.
  - intros i j ni nj Hi Hj _. destruct i, j; simpl in *; done.
  - intros tid t Ht. destruct tid; simpl in Ht; [|done]. injection Ht as <-. simpl. eexists. split; [reflexivity|].
    simpl. split; [apply elem_of_list_here|done].
  - intros nid nd tid H Hin. destruct nid; simpl in H; [|done]. injection H as <-. simpl in Hin.
    apply elem_of_list_singleton in Hin as ->. eexists. split; [reflexivity|done].
  - intros nid nd tg tid H Hg. destruct nid; simpl in H; [|done]. injection H as <-. done.
  - intros nid nd H. destruct nid; simpl in H; [|done]. injection H as <-. simpl.
    split; [apply NoDup_nil_2|intros ? Hx; by apply elem_of_nil in Hx].
  - intros nid nd H _. destruct nid; simpl in H; [|done]. by injection H as <-.
  - eexists _, _. split; [reflexivity|]. simpl. split; [reflexivity|done].
  - split; [done|]. destruct (relcapinc <? 1) eqn:Hr; [done|]. apply Nat.ltb_ge in Hr. lia.
  - lia.
  - intros nid nd tid H _. destruct nid; simpl in H; [|done]. by injection H as <-.
  - intros nid nd H. destruct nid; simpl in H; [|done]. injection H as <-. simpl. apply NoDup_singleton.
Qed.
