(** * Generic filter builders (generic/query_generated.go, generic/compiled.go): the
      compiled filter served by Query/Filter/Register is always the compilation of the
      CURRENT builder configuration.

    Model: a builder configuration, a cached compilation with a [compiled] flag, and the
    builder methods as they are generated (every one resets the flag - after the repair of
    defect D10 this includes Exclusive). *)
From Arche Require Import Model.Base Model.Filter.

Record gconfig := mkGC {
  g_include : list nat;      (* type parameters + With *)
  g_optional : list nat;
  g_exclude : list nat;
  g_exclusive : bool;
  g_rel : option nat;        (* WithRelation component *)
  g_target : option Entity;  (* fixed target *)
}.

Record gfilter_state := mkGS {
  gs_config : gconfig;
  gs_cached : fexpr;         (* compiledQuery.filter *)
  gs_compiled : bool;
  gs_locked : bool;          (* registered *)
}.

(** compiledQuery.Compile: the core filter of a configuration (tb = mask width). *)
Definition core_filter (tb : nat) (c : gconfig) : fexpr :=
  let incl := mask_of (filter (fun i => bool_decide (i ∉ g_optional c)) (g_include c)) in
  let excl := if g_exclusive c then mask_not tb incl else mask_of (g_exclude c) in
  let base := if negb (g_exclusive c) && bool_decide (g_exclude c = []) then FAll incl else FMask incl excl in
  match g_rel c, g_target c with
  | Some _, Some t => FRel (FMask incl excl) t
  | _, _ => base
  end.

Inductive gcall :=
| GWith (ids : list nat) | GWithout (ids : list nat) | GOptional (ids : list nat)
| GExclusive | GWithRelation (r : nat) (t : option Entity).

(** A builder call: refused (state unchanged) on a registered filter or when the
    documented preconditions fail; otherwise it updates the configuration and resets the
    compiled flag. *)
Definition gbuild (s : gfilter_state) (c : gcall) : gfilter_state :=
  if gs_locked s then s else
  let cfg := gs_config s in
  match c with
  | GWith ids => mkGS (mkGC (g_include cfg ++ ids) (g_optional cfg) (g_exclude cfg) (g_exclusive cfg) (g_rel cfg) (g_target cfg)) (gs_cached s) false false
  | GOptional ids => mkGS (mkGC (g_include cfg) (g_optional cfg ++ ids) (g_exclude cfg) (g_exclusive cfg) (g_rel cfg) (g_target cfg)) (gs_cached s) false false
  | GWithout ids => if g_exclusive cfg then s else
      mkGS (mkGC (g_include cfg) (g_optional cfg) (g_exclude cfg ++ ids) false (g_rel cfg) (g_target cfg)) (gs_cached s) false false
  | GExclusive => match g_exclude cfg with
                  | [] => mkGS (mkGC (g_include cfg) (g_optional cfg) [] true (g_rel cfg) (g_target cfg)) (gs_cached s) false false
                  | _ => s
                  end
  | GWithRelation r t => mkGS (mkGC (g_include cfg) (g_optional cfg) (g_exclude cfg) (g_exclusive cfg) (Some r)
                                    (match t with Some x => Some x | None => g_target cfg end)) (gs_cached s) false false
  end.

(** Query / Filter / Register compile on demand. *)
Definition gcompile (tb : nat) (s : gfilter_state) : gfilter_state :=
  if gs_compiled s then s else mkGS (gs_config s) (core_filter tb (gs_config s)) true (gs_locked s).
Definition gquery_filter (tb : nat) (s : gfilter_state) : fexpr := gs_cached (gcompile tb s).

Inductive gop := GBuild (c : gcall) | GQuery | GRegister | GUnregister.
Definition gstep (tb : nat) (s : gfilter_state) (o : gop) : gfilter_state :=
  match o with
  | GBuild c => gbuild s c
  | GQuery => gcompile tb s
  | GRegister => let s' := gcompile tb s in mkGS (gs_config s') (gs_cached s') true true
  | GUnregister => mkGS (gs_config s) (gs_cached s) (gs_compiled s) false
  end.

Definition ginv (tb : nat) (s : gfilter_state) : Prop :=
  gs_compiled s = true -> gs_cached s = core_filter tb (gs_config s).

Lemma gstep_inv tb s o : ginv tb s -> ginv tb (gstep tb s o).
Proof.
  intros I. destruct o as [c| | |]; simpl.
  - unfold gbuild. destruct (gs_locked s); [done|].
    destruct c; simpl; try (intros H; discriminate H).
    + destruct (g_exclusive (gs_config s)); [done|]. intros H; discriminate H.
    + destruct (g_exclude (gs_config s)); [|done]. intros H; discriminate H.
  - unfold gcompile. destruct (gs_compiled s) eqn:Hc; [done|]. intros _. done.
  - unfold gcompile. destruct (gs_compiled s) eqn:Hc; simpl; intros _; [by apply I|done].
  - exact I.
Qed.

(** After ANY sequence of builder calls, queries, registrations and unregistrations, the
    filter the next query uses is the core filter of the configuration as it is now. *)
Theorem compiled_current tb ops init :
  ginv tb init ->
  let s := foldl (gstep tb) init ops in
  gquery_filter tb s = core_filter tb (gs_config s).
Proof.
  intros I. assert (H : ginv tb (foldl (gstep tb) init ops)).
  { revert init I. induction ops as [|o r IH]; intros init I; simpl; [done|]. apply IH. by apply gstep_inv. }
  simpl. unfold gquery_filter, gcompile. destruct (gs_compiled _) eqn:Hc; [by apply H|done].
Qed.

(** The pre-repair behaviour (defect D10): an Exclusive() that does not reset the flag is
    ignored once the filter has been used. *)
Example exclusive_without_reset_refuted :
  let s0 := mkGS (mkGC [1] [] [] false None None) (FAll 0) false false in
  let s1 := gcompile 8 s0 in
  let bad := mkGS (mkGC [1] [] [] true None None) (gs_cached s1) (gs_compiled s1) false in
  gquery_filter 8 bad <> core_filter 8 (gs_config bad).
Proof. vm_compute. discriminate. Qed.

Example compiled_current_example :
  let s0 := mkGS (mkGC [1; 2] [] [] false None None) (FAll 0) false false in
  gquery_filter 8 (foldl (gstep 8) s0 [GQuery; GBuild (GWithout [3]); GQuery; GBuild GExclusive; GBuild (GOptional [2]); GRegister; GBuild (GWith [5])])
  = FMask 2 8.
Proof. vm_compute. reflexivity. Qed.
