(** * C08: Batch.RemoveEntities = RemoveEntity for every matching entity.

    [remove_table_entities w tid] walks the entities of one table: index entry cleared,
    tables that had the entity as relation target cleaned up, handle recycled; then the
    table is reset and itself cleaned up.  The per-entity clean-ups neither read nor write
    the index or the pool, so the loop factors into (all clean-ups) ; (all index and pool
    updates) [loop_factor]; from a consistent world the first part keeps consistency and
    the second part removes exactly the table's entities. *)
From Arche Require Import Model.Base Model.Pool Model.Filter Model.World Model.Ops
  Proofs.PoolInv Proofs.Tables Proofs.Bits Proofs.Store Proofs.Graph Proofs.WorldInv
  Proofs.Frame Proofs.StepFrame
  Proofs.RelGraph Proofs.RelWorld Proofs.RelRefine Proofs.QueryExact Proofs.CacheInv Proofs.BatchMove Proofs.BatchExchange.

(** ** Index and pool are invisible to the clean-up of target tables *)
Definition with_ip (w : world) (i : list (option (nat * nat))) (p : pool) : world :=
  w <| w_index := i |> <| w_pool := p |>.

Lemma retire_table_ip w tid i p : retire_table (with_ip w i p) tid = with_ip (retire_table w tid) i p.
Proof.
  unfold retire_table, with_ip. destruct w. simpl.
  destruct (w_tables !! tid) as [t|]; [|done]. destruct (w_nodes !! t_node t) as [nd|]; done.
Qed.

Lemma foldl_ip {X} (f : world -> X -> world) i p :
  (forall w x, f (with_ip w i p) x = with_ip (f w x) i p) ->
  forall l w, foldl f (with_ip w i p) l = with_ip (foldl f w l) i p.
Proof. intros Hf. induction l as [|x r IH]; intros w; simpl; [done|]. by rewrite Hf, IH. Qed.

Lemma cleanup_tables_for_ip w e i p :
  cleanup_tables_for (with_ip w i p) e = with_ip (cleanup_tables_for w e) i p.
Proof.
  unfold cleanup_tables_for. change (w_nodes (with_ip w i p)) with (w_nodes w).
  apply foldl_ip. intros w0 nid.
  change (w_nodes (with_ip w0 i p)) with (w_nodes w0). change (w_tables (with_ip w0 i p)) with (w_tables w0).
  destruct (w_nodes w0 !! nid) as [nd|]; [|done]. destruct (assoc_get e (n_tmap nd)) as [tid|]; [|done].
  destruct (w_tables w0 !! tid) as [t|]; [|done]. destruct (tlen t =? 0); [apply retire_table_ip|done].
Qed.

(** One round of the loop without index and pool. *)
Definition clean_for (w : world) (e : Entity) : world :=
  if tbit w (eid e) then (cleanup_tables_for w e) <| w_tbits := <[eid e := false]> (w_tbits w) |> else w.

Lemma clean_for_ip w e i p : clean_for (with_ip w i p) e = with_ip (clean_for w e) i p.
Proof.
  unfold clean_for. change (tbit (with_ip w i p) (eid e)) with (tbit w (eid e)).
  destruct (tbit w (eid e)); [|done]. rewrite cleanup_tables_for_ip.
  change (w_tbits (with_ip w i p)) with (w_tbits w). unfold with_ip. by destruct (cleanup_tables_for w e).
Qed.

Definition rm_step (nd : node) (tg : Entity) : world * list event -> Entity -> world * list event :=
  fun '(w, evs) e =>
    let ev := ev_remove w e nd tg in
    let w1 := w <| w_index := <[eid e := None]> (w_index w) |> in
    let w2 := if tbit w1 (eid e)
              then (cleanup_tables_for w1 e) <| w_tbits := <[eid e := false]> (w_tbits w1) |>
              else w1 in
    (w2 <| w_pool := pool_recycle (w_pool w2) e |>, evs ++ ev).

Lemma with_ip_id w : with_ip w (w_index w) (w_pool w) = w.
Proof. unfold with_ip. by destruct w. Qed.
Lemma with_ip_ip w i p i' p' : with_ip (with_ip w i p) i' p' = with_ip w i' p'.
Proof. unfold with_ip. by destruct w. Qed.
Lemma with_ip_index w i p : w_index (with_ip w i p) = i.
Proof. done. Qed.
Lemma with_ip_pool w i p : w_pool (with_ip w i p) = p.
Proof. done. Qed.

Lemma rm_step_eq nd tg w evs e :
  rm_step nd tg (w, evs) e =
  (with_ip (clean_for w e) (<[eid e := None]> (w_index w)) (pool_recycle (w_pool w) e), evs ++ ev_remove w e nd tg).
Proof.
  unfold rm_step. f_equal.
  set (w1 := w <| w_index := <[eid e := None]> (w_index w) |>).
  assert (Hw1 : w1 = with_ip w (<[eid e := None]> (w_index w)) (w_pool w)) by (unfold w1, with_ip; by destruct w).
  change (if tbit w1 (eid e) then (cleanup_tables_for w1 e) <| w_tbits := <[eid e := false]> (w_tbits w1) |> else w1)
    with (clean_for w1 e).
  rewrite Hw1, clean_for_ip. unfold with_ip. by destruct (clean_for w e).
Qed.

Lemma loop_factor nd tg es : forall w evs,
  fst (foldl (rm_step nd tg) (w, evs) es) =
  with_ip (foldl clean_for w es)
          (foldl (fun i e => <[eid e := None]> i) (w_index w) es)
          (foldl pool_recycle (w_pool w) es).
Proof.
  induction es as [|e r IH]; intros w evs; [simpl; by rewrite with_ip_id|].
  change (foldl (rm_step nd tg) (w, evs) (e :: r)) with (foldl (rm_step nd tg) (rm_step nd tg (w, evs) e) r).
  rewrite rm_step_eq, IH. rewrite with_ip_index, with_ip_pool.
  rewrite (foldl_ip clean_for _ _ (fun w0 x => clean_for_ip w0 x _ _)).
  by rewrite with_ip_ip.
Qed.

(** ** The clean-ups keep a consistent world consistent and touch no non-empty table *)
Lemma retire_keeps_nonempty w tid tid' t' :
  (forall t, w_tables w !! tid = Some t -> t_ents t = []) ->
  w_tables w !! tid' = Some t' -> t_ents t' <> [] -> w_tables (retire_table w tid) !! tid' = Some t'.
Proof.
  intros Hempty Ht' Hne. unfold retire_table. destruct (w_tables w !! tid) as [t|] eqn:Ht; [|done].
  destruct (w_nodes w !! t_node t); [|done]. simpl.
  destruct (decide (tid' = tid)) as [->|Hd]; [|by rewrite list_lookup_insert_ne].
  rewrite Ht in Ht'. injection Ht' as <-. by rewrite (Hempty t eq_refl) in Hne.
Qed.

Lemma cleanup_tables_for_keeps_nonempty w e tid' t' :
  w_tables w !! tid' = Some t' -> t_ents t' <> [] -> w_tables (cleanup_tables_for w e) !! tid' = Some t'.
Proof.
  unfold cleanup_tables_for. generalize (seq 0 (length (w_nodes w))). intros l. revert w.
  induction l as [|nid r IH]; intros w Ht' Hne; simpl; [done|]. apply IH; [|done].
  destruct (w_nodes w !! nid) as [nd|]; [|done]. destruct (assoc_get e (n_tmap nd)) as [tid|]; [|done].
  destruct (w_tables w !! tid) as [t|] eqn:Ht; [|done]. destruct (tlen t =? 0) eqn:Hl; [|done].
  apply retire_keeps_nonempty; try done. intros t0 Ht0. rewrite Ht in Ht0. injection Ht0 as <-.
  apply Nat.eqb_eq in Hl. unfold tlen in Hl. by destruct (t_ents t).
Qed.

Lemma okr2_tbits w live issued tb : world_okr2 w live issued -> world_okr2 (w <| w_tbits := tb |>) live issued.
Proof.
  intros [[S G] P L]. split; [split|done|done].
  - destruct S as [A1 A2 A3 A4]. by split.
  - eapply (rgraph_ok_same_nodes w); try done; intros tid t Ht; exists t; repeat split; try done; intros; congruence.
Qed.

Lemma clean_for_ok w live issued e :
  world_okr2 w live issued -> cache_ok w ->
  world_okr2 (clean_for w e) live issued /\ cache_ok (clean_for w e) /\ nodes_same w (clean_for w e) /\
  w_pool (clean_for w e) = w_pool w /\ w_index (clean_for w e) = w_index w /\ w_reg (clean_for w e) = w_reg w /\
  w_tb (clean_for w e) = w_tb w /\ w_locks (clean_for w e) = w_locks w /\ w_listener (clean_for w e) = w_listener w /\
  (forall e0, ent_cells (clean_for w e) e0 = ent_cells w e0) /\
  (forall tid' t', w_tables w !! tid' = Some t' -> t_ents t' <> [] -> w_tables (clean_for w e) !! tid' = Some t').
Proof.
  intros K C. unfold clean_for. destruct (tbit w (eid e));
    [|split; [done|]; split; [done|]; split; [apply nodes_same_refl|]; do 6 (split; [done|]); split; [done|]; intros; done].
  pose proof K as [[S G] [frees P] L].
  destruct (cleanup_tables_for_keeps w live e S) as (S1 & Hp1 & Hc1).
  pose proof (cleanup_tables_for_rok w e G) as G1.
  pose proof (cache_ok_cleanup_tables_for w e G C) as C1.
  destruct (cleanup_tables_for_side w e) as (B1&B2&B3&B4&B5&B6&B7&B8&B9).
  pose proof (frame_cleanup_tables_for w e) as F.
  assert (K1 : world_okr2 (cleanup_tables_for w e) live issued).
  { split; [by split|exists frees; by rewrite B1|by rewrite B2, B1]. }
  split; [by apply okr2_tbits|]. split; [exact C1|]. split; [apply cleanup_tables_for_nodes|].
  repeat (split; [simpl; congruence || apply F|]).
  split.
  - intros e0. rewrite <- Hc1. by apply ent_cells_same.
  - intros tid' t' Ht' Hne. simpl. by apply cleanup_tables_for_keeps_nonempty.
Qed.

Lemma clean_all_ok es : forall w live issued,
  world_okr2 w live issued -> cache_ok w ->
  let wc := foldl clean_for w es in
  world_okr2 wc live issued /\ cache_ok wc /\ nodes_same w wc /\
  w_pool wc = w_pool w /\ w_index wc = w_index w /\ w_reg wc = w_reg w /\
  w_tb wc = w_tb w /\ w_locks wc = w_locks w /\ w_listener wc = w_listener w /\
  (forall e0, ent_cells wc e0 = ent_cells w e0) /\
  (forall tid' t', w_tables w !! tid' = Some t' -> t_ents t' <> [] -> w_tables wc !! tid' = Some t').
Proof.
  induction es as [|e r IH]; intros w live issued K C; simpl.
  - split; [done|]. split; [done|]. split; [apply nodes_same_refl|]. do 6 (split; [done|]). split; [done|]. intros; done.
  - destruct (clean_for_ok w live issued e K C) as (K1 & C1 & N1 & A1 & A2 & A3 & A4 & A5 & A6 & A7 & A8).
    destruct (IH (clean_for w e) live issued K1 C1) as (K2 & C2 & N2 & B1 & B2 & B3 & B4 & B5 & B6 & B7 & B8).
    split; [done|]. split; [done|]. split; [by eapply nodes_same_trans|].
    do 6 (split; [congruence|]). split.
    + intros e0. by rewrite B7.
    + intros tid' t' Ht' Hne. apply B8; [by apply A8|done].
Qed.

(** ** Recycling a set of alive handles *)
Lemma filter_notin_cons (e : Entity) (r live : list Entity) :
  filter (fun x => x ∉ r) (filter (fun x => x <> e) live) = filter (fun x => x ∉ e :: r) live.
Proof.
  induction live as [|x l IH]; [done|]. rewrite !filter_cons.
  destruct (decide (x <> e)) as [Hne|Heq].
  - rewrite filter_cons. destruct (decide (x ∉ r)) as [Hnr|Hr].
    + rewrite decide_True; [by rewrite IH|]. intros Hin. apply elem_of_cons in Hin as [->|Hin]; done.
    + rewrite decide_False; [done|]. intros Hn. apply Hr. intros Hin. apply Hn. apply elem_of_cons. by right.
  - apply dec_stable in Heq. subst x. rewrite decide_False; [done|]. intros Hn. apply Hn. apply elem_of_cons. by left.
Qed.

Lemma pool_recycle_len p e : length (p_ents (pool_recycle p e)) = length (p_ents p).
Proof.
  unfold pool_recycle. destruct (p_ents p !! eid e) as [[link gn]|]; cbn; [by rewrite insert_length|done].
Qed.

Lemma recycle_all_inv es : forall p live issued frees,
  pool_inv p live issued frees -> NoDup es -> (forall e, e ∈ es -> e ∈ live /\ (egen e < gen_max)%N) ->
  (exists frees', pool_inv (foldl pool_recycle p es) (filter (fun x => x ∉ es) live) issued frees') /\
  length (p_ents (foldl pool_recycle p es)) = length (p_ents p).
Proof.
  induction es as [|e r IH]; intros p live issued frees I Hnd Hes; cbn [foldl].
  - split; [|done]. exists frees.
    assert (Hf : filter (fun x : Entity => x ∉ []) live = live).
    { clear. induction live as [|x l IH]; [done|]. rewrite filter_cons, decide_True by apply not_elem_of_nil. by rewrite IH. }
    by rewrite Hf.
  - apply NoDup_cons in Hnd as [Her Hnd].
    destruct (Hes e (elem_of_list_here _ _)) as [Hel Heg].
    destruct (pool_recycle_inv p live issued frees e I Hel Heg) as [I1 _].
    destruct (IH (pool_recycle p e) (filter (fun x => x <> e) live) issued (eid e :: frees) I1 Hnd) as [[frees' I2] Hlen].
    { intros e0 He0. destruct (Hes e0 (elem_of_list_further _ _ _ He0)) as [H1 H2]. split; [|done].
      apply elem_of_list_filter. split; [|done]. intros ->. done. }
    split; [exists frees'; by rewrite <- filter_notin_cons|]. by rewrite Hlen, pool_recycle_len.
Qed.

(** ** Clearing the index entries of a set of entities *)
Lemma fold_none_length es : forall idx : list (option (nat * nat)),
  length (foldl (fun i (e : Entity) => <[eid e := None]> i) idx es) = length idx.
Proof. induction es as [|e r IH]; intros idx; simpl; [done|]. by rewrite IH, insert_length. Qed.

Lemma fold_none_other es k : forall idx : list (option (nat * nat)),
  k ∉ map eid es -> foldl (fun i (e : Entity) => <[eid e := None]> i) idx es !! k = idx !! k.
Proof.
  induction es as [|e r IH]; intros idx Hk; simpl; [done|].
  simpl in Hk. apply not_elem_of_cons in Hk as [Hne Hk]. rewrite IH by done. by rewrite list_lookup_insert_ne.
Qed.

(** ** Removing all entities of one table from a consistent world *)
Lemma table_ents_live w live tid t :
  store_ok w live -> w_tables w !! tid = Some t ->
  NoDup (t_ents t) /\ (forall e, e ∈ t_ents t -> e ∈ live) /\
  (forall e tid' t' row, e ∈ t_ents t -> w_tables w !! tid' = Some t' -> t_ents t' !! row = Some e -> tid' = tid).
Proof.
  intros S Ht. split; [|split].
  - apply NoDup_alt. intros i j e Hi Hj.
    destruct (so_rows _ _ S tid t i e Ht Hi) as [_ L1]. destruct (so_rows _ _ S tid t j e Ht Hj) as [_ L2].
    rewrite L1 in L2. by injection L2.
  - intros e He. apply elem_of_list_lookup in He as [i Hi]. by destruct (so_rows _ _ S tid t i e Ht Hi).
  - intros e tid' t' row He Ht' Hrow. apply elem_of_list_lookup in He as [i Hi].
    destruct (so_rows _ _ S tid t i e Ht Hi) as [_ L1]. destruct (so_rows _ _ S tid' t' row e Ht' Hrow) as [_ L2].
    rewrite L1 in L2. by injection L2.
Qed.

Lemma remove_table_ok wc live issued tid t nd :
  world_okr2 wc live issued -> cache_ok wc ->
  w_tables wc !! tid = Some t -> w_nodes wc !! t_node t = Some nd ->
  (forall e, e ∈ t_ents t -> (egen e < gen_max)%N) ->
  let es := t_ents t in
  let w3 := upd_table (with_ip wc (foldl (fun i e => <[eid e := None]> i) (w_index wc) es)
                                  (foldl pool_recycle (w_pool wc) es)) tid (tbl_reset (zero_row nd) t) in
  let live' := filter (fun x => x ∉ es) live in
  world_okr2 w3 live' issued /\ cache_ok w3 /\ w_nodes w3 = w_nodes wc /\
  (forall e', e' ∈ live' -> ent_cells w3 e' = ent_cells wc e') /\
  (forall tid', tid' <> tid -> w_tables w3 !! tid' = w_tables wc !! tid') /\
  (forall e, e ∈ es -> pool_alive (w_pool w3) e = false).
Proof.
  intros K C Ht Hnd Hgen es w3 live'. pose proof K as [[S G] [frees P] L].
  destruct (table_ents_live wc live tid t S Ht) as (Hnodup & Hlive & Huniq).
  destruct (so_table _ _ S tid t Ht) as (nd0 & Hnd0 & Hok). rewrite Hnd in Hnd0. injection Hnd0 as <-.
  destruct (tbl_reset_ok (zero_row nd) t Hok) as (Hrok & Hre & Hrn & Hrt & Hra).
  assert (Hlt : tid < length (w_tables wc)) by (by apply lookup_lt_Some in Ht).
  assert (Htabs3 : w_tables w3 = <[tid := tbl_reset (zero_row nd) t]> (w_tables wc)) by done.
  assert (Hnodes3 : w_nodes w3 = w_nodes wc) by done.
  assert (Hidx3 : w_index w3 = foldl (fun i e => <[eid e := None]> i) (w_index wc) es) by done.
  assert (Hpool3 : w_pool w3 = foldl pool_recycle (w_pool wc) es) by done.
  assert (Hother : forall tid', tid' <> tid -> w_tables w3 !! tid' = w_tables wc !! tid').
  { intros tid' Hne. rewrite Htabs3. by rewrite list_lookup_insert_ne. }
  assert (Hself : w_tables w3 !! tid = Some (tbl_reset (zero_row nd) t)) by (rewrite Htabs3; by apply list_lookup_insert).
  (* entities outside the table keep their index entry *)
  assert (Hloc3 : forall e', e' ∈ live' -> loc w3 e' = loc wc e').
  { intros e' He'. apply elem_of_list_filter in He' as [Hnot He']. unfold loc. rewrite Hidx3.
    rewrite fold_none_other; [done|]. intros Hin. apply elem_of_list_fmap in Hin as (e & Heq & He).
    assert (e' = e); [|by subst]. apply (live_eid_inj wc live); try done. by apply Hlive. }
  assert (Hcells : forall e', e' ∈ live' -> ent_cells w3 e' = ent_cells wc e').
  { intros e' He'. unfold ent_cells. rewrite (Hloc3 e' He').
    apply elem_of_list_filter in He' as [Hnot He'].
    destruct (so_loc _ _ S e' He') as (tid' & row & t' & Hl & Ht' & Hrow). rewrite Hl. simpl.
    assert (tid' <> tid). { intros ->. rewrite Ht in Ht'. injection Ht' as <-. apply Hnot. by apply elem_of_list_lookup_2 in Hrow. }
    by rewrite Hother. }
  assert (S3 : store_ok w3 live').
  { split.
    - destruct S as [A1 _ _ _]. clear -A1. unfold live'. induction live as [|x l IH]; [constructor|].
      simpl in A1. apply NoDup_cons in A1 as [Hx Hl]. rewrite filter_cons. destruct (decide (x ∉ es)); [|by apply IH].
      simpl. constructor; [|by apply IH]. intros Hin. apply Hx. apply elem_of_list_fmap in Hin as (y & -> & Hy).
      apply elem_of_list_filter in Hy as [_ Hy]. apply elem_of_list_fmap. by exists y.
    - intros e' He'. pose proof He' as He''. apply elem_of_list_filter in He'' as [Hnot Hel].
      destruct (so_loc _ _ S e' Hel) as (tid' & row & t' & Hl & Ht' & Hrow).
      assert (tid' <> tid). { intros ->. rewrite Ht in Ht'. injection Ht' as <-. apply Hnot. by apply elem_of_list_lookup_2 in Hrow. }
      exists tid', row, t'. rewrite (Hloc3 e' He'), Hother by done. done.
    - intros tid' t' row e' Ht' Hrow. destruct (decide (tid' = tid)) as [->|Hne].
      + rewrite Hself in Ht'. injection Ht' as <-. by rewrite Hre in Hrow.
      + rewrite Hother in Ht' by done. destruct (so_rows _ _ S tid' t' row e' Ht' Hrow) as [Hel Hl].
        assert (Hnot : e' ∉ es).
        { intros Hin. apply Hne. by apply (Huniq e' tid' t' row Hin Ht' Hrow). }
        assert (He' : e' ∈ live') by (apply elem_of_list_filter; done).
        split; [done|]. by rewrite (Hloc3 e' He').
    - intros tid' t' Ht'. rewrite Hnodes3. destruct (decide (tid' = tid)) as [->|Hne].
      + rewrite Hself in Ht'. injection Ht' as <-. exists nd. by rewrite Hrn.
      + rewrite Hother in Ht' by done. by apply (so_table _ _ S tid' t' Ht'). }
  assert (G3 : rgraph_ok w3).
  { eapply (rgraph_ok_same_nodes wc w3); try done.
    - intros tid0 t0 Ht0. destruct (decide (tid0 = tid)) as [->|Hne].
      + exists (tbl_reset (zero_row nd) t). rewrite Ht in Ht0. injection Ht0 as <-. repeat split; try done; intros; congruence.
      + exists t0. rewrite Hother by done. repeat split; try done; intros; congruence.
    - intros tid0 t0 Ht0. apply lookup_lt_is_Some. rewrite Htabs3 in Ht0. apply lookup_lt_Some in Ht0. by rewrite insert_length in Ht0. }
  destruct (recycle_all_inv es (w_pool wc) live issued frees P Hnodup) as [[frees' P3] Hplen].
  { intros e He. split; [by apply Hlive|by apply Hgen]. }
  assert (K3 : world_okr2 w3 live' issued).
  { split; [by split|exists frees'; by rewrite Hpool3|]. by rewrite Hidx3, fold_none_length, Hpool3, Hplen. }
  split; [done|]. split.
  { (* the cache: same nodes, same table shapes *)
    apply (cache_ok_sim wc w3); try done.
    - by apply nodes_same_eq.
    - intros tid0. destruct (decide (tid0 = tid)) as [->|Hne]; [rewrite Ht, Hself; by rewrite Hrn, Hrt, Hra|].
      rewrite Hother by done. by destruct (w_tables wc !! tid0). }
  split; [done|]. split; [done|]. split; [done|].
  intros e He. rewrite Hpool3.
  (* a recycled handle is dead *)
  assert (Hnl : e ∉ live') by (intros Hin; apply elem_of_list_filter in Hin as [Hn _]; done).
  assert (Hiss : e ∈ issued) by (by apply (pi_live_issued _ _ _ _ P), Hlive).
  pose proof (pi_issued_dead _ _ _ _ P3 e Hiss Hnl) as Hd. unfold pool_alive, pool_alive_opt, slot_gen in *.
  destruct (p_ents (foldl pool_recycle (w_pool wc) es) !! eid e) as [[lk g]|]; [|done]. simpl.
  apply N.eqb_neq. lia.
Qed.

(** ** remove_table_entities on a consistent world *)
Lemma okr2_cleanup_table w live issued tid :
  world_okr2 w live issued -> cache_ok w ->
  world_okr2 (cleanup_table w tid) live issued /\ cache_ok (cleanup_table w tid) /\
  nodes_same w (cleanup_table w tid) /\ (forall e, ent_cells (cleanup_table w tid) e = ent_cells w e) /\
  w_pool (cleanup_table w tid) = w_pool w.
Proof.
  intros [[S G] [frees P] L] C.
  destruct (cleanup_table_keeps w live tid S) as (S1 & Hp & Hc).
  pose proof (cleanup_table_rok w tid G) as G1. pose proof (cache_ok_cleanup_table w tid G C) as C1.
  destruct (cleanup_table_side w tid) as (B1&B2&_).
  split; [split; [by split|exists frees; by rewrite B1|by rewrite B2, B1]|].
  split; [done|]. split; [apply cleanup_table_nodes|]. done.
Qed.

Theorem remove_table_entities_ok w live issued tid t :
  world_okr2 w live issued -> cache_ok w -> w_tables w !! tid = Some t -> t_ents t <> [] ->
  (forall e, e ∈ t_ents t -> (egen e < gen_max)%N) ->
  let w' := fst (remove_table_entities w tid) in
  let live' := filter (fun x => x ∉ t_ents t) live in
  world_okr2 w' live' issued /\ cache_ok w' /\ nodes_same w w' /\
  w_reg w' = w_reg w /\ w_tb w' = w_tb w /\ w_locks w' = w_locks w /\ w_listener w' = w_listener w /\
  (forall e', e' ∈ live' -> ent_cells w' e' = ent_cells w e') /\
  (forall tid' t', tid' <> tid -> w_tables w !! tid' = Some t' -> t_ents t' <> [] -> w_tables w' !! tid' = Some t').
Proof.
  intros K C Ht Hne Hgen w' live'. pose proof K as [[S G] _ _].
  destruct (so_table _ _ S tid t Ht) as (nd & Hnd & Hok).
  unfold w', remove_table_entities. rewrite Ht, Hnd.
  change (foldl _ (w, []) (t_ents t)) with (foldl (rm_step nd (t_target t)) (w, []) (t_ents t)).
  pose proof (loop_factor nd (t_target t) (t_ents t) w []) as Hf.
  destruct (foldl (rm_step nd (t_target t)) (w, []) (t_ents t)) as [w1 evs]. cbn [fst] in Hf. subst w1.
  destruct (clean_all_ok (t_ents t) w live issued K C) as (Kc & Cc & Nc & A1 & A2 & A3 & A4 & A5 & A6 & A7 & A8).
  set (wc := foldl clean_for w (t_ents t)) in *.
  assert (Htc : w_tables wc !! tid = Some t) by (by apply A8).
  destruct (Nc _ nd Hnd) as (ndc & Hndc & Hm & Hi & Hr).
  assert (Hzr : zero_row ndc = zero_row nd) by (unfold zero_row; by rewrite Hi).
  change (w_tables (with_ip wc _ _)) with (w_tables wc). rewrite Htc.
  destruct (remove_table_ok wc live issued tid t ndc Kc Cc Htc Hndc Hgen) as (K3 & C3 & Hn3 & Hcells3 & Hoth3 & _).
  rewrite Hzr in *. rewrite A2, A1 in *.
  set (w3 := upd_table (with_ip wc (foldl (fun i e => <[eid e := None]> i) (w_index w) (t_ents t))
                                  (foldl pool_recycle (w_pool w) (t_ents t))) tid (tbl_reset (zero_row nd) t)) in *.
  destruct (okr2_cleanup_table w3 live' issued tid K3 C3) as (K4 & C4 & N4 & Hc4 & Hp4).
  cbn [fst]. split; [done|]. split; [done|]. split.
  { eapply nodes_same_trans; [exact Nc|]. eapply nodes_same_trans; [apply (nodes_same_eq wc w3); done|exact N4]. }
  pose proof (frame_cleanup_table w3 tid) as F4.
  split; [rewrite (fr_reg _ _ F4); exact A3|]. split; [rewrite (fr_tb _ _ F4); exact A4|].
  split; [rewrite (fr_locks _ _ F4); exact A5|]. split; [rewrite (fr_listener _ _ F4); exact A6|].
  split.
  - intros e' He'. rewrite Hc4, (Hcells3 e' He'). apply A7.
  - intros tid' t' Hne' Ht' Hnonempty.
    assert (Hoth4 : w_tables (cleanup_table w3 tid) !! tid' = w_tables w3 !! tid').
    { unfold cleanup_table. destruct (w_tables w3 !! tid) as [tt|]; [|done].
      destruct (w_nodes w3 !! t_node tt); [|done]. destruct (_ || _); [done|]. destruct (_ || _); [done|].
      unfold retire_table. destruct (w_tables w3 !! tid) as [t5|]; [|done]. destruct (w_nodes w3 !! t_node t5); [|done].
      simpl. by rewrite list_lookup_insert_ne. }
    rewrite Hoth4, Hoth3 by done. by apply A8.
Qed.

(** ** Tables only lose entities; no table appears or disappears *)
Definition shrink (w w' : world) : Prop :=
  (forall tid t, w_tables w !! tid = Some t ->
    exists t', w_tables w' !! tid = Some t' /\ (t_ents t' = t_ents t \/ t_ents t' = [])) /\
  length (w_tables w') = length (w_tables w).
Lemma shrink_refl w : shrink w w.
Proof. split; [|done]. intros tid t Ht. exists t. split; [done|by left]. Qed.
Lemma shrink_trans a b c : shrink a b -> shrink b c -> shrink a c.
Proof.
  intros [H1 L1] [H2 L2]. split; [|congruence]. intros tid t Ht.
  destruct (H1 tid t Ht) as (t1 & Ht1 & Hc1). destruct (H2 tid t1 Ht1) as (t2 & Ht2 & Hc2).
  exists t2. split; [done|]. destruct Hc1 as [E1|E1], Hc2 as [E2|E2]; [left; congruence|by right|right; congruence|by right].
Qed.
Lemma shrink_tables w w' : w_tables w' = w_tables w -> shrink w w'.
Proof. intros H. split; [|by rewrite H]. intros tid t Ht. exists t. rewrite H. split; [done|by left]. Qed.

Lemma tbl_reset_ents zr t : t_ents (tbl_reset zr t) = [].
Proof. unfold tbl_reset, tlen. destruct (length (t_ents t) =? 0) eqn:H; [|done]. apply Nat.eqb_eq in H. by destruct (t_ents t). Qed.

Lemma insert_reset_shrink w tid t1 (f : table -> table) :
  w_tables w !! tid = Some t1 -> t_ents (f t1) = [] ->
  forall w', w_tables w' = <[tid := f t1]> (w_tables w) -> shrink w w'.
Proof.
  intros Ht1 He w' Hw'. split; [|by rewrite Hw', insert_length].
  intros tid' t' Ht'. rewrite Hw'. destruct (decide (tid' = tid)) as [->|Hne].
  - eexists. rewrite list_lookup_insert by (by apply lookup_lt_Some in Ht1). split; [done|]. by right.
  - exists t'. rewrite list_lookup_insert_ne by done. split; [done|by left].
Qed.

Lemma retire_table_shrink w tid : shrink w (retire_table w tid).
Proof.
  unfold retire_table. destruct (w_tables w !! tid) as [t|] eqn:Ht; [|apply shrink_refl].
  destruct (w_nodes w !! t_node t) as [nd|]; [|apply shrink_refl].
  apply (insert_reset_shrink w tid t (fun t0 => tbl_reset (zero_row nd) t0 <| t_active := false |>) Ht); [|done].
  simpl. apply tbl_reset_ents.
Qed.

Lemma cleanup_table_shrink w tid : shrink w (cleanup_table w tid).
Proof.
  unfold cleanup_table. destruct (w_tables w !! tid) as [t|]; [|apply shrink_refl].
  destruct (w_nodes w !! t_node t); [|apply shrink_refl].
  destruct (_ || _); [apply shrink_refl|]. destruct (_ || _); [apply shrink_refl|apply retire_table_shrink].
Qed.

Lemma cleanup_tables_for_shrink w e : shrink w (cleanup_tables_for w e).
Proof.
  unfold cleanup_tables_for. generalize (seq 0 (length (w_nodes w))). intros l. revert w.
  induction l as [|nid r IH]; intros w; simpl; [apply shrink_refl|].
  eapply shrink_trans; [|apply IH].
  destruct (w_nodes w !! nid) as [nd|]; [|apply shrink_refl]. destruct (assoc_get e (n_tmap nd)) as [tid|]; [|apply shrink_refl].
  destruct (w_tables w !! tid) as [t|]; [|apply shrink_refl]. destruct (tlen t =? 0); [apply retire_table_shrink|apply shrink_refl].
Qed.

Lemma clean_for_shrink w e : shrink w (clean_for w e).
Proof.
  unfold clean_for. destruct (tbit w (eid e)); [|apply shrink_refl].
  eapply shrink_trans; [apply cleanup_tables_for_shrink|]. by apply shrink_tables.
Qed.

Lemma remove_table_entities_shrink w tid : shrink w (fst (remove_table_entities w tid)).
Proof.
  unfold remove_table_entities. destruct (w_tables w !! tid) as [t|] eqn:Ht; [|apply shrink_refl].
  destruct (w_nodes w !! t_node t) as [nd|]; [|apply shrink_refl].
  change (foldl _ (w, []) (t_ents t)) with (foldl (rm_step nd (t_target t)) (w, []) (t_ents t)).
  pose proof (loop_factor nd (t_target t) (t_ents t) w []) as Hf.
  destruct (foldl (rm_step nd (t_target t)) (w, []) (t_ents t)) as [w1 evs]. cbn [fst] in Hf. subst w1. cbn [fst].
  assert (Hc : forall es w0, shrink w0 (foldl clean_for w0 es)).
  { clear. induction es as [|e r IH]; intros w0; simpl; [apply shrink_refl|].
    eapply shrink_trans; [apply clean_for_shrink|apply IH]. }
  specialize (Hc (t_ents t) w).
  eapply shrink_trans; [exact Hc|]. eapply shrink_trans; [|apply cleanup_table_shrink].
  set (wi := with_ip _ _ _). assert (Hwi : w_tables wi = w_tables (foldl clean_for w (t_ents t))) by done.
  destruct (w_tables wi !! tid) as [t1|] eqn:Ht1; [|by apply shrink_tables].
  rewrite Hwi in Ht1. apply (insert_reset_shrink _ tid t1 (tbl_reset (zero_row nd)) Ht1); [apply tbl_reset_ents|done].
Qed.

(** ** The loop over the matching tables *)
Definition rm_tables_step : world * list event -> nat -> world * list event :=
  fun '(w, evs) tid =>
    if table_skip w tid then (w, evs)
    else let '(w1, ev) := remove_table_entities w tid in (w1, evs ++ ev).

Lemma table_skip_ents w tid : table_skip w tid = true <-> tbl_ents w tid = [].
Proof.
  unfold table_skip, tbl_ents. destruct (w_tables w !! tid) as [t|]; [|done]. unfold tlen. rewrite Nat.eqb_eq.
  by destruct (t_ents t).
Qed.

Lemma filter_notin_app (l1 l2 live : list Entity) :
  filter (fun x => x ∉ l2) (filter (fun x => x ∉ l1) live) = filter (fun x => x ∉ l1 ++ l2) live.
Proof.
  induction live as [|x l IH]; [done|]. rewrite !filter_cons.
  destruct (decide (x ∉ l1)) as [H1|H1].
  - rewrite filter_cons. destruct (decide (x ∉ l2)) as [H2|H2].
    + rewrite decide_True; [by rewrite IH|]. intros Hin. apply elem_of_app in Hin as [?|?]; done.
    + rewrite decide_False; [done|]. intros Hn. apply H2. intros Hin. apply Hn. apply elem_of_app. by right.
  - rewrite decide_False; [done|]. intros Hn. apply H1. intros Hin. apply Hn. apply elem_of_app. by left.
Qed.

Lemma rm_loop_ok issued tids : forall w live evs0,
  NoDup tids -> world_okr2 w live issued -> cache_ok w ->
  (forall e, e ∈ table_ents w tids -> (egen e < gen_max)%N) ->
  let w' := fst (foldl rm_tables_step (w, evs0) tids) in
  let live' := filter (fun x => x ∉ table_ents w tids) live in
  world_okr2 w' live' issued /\ cache_ok w' /\ nodes_same w w' /\
  w_reg w' = w_reg w /\ w_tb w' = w_tb w /\ w_locks w' = w_locks w /\ w_listener w' = w_listener w /\
  (forall e', e' ∈ live' -> ent_cells w' e' = ent_cells w e').
Proof.
  induction tids as [|tid r IH]; intros w live evs0 Hnd K C Hgen; cbn [foldl fst].
  - split.
    + assert (Hf : filter (fun x : Entity => x ∉ table_ents w []) live = live).
      { clear. induction live as [|x l IH]; [done|]. rewrite filter_cons, decide_True by apply not_elem_of_nil. by rewrite IH. }
      by rewrite Hf.
    + split; [done|]. split; [apply nodes_same_refl|]. done.
  - apply NoDup_cons in Hnd as [Hnotin Hnd].
    destruct (table_skip w tid) eqn:Hskip.
    + (* an empty table contributes nothing *)
      assert (Hstep : rm_tables_step (w, evs0) tid = (w, evs0)) by (unfold rm_tables_step; by rewrite Hskip).
      rewrite Hstep. apply table_skip_ents in Hskip.
      assert (Heq : table_ents w (tid :: r) = table_ents w r) by (unfold table_ents; simpl; by rewrite Hskip).
      rewrite Heq in *. by apply IH.
    + assert (Hne : tbl_ents w tid <> []) by (intros H; apply table_skip_ents in H; congruence).
      destruct (w_tables w !! tid) as [t|] eqn:Ht; [|unfold tbl_ents in Hne; by rewrite Ht in Hne].
      assert (Htb : tbl_ents w tid = t_ents t) by (unfold tbl_ents; by rewrite Ht). rewrite Htb in Hne.
      destruct (remove_table_entities_ok w live issued tid t K C Ht Hne) as (K1 & C1 & N1 & A1 & A2 & A3 & A4 & A5 & A6).
      { intros e He. apply Hgen. unfold table_ents. simpl. apply elem_of_app. left. by rewrite Htb. }
      pose proof (remove_table_entities_shrink w tid) as [Hsh Hshl].
      assert (Hstep : rm_tables_step (w, evs0) tid = ((remove_table_entities w tid).1, evs0 ++ (remove_table_entities w tid).2)).
      { unfold rm_tables_step. rewrite Hskip. by destruct (remove_table_entities w tid). }
      rewrite Hstep. destruct (remove_table_entities w tid) as [w1 ev]. cbn [fst snd] in *.
      (* the remaining tables hold what they held *)
      assert (Hrest : forall tid', tid' ∈ r -> tbl_ents w1 tid' = tbl_ents w tid').
      { intros tid' Hin. assert (tid' <> tid) by (intros ->; done). unfold tbl_ents.
        destruct (w_tables w !! tid') as [t'|] eqn:Ht'.
        - destruct (t_ents t') as [|x l] eqn:He.
          + destruct (Hsh tid' t' Ht') as (t'' & -> & [Hc|Hc]); congruence.
          + rewrite (A6 tid' t' H Ht'); [done|]. by rewrite He.
        - destruct (w_tables w1 !! tid') as [t1|] eqn:Ht1; [|done].
          apply lookup_ge_None in Ht'. apply lookup_lt_Some in Ht1. lia. }
      assert (Hte : table_ents w1 r = table_ents w r).
      { unfold table_ents. clear -Hrest. induction r as [|x l IH]; [done|]. simpl.
        rewrite (Hrest x (elem_of_list_here _ _)), IH; [done|]. intros y Hy. apply Hrest. by apply elem_of_list_further. }
      destruct (IH w1 (filter (fun x => x ∉ t_ents t) live) (evs0 ++ ev) Hnd K1 C1) as (K2 & C2 & N2 & B1 & B2 & B3 & B4 & B5).
      { intros e He. rewrite Hte in He. apply Hgen. unfold table_ents in *. simpl. apply elem_of_app. by right. }
      rewrite Hte, filter_notin_app in K2, B5.
      assert (Heq : table_ents w (tid :: r) = t_ents t ++ table_ents w r) by (unfold table_ents; simpl; by rewrite Htb).
      rewrite Heq. split; [done|]. split; [done|]. split; [by eapply nodes_same_trans|].
      do 4 (split; [congruence|]).
      intros e' He'. rewrite (B5 e' He'). apply A5.
      apply elem_of_list_filter in He' as [Hn He']. apply elem_of_list_filter. split; [|done].
      intros Hin. apply Hn. apply elem_of_app. by left.
Qed.

(** ** Batch.RemoveEntities *)
Definition a_remove_all (A : astate) (L : list Entity) : astate :=
  foldl (fun A e => astep A (ORemoveEntity e) (Ok VUnit)) A L.

Lemma a_remove_all_fields L : forall A,
  as_live (a_remove_all A L) = filter (fun x => x ∉ L) (as_live A) /\
  as_issued (a_remove_all A L) = as_issued A /\ as_reg (a_remove_all A L) = as_reg A.
Proof.
  induction L as [|e r IH]; intros A.
  - split; [|done]. simpl. clear. induction (as_live A) as [|x l IH]; [done|].
    rewrite filter_cons, decide_True by apply not_elem_of_nil. by rewrite <- IH.
  - cbn [a_remove_all foldl]. fold (a_remove_all (astep A (ORemoveEntity e) (Ok VUnit)) r).
    destruct (IH (astep A (ORemoveEntity e) (Ok VUnit))) as (H1 & H2 & H3). rewrite H1, H2, H3. simpl.
    split; [|done]. apply filter_notin_cons.
Qed.

Lemma a_remove_all_get L : forall A e, e ∉ L -> assoc_get e (as_ents (a_remove_all A L)) = assoc_get e (as_ents A).
Proof.
  induction L as [|e0 r IH]; intros A e Hn; [done|].
  cbn [a_remove_all foldl]. fold (a_remove_all (astep A (ORemoveEntity e0) (Ok VUnit)) r).
  apply not_elem_of_cons in Hn as [Hne Hn]. rewrite IH by done. simpl. rewrite assoc_get_del.
  by rewrite (proj2 (ent_eqb_neq e e0) Hne).
Qed.

Theorem batch_remove_refines w A f w' n evs :
  R w A -> cache_ok w ->
  (forall e, e ∈ table_ents w (get_tables w f) -> (egen e < gen_max)%N) ->
  op_remove_entities w (FPlain f) = (w', Ok (VNat n), evs) ->
  let L := table_ents w (get_tables w f) in
  n = length L /\ NoDup L /\ (forall e, e ∈ L <-> (e ∈ as_live A /\ ent_matches w f e)) /\
  R w' (a_remove_all A L) /\ cache_ok w'.
Proof.
  intros HR C Hgen H L. pose proof HR as [K Hr Hu He].
  destruct (get_tables_exact w (as_live A) f (r2_ok _ _ _ K)) as [HLnd HLmem].
  unfold op_remove_entities in H. rewrite Hu in H. cbn [arg_tables] in H.
  destruct (locks_lock (w_tb w) (w_locks w)) as [[l b]|] eqn:Hlk; [|done].
  set (wl := w <| w_locks := l |>) in *.
  assert (Kl : world_okr2 wl (as_live A) (as_issued A)).
  { destruct K as [[S G] P Li]. split; [split|done|done].
    - destruct S as [A1 A2 A3 A4]. by split.
    - eapply (rgraph_ok_same_nodes w); try done; intros tid t Ht; exists t; repeat split; try done; intros; congruence. }
  assert (Cl : cache_ok wl) by done.
  change (foldl _ (wl, []) (get_tables w f)) with (foldl rm_tables_step (wl, []) (get_tables w f)) in H.
  assert (Htabs : table_ents wl (get_tables w f) = L) by done.
  assert (Hndt : NoDup (get_tables w f)).
  { rewrite get_tables_contrib. by apply (selected_nodup w (as_live A)), K. }
  destruct (rm_loop_ok (as_issued A) (get_tables w f) wl (as_live A) [] Hndt Kl Cl) as (K1 & C1 & N1 & A1 & A2 & A3 & A4 & A5).
  { intros e Hin. apply Hgen. exact Hin. }
  rewrite Htabs in K1, A5.
  destruct (foldl rm_tables_step (wl, []) (get_tables w f)) as [w1 evs1]. cbn [fst] in *.
  injection H as <- <- _.
  split; [by rewrite total_len_ents|]. split; [done|]. split; [done|].
  destruct (a_remove_all_fields L A) as (Hal & Hai & Har).
  set (wf := w1 <| w_locks := default (w_locks w1) (locks_unlock (w_locks w1) b) |>).
  assert (Kf : world_okr2 wf (filter (fun x => x ∉ L) (as_live A)) (as_issued A)).
  { destruct K1 as [[S G] P Li]. split; [split|done|done].
    - destruct S as [B1 B2 B3 B4]. by split.
    - eapply (rgraph_ok_same_nodes w1); try done; intros tid t Ht; exists t; repeat split; try done; intros; congruence. }
  split; [|done].
  split.
  - by rewrite Hal, Hai.
  - rewrite Har, Hr. simpl. by rewrite A1.
  - unfold is_locked. simpl. rewrite A3. simpl. unfold is_locked in Hu. by apply (lock_unlock_unlocked (w_tb w) (w_locks w)).
  - rewrite Hal, Har. intros e Hin. pose proof Hin as Hin'. apply elem_of_list_filter in Hin' as [Hn Hl].
    rewrite a_remove_all_get by done. destruct (He e Hl) as (a0 & Ha0 & V0). exists a0. split; [done|].
    assert (Hc : ent_cells wf e = ent_cells w e).
    { transitivity (ent_cells w1 e); [by apply ent_cells_same|]. rewrite (A5 e Hin). by apply ent_cells_same. }
    assert (HN : nodes_same w wf).
    { eapply nodes_same_trans; [apply (nodes_same_eq w wl); done|]. eapply nodes_same_trans; [exact N1|by apply nodes_same_eq]. }
    destruct (views_same w wf (as_live A) e (wr_store _ _ (r2_ok _ _ _ K)) Hl HN Hc) as (V1 & V2 & _ & V4).
    apply (views_keep w); try done; simpl; by rewrite A2.
Qed.

(** Non-vacuity: removing the three entities of a table, two of which are relation targets
    of other entities, in one batch gives the pool, index and tables of three single
    removals (the children become orphans in both). *)
Definition demo_br_world : world :=
  run (world_init 2 2 64)
    [ORegister 10 false false; ORegister 11 true false; ONew [0]; ONew [0];
     OBNew (mkB [0; 1] None (Some 1)) (Some (mkE 1 0)); OBNew (mkB [0; 1] None (Some 1)) (Some (mkE 1 0));
     OBNew (mkB [0; 1] None (Some 1)) (Some (mkE 2 0)); ONew [0]].
Example demo_batch_remove :
  let r := step demo_br_world (OBatchRemove (FPlain (FMask 1 2))) in
  let ws := run demo_br_world [ORemoveEntity (mkE 1 0); ORemoveEntity (mkE 2 0); ORemoveEntity (mkE 6 0)] in
  snd (fst r) = Ok (VNat 3) /\ w_pool (res_world r) = w_pool ws /\ w_index (res_world r) = w_index ws /\
  w_tables (res_world r) = w_tables ws /\ table_ents demo_br_world (get_tables demo_br_world (FMask 1 2)) = [mkE 1 0; mkE 2 0; mkE 6 0].
Proof. vm_compute. done. Qed.

(** ** The events of Batch.RemoveEntities: one removal event per matching entity, in
    processing order, each the event of the single removal (all-subscribing listener) *)
From Arche Require Import Proofs.Subs Proofs.EventsExact.

Definition rm_ev (w : world) (e : Entity) : list event :=
  match ent_mask w e, ent_rel w e, ent_target w e with
  | Some m, Some r, Some tg =>
      [mkEv e 0 m [] (mask_ids (w_tb w) m) r None tg
            (subscription false true false (negb (bool_decide (mask_ids (w_tb w) m = []))) (bool_decide (is_Some r)) (bool_decide (is_Some r))) true 0]
  | _, _, _ => []
  end.

Lemma ev_remove_listener w w' e nd tg : w_listener w' = w_listener w -> ev_remove w' e nd tg = ev_remove w e nd tg.
Proof. intros H. unfold ev_remove. by rewrite H. Qed.

Lemma clean_for_listener w e : w_listener (clean_for w e) = w_listener w.
Proof.
  unfold clean_for. destruct (tbit w (eid e)); [|done]. simpl. apply (fr_listener _ _ (frame_cleanup_tables_for w e)).
Qed.

Lemma rm_loop_events nd tg es : forall w evs,
  snd (foldl (rm_step nd tg) (w, evs) es) = evs ++ flat_map (fun e => ev_remove w e nd tg) es /\
  w_listener (fst (foldl (rm_step nd tg) (w, evs) es)) = w_listener w.
Proof.
  induction es as [|e r IH]; intros w evs; [simpl; by rewrite app_nil_r|].
  change (foldl (rm_step nd tg) (w, evs) (e :: r)) with (foldl (rm_step nd tg) (rm_step nd tg (w, evs) e) r).
  rewrite rm_step_eq. set (w1 := with_ip _ _ _).
  assert (Hl : w_listener w1 = w_listener w) by (unfold w1; apply clean_for_listener).
  destruct (IH w1 (evs ++ ev_remove w e nd tg)) as [H1 H2]. rewrite H1, H2. split; [|done].
  cbn [flat_map]. rewrite <- app_assoc. f_equal. f_equal.
  apply flat_map_ext. intros e0. by apply ev_remove_listener.
Qed.

Lemma remove_table_events w tid t nd :
  w_tables w !! tid = Some t -> w_nodes w !! t_node t = Some nd ->
  snd (remove_table_entities w tid) = flat_map (fun e => ev_remove w e nd (t_target t)) (t_ents t).
Proof.
  intros Ht Hnd. unfold remove_table_entities. rewrite Ht, Hnd.
  change (foldl _ (w, []) (t_ents t)) with (foldl (rm_step nd (t_target t)) (w, []) (t_ents t)).
  destruct (rm_loop_events nd (t_target t) (t_ents t) w []) as [H1 _].
  destruct (foldl (rm_step nd (t_target t)) (w, []) (t_ents t)) as [w1 evs]. simpl in *. done.
Qed.

Lemma ev_remove_exact w live e tid t nd row :
  world_okr w live -> w_listener w = Some lall -> w_tables w !! tid = Some t -> w_nodes w !! t_node t = Some nd ->
  t_ents t !! row = Some e -> ev_remove w e nd (t_target t) = rm_ev w e.
Proof.
  intros [S G] Hlis Ht Hnd Hrow. destruct (so_rows _ _ S tid t row e Ht Hrow) as [Hlive Hloc].
  destruct (views_of_row w live e tid row t nd S Hlive Hloc Ht Hnd) as (V1 & V2 & V3).
  unfold rm_ev. rewrite V1, V2, V3. unfold ev_remove. rewrite Hlis, (rg_ids _ G _ _ Hnd).
  set (bits := subscription false true false (negb (bool_decide (mask_ids (w_tb w) (n_mask nd) = []))) (node_has_rel nd) (node_has_rel nd)).
  rewrite recipients_all by apply subscription_lt.
  assert (Hnz : (bits =? 0)%N = false) by (unfold bits; by destruct (negb _), (node_has_rel nd)).
  rewrite Hnz. done.
Qed.

Lemma flat_map_ext_mem' {X Y} (f g : X -> list Y) l : (forall x, x ∈ l -> f x = g x) -> flat_map f l = flat_map g l.
Proof.
  induction l as [|x r IH]; intros H; [done|]. simpl. rewrite (H x (elem_of_list_here _ _)), IH; [done|].
  intros y Hy. apply H. by apply elem_of_list_further.
Qed.

Lemma rm_loop_events_ok issued tids : forall w live evs0,
  NoDup tids -> world_okr2 w live issued -> cache_ok w -> w_listener w = Some lall ->
  (forall e, e ∈ table_ents w tids -> (egen e < gen_max)%N) ->
  snd (foldl rm_tables_step (w, evs0) tids) = evs0 ++ flat_map (rm_ev w) (table_ents w tids).
Proof.
  induction tids as [|tid r IH]; intros w live evs0 Hnd K C Hlis Hgen; [simpl; by rewrite app_nil_r|].
  apply NoDup_cons in Hnd as [Hnotin Hnd]. cbn [foldl].
  destruct (table_skip w tid) eqn:Hskip.
  - assert (Hstep : rm_tables_step (w, evs0) tid = (w, evs0)) by (unfold rm_tables_step; by rewrite Hskip).
    rewrite Hstep. apply table_skip_ents in Hskip.
    assert (Heq : table_ents w (tid :: r) = table_ents w r) by (unfold table_ents; simpl; by rewrite Hskip).
    rewrite Heq in *. by apply (IH w live).
  - assert (Hne : tbl_ents w tid <> []) by (intros H; apply table_skip_ents in H; congruence).
    destruct (w_tables w !! tid) as [t|] eqn:Ht; [|unfold tbl_ents in Hne; by rewrite Ht in Hne].
    assert (Htb : tbl_ents w tid = t_ents t) by (unfold tbl_ents; by rewrite Ht). rewrite Htb in Hne.
    pose proof K as [[S G] _ _]. destruct (so_table _ _ S tid t Ht) as (nd & Hndd & _).
    destruct (remove_table_entities_ok w live issued tid t K C Ht Hne) as (K1 & C1 & N1 & A1 & A2 & A3 & A4 & A5 & A6).
    { intros e He. apply Hgen. unfold table_ents. simpl. apply elem_of_app. left. by rewrite Htb. }
    pose proof (remove_table_entities_shrink w tid) as [Hsh Hshl].
    pose proof (remove_table_events w tid t nd Ht Hndd) as Hev.
    assert (Hstep : rm_tables_step (w, evs0) tid = ((remove_table_entities w tid).1, evs0 ++ (remove_table_entities w tid).2)).
    { unfold rm_tables_step. rewrite Hskip. by destruct (remove_table_entities w tid). }
    rewrite Hstep. destruct (remove_table_entities w tid) as [w1 ev]. cbn [fst snd] in *.
    assert (Hrest : forall tid', tid' ∈ r -> tbl_ents w1 tid' = tbl_ents w tid').
    { intros tid' Hin. assert (tid' <> tid) by (intros ->; done). unfold tbl_ents.
      destruct (w_tables w !! tid') as [t'|] eqn:Ht'.
      - destruct (t_ents t') as [|x l] eqn:Hee.
        + destruct (Hsh tid' t' Ht') as (t'' & -> & [Hc|Hc]); congruence.
        + rewrite (A6 tid' t' H Ht'); [done|]. by rewrite Hee.
      - destruct (w_tables w1 !! tid') as [t1|] eqn:Ht1; [|done].
        apply lookup_ge_None in Ht'. apply lookup_lt_Some in Ht1. lia. }
    assert (Hte : table_ents w1 r = table_ents w r).
    { unfold table_ents. clear -Hrest. induction r as [|x l IHl]; [done|]. simpl.
      rewrite (Hrest x (elem_of_list_here _ _)), IHl; [done|]. intros y Hy. apply Hrest. by apply elem_of_list_further. }
    rewrite (IH w1 (filter (fun x => x ∉ t_ents t) live) (evs0 ++ ev) Hnd K1 C1).
    + rewrite Hte. assert (Heq : table_ents w (tid :: r) = t_ents t ++ table_ents w r) by (unfold table_ents; simpl; by rewrite Htb).
      rewrite Heq, flat_map_app, <- app_assoc. f_equal. f_equal.
      * rewrite Hev. apply flat_map_ext_mem'. intros e He. apply elem_of_list_lookup in He as [row Hrow].
        by apply (ev_remove_exact w live e tid t nd row (r2_ok _ _ _ K) Hlis Ht Hndd Hrow).
      * (* the remaining entities look the same in w1 *)
        apply flat_map_ext_mem'. intros e He. unfold rm_ev.
        assert (Hlive' : e ∈ filter (fun x => x ∉ t_ents t) live).
        { unfold table_ents in He. apply elem_of_list_In, in_flat_map in He as (tid' & Hin' & Hmem). apply elem_of_list_In in Hin', Hmem.
          assert (tid' <> tid) by (intros ->; done). unfold tbl_ents in Hmem.
          destruct (w_tables w !! tid') as [t'|] eqn:Ht'; [|by apply elem_of_nil in Hmem].
          apply elem_of_list_lookup in Hmem as [row Hrow]. destruct (so_rows _ _ S tid' t' row e Ht' Hrow) as [Hl Hloc].
          apply elem_of_list_filter. split; [|done]. intros Hm. apply elem_of_list_lookup in Hm as [i Hi].
          destruct (so_rows _ _ S tid t i e Ht Hi) as [_ Hloc2]. rewrite Hloc in Hloc2. injection Hloc2 as -> _. done. }
        assert (Hl0 : e ∈ live) by (by apply elem_of_list_filter in Hlive' as [_ ?]).
        destruct (views_same w w1 live e S Hl0 N1 (A5 e Hlive')) as (X1 & X2 & X3 & _).
        by rewrite X1, X2, X3, A2.
    + congruence.
    + intros e He. rewrite Hte in He. apply Hgen. unfold table_ents in *. simpl. apply elem_of_app. by right.
Qed.

Theorem batch_remove_events_exact w A f w' n evs :
  R w A -> cache_ok w -> w_listener w = Some lall ->
  (forall e, e ∈ table_ents w (get_tables w f) -> (egen e < gen_max)%N) ->
  op_remove_entities w (FPlain f) = (w', Ok (VNat n), evs) ->
  evs = flat_map (rm_ev w) (table_ents w (get_tables w f)).
Proof.
  intros HR C Hlis Hgen H. pose proof HR as [K Hr Hu He].
  unfold op_remove_entities in H. rewrite Hu in H. cbn [arg_tables] in H.
  destruct (locks_lock (w_tb w) (w_locks w)) as [[l b]|] eqn:Hlk; [|done].
  set (wl := w <| w_locks := l |>) in *.
  assert (Kl : world_okr2 wl (as_live A) (as_issued A)).
  { destruct K as [[S G] P Li]. split; [split|done|done].
    - destruct S as [A1 A2 A3 A4]. by split.
    - eapply (rgraph_ok_same_nodes w); try done; intros tid t Ht; exists t; repeat split; try done; intros; congruence. }
  change (foldl _ (wl, []) (get_tables w f)) with (foldl rm_tables_step (wl, []) (get_tables w f)) in H.
  assert (Hndt : NoDup (get_tables w f)).
  { rewrite get_tables_contrib. by apply (selected_nodup w (as_live A)), K. }
  pose proof (rm_loop_events_ok (as_issued A) (get_tables w f) wl (as_live A) [] Hndt Kl C Hlis Hgen) as Hev.
  destruct (foldl rm_tables_step (wl, []) (get_tables w f)) as [w1 evs1]. cbn [snd] in Hev.
  injection H as _ _ <-. rewrite Hev. done.
Qed.
