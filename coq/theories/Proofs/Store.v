(** * Storage invariant (C01): the entity index and the table rows form a bijection,
      every table has its zero tail, and the primitive moves keep every other entity's
      data intact. *)
From Arche Require Import Model.Base Model.Pool Model.Filter Model.World Model.Ops Proofs.Tables Proofs.PoolInv.

Record store_ok (w : world) (live : list Entity) : Prop := {
  so_live_nodup : NoDup (map eid live);
  so_loc : forall e, e ∈ live -> exists tid row t,
      loc w e = Some (tid, row) /\ w_tables w !! tid = Some t /\ t_ents t !! row = Some e;
  so_rows : forall tid t row e, w_tables w !! tid = Some t -> t_ents t !! row = Some e ->
      e ∈ live /\ loc w e = Some (tid, row);
  so_table : forall tid t, w_tables w !! tid = Some t ->
      exists nd, w_nodes w !! t_node t = Some nd /\ table_ok (zero_row nd) t;
}.

(** What an entity's storage says about it: node, target and the cells of its row. *)
Definition ent_cells (w : world) (e : Entity) : option (nat * Entity * list Z) :=
  loc w e ≫= fun '(tid, row) => w_tables w !! tid ≫= fun t =>
  t_rows t !! row ≫= fun r => Some (t_node t, t_target t, r).

Lemma live_eid_inj w live e e' : store_ok w live -> e ∈ live -> e' ∈ live -> eid e = eid e' -> e = e'.
Proof.
  intros S He He' Heq.
  destruct (so_loc _ _ S e He) as (tid & row & t & Hl & Ht & Hr).
  destruct (so_loc _ _ S e' He') as (tid' & row' & t' & Hl' & Ht' & Hr').
  unfold loc in *. rewrite Heq in Hl. rewrite Hl in Hl'. injection Hl' as <- <-.
  rewrite Ht in Ht'. injection Ht' as <-. congruence.
Qed.

Lemma loc_insert_ne w e e' v : eid e' <> eid e ->
  loc (w <| w_index := <[eid e := v]> (w_index w) |>) e' = loc w e'.
Proof. intros Hne. unfold loc. simpl. by rewrite list_lookup_insert_ne. Qed.

Lemma row_lt w live tid t row e : store_ok w live -> w_tables w !! tid = Some t ->
  t_ents t !! row = Some e -> row < tlen t.
Proof. intros _ _ H. by apply lookup_lt_Some in H. Qed.

(** [set_comp]: writing one cell changes that cell only. *)
Lemma set_cell_lookup rows row col v i :
  set_cell rows row col v !! i = if decide (i = row) then (fun r => <[col := v]> r) <$> rows !! i else rows !! i.
Proof.
  unfold set_cell. destruct (decide (i = row)) as [->|Hne].
  - by rewrite list_lookup_alter.
  - by rewrite list_lookup_alter_ne.
Qed.

Lemma table_ok_set_cell zr t row col v :
  table_ok zr t -> row < tlen t -> table_ok zr (t <| t_rows := set_cell (t_rows t) row col v |>).
Proof.
  intros [Hc Hw Ht] Hrow. split; unfold tlen in *; simpl.
  - unfold set_cell. by rewrite alter_length.
  - intros i r Hi. rewrite set_cell_lookup in Hi. destruct (decide (i = row)) as [->|_]; [|by eapply Hw].
    destruct (t_rows t !! row) as [r0|] eqn:Hr0; [|done]. simpl in Hi. injection Hi as <-.
    rewrite insert_length. by eapply Hw.
  - intros i Hi1 Hi2. unfold set_cell in Hi2. rewrite alter_length in Hi2.
    rewrite set_cell_lookup. destruct (decide (i = row)); [lia|by apply Ht].
Qed.

Lemma lookup_insert_cases {A} (l : list A) i j x y :
  l !! i = Some y -> (<[i := x]> l) !! j = if decide (j = i) then Some x else l !! j.
Proof.
  intros Hi. destruct (decide (j = i)) as [->|Hne]; [apply list_lookup_insert; by apply lookup_lt_Some in Hi|by apply list_lookup_insert_ne].
Qed.

Theorem set_comp_spec w live e id v w' :
  store_ok w live -> e ∈ live -> set_comp w e id v = Some w' ->
  store_ok w' live /\ w_nodes w' = w_nodes w /\ w_index w' = w_index w /\ w_pool w' = w_pool w /\
  (forall e', e' ∈ live -> e' <> e -> ent_cells w' e' = ent_cells w e') /\
  (exists nd tgt r c, ent_cells w e = Some (nd, tgt, r) /\
     (exists n, w_nodes w !! nd = Some n /\ col_of n id = Some c) /\
     ent_cells w' e = Some (nd, tgt, if reg_is_zs w id then r else <[c := v]> r)).
Proof.
  intros S Hlive H. unfold set_comp in H.
  destruct (chk_alive w e) as [[]|]; try done.
  destruct (so_loc _ _ S e Hlive) as (tid & row & t & Hloc & Ht & Hrow).
  rewrite Hloc, Ht in H.
  destruct (so_table _ _ S tid t Ht) as (nd & Hnd & Hok). rewrite Hnd in H.
  destruct (col_of nd id) as [c|] eqn:Hc; [|done].
  assert (Hrlt : row < tlen t) by (by apply lookup_lt_Some in Hrow).
  destruct (t_rows t !! row) as [r|] eqn:Hr; [|apply lookup_ge_None in Hr; destruct Hok; lia].
  assert (Hcells : ent_cells w e = Some (t_node t, t_target t, r)).
  { unfold ent_cells. rewrite Hloc. simpl. rewrite Ht. simpl. by rewrite Hr. }
  destruct (reg_is_zs w id) eqn:Hzs; injection H as <-.
  - split; [done|]. split; [done|]. split; [done|]. split; [done|]. split; [done|].
    exists (t_node t), (t_target t), r, c. split; [done|]. split; [by exists nd|done].
  - set (t2 := t <| t_rows := set_cell (t_rows t) row c v |>).
    assert (Hlk : forall tid', w_tables (upd_table w tid t2) !! tid' = if decide (tid' = tid) then Some t2 else w_tables w !! tid').
    { intros tid'. unfold upd_table. simpl. by eapply lookup_insert_cases. }
    split; [|split; [done|split; [done|split; [done|split]]]].
    + split.
      * apply S.
      * intros e0 He0. destruct (so_loc _ _ S e0 He0) as (tid0 & row0 & t0 & Hl0 & Ht0 & Hr0).
        exists tid0, row0. destruct (decide (tid0 = tid)) as [->|Hne].
        -- exists t2. rewrite Ht in Ht0. injection Ht0 as <-. rewrite Hlk. by destruct (decide (tid = tid)).
        -- exists t0. rewrite Hlk. by destruct (decide (tid0 = tid)).
      * intros tid0 t0 row0 e0 Ht0 Hr0. rewrite Hlk in Ht0.
        destruct (decide (tid0 = tid)) as [->|Hne].
        -- injection Ht0 as <-. apply (so_rows _ _ S tid t row0 e0 Ht Hr0).
        -- apply (so_rows _ _ S tid0 t0 row0 e0 Ht0 Hr0).
      * intros tid0 t0 Ht0. rewrite Hlk in Ht0.
        destruct (decide (tid0 = tid)) as [->|Hne].
        -- injection Ht0 as <-. exists nd. split; [done|]. by apply table_ok_set_cell.
        -- by apply (so_table _ _ S tid0 t0 Ht0).
    + intros e' He' Hne. destruct (so_loc _ _ S e' He') as (tid' & row' & t' & Hl' & Ht' & Hr').
      unfold ent_cells. change (loc (upd_table w tid t2) e') with (loc w e'). rewrite Hl'. simpl.
      rewrite Hlk, Ht'. destruct (decide (tid' = tid)) as [->|Hnt]; [|done].
      rewrite Ht in Ht'. injection Ht' as <-. simpl. rewrite set_cell_lookup.
      destruct (decide (row' = row)) as [->|Hnr]; [|done]. congruence.
    + exists (t_node t), (t_target t), r, c. split; [done|]. split; [by exists nd|].
      unfold ent_cells. change (loc (upd_table w tid t2) e) with (loc w e). rewrite Hloc. simpl.
      rewrite Hlk. destruct (decide (tid = tid)); [|done]. simpl. rewrite set_cell_lookup.
      destruct (decide (row = row)); [|done]. by rewrite Hr.
Qed.

(** ** Moving an entity between two tables *)
Lemma copy_cells_length keep sids srow dids drow :
  length (copy_cells keep sids srow dids drow) = length drow.
Proof.
  unfold copy_cells. generalize (imap (fun i id => (i, id)) sids). intros l. revert drow.
  induction l as [|[i id] r IH]; intros drow; simpl; [done|].
  rewrite IH. destruct (bit keep id); [|done]. destruct (srow !! i); [|done].
  destruct (find_index _ _); [by rewrite insert_length|done].
Qed.

Lemma table_ok_set_row zr t i r :
  table_ok zr t -> i < tlen t -> length r = length zr -> table_ok zr (t <| t_rows := <[i := r]> (t_rows t) |>).
Proof.
  intros [Hc Hw Ht] Hi Hr. split; unfold tlen in *; simpl.
  - by rewrite insert_length.
  - intros j x Hj. destruct (decide (j = i)) as [->|Hne].
    + rewrite list_lookup_insert in Hj by lia. by injection Hj as <-.
    + rewrite list_lookup_insert_ne in Hj by done. by eapply Hw.
  - intros j Hj1 Hj2. rewrite insert_length in Hj2. rewrite list_lookup_insert_ne by lia. by apply Ht.
Qed.

Section move.
  Context (w : world) (live : list Entity) (e : Entity) (src row dst : nat) (keep : N).
  Context (st dt : table) (sn dn : node).
  Hypothesis S : store_ok w live.
  Hypothesis Hlive : e ∈ live.
  Hypothesis Hloc : loc w e = Some (src, row).
  Hypothesis Hne : src <> dst.
  Hypothesis Hst : w_tables w !! src = Some st.
  Hypothesis Hdt : w_tables w !! dst = Some dt.
  Hypothesis Hsn : w_nodes w !! t_node st = Some sn.
  Hypothesis Hdn : w_nodes w !! t_node dt = Some dn.
  Hypothesis Hcap : 0 < node_capinc w dn.

  Let w' := move_entity w e src row dst keep.

  Lemma move_src_row : t_ents st !! row = Some e /\ row < tlen st.
  Proof.
    destruct (so_loc _ _ S e Hlive) as (tid & r & t & Hl & Ht & Hr).
    rewrite Hloc in Hl. injection Hl as <- <-. rewrite Hst in Ht. injection Ht as <-.
    split; [done|]. by apply lookup_lt_Some in Hr.
  Qed.

  Lemma move_tables_ok : table_ok (zero_row sn) st /\ table_ok (zero_row dn) dt.
  Proof.
    destruct (so_table _ _ S src st Hst) as (n1 & Hn1 & Hok1).
    destruct (so_table _ _ S dst dt Hdt) as (n2 & Hn2 & Hok2).
    rewrite Hsn in Hn1. rewrite Hdn in Hn2. injection Hn1 as <-. injection Hn2 as <-. done.
  Qed.

  Theorem move_entity_spec :
    exists srow st1 dt2,
      t_rows st !! row = Some srow /\
      w' = w <| w_tables := <[src := st1]> (<[dst := dt2]> (w_tables w)) |>
             <| w_index := <[eid e := Some (dst, tlen dt)]>
                  (if negb (row =? tlen st - 1)
                   then match t_ents st !! (tlen st - 1) with
                        | Some se => <[eid se := Some (src, row)]> (w_index w)
                        | None => w_index w end
                   else w_index w) |> /\
      t_ents st1 = swap_remove row (t_ents st) /\ table_ok (zero_row sn) st1 /\
      (forall i, i < tlen st - 1 -> t_rows st1 !! i = if decide (i = row) then t_rows st !! (tlen st - 1) else t_rows st !! i) /\
      t_node st1 = t_node st /\ t_target st1 = t_target st /\ t_active st1 = t_active st /\ t_layouts st1 = t_layouts st /\
      t_ents dt2 = t_ents dt ++ [e] /\ table_ok (zero_row dn) dt2 /\
      (forall i, i < tlen dt -> t_rows dt2 !! i = t_rows dt !! i) /\
      t_rows dt2 !! tlen dt = Some (copy_cells keep (n_ids sn) srow (n_ids dn) (zero_row dn)) /\
      t_node dt2 = t_node dt /\ t_target dt2 = t_target dt /\ t_active dt2 = t_active dt /\ t_layouts dt2 = t_layouts dt.
  Proof.
    destruct move_src_row as [Hrow Hrlt]. destruct move_tables_ok as [Hoks Hokd].
    unfold w', move_entity. rewrite Hst, Hdt, Hsn, Hdn.
    pose proof (tbl_alloc_spec (node_capinc w dn) (zero_row dn) dt e Hcap Hokd) as Ha.
    destruct (tbl_alloc (node_capinc w dn) (zero_row dn) dt e) as [dt1 newrow].
    destruct Ha as (-> & Hde & Hdok & (k & Hdr) & Hdz & Hdn1 & Hdt1 & Hda & Hdl).
    pose proof (tbl_remove_spec (zero_row sn) st row Hoks Hrlt) as Hr.
    destruct (tbl_remove (zero_row sn) st row) as [st1 swapped].
    destruct Hr as (-> & Hse & Hsl & Hsok & Hsrl & Hsr & Hsn1 & Hst1 & Hsa & Hsl1).
    destruct (t_rows st !! row) as [srow|] eqn:Hsrow; [|apply lookup_ge_None in Hsrow; destruct Hoks; lia].
    rewrite Hdz. simpl.
    set (newr := copy_cells keep (n_ids sn) srow (n_ids dn) (zero_row dn)).
    set (dt2 := dt1 <| t_rows := <[tlen dt := newr]> (t_rows dt1) |>).
    exists srow, st1, dt2.
    split; [done|]. split.
    { f_equal. destruct (negb (row =? tlen st - 1)) eqn:Hsw; [|done].
      rewrite Hse. rewrite swap_remove_lookup by (apply negb_true_iff, Nat.eqb_neq in Hsw; unfold tlen in *; lia).
      destruct (decide (row = row)); [|done]. done. }
    split; [done|]. split; [done|]. split; [done|]. split; [done|]. split; [done|]. split; [done|]. split; [done|].
    split; [done|]. split.
    { apply table_ok_set_row; [done| |].
      - unfold tlen. rewrite Hde, app_length. simpl. lia.
      - unfold newr. by rewrite copy_cells_length. }
    split.
    { intros i Hi. unfold dt2. simpl. rewrite list_lookup_insert_ne by lia. rewrite Hdr.
      rewrite lookup_app_l; [done|]. destruct Hokd. lia. }
    split.
    { unfold dt2. simpl. apply list_lookup_insert. by apply lookup_lt_Some in Hdz. }
    done.
  Qed.
End move.

Section move_ok.
  Context (w : world) (live : list Entity) (e : Entity) (src row dst : nat) (keep : N).
  Context (st dt : table) (sn dn : node).
  Hypothesis S : store_ok w live.
  Hypothesis Hlive : e ∈ live.
  Hypothesis Hloc : loc w e = Some (src, row).
  Hypothesis Hne : src <> dst.
  Hypothesis Hst : w_tables w !! src = Some st.
  Hypothesis Hdt : w_tables w !! dst = Some dt.
  Hypothesis Hsn : w_nodes w !! t_node st = Some sn.
  Hypothesis Hdn : w_nodes w !! t_node dt = Some dn.
  Hypothesis Hcap : 0 < node_capinc w dn.

  Let w' := move_entity w e src row dst keep.

  Theorem move_entity_ok :
    store_ok w' live /\ w_nodes w' = w_nodes w /\ w_pool w' = w_pool w /\ w_tbits w' = w_tbits w /\
    w_cache w' = w_cache w /\ length (w_tables w') = length (w_tables w) /\
    (forall e', e' ∈ live -> e' <> e -> ent_cells w' e' = ent_cells w e') /\
    (exists srow, t_rows st !! row = Some srow /\
       ent_cells w' e = Some (t_node dt, t_target dt, copy_cells keep (n_ids sn) srow (n_ids dn) (zero_row dn))) /\
    (forall tid, tid <> src -> tid <> dst -> w_tables w' !! tid = w_tables w !! tid) /\
    (exists st1, w_tables w' !! src = Some st1 /\ tlen st1 = tlen st - 1 /\ t_node st1 = t_node st /\
                 t_target st1 = t_target st /\ t_active st1 = t_active st /\ t_layouts st1 = t_layouts st) /\
    (exists dt2, w_tables w' !! dst = Some dt2 /\ tlen dt2 = tlen dt + 1 /\ t_node dt2 = t_node dt /\
                 t_target dt2 = t_target dt /\ t_active dt2 = t_active dt /\ t_layouts dt2 = t_layouts dt).
  Proof.
    destruct (move_entity_spec w live e src row dst keep st dt sn dn S Hlive Hloc Hne Hst Hdt Hsn Hdn Hcap)
      as (srow & st1 & dt2 & Hsrow & Hw' & Hse & Hsok & Hsr & Hsn1 & Hstg & Hsa & Hsl & Hde & Hdok & Hdr & Hdnew & Hdn1 & Hdtg & Hda & Hdl).
    fold w' in Hw'.
    destruct (move_src_row w live e src row st S Hlive Hloc Hst) as [Hrow Hrlt].
    set (last := tlen st - 1) in *.
    (* table lookups in w' *)
    assert (Hlk : forall tid, w_tables w' !! tid =
              if decide (tid = src) then Some st1 else if decide (tid = dst) then Some dt2 else w_tables w !! tid).
    { intros tid. rewrite Hw'. simpl. destruct (decide (tid = src)) as [->|H1].
      - apply list_lookup_insert. rewrite insert_length. by apply lookup_lt_Some in Hst.
      - rewrite list_lookup_insert_ne by done. destruct (decide (tid = dst)) as [->|H2].
        + apply list_lookup_insert. by apply lookup_lt_Some in Hdt.
        + by rewrite list_lookup_insert_ne. }
    (* the swapped entity *)
    assert (Hlast_lt : last < tlen st) by (unfold last; lia).
    destruct (t_ents st !! last) as [se|] eqn:Hse_l; [|apply lookup_ge_None in Hse_l; unfold tlen in *; lia].
    destruct (so_rows _ _ S src st last se Hst Hse_l) as [Hse_live Hse_loc].
    (* index lookups in w' *)
    assert (Hloc' : forall e0, e0 ∈ live -> loc w' e0 =
              if decide (e0 = e) then Some (dst, tlen dt)
              else if decide (row <> last /\ e0 = se) then Some (src, row) else loc w e0).
    { intros e0 He0. rewrite Hw'. unfold loc. simpl.
      destruct (decide (e0 = e)) as [->|Hn0].
      - rewrite list_lookup_insert; [done|].
        destruct (negb _); [destruct (t_ents st !! last); [rewrite insert_length|]|];
          destruct (w_index w !! eid e) eqn:Hx; try (by apply lookup_lt_Some in Hx);
          unfold loc in Hloc; by rewrite Hx in Hloc.
      - assert (eid e0 <> eid e) by (intros Heq; apply Hn0; by eapply live_eid_inj).
        rewrite list_lookup_insert_ne by done.
        destruct (row =? last) eqn:Hrl; simpl.
        + apply Nat.eqb_eq in Hrl. destruct (decide (row <> last /\ e0 = se)) as [[? _]|]; [done|done].
        + apply Nat.eqb_neq in Hrl. destruct (decide (row <> last /\ e0 = se)) as [[_ ->]|Hns].
          * rewrite list_lookup_insert; [done|]. unfold loc in Hse_loc.
            destruct (w_index w !! eid se) eqn:Hx; [by apply lookup_lt_Some in Hx|done].
          * assert (eid e0 <> eid se).
            { intros Heq. apply Hns. split; [done|]. by eapply live_eid_inj. }
            by rewrite list_lookup_insert_ne. }
    assert (Hse_ne : row <> last -> se <> e).
    { intros Hrl ->. destruct (so_rows _ _ S src st last e Hst Hse_l) as [_ Hl2]. rewrite Hloc in Hl2. injection Hl2 as ->. done. }
    (* rows of src after the removal *)
    assert (Hst1_ents : forall i, i < last -> t_ents st1 !! i = if decide (i = row) then Some se else t_ents st !! i).
    { intros i Hi. rewrite Hse, swap_remove_lookup by (unfold tlen, last in *; lia).
      destruct (decide (i = row)); [|done]. fold (tlen st). fold last. done. }
    assert (Hst1_len : tlen st1 = last).
    { unfold tlen. rewrite Hse, swap_remove_length by (unfold tlen in *; lia). done. }
    (* --- store_ok --- *)
    assert (S' : store_ok w' live).
    { split.
      - apply S.
      - intros e0 He0. rewrite (Hloc' e0 He0).
        destruct (decide (e0 = e)) as [->|Hn0].
        + exists dst, (tlen dt), dt2. split; [done|]. rewrite Hlk.
          destruct (decide (dst = src)); [congruence|]. destruct (decide (dst = dst)); [|done].
          split; [done|]. rewrite Hde. rewrite lookup_app_r by (unfold tlen; lia). unfold tlen. by rewrite Nat.sub_diag.
        + destruct (decide (row <> last /\ e0 = se)) as [[Hrl ->]|Hns].
          * exists src, row, st1. split; [done|]. rewrite Hlk. destruct (decide (src = src)); [|done].
            split; [done|]. rewrite Hst1_ents by lia. by destruct (decide (row = row)).
          * destruct (so_loc _ _ S e0 He0) as (tid0 & row0 & t0 & Hl0 & Ht0 & Hr0).
            exists tid0, row0. rewrite Hlk.
            destruct (decide (tid0 = src)) as [->|Hts].
            -- rewrite Hst in Ht0. injection Ht0 as <-. exists st1. split; [done|]. split; [done|].
               assert (row0 <> row). { intros ->. rewrite Hrow in Hr0. by injection Hr0 as ->. }
               assert (row0 <> last \/ row = last).
               { destruct (decide (row = last)); [by right|left]. intros ->. rewrite Hse_l in Hr0. injection Hr0 as ->. apply Hns. done. }
               assert (row0 < last).
               { apply lookup_lt_Some in Hr0. clear -Hr0 H H0 Hrlt. subst last. unfold tlen in *. lia. }
               rewrite Hst1_ents by done. by destruct (decide (row0 = row)).
            -- destruct (decide (tid0 = dst)) as [->|Htd].
               ++ rewrite Hdt in Ht0. injection Ht0 as <-. exists dt2. split; [done|]. split; [done|].
                  rewrite Hde. apply lookup_app_l_Some. done.
               ++ exists t0. done.
      - intros tid0 t0 row0 e0 Ht0 Hr0. rewrite Hlk in Ht0.
        destruct (decide (tid0 = src)) as [->|Hts].
        + injection Ht0 as <-.
          assert (row0 < last). { apply lookup_lt_Some in Hr0. by rewrite <- Hst1_len. }
          rewrite Hst1_ents in Hr0 by done.
          destruct (decide (row0 = row)) as [->|Hnr].
          * injection Hr0 as <-. split; [done|]. rewrite (Hloc' se Hse_live).
            destruct (decide (se = e)) as [->|]; [exfalso; apply (Hse_ne ltac:(lia)); done|].
            destruct (decide (row <> last /\ se = se)) as [|Hn]; [done|]. exfalso. apply Hn. split; [lia|done].
          * destruct (so_rows _ _ S src st row0 e0 Hst Hr0) as [He0 Hl0]. split; [done|].
            rewrite (Hloc' e0 He0).
            destruct (decide (e0 = e)) as [->|]; [rewrite Hloc in Hl0; injection Hl0 as ->; done|].
            destruct (decide (row <> last /\ e0 = se)) as [[_ ->]|]; [|done].
            rewrite Hse_loc in Hl0. injection Hl0 as ->. lia.
        + destruct (decide (tid0 = dst)) as [->|Htd].
          * injection Ht0 as <-. rewrite Hde in Hr0. apply lookup_app_Some in Hr0 as [Hr0|[Hge Hr0]].
            -- destruct (so_rows _ _ S dst dt row0 e0 Hdt Hr0) as [He0 Hl0]. split; [done|].
               rewrite (Hloc' e0 He0).
               destruct (decide (e0 = e)) as [->|]; [rewrite Hloc in Hl0; injection Hl0 as ->; done|].
               destruct (decide (row <> last /\ e0 = se)) as [[_ ->]|]; [|done].
               rewrite Hse_loc in Hl0. by injection Hl0 as ->.
            -- destruct (row0 - length (t_ents dt)) as [|k] eqn:Hk; simpl in Hr0; [|done].
               injection Hr0 as <-. split; [done|]. rewrite (Hloc' e Hlive). destruct (decide (e = e)); [|done].
               f_equal. f_equal. unfold tlen. lia.
          * destruct (so_rows _ _ S tid0 t0 row0 e0 Ht0 Hr0) as [He0 Hl0]. split; [done|].
            rewrite (Hloc' e0 He0).
            destruct (decide (e0 = e)) as [->|]; [rewrite Hloc in Hl0; injection Hl0 as ->; done|].
            destruct (decide (row <> last /\ e0 = se)) as [[_ ->]|]; [|done].
            rewrite Hse_loc in Hl0. by injection Hl0 as ->.
      - intros tid0 t0 Ht0. rewrite Hlk in Ht0. replace (w_nodes w') with (w_nodes w) by (by rewrite Hw').
        destruct (decide (tid0 = src)) as [->|Hts]; [injection Ht0 as <-; exists sn; by rewrite Hsn1|].
        destruct (decide (tid0 = dst)) as [->|Htd]; [injection Ht0 as <-; exists dn; by rewrite Hdn1|].
        by apply (so_table _ _ S tid0 t0 Ht0). }
    split; [exact S'|]. split; [by rewrite Hw'|]. split; [by rewrite Hw'|]. split; [by rewrite Hw'|].
    split; [by rewrite Hw'|]. split; [rewrite Hw'; simpl; by rewrite !insert_length|].
    split.
    { (* other entities keep their cells *)
      intros e0 He0 Hn0. unfold ent_cells. rewrite (Hloc' e0 He0).
      destruct (decide (e0 = e)); [done|].
      destruct (decide (row <> last /\ e0 = se)) as [[Hrl ->]|Hns].
      - rewrite Hse_loc. simpl. rewrite Hlk, Hst. destruct (decide (src = src)); [|done]. simpl.
        rewrite Hsr by lia. destruct (decide (row = row)); [|done]. fold last.
        destruct (t_rows st !! last); simpl; [by rewrite Hsn1, Hstg|done].
      - destruct (so_loc _ _ S e0 He0) as (tid0 & row0 & t0 & Hl0 & Ht0 & Hr0). rewrite Hl0. simpl.
        rewrite Hlk, Ht0.
        destruct (decide (tid0 = src)) as [->|Hts].
        + rewrite Hst in Ht0. injection Ht0 as <-. simpl.
          assert (row0 <> row). { intros ->. rewrite Hrow in Hr0. by injection Hr0 as ->. }
          assert (row0 < last).
          { pose proof (lookup_lt_Some _ _ _ Hr0) as Hlt0.
            destruct (decide (row0 = last)) as [->|Hnl]; [|clear -Hlt0 Hnl Hrlt; subst last; unfold tlen in *; lia].
            rewrite Hse_l in Hr0. injection Hr0 as ->. destruct (decide (row = last)) as [->|]; [done|]. exfalso. by apply Hns. }
          rewrite Hsr by done. destruct (decide (row0 = row)); [done|].
          destruct (t_rows st !! row0); simpl; [by rewrite Hsn1, Hstg|done].
        + destruct (decide (tid0 = dst)) as [->|Htd]; [|done].
          rewrite Hdt in Ht0. injection Ht0 as <-. simpl.
          rewrite Hdr by (by apply lookup_lt_Some in Hr0).
          destruct (t_rows dt !! row0); simpl; [by rewrite Hdn1, Hdtg|done]. }
    split.
    { exists srow. split; [done|]. unfold ent_cells. rewrite (Hloc' e Hlive). destruct (decide (e = e)); [|done]. simpl.
      rewrite Hlk. destruct (decide (dst = src)); [congruence|]. destruct (decide (dst = dst)); [|done]. simpl.
      rewrite Hdnew. simpl. by rewrite Hdn1, Hdtg. }
    split.
    { intros tid H1 H2. rewrite Hlk. destruct (decide (tid = src)); [done|]. by destruct (decide (tid = dst)). }
    split.
    { exists st1. rewrite Hlk. destruct (decide (src = src)); [|done]. by rewrite Hst1_len. }
    exists dt2. rewrite Hlk. destruct (decide (dst = src)); [congruence|]. destruct (decide (dst = dst)); [|done].
    split; [done|]. split; [|done]. unfold tlen. rewrite Hde, app_length. simpl. lia.
  Qed.
End move_ok.

(** ** What [copy_cells] writes *)
Lemma find_index_Some_lookup {A} (p : A -> bool) l i : find_index p l = Some i -> exists x, l !! i = Some x /\ p x = true.
Proof.
  revert i. induction l as [|x r IH]; intros i H; simpl in *; [done|].
  destruct (p x) eqn:Hp; [injection H as <-; by exists x|].
  destruct (find_index p r) as [k|]; [|done]. injection H as <-. by apply IH.
Qed.

Lemma find_index_nodup (l : list nat) i x : NoDup l -> l !! i = Some x -> find_index (Nat.eqb x) l = Some i.
Proof.
  revert i. induction l as [|y r IH]; intros i Hnd Hi; [done|]. apply NoDup_cons in Hnd as [Hy Hnd].
  simpl. destruct i as [|i]; simpl in Hi.
  - injection Hi as ->. by rewrite Nat.eqb_refl.
  - destruct (Nat.eqb_spec x y) as [->|Hne]; [exfalso; apply Hy; by eapply elem_of_list_lookup_2|].
    by rewrite (IH i Hnd Hi).
Qed.

Lemma find_index_None_notin (l : list nat) x : find_index (Nat.eqb x) l = None -> x ∉ l.
Proof.
  induction l as [|y r IH]; simpl; [intros _ H; by apply elem_of_nil in H|].
  destruct (Nat.eqb_spec x y); [done|]. destruct (find_index _ r); [done|]. intros _ H.
  apply elem_of_cons in H as [->|H]; [done|]. by apply IH.
Qed.

Section copy.
  Context (keep : N) (srow : list Z) (dids : list nat).
  Hypothesis Hdnd : NoDup dids.

  Let stepf := (fun (acc : list Z) (p : nat * nat) => let '(i, id) := p in
           if bit keep id then
             match srow !! i, find_index (Nat.eqb id) dids with
             | Some v, Some j => <[j := v]> acc
             | _, _ => acc
             end
           else acc).

  Lemma copy_fold_other l : forall acc j idj, dids !! j = Some idj ->
    (forall i, (i, idj) ∉ l) -> foldl stepf acc l !! j = acc !! j.
  Proof.
    induction l as [|[i id] r IH]; intros acc j idj Hj Hno; simpl; [done|].
    rewrite (IH _ j idj Hj) by (intros k Hk; apply (Hno k); apply elem_of_cons; by right).
    destruct (bit keep id); [|done]. destruct (srow !! i); [|done].
    destruct (find_index (Nat.eqb id) dids) as [j'|] eqn:Hf; [|done].
    destruct (decide (j' = j)) as [->|Hne]; [|by rewrite list_lookup_insert_ne].
    apply find_index_Some_lookup in Hf as (x & Hx & Hex). apply Nat.eqb_eq in Hex. subst x.
    rewrite Hj in Hx. injection Hx as ->. exfalso. apply (Hno i). apply elem_of_cons. by left.
  Qed.

  Lemma copy_fold_hit l : forall acc j idj i v, dids !! j = Some idj -> j < length acc ->
    NoDup (map snd l) -> (i, idj) ∈ l -> srow !! i = Some v -> bit keep idj = true ->
    foldl stepf acc l !! j = Some v.
  Proof.
    induction l as [|[i0 id0] r IH]; intros acc j idj i v Hj Hlt Hnd Hin Hv Hk; [by apply elem_of_nil in Hin|].
    simpl in Hnd. apply NoDup_cons in Hnd as [Hid0 Hnd].
    apply elem_of_cons in Hin as [[= <- <-]|Hin]; simpl.
    - rewrite Hk, Hv, (find_index_nodup dids j idj Hdnd Hj).
      rewrite (copy_fold_other r _ j idj Hj).
      + by rewrite list_lookup_insert.
      + intros k Hk'. apply Hid0. apply elem_of_list_fmap. by exists (k, idj).
    - apply (IH _ j idj i v); try done.
      destruct (bit keep id0); [|done]. destruct (srow !! i0); [|done]. destruct (find_index _ _); [by rewrite insert_length|done].
  Qed.
End copy.

Lemma copy_cells_spec keep sids srow dids drow j id :
  NoDup sids -> NoDup dids -> length srow = length sids -> length drow = length dids ->
  dids !! j = Some id ->
  copy_cells keep sids srow dids drow !! j =
    if bit keep id then match find_index (Nat.eqb id) sids with Some i => srow !! i | None => drow !! j end
    else drow !! j.
Proof.
  intros Hs Hd Hls Hld Hj. unfold copy_cells.
  set (l := imap (fun i id => (i, id)) sids).
  assert (Hsnd : map snd l = sids).
  { unfold l. apply list_eq. intros i. rewrite list_lookup_fmap, list_lookup_imap. by destruct (sids !! i). }
  assert (Hin : forall i x, (i, x) ∈ l <-> sids !! i = Some x).
  { intros i x. unfold l. rewrite elem_of_lookup_imap. split.
    - intros (i' & y & [= <- <-] & H). done.
    - intros H. exists i, x. done. }
  destruct (bit keep id) eqn:Hk.
  - destruct (find_index (Nat.eqb id) sids) as [i|] eqn:Hf.
    + apply find_index_Some_lookup in Hf as (x & Hx & Hex). apply Nat.eqb_eq in Hex. subst x.
      assert (i < length srow) by (rewrite Hls; by apply lookup_lt_Some in Hx).
      destruct (srow !! i) as [v|] eqn:Hv; [|apply lookup_ge_None in Hv; lia].
      apply (copy_fold_hit keep srow dids Hd l drow j id i v); try done.
      * rewrite Hld. by apply lookup_lt_Some in Hj.
      * by rewrite Hsnd.
      * by apply Hin.
    + apply (copy_fold_other keep srow dids l drow j id Hj).
      intros i Hi. apply Hin in Hi. apply find_index_None_notin in Hf. apply Hf. by eapply elem_of_list_lookup_2.
  - (* not kept: nothing is written for id; show by the 'other' lemma on a filtered view *)
    clear Hin Hsnd. generalize l. clear l. intros l. revert drow Hld.
    induction l as [|[i0 id0] r IH]; intros drow Hld; simpl; [done|].
    destruct (bit keep id0) eqn:Hk0; [|by apply IH].
    destruct (srow !! i0); [|by apply IH]. destruct (find_index (Nat.eqb id0) dids) as [j'|] eqn:Hf; [|by apply IH].
    rewrite IH by (by rewrite insert_length).
    destruct (decide (j' = j)) as [->|Hne]; [|by rewrite list_lookup_insert_ne].
    apply find_index_Some_lookup in Hf as (x & Hx & Hex). apply Nat.eqb_eq in Hex. subst x.
    rewrite Hj in Hx. injection Hx as ->. congruence.
Qed.

(** ** Creating an entity *)
Lemma pool_get_id p live issued frees :
  Proofs.PoolInv.pool_inv p live issued frees ->
  let '(p', e) := pool_get p in
  (eid e = length (p_ents p) /\ length (p_ents p') = S (length (p_ents p))) \/
  (eid e < length (p_ents p) /\ length (p_ents p') = length (p_ents p)).
Proof.
  intros I. unfold pool_get. destruct (p_avail p =? 0) eqn:Hav.
  - cbn beta iota. left. simpl. rewrite app_length. simpl. split; [done|lia].
  - apply Nat.eqb_neq in Hav.
    destruct frees as [|i r]; [pose proof (Proofs.PoolInv.pi_frees_len _ _ _ _ I); simpl in *; lia|].
    pose proof (Proofs.PoolInv.pi_frees_chain _ _ _ _ I) as Hc. simpl in Hc. destruct Hc as [Hn (link & g & Hl & _)].
    rewrite Hn, Hl. right. simpl. rewrite insert_length. split; [by apply lookup_lt_Some in Hl|done].
Qed.

Section create.
  Context (w : world) (live issued : list Entity) (frees : list nat) (tid : nat) (t : table) (nd : node).
  Hypothesis S : store_ok w live.
  Hypothesis P : Proofs.PoolInv.pool_inv (w_pool w) live issued frees.
  Hypothesis Hil : length (w_index w) = length (p_ents (w_pool w)).
  Hypothesis Ht : w_tables w !! tid = Some t.
  Hypothesis Hnd : w_nodes w !! t_node t = Some nd.
  Hypothesis Hcap : 0 < node_capinc w nd.

  Theorem create_entity_ok :
    let '(w', e) := create_entity w tid in
    e ∉ live /\ e ∉ issued /\ store_ok w' (e :: live) /\
    (exists frees', Proofs.PoolInv.pool_inv (w_pool w') (e :: live) (e :: issued) frees') /\
    length (w_index w') = length (p_ents (w_pool w')) /\
    w_nodes w' = w_nodes w /\ w_reg w' = w_reg w /\ w_tb w' = w_tb w /\ w_capinc w' = w_capinc w /\
    (forall e', e' ∈ live -> ent_cells w' e' = ent_cells w e') /\
    ent_cells w' e = Some (t_node t, t_target t, zero_row nd) /\
    (forall tid' t', w_tables w !! tid' = Some t' -> exists t'', w_tables w' !! tid' = Some t'' /\ t_node t'' = t_node t').
  Proof.
    unfold create_entity. rewrite Ht, Hnd.
    pose proof (Proofs.PoolInv.pool_get_inv (w_pool w) live issued frees P) as Hg.
    pose proof (pool_get_id (w_pool w) live issued frees P) as Hid.
    destruct (pool_get (w_pool w)) as [p e].
    destruct Hg as (frees' & P' & Hfresh & He0 & _ & _).
    destruct (so_table _ _ S tid t Ht) as (nd0 & Hnd0 & Hok). rewrite Hnd in Hnd0. injection Hnd0 as <-.
    pose proof (tbl_alloc_spec (node_capinc w nd) (zero_row nd) t e Hcap Hok) as Ha.
    destruct (tbl_alloc (node_capinc w nd) (zero_row nd) t e) as [t' row].
    destruct Ha as (-> & Hte & Htok & (k & Htr) & Htz & Htn & Htt & Hta & Htl).
    assert (Hnl : e ∉ live) by (intros Hin; apply Hfresh; by apply (Proofs.PoolInv.pi_live_issued _ _ _ _ P)).
    assert (Hids : forall e0, e0 ∈ live -> eid e0 <> eid e /\ eid e0 < length (w_index w)).
    { intros e0 He. split.
      - intros Heq. pose proof (Proofs.PoolInv.pi_live_nodup _ _ _ _ P') as Hnd'. simpl in Hnd'.
        apply NoDup_cons in Hnd' as [Hx _]. apply Hx. rewrite <- Heq. apply elem_of_list_fmap. by exists e0.
      - destruct (so_loc _ _ S e0 He) as (? & ? & ? & Hl & _). unfold loc in Hl.
        destruct (w_index w !! eid e0) eqn:Hx; [by apply lookup_lt_Some in Hx|done]. }
    set (w1 := upd_table (w <| w_pool := p |>) tid t').
    (* the world after the index update, in both branches *)
    assert (Hw' : exists w', (if eid e =? length (w_index w1)
              then (w1 <| w_index := w_index w1 ++ [Some (tid, tlen t)] |> <| w_tbits := w_tbits w1 ++ [false] |>, e)
              else (w1 <| w_index := <[eid e := Some (tid, tlen t)]> (w_index w1) |> <| w_tbits := <[eid e := false]> (w_tbits w1) |>, e)) = (w', e) /\
              w_tables w' = <[tid := t']> (w_tables w) /\ w_nodes w' = w_nodes w /\ w_pool w' = p /\
              w_reg w' = w_reg w /\ w_tb w' = w_tb w /\ w_capinc w' = w_capinc w /\
              loc w' e = Some (tid, tlen t) /\ (forall e0, e0 ∈ live -> loc w' e0 = loc w e0) /\
              length (w_index w') = length (p_ents p)).
    { change (w_index w1) with (w_index w). destruct (eid e =? length (w_index w)) eqn:Hfr.
      - apply Nat.eqb_eq in Hfr. eexists. split; [reflexivity|]. simpl. repeat split; try done.
        + unfold loc. simpl. rewrite lookup_app_r by lia. by rewrite Hfr, Nat.sub_diag.
        + intros e0 He. destruct (Hids e0 He) as [_ Hlt]. unfold loc. simpl. by rewrite lookup_app_l.
        + rewrite app_length. simpl. destruct Hid as [[_ Hl]|[Hlt Hl]]; lia.
      - apply Nat.eqb_neq in Hfr. eexists. split; [reflexivity|]. simpl. repeat split; try done.
        + unfold loc. simpl. rewrite list_lookup_insert; [done|]. destruct Hid as [[Hx _]|[Hlt _]]; lia.
        + intros e0 He. destruct (Hids e0 He) as [Hne _]. unfold loc. simpl. by rewrite list_lookup_insert_ne.
        + rewrite insert_length. destruct Hid as [[Hx _]|[_ Hl]]; lia. }
    destruct Hw' as (w' & -> & Htabs & Hnodes & Hpool & Hreg & Htb & Hci & Hloce & Hloco & Hilen).
    assert (Hlk : forall j, w_tables w' !! j = if decide (j = tid) then Some t' else w_tables w !! j).
    { intros j. rewrite Htabs. by eapply lookup_insert_cases. }
    split; [done|]. split; [done|]. split.
    { split.
      - apply (Proofs.PoolInv.pi_live_nodup _ _ _ _ P').
      - intros e0 He. apply elem_of_cons in He as [->|He].
        + exists tid, (tlen t), t'. split; [done|]. rewrite Hlk. destruct (decide (tid = tid)); [|done]. split; [done|].
          rewrite Hte. rewrite lookup_app_r by (unfold tlen; lia). unfold tlen. by rewrite Nat.sub_diag.
        + destruct (so_loc _ _ S e0 He) as (tid0 & row0 & t0 & Hl0 & Ht0 & Hr0). exists tid0, row0.
          rewrite (Hloco e0 He), Hlk. destruct (decide (tid0 = tid)) as [->|].
          * exists t'. rewrite Ht in Ht0. injection Ht0 as <-. split; [done|]. split; [done|]. rewrite Hte. by apply lookup_app_l_Some.
          * by exists t0.
      - intros tid0 t0 row0 e0 Ht0 Hr0. rewrite Hlk in Ht0. destruct (decide (tid0 = tid)) as [->|].
        + injection Ht0 as <-. rewrite Hte in Hr0. apply lookup_app_Some in Hr0 as [Hr0|[Hge Hr0]].
          * destruct (so_rows _ _ S tid t row0 e0 Ht Hr0) as [He Hl]. split; [apply elem_of_cons; by right|]. by rewrite (Hloco e0 He).
          * destruct (row0 - length (t_ents t)) as [|k'] eqn:Hk; simpl in Hr0; [|done]. injection Hr0 as <-.
            split; [apply elem_of_cons; by left|]. rewrite Hloce. f_equal. f_equal. unfold tlen. lia.
        + destruct (so_rows _ _ S tid0 t0 row0 e0 Ht0 Hr0) as [He Hl]. split; [apply elem_of_cons; by right|]. by rewrite (Hloco e0 He).
      - intros tid0 t0 Ht0. rewrite Hnodes. rewrite Hlk in Ht0. destruct (decide (tid0 = tid)) as [->|].
        + injection Ht0 as <-. exists nd. by rewrite Htn.
        + by apply (so_table _ _ S tid0 t0 Ht0). }
    split; [exists frees'; by rewrite Hpool|]. split; [by rewrite Hpool|].
    split; [done|]. split; [done|]. split; [done|]. split; [done|].
    split.
    { intros e0 He. destruct (so_loc _ _ S e0 He) as (tid0 & row0 & t0 & Hl0 & Ht0 & Hr0).
      unfold ent_cells. rewrite (Hloco e0 He), Hl0. simpl. rewrite Hlk, Ht0. destruct (decide (tid0 = tid)) as [->|]; [|done].
      rewrite Ht in Ht0. injection Ht0 as <-. simpl. rewrite Htr, lookup_app_l by (destruct Hok; apply lookup_lt_Some in Hr0; unfold tlen in *; lia).
      destruct (t_rows t !! row0); simpl; [by rewrite Htn, Htt|done]. }
    split.
    { unfold ent_cells. rewrite Hloce. simpl. rewrite Hlk. destruct (decide (tid = tid)); [|done]. simpl. rewrite Htz. simpl. by rewrite Htn, Htt. }
    intros tid0 t0 Ht0. rewrite Hlk. destruct (decide (tid0 = tid)) as [->|]; [|by exists t0].
    exists t'. rewrite Ht in Ht0. injection Ht0 as <-. done.
  Qed.
End create.

(** ** Removing an entity's row *)
Section remove.
  Context (w : world) (live : list Entity) (e : Entity) (src row : nat) (st : table) (sn : node).
  Hypothesis S : store_ok w live.
  Hypothesis Hlive : e ∈ live.
  Hypothesis Hloc : loc w e = Some (src, row).
  Hypothesis Hst : w_tables w !! src = Some st.
  Hypothesis Hsn : w_nodes w !! t_node st = Some sn.

  (** The world after [archetype.Remove], the swap fix-up and [index.arch = nil]. *)
  Definition remove_row : world :=
    let '(st1, swapped) := tbl_remove (zero_row sn) st row in
    let idx1 := if swapped then
                  match t_ents st1 !! row with
                  | Some se => <[eid se := Some (src, row)]> (w_index w)
                  | None => w_index w
                  end
                else w_index w in
    w <| w_tables := <[src := st1]> (w_tables w) |> <| w_index := <[eid e := None]> idx1 |>.

  Theorem remove_row_ok :
    store_ok remove_row (filter (fun x => x <> e) live) /\ w_nodes remove_row = w_nodes w /\
    (forall e', e' ∈ live -> e' <> e -> ent_cells remove_row e' = ent_cells w e') /\
    loc remove_row e = None /\
    (forall tid, tid <> src -> w_tables remove_row !! tid = w_tables w !! tid) /\
    (exists st1, w_tables remove_row !! src = Some st1 /\ tlen st1 = tlen st - 1 /\ t_node st1 = t_node st /\
                 t_target st1 = t_target st /\ t_active st1 = t_active st).
  Proof.
    destruct (move_src_row w live e src row st S Hlive Hloc Hst) as [Hrow Hrlt].
    destruct (so_table _ _ S src st Hst) as (n1 & Hn1 & Hok). rewrite Hsn in Hn1. injection Hn1 as <-.
    unfold remove_row.
    pose proof (tbl_remove_spec (zero_row sn) st row Hok Hrlt) as Hr.
    destruct (tbl_remove (zero_row sn) st row) as [st1 swapped].
    destruct Hr as (-> & Hse & Hsl & Hsok & Hsrl & Hsr & Hsn1 & Hstg & Hsa & Hsly).
    set (last := tlen st - 1) in *.
    assert (Hlast_lt : last < tlen st) by (unfold last; lia).
    destruct (t_ents st !! last) as [se|] eqn:Hse_l; [|apply lookup_ge_None in Hse_l; unfold tlen in *; lia].
    destruct (so_rows _ _ S src st last se Hst Hse_l) as [Hse_live Hse_loc].
    assert (Hst1_ents : forall i, i < last -> t_ents st1 !! i = if decide (i = row) then Some se else t_ents st !! i).
    { intros i Hi. rewrite Hse, swap_remove_lookup by (unfold tlen, last in *; lia).
      destruct (decide (i = row)); [|done]. fold (tlen st). fold last. done. }
    assert (Hst1_len : tlen st1 = last) by done.
    set (w' := w <| w_tables := <[src := st1]> (w_tables w) |> <| w_index := _ |>).
    assert (Hlk : forall tid, w_tables w' !! tid = if decide (tid = src) then Some st1 else w_tables w !! tid).
    { intros tid. unfold w'. simpl. by eapply lookup_insert_cases. }
    assert (Hse_ne : row <> last -> se <> e).
    { intros Hrl ->. rewrite Hloc in Hse_loc. injection Hse_loc as ->. done. }
    assert (Hloc' : forall e0, e0 ∈ live -> loc w' e0 =
              if decide (e0 = e) then None
              else if decide (row <> last /\ e0 = se) then Some (src, row) else loc w e0).
    { intros e0 He0. unfold w', loc. simpl.
      destruct (decide (e0 = e)) as [->|Hn0].
      - rewrite list_lookup_insert; [done|].
        destruct (negb _); [rewrite Hst1_ents' || idtac|]; unfold loc in Hloc;
          destruct (w_index w !! eid e) eqn:Hx; try done; apply lookup_lt_Some in Hx;
          try (destruct (t_ents st1 !! row); [by rewrite insert_length|done]); done.
      - assert (eid e0 <> eid e) by (intros Heq; apply Hn0; by eapply live_eid_inj).
        rewrite list_lookup_insert_ne by done.
        destruct (row =? last) eqn:Hrl; simpl.
        + apply Nat.eqb_eq in Hrl. destruct (decide (row <> last /\ e0 = se)) as [[? _]|]; done.
        + apply Nat.eqb_neq in Hrl. rewrite (Hst1_ents row) by lia. destruct (decide (row = row)); [|done].
          destruct (decide (row <> last /\ e0 = se)) as [[_ ->]|Hns].
          * rewrite list_lookup_insert; [done|]. unfold loc in Hse_loc.
            destruct (w_index w !! eid se) eqn:Hx; [by apply lookup_lt_Some in Hx|done].
          * assert (eid e0 <> eid se).
            { intros Heq. apply Hns. split; [done|]. by eapply live_eid_inj. }
            by rewrite list_lookup_insert_ne. }
    split; [|split; [done|split; [|split; [|split]]]].
    - split.
      + pose proof (so_live_nodup _ _ S) as Hnd. clear -Hnd. induction live as [|x l IH]; [constructor|].
        simpl in Hnd. apply NoDup_cons in Hnd as [Hx Hnd]. rewrite filter_cons. destruct (decide (x <> e)); [|by apply IH].
        simpl. constructor; [|by apply IH]. intros Hin. apply Hx. apply elem_of_list_fmap in Hin as (y & -> & Hy).
        apply elem_of_list_filter in Hy as [_ Hy]. apply elem_of_list_fmap. by exists y.
      + intros e0 He0. apply elem_of_list_filter in He0 as [Hn0 He0]. rewrite (Hloc' e0 He0).
        destruct (decide (e0 = e)); [done|].
        destruct (decide (row <> last /\ e0 = se)) as [[Hrl ->]|Hns].
        * exists src, row, st1. split; [done|]. rewrite Hlk. destruct (decide (src = src)); [|done]. split; [done|].
          rewrite Hst1_ents by lia. by destruct (decide (row = row)).
        * destruct (so_loc _ _ S e0 He0) as (tid0 & row0 & t0 & Hl0 & Ht0 & Hr0). exists tid0, row0. rewrite Hlk.
          destruct (decide (tid0 = src)) as [->|Hts]; [|by exists t0].
          rewrite Hst in Ht0. injection Ht0 as <-. exists st1. split; [done|]. split; [done|].
          assert (row0 <> row). { intros ->. rewrite Hrow in Hr0. by injection Hr0 as ->. }
          assert (row0 < last).
          { pose proof (lookup_lt_Some _ _ _ Hr0) as Hlt0.
            destruct (decide (row0 = last)) as [->|Hnl]; [|clear -Hlt0 Hnl Hrlt; subst last; unfold tlen in *; lia].
            rewrite Hse_l in Hr0. injection Hr0 as ->. destruct (decide (row = last)) as [->|]; [done|]. exfalso. by apply Hns. }
          rewrite Hst1_ents by done. by destruct (decide (row0 = row)).
      + intros tid0 t0 row0 e0 Ht0 Hr0. rewrite Hlk in Ht0. destruct (decide (tid0 = src)) as [->|Hts].
        * injection Ht0 as <-. assert (row0 < last). { apply lookup_lt_Some in Hr0. by rewrite <- Hst1_len. }
          rewrite Hst1_ents in Hr0 by done. destruct (decide (row0 = row)) as [->|Hnr].
          -- injection Hr0 as <-. assert (se <> e) by (apply Hse_ne; lia).
             split; [apply elem_of_list_filter; done|]. rewrite (Hloc' se Hse_live). destruct (decide (se = e)); [done|].
             destruct (decide (row <> last /\ se = se)) as [|Hn]; [done|]. exfalso. apply Hn. split; [lia|done].
          -- destruct (so_rows _ _ S src st row0 e0 Hst Hr0) as [He0 Hl0].
             assert (e0 <> e). { intros ->. rewrite Hloc in Hl0. by injection Hl0 as ->. }
             split; [apply elem_of_list_filter; done|]. rewrite (Hloc' e0 He0). destruct (decide (e0 = e)); [done|].
             destruct (decide (row <> last /\ e0 = se)) as [[_ ->]|]; [|done]. rewrite Hse_loc in Hl0. injection Hl0 as ->. lia.
        * destruct (so_rows _ _ S tid0 t0 row0 e0 Ht0 Hr0) as [He0 Hl0].
          assert (e0 <> e). { intros ->. rewrite Hloc in Hl0. injection Hl0 as -> _. done. }
          split; [apply elem_of_list_filter; done|]. rewrite (Hloc' e0 He0). destruct (decide (e0 = e)); [done|].
          destruct (decide (row <> last /\ e0 = se)) as [[_ ->]|]; [|done]. rewrite Hse_loc in Hl0. by injection Hl0 as ->.
      + intros tid0 t0 Ht0. rewrite Hlk in Ht0. change (w_nodes w') with (w_nodes w).
        destruct (decide (tid0 = src)) as [->|]; [injection Ht0 as <-; exists sn; by rewrite Hsn1|by apply (so_table _ _ S tid0 t0 Ht0)].
    - intros e0 He0 Hn0. unfold ent_cells. rewrite (Hloc' e0 He0). destruct (decide (e0 = e)); [done|].
      destruct (decide (row <> last /\ e0 = se)) as [[Hrl ->]|Hns].
      + rewrite Hse_loc. simpl. rewrite Hlk, Hst. destruct (decide (src = src)); [|done]. simpl.
        rewrite Hsr by lia. destruct (decide (row = row)); [|done]. fold last.
        destruct (t_rows st !! last); simpl; [by rewrite Hsn1, Hstg|done].
      + destruct (so_loc _ _ S e0 He0) as (tid0 & row0 & t0 & Hl0 & Ht0 & Hr0). rewrite Hl0. simpl.
        rewrite Hlk, Ht0. destruct (decide (tid0 = src)) as [->|Hts]; [|done].
        rewrite Hst in Ht0. injection Ht0 as <-. simpl.
        assert (row0 <> row). { intros ->. rewrite Hrow in Hr0. by injection Hr0 as ->. }
        assert (row0 < last).
        { pose proof (lookup_lt_Some _ _ _ Hr0) as Hlt0.
          destruct (decide (row0 = last)) as [->|Hnl]; [|clear -Hlt0 Hnl Hrlt; subst last; unfold tlen in *; lia].
          rewrite Hse_l in Hr0. injection Hr0 as ->. destruct (decide (row = last)) as [->|]; [done|]. exfalso. by apply Hns. }
        rewrite Hsr by done. destruct (decide (row0 = row)); [done|].
        destruct (t_rows st !! row0); simpl; [by rewrite Hsn1, Hstg|done].
    - rewrite (Hloc' e Hlive). by destruct (decide (e = e)).
    - intros tid Hne. rewrite Hlk. by destruct (decide (tid = src)).
    - exists st1. rewrite Hlk. destruct (decide (src = src)); [|done]. done.
  Qed.
End remove.

(** ** Retiring an empty table disturbs nothing (C06) *)
Lemma retire_table_keeps w live tid t :
  store_ok w live -> w_tables w !! tid = Some t -> tlen t = 0 ->
  store_ok (retire_table w tid) live /\ w_pool (retire_table w tid) = w_pool w /\ w_index (retire_table w tid) = w_index w /\
  (forall e, ent_cells (retire_table w tid) e = ent_cells w e) /\
  (forall tid' t', w_tables w !! tid' = Some t' -> exists t'', w_tables (retire_table w tid) !! tid' = Some t'' /\
       t_ents t'' = t_ents t' /\ t_rows t'' = t_rows t' /\ t_node t'' = t_node t' /\ t_target t'' = t_target t') /\
  (forall nid nd, w_nodes w !! nid = Some nd -> exists nd', w_nodes (retire_table w tid) !! nid = Some nd' /\
       n_mask nd' = n_mask nd /\ n_ids nd' = n_ids nd /\ n_rel nd' = n_rel nd).
Proof.
  intros S Ht Hlen. unfold retire_table. rewrite Ht.
  destruct (so_table _ _ S tid t Ht) as (nd & Hnd & Hok). rewrite Hnd.
  assert (Hreset : tbl_reset (zero_row nd) t = t) by (unfold tbl_reset; by rewrite Hlen).
  rewrite Hreset.
  set (nd' := nd <| n_tmap := assoc_del (t_target t) (n_tmap nd) |> <| n_free := n_free nd ++ [tid] |>).
  set (t' := t <| t_active := false |>).
  set (w' := w <| w_nodes := <[t_node t := nd']> (w_nodes w) |> <| w_tables := <[tid := t']> (w_tables w) |>
               <| w_cache := map (centry_remove tid) (w_cache w) |>).
  assert (Htl : forall j, w_tables w' !! j = if decide (j = tid) then Some t' else w_tables w !! j).
  { intros j. unfold w'. simpl. by eapply lookup_insert_cases. }
  assert (Hnl : forall j, w_nodes w' !! j = if decide (j = t_node t) then Some nd' else w_nodes w !! j).
  { intros j. unfold w'. simpl. by eapply lookup_insert_cases. }
  assert (Hnodes : forall nid n0, w_nodes w !! nid = Some n0 -> exists n0', w_nodes w' !! nid = Some n0' /\
       n_mask n0' = n_mask n0 /\ n_ids n0' = n_ids n0 /\ n_rel n0' = n_rel n0).
  { intros nid n0 H0. rewrite Hnl. destruct (decide (nid = t_node t)) as [->|]; [|by exists n0].
    rewrite Hnd in H0. injection H0 as <-. by exists nd'. }
  assert (Htabs : forall tid0 t0, w_tables w !! tid0 = Some t0 -> exists t0', w_tables w' !! tid0 = Some t0' /\
       t_ents t0' = t_ents t0 /\ t_rows t0' = t_rows t0 /\ t_node t0' = t_node t0 /\ t_target t0' = t_target t0).
  { intros tid0 t0 H0. rewrite Htl. destruct (decide (tid0 = tid)) as [->|]; [|by exists t0].
    rewrite Ht in H0. injection H0 as <-. by exists t'. }
  split; [|split; [done|split; [done|split; [|done]]]].
  - split.
    + apply S.
    + intros e He. destruct (so_loc _ _ S e He) as (tid0 & row0 & t0 & Hl0 & Ht0 & Hr0).
      destruct (Htabs tid0 t0 Ht0) as (t0' & Ht0' & He0 & _). exists tid0, row0, t0'. split; [done|]. split; [done|]. by rewrite He0.
    + intros tid0 t0' row0 e Ht0' Hr0. rewrite Htl in Ht0'. destruct (decide (tid0 = tid)) as [->|].
      * injection Ht0' as <-. by apply (so_rows _ _ S tid t row0 e).
      * by apply (so_rows _ _ S tid0 t0' row0 e).
    + intros tid0 t0' Ht0'. rewrite Htl in Ht0'. destruct (decide (tid0 = tid)) as [->|].
      * injection Ht0' as <-. exists nd'. change (t_node t') with (t_node t). rewrite Hnl.
        destruct (decide (t_node t = t_node t)); [|done]. split; [done|].
        destruct Hok as [Hc Hw Hz]. by split.
      * destruct (so_table _ _ S tid0 t0' Ht0') as (n0 & Hn0 & Hok0).
        destruct (Hnodes _ n0 Hn0) as (n0' & Hn0' & _ & Hi0 & _). exists n0'. split; [done|]. unfold zero_row in *. by rewrite Hi0.
  - intros e. unfold ent_cells. change (loc w' e) with (loc w e). destruct (loc w e) as [[tid0 row0]|]; [|done]. simpl.
    rewrite Htl. destruct (decide (tid0 = tid)) as [->|]; [|done]. by rewrite Ht.
Qed.

Lemma cleanup_table_keeps w live tid :
  store_ok w live ->
  store_ok (cleanup_table w tid) live /\ w_pool (cleanup_table w tid) = w_pool w /\
  (forall e, ent_cells (cleanup_table w tid) e = ent_cells w e).
Proof.
  intros S. unfold cleanup_table. destruct (w_tables w !! tid) as [t|] eqn:Ht; [|done].
  destruct (w_nodes w !! t_node t); [|done].
  destruct (0 <? tlen t) eqn:Hlen; [done|]. apply Nat.ltb_ge in Hlen. simpl.
  destruct (_ || _); [done|]. destruct (_ || _); [done|].
  destruct (retire_table_keeps w live tid t S Ht ltac:(lia)) as (S' & Hp & _ & Hc & _). done.
Qed.

Lemma cleanup_tables_for_keeps w live target :
  store_ok w live ->
  store_ok (cleanup_tables_for w target) live /\ w_pool (cleanup_tables_for w target) = w_pool w /\
  (forall e, ent_cells (cleanup_tables_for w target) e = ent_cells w e).
Proof.
  unfold cleanup_tables_for. generalize (seq 0 (length (w_nodes w))). intros l. revert w.
  induction l as [|nid r IH]; intros w S; simpl; [done|].
  set (w1 := match w_nodes w !! nid with
             | Some nd => match assoc_get target (n_tmap nd) with
                          | Some tid => match w_tables w !! tid with
                                        | Some t => if tlen t =? 0 then retire_table w tid else w
                                        | None => w end
                          | None => w end
             | None => w end).
  assert (H1 : store_ok w1 live /\ w_pool w1 = w_pool w /\ forall e, ent_cells w1 e = ent_cells w e).
  { unfold w1. destruct (w_nodes w !! nid); [|done]. destruct (assoc_get _ _) as [tid|]; [|done].
    destruct (w_tables w !! tid) as [t|] eqn:Ht; [|done]. destruct (tlen t =? 0) eqn:Hl; [|done].
    apply Nat.eqb_eq in Hl. destruct (retire_table_keeps w live tid t S Ht Hl) as (S' & Hp & _ & Hc & _). done. }
  destruct H1 as (S1 & Hp1 & Hc1). destruct (IH w1 S1) as (S2 & Hp2 & Hc2).
  split; [done|]. split; [congruence|]. intros e. by rewrite Hc2.
Qed.

(** [store_ok] and [ent_cells] only look at tables, index and nodes. *)
Lemma store_ok_fields w w' live :
  w_tables w' = w_tables w -> w_index w' = w_index w -> w_nodes w' = w_nodes w ->
  store_ok w live -> store_ok w' live /\ forall e, ent_cells w' e = ent_cells w e.
Proof.
  intros Ht Hi Hn [S1 S2 S3 S4]. split.
  - split; unfold loc in *; rewrite ?Ht, ?Hi, ?Hn; done.
  - intros e. unfold ent_cells, loc. by rewrite Ht, Hi.
Qed.

Lemma live_chk_alive p live issued frees e :
  pool_inv p live issued frees -> e ∈ live -> pool_alive_opt p e = Some true.
Proof.
  intros P He. destruct (pi_live_slot _ _ _ _ P e He) as [_ Hs]. unfold pool_alive_opt. rewrite Hs. simpl. by rewrite N.eqb_refl.
Qed.

Lemma store_ok_set_tbits w live tb :
  store_ok w live -> store_ok (w <| w_tbits := tb |>) live /\ forall e, ent_cells (w <| w_tbits := tb |>) e = ent_cells w e.
Proof. intros S. by apply store_ok_fields. Qed.

(** World.RemoveEntity (any world, relation tables and target clean-up included): the
    entity is gone, every other alive entity keeps its node, target and cells. *)
Theorem remove_entity_ok w live issued frees e :
  store_ok w live -> pool_inv (w_pool w) live issued frees -> e ∈ live -> (egen e < gen_max)%N ->
  is_locked w = false ->
  let r := op_remove_entity w e in
  snd (fst r) = Ok VUnit /\
  store_ok (fst (fst r)) (filter (fun x => x <> e) live) /\
  pool_inv (w_pool (fst (fst r))) (filter (fun x => x <> e) live) issued (eid e :: frees) /\
  (forall e', e' ∈ live -> e' <> e -> ent_cells (fst (fst r)) e' = ent_cells w e') /\
  pool_alive (w_pool (fst (fst r))) e = false.
Proof.
  intros S P He Hg HL. unfold op_remove_entity. rewrite HL.
  destruct (so_loc _ _ S e He) as (src & row & st & Hloc & Hst & Hrow).
  destruct (so_table _ _ S src st Hst) as (sn & Hsn & Hok).
  unfold ent_table, chk_alive. rewrite (live_chk_alive _ _ _ _ _ P He), Hloc, Hst, Hsn.
  pose proof (remove_row_ok w live e src row st sn S He Hloc Hst Hsn) as HR. unfold remove_row in HR.
  destruct (tbl_remove (zero_row sn) st row) as [st1 swapped].
  destruct HR as (S1 & Hn1 & Hc1 & _ & _ & _).
  destruct (pool_recycle_inv (w_pool w) live issued frees e P He Hg) as (P1 & Hdead & _).
  set (idx1 := if swapped then match t_ents st1 !! row with Some se => <[eid se := Some (src, row)]> (w_index w) | None => w_index w end else w_index w) in *.
  set (wr := w <| w_tables := <[src := st1]> (w_tables w) |> <| w_index := <[eid e := None]> idx1 |>) in *.
  match goal with |- context [cleanup_table ?x src] => set (w2 := x) end.
  (* w1 of the operation = wr up to locks and pool *)
  match goal with _ := (if tbit ?y _ then _ else _) |- _ => set (w1 := y) in * end.
  destruct (store_ok_fields wr w1 (filter (fun x => x <> e) live) eq_refl eq_refl eq_refl S1) as (S1' & Hc1').
  assert (H2 : store_ok w2 (filter (fun x => x <> e) live) /\ w_pool w2 = pool_recycle (w_pool w) e /\ forall e0, ent_cells w2 e0 = ent_cells w1 e0).
  { unfold w2. destruct (tbit w1 (eid e)); [|done].
    destruct (cleanup_tables_for_keeps w1 _ e S1') as (Sa & Hpa & Hca).
    destruct (store_ok_set_tbits (cleanup_tables_for w1 e) _ (<[eid e := false]> (w_tbits w1)) Sa) as (Sb & Hcb).
    split; [done|]. split; [done|]. intros e0. by rewrite Hcb, Hca. }
  destruct H2 as (S2 & Hp2 & Hc2).
  destruct (cleanup_table_keeps w2 _ src S2) as (S3 & Hp3 & Hc3).
  simpl. split; [done|]. split; [done|]. split; [by rewrite Hp3, Hp2|]. split.
  - intros e' He' Hne. by rewrite Hc3, Hc2, Hc1', Hc1.
  - by rewrite Hp3, Hp2.
Qed.
