(** * C08: Batch.SetRelation / Relations.SetBatch equal Relations.Set applied to every
      entity that matched the filter when the call was made. *)
From Arche Require Import Model.Base Model.Pool Model.Filter Model.World Model.Ops
  Proofs.Tables Proofs.Bits Proofs.Store Proofs.Graph Proofs.WorldInv Proofs.Cursor
  Proofs.Frame Proofs.StepFrame
  Proofs.RelGraph Proofs.RelWorld Proofs.RelRefine Proofs.QueryExact Proofs.CacheInv Proofs.BatchMove Proofs.BatchExchange.

(** ** One table *)
Lemma set_relation_table_rok w live src st rid target w' sg :
  world_okr w live -> cache_ok w -> w_tables w !! src = Some st -> t_ents st <> [] ->
  set_relation_table w src rid target = Some (Some (w', sg)) ->
  exists sn dst,
    w_nodes w !! t_node st = Some sn /\ n_rel sn = Some rid /\ t_target st <> target /\ src <> dst /\
    world_okr w' live /\ cache_ok w' /\ frame w w' /\ w_pool w' = w_pool w /\
    length (w_index w') = length (w_index w) /\ nodes_same w w' /\
    (forall e, e ∈ live -> e ∉ t_ents st -> ent_cells w' e = ent_cells w e) /\
    (forall e, e ∈ t_ents st ->
        ent_mask w' e = ent_mask w e /\ ent_rel w' e = ent_rel w e /\ ent_target w' e = Some target /\
        forall id, comp_val w' e id = comp_val w e id) /\
    (forall tid t, tid <> src -> tid <> dst -> w_tables w !! tid = Some t -> t_ents t <> [] -> w_tables w' !! tid = Some t) /\
    (forall t, w_tables w !! dst = Some t ->
        exists t', w_tables w' !! dst = Some t' /\ t_ents t' = t_ents t ++ t_ents st /\ t_node t' = t_node t /\
                   t_target t' = target /\ t_node t = t_node st).
Proof.
  intros [S G] C Hst Hstne H. pose proof (frame_set_relation_table w src rid target w' sg H) as F.
  unfold set_relation_table in H. rewrite Hst in H.
  destruct (so_table _ _ S src st Hst) as (sn & Hsn & Hsok). rewrite Hsn in H.
  destruct (ent_eqb (t_target st) target) eqn:Heq; [done|]. apply ent_eqb_neq in Heq.
  destruct (negb (check_relation w src rid)) eqn:Hchk; [done|]. apply negb_false_iff in Hchk.
  unfold check_relation in Hchk. rewrite Hst, Hsn in Hchk.
  destruct (n_rel sn) as [r|] eqn:Hrel; [|done]. apply Nat.eqb_eq in Hchk as ->.
  assert (Hdst : exists w1 dst dt dn, (match node_get_table sn target with
                            | Some tid => (w, tid)
                            | None => create_table w (t_node st) target true
                            end) = (w1, dst) /\ ext_r w w1 /\ rgraph_ok w1 /\ cache_ok w1 /\
            w_tables w1 !! dst = Some dt /\ t_node dt = t_node st /\ t_target dt = target /\ t_active dt = true /\
            w_nodes w1 !! t_node st = Some dn /\ n_mask dn = n_mask sn /\ n_ids dn = n_ids sn /\ n_rel dn = n_rel sn).
  { destruct (node_get_table sn target) as [tid|] eqn:Hget.
    - unfold node_get_table in Hget. rewrite (proj2 (node_has_rel_true sn) (ex_intro _ rid Hrel)) in Hget.
      destruct (rg_tmap _ G _ sn target tid Hsn Hget) as (t & Ht & Htn & Htt & Hta).
      exists w, tid, t, sn. split; [done|]. split; [apply ext_r_refl|]. done.
    - pose proof (create_table_rok w (t_node st) sn target true G Hsn Hget) as Hc.
      pose proof (cache_ok_create w (t_node st) sn target true G C Hsn Hget) as Hcc.
      destruct (create_table w (t_node st) target true) as [wc tid].
      destruct Hc as (E3 & G3 & t & nd' & Ht & Htn & _ & Hta & Htt & Hnd' & Hmn & Hrn & Hin).
      rewrite (proj2 (node_has_rel_true sn) (ex_intro _ rid Hrel)) in Htt.
      exists wc, tid, t, nd'. done. }
  destruct Hdst as (w1 & dst & dt & dn & Hgt & E & G1 & C1 & Hdt & Hdtn & Hdtt & Hdta & Hdn & Hdm & Hdi & Hdr).
  rewrite Hgt in H.
  assert (S1 : store_ok w1 live) by (by eapply ext_r_store_ok).
  assert (Hst1 : w_tables w1 !! src = Some st).
  { destruct (xr_tables _ _ E src st Hst) as (t' & Ht' & _ & _ & _ & _ & Q). by rewrite (Q Hstne) in Ht'. }
  assert (Hsd : src <> dst) by (intros <-; rewrite Hst1 in Hdt; by injection Hdt as <-).
  assert (Hdn' : w_nodes w1 !! t_node dt = Some dn) by (by rewrite Hdtn).
  assert (Hcap : 0 < node_capinc w1 dn).
  { unfold node_capinc. destruct (rg_capinc _ G1). by destruct (node_has_rel dn). }
  pose proof (move_all_ok w1 live src dst (n_mask sn) st dt dn dn S1 Hsd Hst1 Hdt Hdn Hdn' Hcap) as HM.
  pose proof (frame_move_all w1 src dst (n_mask sn)) as F2.
  destruct (move_all w1 src dst (n_mask sn)) as [w2 start]. simpl in HM, F2. injection H as <- _.
  destruct HM as (S2 & Hn2 & Hp2 & Htb2 & Hc2 & Hlen2 & Hil2 & Hother & Hmoved & Htabs &
                  (st1 & Hst1' & Hst1e & Hst1n & Hst1t & Hst1a) & (dt2 & Hdt2' & Hdt2e & Hdt2n & Hdt2t & Hdt2a) & _).
  assert (HT2 : tabs_sim w1 w2).
  { intros tid. destruct (decide (tid = src)) as [->|Hs]; [by rewrite Hst1, Hst1'|].
    destruct (decide (tid = dst)) as [->|Hd]; [by rewrite Hdt, Hdt2'|].
    rewrite Htabs by done. by destruct (w_tables w1 !! tid). }
  assert (G2 : rgraph_ok w2).
  { eapply (rgraph_ok_same_nodes w1 w2); try done; try apply F2.
    - intros tid t Ht. destruct (decide (tid = src)) as [->|Hs].
      + exists st1. rewrite Hst1 in Ht. injection Ht as <-. repeat split; try done; intros; congruence.
      + destruct (decide (tid = dst)) as [->|Hd].
        * exists dt2. rewrite Hdt in Ht. injection Ht as <-. repeat split; try done; intros; congruence.
        * exists t. by rewrite Htabs.
    - intros tid t' Ht'. apply lookup_lt_is_Some. rewrite <- Hlen2. by apply lookup_lt_Some in Ht'. }
  assert (C2 : cache_ok w2) by (apply (cache_ok_sim w1); try done; by apply nodes_same_eq).
  set (w3 := set_tbit w2 target).
  assert (Hw3 : w_nodes w3 = w_nodes w2 /\ w_tables w3 = w_tables w2 /\ w_index w3 = w_index w2 /\
                w_pool w3 = w_pool w2 /\ store_ok w3 live).
  { unfold w3, set_tbit. destruct (ent_is_zero target); [done|]. simpl. do 4 (split; [done|]).
    destruct S2 as [A1 A2 A3 A4]. split; [exact A1|exact A2|exact A3|exact A4]. }
  destruct Hw3 as (Hn3 & Ht3 & Hi3 & Hp3 & S3).
  assert (G3 : rgraph_ok w3) by (by apply set_tbit_rok).
  assert (C3 : cache_ok w3) by (by apply cache_ok_set_tbit).
  destruct (cleanup_table_keeps w3 live src S3) as (S4 & Hp4 & Hcells4).
  pose proof (cleanup_table_rok w3 src G3) as G4.
  pose proof (cache_ok_cleanup_table w3 src G3 C3) as C4.
  destruct (cleanup_table_side w3 src) as (A1&A2&A3&A4&A5&A6&A7&A8&A9).
  set (w4 := cleanup_table w3 src) in *.
  assert (Hcells3 : forall e0, ent_cells w3 e0 = ent_cells w2 e0) by (intros; by apply ent_cells_same).
  assert (HN : nodes_same w w4).
  { eapply nodes_same_trans; [apply (ext_r_nodes _ _ E)|].
    eapply nodes_same_trans; [apply (nodes_same_eq w1 w3); congruence|apply cleanup_table_nodes]. }
  assert (Hoth4 : forall tid, tid <> src -> w_tables w4 !! tid = w_tables w3 !! tid).
  { intros tid Hne. unfold w4, cleanup_table. destruct (w_tables w3 !! src) as [tt|]; [|done].
    destruct (w_nodes w3 !! t_node tt); [|done]. destruct (_ || _); [done|]. destruct (_ || _); [done|].
    unfold retire_table. destruct (w_tables w3 !! src) as [t5|]; [|done]. destruct (w_nodes w3 !! t_node t5); [|done].
    simpl. by rewrite list_lookup_insert_ne. }
  exists sn, dst. split; [done|]. split; [done|]. split; [done|]. split; [done|].
  split; [by split|]. split; [done|]. split; [done|].
  split; [by rewrite A1, Hp3, Hp2, (xr_pool _ _ E)|]. split; [by rewrite A2, Hi3, Hil2, (xr_index _ _ E)|].
  split; [done|]. split.
  { intros e He Hn. rewrite Hcells4, Hcells3, (Hother e He Hn). by apply (ext_r_cells w w1 live). }
  split.
  { intros e He. apply elem_of_list_lookup in He as [i Hi].
    assert (Hsrow : exists srow, t_rows st !! i = Some srow).
    { destruct Hsok as [Hl _ _]. apply lookup_lt_is_Some. apply lookup_lt_Some in Hi. unfold tlen in Hl. lia. }
    destruct Hsrow as [srow Hsrow].
    destruct (so_rows _ _ S src st i e Hst Hi) as [Helive Hloc].
    assert (Hce : ent_cells w e = Some (t_node st, t_target st, srow)).
    { unfold ent_cells. rewrite Hloc. simpl. rewrite Hst. simpl. by rewrite Hsrow. }
    assert (Hce4 : ent_cells w4 e = Some (t_node dt, t_target dt, copy_cells (n_mask sn) (n_ids dn) srow (n_ids dn) (zero_row dn))).
    { rewrite Hcells4, Hcells3. by apply (Hmoved i e srow). }
    assert (Hrow_same : copy_cells (n_mask sn) (n_ids dn) srow (n_ids dn) (zero_row dn) = srow).
    { unfold zero_row. rewrite Hdi. apply (copy_cells_id (w_tb w)); [by apply (rg_ids _ G _ _ Hsn)|].
      destruct Hsok as [_ Hw _]. rewrite (Hw i srow Hsrow). unfold zero_row. by rewrite replicate_length. }
    rewrite Hrow_same, Hdtn, Hdtt in Hce4.
    destruct (HN _ sn Hsn) as (sn4 & Hsn4 & Hm4 & Hi4 & Hr4).
    split; [unfold ent_mask; rewrite Hce4, Hce; simpl; rewrite Hsn4, Hsn; simpl; congruence|].
    split; [unfold ent_rel; rewrite Hce4, Hce; simpl; rewrite Hsn4, Hsn; simpl; congruence|].
    split; [unfold ent_target; by rewrite Hce4|].
    intros id. unfold comp_val. rewrite Hce4, Hce. simpl. rewrite Hsn4, Hsn. simpl. unfold col_of. by rewrite Hi4. }
  split.
  { intros tid t Hs Hd Ht Hne. destruct (xr_tables _ _ E tid t Ht) as (t1 & Ht1 & Hn1 & He1 & _ & _ & Q).
    rewrite Hoth4 by done. rewrite Ht3, Htabs by done. by rewrite <- (Q Hne). }
  intros t Ht. destruct (xr_tables _ _ E dst t Ht) as (t1 & Ht1 & Hn1 & He1 & _).
  rewrite Hdt in Ht1. injection Ht1 as <-.
  exists dt2. rewrite Hoth4 by done. rewrite Ht3. split; [done|]. split; [by rewrite Hdt2e, He1|]. split; [congruence|]. split; [congruence|congruence].
Qed.

(** ** The loop *)
Definition srviews (T : Entity) (rid : nat) (w w' : world) (e : Entity) : Prop :=
  ent_mask w' e = ent_mask w e /\ ent_rel w' e = ent_rel w e /\ ent_target w' e = Some T /\
  (forall id, comp_val w' e id = comp_val w e id) /\
  (ent_target w e = Some T \/ ent_rel w e = Some (Some rid)).

Lemma srviews_trans T rid w w1 w' e : srviews T rid w w1 e -> srviews T rid w1 w' e -> srviews T rid w w' e.
Proof.
  intros (A1 & A2 & A3 & A4 & A5) (B1 & B2 & B3 & B4 & B5).
  split; [congruence|]. split; [congruence|]. split; [done|]. split; [intros id; by rewrite B4, A4|done].
Qed.

Definition srloop (rid : nat) (T : Entity) := batch_loop (fun w tid => set_relation_table w tid rid T).

Lemma srloop_ok live rid T : forall l w segs0 pr w' segs,
  NoDup l -> world_okr w live -> cache_ok w ->
  (forall tid, tid ∈ l -> tbl_ents w tid <> []) ->
  srloop rid T w l segs0 pr = inl (Some (w', segs)) ->
  world_okr w' live /\ cache_ok w' /\ frame w w' /\ w_pool w' = w_pool w /\
  length (w_index w') = length (w_index w) /\ nodes_same w w' /\
  (forall e, e ∈ live -> (forall tid, tid ∈ l -> e ∉ tbl_ents w tid) -> ent_cells w' e = ent_cells w e) /\
  (forall tid e, tid ∈ l -> e ∈ tbl_ents w tid -> srviews T rid w w' e).
Proof.
  induction l as [|tid r IH]; intros w segs0 pr w' segs Hnd K C Hne H.
  { simpl in H. injection H as <- _. split; [done|]. split; [done|]. split; [apply frame_refl|]. split; [done|]. split; [done|].
    split; [apply nodes_same_refl|]. split; [done|]. intros ? ? Hx. by apply elem_of_nil in Hx. }
  apply NoDup_cons in Hnd as [Hnotin Hnd].
  assert (Htne : tbl_ents w tid <> []) by (apply Hne, elem_of_list_here).
  unfold srloop in H. simpl in H.
  assert (Hskip : table_skip w tid = false).
  { unfold table_skip, tbl_ents in *. destruct (w_tables w !! tid) as [t|]; [|done]. apply Nat.eqb_neq. unfold tlen. by destruct (t_ents t). }
  rewrite Hskip in H.
  destruct (w_tables w !! tid) as [st|] eqn:Hst; [|unfold tbl_ents in Htne; by rewrite Hst in Htne].
  rewrite (tbl_ents_ne w tid st Hst) in Htne.
  (* views of the entities of a table *)
  assert (Hrows : forall tid0 t0 e, w_tables w !! tid0 = Some t0 -> e ∈ t_ents t0 ->
            e ∈ live /\ ent_target w e = Some (t_target t0) /\ (forall tid1 t1, w_tables w !! tid1 = Some t1 -> e ∈ t_ents t1 -> tid1 = tid0)).
  { intros tid0 t0 e Ht0 He. apply elem_of_list_lookup in He as [i Hi].
    destruct (so_rows _ _ (wr_store _ _ K) tid0 t0 i e Ht0 Hi) as [Hl Hloc].
    destruct (so_table _ _ (wr_store _ _ K) tid0 t0 Ht0) as (n0 & Hn0 & _).
    destruct (ent_views_of_row w live K tid0 t0 i e n0 Ht0 Hi Hn0) as (_ & _ & Htg & _).
    split; [done|]. split; [done|]. intros tid1 t1 Ht1 He1. apply elem_of_list_lookup in He1 as [j Hj].
    destruct (so_rows _ _ (wr_store _ _ K) tid1 t1 j e Ht1 Hj) as [_ Hloc1]. congruence. }
  destruct (set_relation_table w tid rid T) as [[[w1 s]|]|] eqn:Hx; simpl in H; [| |done].
  - (* the table is moved *)
    destruct (set_relation_table_rok w live tid st rid T w1 s K C Hst Htne Hx)
      as (sn & dst & Hsn & Hrel & Htgne & Hsd & K1 & C1 & F1 & Hp1 & Hil1 & HN1 & Hoth1 & Hmoved1 & Htab1 & Hdst1).
    assert (Hr1 : forall tid', tid' ∈ r -> exists t t1, w_tables w !! tid' = Some t /\ w_tables w1 !! tid' = Some t1 /\
              ((tid' <> dst /\ t1 = t) \/ (tid' = dst /\ t_ents t1 = t_ents t ++ t_ents st))).
    { intros tid' Hin. assert (tid' <> tid) by (intros ->; done).
      pose proof (Hne tid' (elem_of_list_further _ _ _ Hin)) as Hn'. unfold tbl_ents in Hn'.
      destruct (w_tables w !! tid') as [t|] eqn:Ht; [|done]. destruct (decide (tid' = dst)) as [->|Hd].
      - destruct (Hdst1 t Ht) as (t1 & Ht1 & He1 & _). exists t, t1. split; [done|]. split; [done|]. by right.
      - exists t, t. split; [done|]. split; [by apply Htab1|]. by left. }
    assert (Hne1 : forall tid', tid' ∈ r -> tbl_ents w1 tid' <> []).
    { intros tid' Hin. destruct (Hr1 tid' Hin) as (t & t1 & Ht & Ht1 & Hcase). rewrite (tbl_ents_ne _ _ _ Ht1).
      specialize (Hne tid' (elem_of_list_further _ _ _ Hin)). rewrite (tbl_ents_ne _ _ _ Ht) in Hne.
      destruct Hcase as [[_ ->]|[_ ->]]; [done|]. intros Hx'. apply app_eq_nil in Hx' as [? _]. done. }
    destruct (IH w1 (segs0 ++ [s]) true w' segs Hnd K1 C1 Hne1 H)
      as (K' & C' & F' & Hp' & Hil' & HN' & Hoth' & Hviews').
    split; [done|]. split; [done|]. split; [by eapply frame_trans|]. split; [congruence|]. split; [congruence|].
    split; [by eapply nodes_same_trans|]. split.
    + intros e He Hnot. rewrite Hoth'.
      * apply Hoth1; [done|]. specialize (Hnot tid (elem_of_list_here _ _)). by rewrite (tbl_ents_ne _ _ _ Hst) in Hnot.
      * done.
      * intros tid' Hin Hmem. destruct (Hr1 tid' Hin) as (t & t1 & Ht & Ht1 & Hcase). rewrite (tbl_ents_ne _ _ _ Ht1) in Hmem.
        destruct Hcase as [[_ ->]|[_ He1]].
        -- apply (Hnot tid' (elem_of_list_further _ _ _ Hin)). by rewrite (tbl_ents_ne _ _ _ Ht).
        -- rewrite He1 in Hmem. apply elem_of_app in Hmem as [Hm|Hm].
           ++ apply (Hnot tid' (elem_of_list_further _ _ _ Hin)). by rewrite (tbl_ents_ne _ _ _ Ht).
           ++ apply (Hnot tid (elem_of_list_here _ _)). by rewrite (tbl_ents_ne _ _ _ Hst).
    + intros tid' e Hin He. apply elem_of_cons in Hin as [->|Hin].
      * rewrite (tbl_ents_ne _ _ _ Hst) in He. destruct (Hmoved1 e He) as (Hm1 & Hr1' & Ht1 & Hv1).
        destruct (Hrows tid st e Hst He) as (Hlive & Htg0 & Huniq).
        assert (V1 : srviews T rid w w1 e).
        { split; [done|]. split; [done|]. split; [done|]. split; [done|]. right.
          destruct (so_loc _ _ (wr_store _ _ K) e Hlive) as (tid0 & row0 & t0 & Hl0 & Ht0 & Hr0).
          assert (tid0 = tid) by (eapply Huniq; [exact Ht0|by eapply elem_of_list_lookup_2]). subst tid0.
          rewrite Hst in Ht0. injection Ht0 as <-.
          destruct (ent_views_of_row w live K tid st row0 e sn Hst Hr0 Hsn) as (_ & _ & _ & Hre). by rewrite Hre, Hrel. }
        destruct (decide (dst ∈ r)) as [Hdr|Hdr].
        -- apply (srviews_trans T rid w w1 w'); [done|]. apply (Hviews' dst); [done|].
           destruct (Hr1 dst Hdr) as (t & t1 & Ht & Ht1' & Hcase). rewrite (tbl_ents_ne _ _ _ Ht1').
           destruct Hcase as [[? _]|[_ He1]]; [done|]. rewrite He1. apply elem_of_app. by right.
        -- assert (Hkeep : ent_cells w' e = ent_cells w1 e).
           { apply Hoth'; [done|]. intros tid' Hin' Hmem. destruct (Hr1 tid' Hin') as (t & t1 & Ht & Ht1' & Hcase).
             rewrite (tbl_ents_ne _ _ _ Ht1') in Hmem. destruct Hcase as [[_ ->]|[-> _]]; [|done].
             assert (tid' = tid) by (by eapply Huniq). subst tid'. done. }
           destruct (views_same w1 w' live e (wr_store _ _ K1) Hlive HN' Hkeep) as (X1 & X2 & X3 & X4).
           destruct V1 as (Y1 & Y2 & Y3 & Y4 & Y5).
           split; [congruence|]. split; [congruence|]. split; [congruence|]. split; [intros id; by rewrite X4, Y4|done].
      * destruct (Hr1 tid' Hin) as (t & t1 & Ht & Ht1' & Hcase). rewrite (tbl_ents_ne _ _ _ Ht) in He.
        destruct (Hrows tid' t e Ht He) as (Hlive & Htg0 & Huniq).
        assert (Hnst : e ∉ t_ents st).
        { intros Hmem. assert (tid = tid') by (by eapply Huniq). subst tid'. done. }
        assert (Hc1 : ent_cells w1 e = ent_cells w e) by (by apply Hoth1).
        destruct (views_same w w1 live e (wr_store _ _ K) Hlive HN1 Hc1) as (X1 & X2 & X3 & X4).
        assert (He1 : e ∈ tbl_ents w1 tid').
        { rewrite (tbl_ents_ne _ _ _ Ht1'). destruct Hcase as [[_ ->]|[_ ->]]; [done|]. apply elem_of_app. by left. }
        destruct (Hviews' tid' e Hin He1) as (Y1 & Y2 & Y3 & Y4 & Y5).
        split; [congruence|]. split; [congruence|]. split; [done|]. split; [intros id; by rewrite Y4, X4|].
        destruct Y5 as [Y5|Y5]; [left|right]; congruence.
  - (* the table already has the target: skipped *)
    assert (Htg : t_target st = T).
    { unfold set_relation_table in Hx. rewrite Hst in Hx. destruct (w_nodes w !! t_node st); [|done].
      destruct (ent_eqb (t_target st) T) eqn:Heq; [by apply ent_eqb_eq in Heq|]. destruct (negb _); [done|].
      destruct (match node_get_table _ _ with Some tid0 => _ | None => _ end). destruct (move_all _ _ _ _). done. }
    assert (Hne' : forall tid', tid' ∈ r -> tbl_ents w tid' <> []) by (intros tid' Hin; apply Hne; by apply elem_of_list_further).
    destruct (IH w segs0 pr w' segs Hnd K C Hne' H) as (K' & C' & F' & Hp' & Hil' & HN' & Hoth' & Hviews').
    split; [done|]. split; [done|]. split; [done|]. split; [done|]. split; [done|]. split; [done|]. split.
    + intros e He Hnot. apply Hoth'; [done|]. intros tid' Hin. apply Hnot. by apply elem_of_list_further.
    + intros tid' e Hin He. apply elem_of_cons in Hin as [->|Hin]; [|by apply (Hviews' tid')].
      rewrite (tbl_ents_ne _ _ _ Hst) in He. destruct (Hrows tid st e Hst He) as (Hlive & Htg0 & Huniq).
      assert (Hkeep : ent_cells w' e = ent_cells w e).
      { apply Hoth'; [done|]. intros tid' Hin' Hmem. unfold tbl_ents in Hmem. destruct (w_tables w !! tid') as [t|] eqn:Ht; [|by apply elem_of_nil in Hmem].
        assert (tid' = tid) by (by eapply Huniq). subst tid'. done. }
      destruct (views_same w w' live e (wr_store _ _ K) Hlive HN' Hkeep) as (X1 & X2 & X3 & X4).
      split; [done|]. split; [done|]. split; [congruence|]. split; [done|]. left. congruence.
Qed.

(** ** Batch.SetRelation / Relations.SetBatch with an uncached filter *)
Theorem batch_set_relation_refines w A f rid T w' n evs :
  R w A -> cache_ok w ->
  op_batch_set_relation w (FPlain f) rid T = (w', Ok (VNat n), evs) ->
  let L := table_ents w (get_tables w f) in
  n = length L /\ NoDup L /\ (forall e, e ∈ L <-> (e ∈ as_live A /\ ent_matches w f e)) /\
  R w' (a_map A L (fun a => mkA (a_mask a) T (a_vals a))) /\ cache_ok w'.
Proof.
  intros HR C H L. pose proof HR as [K Hr Hu He].
  destruct (get_tables_exact w (as_live A) f (r2_ok _ _ _ K)) as [HLnd HLmem].
  unfold op_batch_set_relation, set_relation_batch_nn in H. rewrite Hu in H.
  destruct (negb (target_ok w T)); [done|]. cbn [arg_tables] in H.
  change (batch_loop (fun w tid => set_relation_table w tid rid T)) with (srloop rid T) in H.
  destruct (srloop rid T w (nonempty_tables w (get_tables w f)) [] false) as [[[w1 segs]|]|p] eqn:Hloop;
    [|done|by destruct p].
  simpl in H. injection H as <- <- _.
  assert (Hnd : NoDup (nonempty_tables w (get_tables w f))).
  { unfold nonempty_tables. apply NoDup_filter. rewrite get_tables_contrib. by apply (selected_nodup w (as_live A)), K. }
  assert (Hne : forall tid, tid ∈ nonempty_tables w (get_tables w f) -> tbl_ents w tid <> []).
  { intros tid Hin. unfold nonempty_tables in Hin. apply elem_of_list_filter in Hin as [Hs _].
    unfold table_skip, tbl_ents in *. destruct (w_tables w !! tid) as [t|]; [|done]. apply Nat.eqb_neq in Hs. unfold tlen in Hs. by destruct (t_ents t). }
  destruct (srloop_ok (as_live A) rid T _ w [] false w1 segs Hnd (r2_ok _ _ _ K) C Hne Hloop)
    as (K' & C' & F & Hp & Hil & HN & Hoth & Hviews).
  split; [apply total_len_ents|]. split; [done|]. split; [done|]. split; [|done].
  split; unfold a_map; cbn [as_ents as_live as_issued as_reg].
  - destruct K as [_ [frees P] L0]. split; [done|exists frees; by rewrite Hp|by rewrite Hil, Hp].
  - by rewrite (fr_reg _ _ F).
  - unfold is_locked. by rewrite (fr_locks _ _ F).
  - intros e Hin. destruct (He e Hin) as (a & Ha & V).
    pose proof (assoc_get_a_map (as_ents A) L (fun a => mkA (a_mask a) T (a_vals a)) e) as Hag. cbn beta in Hag. rewrite Hag, Ha. simpl.
    destruct (decide (e ∈ L)) as [HL|HL].
    + exists (mkA (a_mask a) T (a_vals a)). split; [done|].
      apply table_ents_nonempty in HL as (tid & Htid & Hmem).
      destruct (Hviews tid e Htid Hmem) as (V1 & V2 & V3 & V4 & V5).
      destruct V as [W1 W2 W3 W4 W5 W6]. split; simpl; try done.
      * congruence.
      * intros id Hid Hb. rewrite V4. apply W3; [by rewrite <- (fr_tb _ _ F)|done].
      * intros Hn. destruct V5 as [V5|V5]; [rewrite W2 in V5; injection V5 as <-; by apply W6|].
        rewrite (ent_rel_arel w (as_live A) e (a_mask a) (r2_ok _ _ _ K) Hin W1) in V5. rewrite <- Hr in V5. congruence.
    + exists a. split; [done|].
      assert (Hc : ent_cells w1 e = ent_cells w e).
      { apply Hoth; [done|]. intros tid Htid Hmem. apply HL. apply table_ents_nonempty. by exists tid. }
      destruct (views_same w w1 (as_live A) e (wr_store _ _ (r2_ok _ _ _ K)) Hin HN Hc) as (V1 & V2 & _ & V4).
      apply (views_keep w); try done. apply F.
Qed.
