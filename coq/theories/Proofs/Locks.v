(** * World lock (C09): the lock mask and its bit pool.

    Ghost state: [held], the lock bits currently taken.  The invariant says the mask is
    exactly [held], the free list is a duplicate-free chain of [l_avail] released bits
    below [l_len], and every bit below [l_len] is either held or free. *)
From Arche Require Import Model.Base Model.Pool Proofs.Bits.

Fixpoint lchain (bits : list nat) (next : nat) (frees : list nat) : Prop :=
  match frees with
  | [] => True
  | b :: r => next = b /\ exists link, bits !! b = Some link /\ lchain bits link r
  end.

Record lock_inv (tb : nat) (l : lockstate) (held frees : list nat) : Prop := {
  li_mask : forall b, bit (l_mask l) b = true <-> b ∈ held;
  li_held_nodup : NoDup held;
  li_frees_nodup : NoDup frees;
  li_frees_len : length frees = l_avail l;
  li_chain : lchain (l_bits l) (l_next l) frees;
  li_disjoint : forall b, b ∈ frees -> b ∉ held;
  li_range : forall b, b ∈ held \/ b ∈ frees -> b < l_len l;
  li_cover : forall b, b < l_len l -> b ∈ held \/ b ∈ frees;
  li_len : l_len l <= tb;
  li_bits_len : length (l_bits l) = tb;
}.

Lemma locks_init_inv tb : lock_inv tb (locks_init tb) [] [].
Proof.
  split; simpl.
  - intros b. split; [done|]. intros H. by apply elem_of_nil in H.
  - constructor.
  - constructor.
  - done.
  - done.
  - intros b H. by apply elem_of_nil in H.
  - intros b [H|H]; by apply elem_of_nil in H.
  - intros b H. lia.
  - lia.
  - by rewrite replicate_length.
Qed.

Lemma lchain_insert_notin bits next frees i v :
  i ∉ frees -> lchain bits next frees -> lchain (<[i := v]> bits) next frees.
Proof.
  revert next. induction frees as [|j r IH]; intros next Hni Hc; simpl in *; [done|].
  destruct Hc as [-> (link & Hl & Hc)]. apply not_elem_of_cons in Hni as [Hne Hni].
  split; [done|]. exists link. split; [by rewrite list_lookup_insert_ne|by apply IH].
Qed.

(** Number of bits held plus number free is the number ever handed out. *)
Lemma lock_count tb l held frees :
  lock_inv tb l held frees -> length held + length frees = l_len l.
Proof.
  intros I.
  assert (Hperm : held ++ frees ≡ₚ seq 0 (l_len l)).
  { apply NoDup_Permutation.
    - apply NoDup_app. split; [apply I|]. split; [|apply I].
      intros b Hb Hf. by apply (li_disjoint _ _ _ _ I b Hf).
    - apply NoDup_seq.
    - intros b. rewrite elem_of_app, elem_of_seq. split.
      + intros H. pose proof (li_range _ _ _ _ I b H). lia.
      + intros [_ H]. apply (li_cover _ _ _ _ I). lia. }
  apply Permutation_length in Hperm. by rewrite app_length, seq_length in Hperm.
Qed.

(** Lock: succeeds exactly while fewer than [tb] bits are held; the new bit is fresh. *)
Theorem lock_spec tb l held frees :
  lock_inv tb l held frees ->
  match locks_lock tb l with
  | Some (l', b) => length held < tb /\ b ∉ held /\ b < tb /\ exists frees', lock_inv tb l' (b :: held) frees'
  | None => length held = tb
  end.
Proof.
  intros I. unfold locks_lock. pose proof (lock_count _ _ _ _ I) as Hcnt.
  destruct (l_avail l =? 0) eqn:Hav.
  - apply Nat.eqb_eq in Hav.
    assert (frees = []) as -> by (destruct frees; [done|]; pose proof (li_frees_len _ _ _ _ I); simpl in *; lia).
    simpl in Hcnt. destruct (tb <=? l_len l) eqn:Hfull.
    + apply Nat.leb_le in Hfull. pose proof (li_len _ _ _ _ I). lia.
    + apply Nat.leb_gt in Hfull.
      assert (Hnh : l_len l ∉ held).
      { intros Hin. assert (l_len l < l_len l); [|lia]. apply (li_range _ _ _ _ I). by left. }
      split; [lia|]. split; [done|]. split; [done|]. exists [].
      split; simpl.
      * intros b. rewrite bit_setb, elem_of_cons. destruct (decide (b = l_len l)) as [->|Hne].
        -- split; [by left|done].
        -- rewrite (li_mask _ _ _ _ I). split; [by right|]. intros [?|?]; done.
      * by constructor; [|apply I].
      * constructor.
      * pose proof (li_frees_len _ _ _ _ I). simpl in *. lia.
      * done.
      * intros b H. by apply elem_of_nil in H.
      * intros b [H|H]; [|by apply elem_of_nil in H]. apply elem_of_cons in H as [->|H]; [lia|].
        assert (b < l_len l); [|lia]. apply (li_range _ _ _ _ I). by left.
      * intros b Hb. left. destruct (decide (b = l_len l)) as [->|Hne]; [apply elem_of_cons; by left|].
        destruct (li_cover _ _ _ _ I b) as [H|H]; [lia| |by apply elem_of_nil in H].
        apply elem_of_cons. by right.
      * lia.
      * rewrite insert_length. apply I.
  - apply Nat.eqb_neq in Hav.
    destruct frees as [|b r]; [pose proof (li_frees_len _ _ _ _ I); simpl in *; lia|].
    pose proof (li_chain _ _ _ _ I) as Hc. simpl in Hc. destruct Hc as [Hnext (link & Hl & Hc)].
    rewrite Hnext, Hl.
    pose proof (li_frees_nodup _ _ _ _ I) as Hnd. apply NoDup_cons in Hnd as [Hbr Hndr].
    assert (Hbh : b ∉ held) by (apply (li_disjoint _ _ _ _ I); apply elem_of_cons; by left).
    assert (Hblen : b < l_len l) by (apply (li_range _ _ _ _ I); right; apply elem_of_cons; by left).
    pose proof (li_len _ _ _ _ I) as Hlen. simpl in Hcnt.
    split; [lia|]. split; [done|]. split; [lia|]. exists r.
    split; simpl.
    + intros c. rewrite bit_setb, elem_of_cons. destruct (decide (c = b)) as [->|Hne].
      * split; [by left|done].
      * rewrite (li_mask _ _ _ _ I). split; [by right|]. intros [?|?]; done.
    + by constructor; [|apply I].
    + done.
    + pose proof (li_frees_len _ _ _ _ I). simpl in *. lia.
    + by apply lchain_insert_notin.
    + intros c Hc' Hin. apply elem_of_cons in Hin as [->|Hin]; [done|].
      apply (li_disjoint _ _ _ _ I c); [apply elem_of_cons; by right|done].
    + intros c [H|H].
      * apply elem_of_cons in H as [->|H]; [done|]. apply (li_range _ _ _ _ I). by left.
      * apply (li_range _ _ _ _ I). right. apply elem_of_cons. by right.
    + intros c Hc'. destruct (li_cover _ _ _ _ I c Hc') as [H|H].
      * left. apply elem_of_cons. by right.
      * apply elem_of_cons in H as [->|H]; [left; apply elem_of_cons; by left|by right].
    + done.
    + rewrite insert_length. apply I.
Qed.

(** Unlock: releases exactly the given bit; a bit that is not held is refused. *)
Theorem unlock_spec tb l held frees b :
  lock_inv tb l held frees ->
  match locks_unlock l b with
  | Some l' => b ∈ held /\ lock_inv tb l' (filter (fun x => x <> b) held) (b :: frees)
  | None => b ∉ held
  end.
Proof.
  intros I. unfold locks_unlock. destruct (bit (l_mask l) b) eqn:Hb.
  - apply (li_mask _ _ _ _ I) in Hb. split; [done|].
    assert (Hbf : b ∉ frees) by (intros Hin; by apply (li_disjoint _ _ _ _ I b Hin)).
    assert (Hblen : b < l_len l) by (apply (li_range _ _ _ _ I); by left).
    pose proof (li_len _ _ _ _ I) as Hlen. pose proof (li_bits_len _ _ _ _ I) as Hbl.
    split; simpl.
    + intros c. rewrite bit_setb, elem_of_list_filter. destruct (decide (c = b)) as [->|Hne].
      * split; [done|]. intros [? ?]; done.
      * rewrite (li_mask _ _ _ _ I). split; [by split|]. by intros [_ ?].
    + apply NoDup_filter, I.
    + constructor; [done|apply I].
    + pose proof (li_frees_len _ _ _ _ I). simpl. lia.
    + split; [done|]. exists (l_next l). split; [rewrite list_lookup_insert; [done|lia]|].
      apply lchain_insert_notin; [done|apply I].
    + intros c Hc Hin. apply elem_of_list_filter in Hin as [Hne Hin].
      apply elem_of_cons in Hc as [->|Hc]; [done|]. by apply (li_disjoint _ _ _ _ I c).
    + intros c [H|H].
      * apply elem_of_list_filter in H as [_ H]. apply (li_range _ _ _ _ I). by left.
      * apply elem_of_cons in H as [->|H]; [done|]. apply (li_range _ _ _ _ I). by right.
    + intros c Hc. destruct (decide (c = b)) as [->|Hne]; [right; apply elem_of_cons; by left|].
      destruct (li_cover _ _ _ _ I c Hc) as [H|H].
      * left. apply elem_of_list_filter. done.
      * right. apply elem_of_cons. by right.
    + done.
    + rewrite insert_length. apply I.
  - intros Hin. apply (li_mask _ _ _ _ I) in Hin. congruence.
Qed.

(** The world is locked exactly while some bit is held. *)
Theorem locked_iff tb l held frees :
  lock_inv tb l held frees -> locks_locked l = true <-> held <> [].
Proof.
  intros I. unfold locks_locked. rewrite negb_true_iff, mask_nonzero_iff. split.
  - intros [b Hb] ->. apply (li_mask _ _ _ _ I) in Hb. by apply elem_of_nil in Hb.
  - intros Hne. destruct held as [|b r]; [done|]. exists b. apply (li_mask _ _ _ _ I). apply elem_of_cons. by left.
Qed.

(** ** Histories: any sequence of lock / unlock requests. *)
Inductive lop := LLock | LUnlock (b : nat).

Fixpoint lrun (tb : nat) (l : lockstate) (held : list nat) (ops : list lop) : lockstate * list nat :=
  match ops with
  | [] => (l, held)
  | LLock :: r => match locks_lock tb l with
                  | Some (l', b) => lrun tb l' (b :: held) r
                  | None => lrun tb l held r
                  end
  | LUnlock b :: r => match locks_unlock l b with
                      | Some l' => lrun tb l' (filter (fun x => x <> b) held) r
                      | None => lrun tb l held r
                      end
  end.

Theorem lock_history tb ops :
  let '(l, held) := lrun tb (locks_init tb) [] ops in
  (exists frees, lock_inv tb l held frees) /\
  (locks_locked l = true <-> held <> []) /\ NoDup held /\ length held <= tb /\
  (* a further lock succeeds iff fewer than tb are held *)
  (is_Some (locks_lock tb l) <-> length held < tb).
Proof.
  assert (Hgen : forall ops l held frees, lock_inv tb l held frees ->
            let '(l', held') := lrun tb l held ops in exists frees', lock_inv tb l' held' frees').
  { clear ops. induction ops as [|o r IH]; intros l held frees I; simpl; [by exists frees|].
    destruct o as [|b].
    - pose proof (lock_spec tb l held frees I) as Hs. destruct (locks_lock tb l) as [[l' b]|].
      + destruct Hs as (_ & _ & _ & frees' & I'). by apply (IH _ _ frees').
      + by apply (IH _ _ frees).
    - pose proof (unlock_spec tb l held frees b I) as Hs. destruct (locks_unlock l b) as [l'|].
      + destruct Hs as [_ I']. by apply (IH _ _ (b :: frees)).
      + by apply (IH _ _ frees). }
  specialize (Hgen ops _ _ _ (locks_init_inv tb)).
  destruct (lrun tb (locks_init tb) [] ops) as [l held]. destruct Hgen as [frees I].
  split; [by exists frees|]. split; [by apply (locked_iff tb l held frees)|].
  split; [apply I|].
  pose proof (lock_count _ _ _ _ I) as Hc. pose proof (li_len _ _ _ _ I) as Hl.
  split; [lia|].
  pose proof (lock_spec tb l held frees I) as Hs. destruct (locks_lock tb l) as [[l' b]|].
  - destruct Hs as (Hlt & _). split; [done|]. intros _. by eexists.
  - split; [intros [? ?]; done|lia].
Qed.

(** Non-vacuity and the capacity of the default build: 256 nested locks succeed, the
    257th is refused, and after releasing all of them locks succeed again (the defect
    repaired by 'fix: the lock bit pool counts up to 256 recycled bits'). *)
Example lock_capacity_example :
  let ops := replicate 256 LLock ++ map LUnlock (seq 0 256) ++ [LLock] in
  let '(l, held) := lrun 256 (locks_init 256) [] ops in length held = 1.
Proof. vm_compute. reflexivity. Qed.
