(** * The world a panicking creation / exchange leaves behind: basic facts.

    [walk_add_w] is [walk_add] on the prefix of the ids that were walked before the panic, so
    every lemma about a successful walk applies to it; [foc_world] is either the world of a
    completed [find_or_create_table] or that of such a partial walk. *)
From Arche Require Import Model.Base Model.Pool Model.Filter Model.World Model.Ops Proofs.Frame Proofs.Atomic.

Lemma walk_add_w_prefix ids : forall w start m rel,
  exists pre m2 r2, pre `prefix_of` ids /\ walk_add w start m rel pre = Some (walk_add_w w start m rel ids, m2, r2).
Proof.
  induction ids as [|id r IH]; intros w start m rel.
  - exists [], m, rel. done.
  - simpl. destruct (bit m id) eqn:H1; [exists [], m, rel; split; [apply prefix_nil|done]|].
    destruct (bit start id) eqn:H2; [exists [], m, rel; split; [apply prefix_nil|done]|].
    destruct (reg_is_rel w id && bool_decide (is_Some rel)) eqn:H3; [exists [], m, rel; split; [apply prefix_nil|done]|].
    destruct (IH (fst (find_or_create_node w (setb m id true) (if reg_is_rel w id then Some id else rel))) start
                 (setb m id true) (if reg_is_rel w id then Some id else rel)) as (pre & m2 & r2 & Hp & Hw).
    exists (id :: pre), m2, r2. split; [by apply prefix_cons|]. simpl. by rewrite H1, H2, H3.
Qed.

(** The cases of [foc_world]. *)
Inductive foc_case (w : world) (src : nat) (add rem : list nat) (target : Entity) (w1 : world) : Prop :=
| foc_done tid : find_or_create_table w src add rem target = Some (w1, tid) -> foc_case w src add rem target w1
| foc_partial st sn wa m1 rel1 pre m2 r2 :
    w_tables w !! src = Some st -> w_nodes w !! t_node st = Some sn ->
    walk_rem w (n_mask sn) (n_rel sn) rem = (wa, m1, rel1) -> pre `prefix_of` add ->
    walk_add wa (n_mask sn) m1 rel1 pre = Some (w1, m2, r2) -> foc_case w src add rem target w1
| foc_same : w1 = w -> foc_case w src add rem target w1.

Lemma foc_world_case w src add rem target : foc_case w src add rem target (foc_world w src add rem target).
Proof.
  unfold foc_world. destruct (find_or_create_table w src add rem target) as [[w1 tid]|] eqn:H; [by eapply foc_done|].
  destruct (w_tables w !! src) as [st|] eqn:Hst; [|by apply foc_same].
  destruct (w_nodes w !! t_node st) as [sn|] eqn:Hsn; [|by apply foc_same].
  destruct (walk_rem w (n_mask sn) (n_rel sn) rem) as [[wa m1] rel1] eqn:Hr.
  destruct (walk_add_w_prefix add wa (n_mask sn) m1 rel1) as (pre & m2 & r2 & Hp & Hw).
  by eapply foc_partial.
Qed.

(** A property of worlds that the graph walks and a completed find-or-create establish
    holds of every ghost world. *)
Lemma foc_world_ind (P : world -> world -> Prop) w src add rem target :
  P w w ->
  (forall w1 tid, find_or_create_table w src add rem target = Some (w1, tid) -> P w w1) ->
  (forall st sn wa m1 rel1 pre m2 r2 w1,
     w_tables w !! src = Some st -> w_nodes w !! t_node st = Some sn ->
     walk_rem w (n_mask sn) (n_rel sn) rem = (wa, m1, rel1) -> pre `prefix_of` add ->
     walk_add wa (n_mask sn) m1 rel1 pre = Some (w1, m2, r2) -> P w w1) ->
  P w (foc_world w src add rem target).
Proof.
  intros H0 H1 H2. destruct (foc_world_case w src add rem target) as [tid H|st sn wa m1 rel1 pre m2 r2 A B C D E| ->]; eauto.
Qed.

(** The ghost of an operation is [w] or a [foc_world]. *)
Lemma exchange_ghost_case w e add rem rel :
  exchange_ghost w e add rem rel = w \/
  exists src row st sn mask target,
    is_locked w = false /\ chk_alive w e = Some true /\ loc w e = Some (src, row) /\
    w_tables w !! src = Some st /\ w_nodes w !! t_node st = Some sn /\
    exchange_mask (n_mask sn) add rem = Some mask /\
    exchange_target w (n_mask sn) mask (t_target st) rem rel = Some target /\
    exchange_ghost w e add rem rel = foc_world w src add rem target.
Proof.
  unfold exchange_ghost. destruct (is_locked w) eqn:HL; [by left|].
  destruct (chk_alive w e) as [[]|] eqn:Ha; try (by left).
  destruct (negb _); [by left|].
  assert (Hcore : match loc w e with
    | Some (src, row) => match w_tables w !! src with
        | Some st => match w_nodes w !! t_node st with
            | Some sn => match exchange_mask (n_mask sn) add rem with
                | Some mask => match exchange_target w (n_mask sn) mask (t_target st) rem rel with
                    | Some target => foc_world w src add rem target | None => w end
                | None => w end
            | None => w end
        | None => w end
    | None => w end = w \/ exists src row st sn mask target,
    false = false /\ Some true = Some true /\ loc w e = Some (src, row) /\
    w_tables w !! src = Some st /\ w_nodes w !! t_node st = Some sn /\
    exchange_mask (n_mask sn) add rem = Some mask /\
    exchange_target w (n_mask sn) mask (t_target st) rem rel = Some target /\
    match loc w e with
    | Some (src, row) => match w_tables w !! src with
        | Some st => match w_nodes w !! t_node st with
            | Some sn => match exchange_mask (n_mask sn) add rem with
                | Some mask => match exchange_target w (n_mask sn) mask (t_target st) rem rel with
                    | Some target => foc_world w src add rem target | None => w end
                | None => w end
            | None => w end
        | None => w end
    | None => w end = foc_world w src add rem target).
  { destruct (loc w e) as [[src row]|]; [|by left]. destruct (w_tables w !! src) as [st|] eqn:Hst; [|by left].
    destruct (w_nodes w !! t_node st) as [sn|] eqn:Hsn; [|by left].
    destruct (exchange_mask (n_mask sn) add rem) as [mask|] eqn:Hm; [|by left].
    destruct (exchange_target w (n_mask sn) mask (t_target st) rem rel) as [target|] eqn:Ht; [|by left].
    right. by exists src, row, st, sn, mask, target. }
  destruct add, rem; try (by left); exact Hcore.
Qed.

(** The ids an operation adds. *)
Definition ghost_ids (o : op) : list nat :=
  match o with
  | ONew l => l | ONewWith cs => map fst cs
  | OBNew b _ | OBBatch b _ _ | OBBatchQ b _ _ => b_ids b
  | OExchange _ a _ | ORelExchange _ a _ _ _ => a
  | OAssign _ cs => map fst cs
  | OBAdd b _ _ => match b_vals b with Some _ => map fst (b_comps b) | None => b_ids b end
  | _ => []
  end.

Lemma ghost_of_case w o :
  ghost_of w o = w \/
  (exists tg, ghost_ids o <> [] /\ is_locked w = false /\ ghost_of w o = foc_world w 0 (ghost_ids o) [] tg) \/
  (exists e rem rel, ghost_of w o = exchange_ghost w e (ghost_ids o) rem rel).
Proof.
  assert (Hc : forall ids tg, ghost_create w ids tg = w \/ (ids <> [] /\ ghost_create w ids tg = foc_world w 0 ids [] tg)).
  { intros ids tg. destruct ids; [by left|right; by split]. }
  destruct o; try (by left); simpl.
  - unfold ghost_new. destruct (is_locked w) eqn:HL; [by left|]. destruct (Hc ids ezero) as [->|[Hn ->]]; [by left|].
    right; left. by exists ezero.
  - unfold ghost_new. destruct (is_locked w) eqn:HL; [by left|]. destruct (Hc (map fst cs) ezero) as [->|[Hn ->]]; [by left|].
    right; left. by exists ezero.
  - unfold ghost_builder_new, ghost_new_target, ghost_new. destruct target as [tg|].
    + destruct (b_rel b); [|by left]. destruct (is_locked w) eqn:HL; [by left|]. destruct (negb _); [by left|].
      destruct (Hc (b_ids b) tg) as [->|[Hn ->]]; [by left|]. right; left. by exists tg.
    + destruct (is_locked w) eqn:HL; [by left|]. destruct (Hc (b_ids b) ezero) as [->|[Hn ->]]; [by left|].
      right; left. by exists ezero.
  - unfold ghost_new_batch.
    assert (Hb : (if is_locked w then w else if (count <? 1)%Z then w else
                  if negb (target_ok w (default ezero target)) then w else ghost_create w (b_ids b) (default ezero target)) = w \/
                 exists tg, b_ids b <> [] /\ is_locked w = false /\
                   (if is_locked w then w else if (count <? 1)%Z then w else
                    if negb (target_ok w (default ezero target)) then w else ghost_create w (b_ids b) (default ezero target)) = foc_world w 0 (b_ids b) [] tg).
    { destruct (is_locked w) eqn:HL; [by left|]. destruct (_ <? _)%Z; [by left|]. destruct (negb _); [by left|].
      destruct (Hc (b_ids b) (default ezero target)) as [->|[Hn ->]]; [by left|]. right. by exists (default ezero target). }
    destruct target, (b_rel b); try (by left); (destruct Hb as [->|Hb]; [by left|right; left; exact Hb]).
  - unfold ghost_new_batch.
    assert (Hb : (if is_locked w then w else if (count <? 1)%Z then w else
                  if negb (target_ok w (default ezero target)) then w else ghost_create w (b_ids b) (default ezero target)) = w \/
                 exists tg, b_ids b <> [] /\ is_locked w = false /\
                   (if is_locked w then w else if (count <? 1)%Z then w else
                    if negb (target_ok w (default ezero target)) then w else ghost_create w (b_ids b) (default ezero target)) = foc_world w 0 (b_ids b) [] tg).
    { destruct (is_locked w) eqn:HL; [by left|]. destruct (_ <? _)%Z; [by left|]. destruct (negb _); [by left|].
      destruct (Hc (b_ids b) (default ezero target)) as [->|[Hn ->]]; [by left|]. right. by exists (default ezero target). }
    destruct target, (b_rel b); try (by left); (destruct Hb as [->|Hb]; [by left|right; left; exact Hb]).
  - unfold ghost_builder_add, ghost_assign.
    destruct target as [tg|], (b_rel b) as [r|]; try (by left);
      (destruct (b_vals b); [destruct (b_comps b) as [|c cs] eqn:Hcs; [by left|]|]);
      right; right; eexists e, [], _; reflexivity.
  - right; right. by exists e, rem, None.
  - unfold ghost_assign. destruct cs as [|c cs']; [by left|]. right; right. by exists e, [], None.
  - right; right. by exists e, rem, (Some (rid, t)).
Qed.

(** ** Frame *)
Lemma frame_foc_world w src add rem target : frame w (foc_world w src add rem target).
Proof.
  apply (foc_world_ind frame).
  - apply frame_refl.
  - intros w1 tid H. by eapply frame_find_or_create_table.
  - intros st sn wa m1 rel1 pre m2 r2 w1 _ _ Hr _ Ha.
    pose proof (frame_walk_rem rem w (n_mask sn) (n_rel sn)) as F1. rewrite Hr in F1. simpl in F1.
    eapply frame_trans; [exact F1|]. by eapply frame_walk_add.
Qed.

Lemma frame_exchange_ghost w e add rem rel : frame w (exchange_ghost w e add rem rel).
Proof.
  destruct (exchange_ghost_case w e add rem rel) as [->|(src & row & st & sn & mask & tg & _ & _ & _ & _ & _ & _ & _ & ->)];
    [apply frame_refl|apply frame_foc_world].
Qed.

Lemma frame_ghost_of w o : frame w (ghost_of w o).
Proof.
  destruct (ghost_of_case w o) as [->|[(tg & _ & _ & ->)|(e & rem & rel & ->)]];
    [apply frame_refl|apply frame_foc_world|apply frame_exchange_ghost].
Qed.
