(** * C08 / C09: Builder.NewBatchQ followed by Close is Builder.NewBatch.

    NewBatchQ creates the entities, locks the world and returns a query over them; closing the
    query releases the lock and emits the creation events.  [new_batch_q_then_close]: no event
    at the call, world locked until the Close; after the Close the tables, index, pool and graph
    are those of the plain NewBatch, the world is unlocked, it refines the same abstract store
    (every new entity added with the builder's mask and target) and keeps the cache invariant.
    Events: equal (none) without listener; with a listener the equality of the projected events
    is checked on the example and by the correspondence harness (the AddedIDs field lists the
    node's ids at the Close, the builder's ids at the plain call). *)
From Arche Require Import Model.Base Model.Pool Model.Filter Model.World Model.Ops
  Proofs.Tables Proofs.Bits Proofs.Store Proofs.Graph Proofs.Atomic Proofs.WorldInv
  Proofs.Frame Proofs.StepFrame Proofs.RelGraph Proofs.RelWorld Proofs.RelRefine Proofs.QueryExact Proofs.CacheInv
  Proofs.BatchMove Proofs.BatchExchange Proofs.BatchSetRel Proofs.BatchCreate Proofs.IlenInv Proofs.BatchQClose.

Lemma lock_locked tb l l1 b : locks_lock tb l = Some (l1, b) -> locks_locked l1 = true.
Proof.
  intros H. assert (Hb : bit (l_mask l1) b = true).
  { unfold locks_lock in H. destruct (l_avail l =? 0).
    - destruct (tb <=? l_len l); [done|]. injection H as <- <-. simpl. apply bit_setb_same.
    - destruct (l_bits l !! l_next l); [|done]. injection H as <- <-. simpl. apply bit_setb_same. }
  unfold locks_locked. apply negb_true_iff, N.eqb_neq. intros E. rewrite E in Hb. unfold bit in Hb. by rewrite N.bits_0 in Hb.
Qed.


Theorem new_batch_q_then_close w A count b target w2 h evs2 :
  R w A -> cache_ok w -> ilen w -> ids_reg A (b_ids b) -> b_vals b = None ->
  op_new_batch_q w count b target = (w2, Ok (VNat h), evs2) ->
  exists w' es evs' w3 evs3,
    op_new_batch w count b target = (w', Ok (VEnts es), evs') /\
    evs2 = [] /\ is_locked w2 = true /\ step w2 (OQClose h) = (w3, Ok VUnit, evs3) /\
    Z.of_nat (length es) = count /\ NoDup es /\ (forall e, e ∈ es -> e ∉ as_issued A) /\
    R w3 (a_add_all A es (mkA (new_mask (b_ids b)) (default ezero target) [])) /\ cache_ok w3 /\
    w_tables w3 = w_tables w' /\ w_index w3 = w_index w' /\ w_pool w3 = w_pool w' /\ w_nodes w3 = w_nodes w' /\
    is_locked w3 = false /\
    (w_listener w' = None -> evs3 = [] /\ evs' = []).
Proof.
  intros HR C Hil Hids Hv H. unfold op_new_batch_q in H.
  destruct (new_entities_nn w count b target) as [[[[w1 tid] start] es]|] eqn:Hn; [|done].
  destruct (open_query w1 _ _) as [[w2' h']|] eqn:Hq; [|done]. injection H as <- <- <-.
  destruct (table_mask_rel w1 tid) as [m r] eqn:Hmr.
  assert (Hplain : op_new_batch w count b target = (w1, Ok (VEnts es), flat_map (fun e => ev_create w1 e m (b_ids b) r) es))
    by (unfold op_new_batch; by rewrite Hn, Hmr).
  destruct (batch_new_refines w A count b target w1 es _ HR C Hil Hids Hv Hplain) as (Hc & Hnd & Hfresh & HR1 & C1 & _).
  pose proof (r_unlocked _ _ HR1) as Hu1.
  destruct (open_then_close w1 _ _ w2' h' Hu1 Hq) as (l3 & q & Hl3 & Hqs & Hqb & Hh & Hclose). cbv zeta in Hclose.
  eexists w1, es, _, _, _. split; [exact Hplain|]. split; [done|].
  split.
  { unfold open_query in Hq. destruct (locks_lock (w_tb w1) (w_locks w1)) as [[l bt]|] eqn:Hl; [|done].
    injection Hq as <- _. unfold is_locked. simpl. eapply lock_locked. exact Hl. }
  split; [exact Hclose|]. do 3 (split; [done|]).
  split; [by apply R_locks_queries|]. split; [exact C1|]. do 4 (split; [done|]).
  split; [unfold is_locked; simpl; exact Hl3|].
  intros Hnl. split.
  - unfold ev_batch. simpl. by rewrite Hnl.
  - unfold ev_create. rewrite Hnl. clear. induction es as [|e r0 IH]; [done|]. simpl. exact IH.
Qed.

(** Non-vacuity: NewBatchQ of three entities with a relation target and a listener, then Close:
    tables, index, pool of the plain NewBatch; locked in between; as many events as entities. *)
Example demo_new_q_close :
  let w := run demo_bc_world [OSetListener (Some (LCallback (mkL 63 None)))] in
  let rq := step w (OBBatchQ (mkB [0; 1] None (Some 1)) 3%Z (Some (mkE 1 0))) in
  let rc := step (fst (fst rq)) (OQClose 0) in
  let rp := step w (OBBatch (mkB [0; 1] None (Some 1)) 3%Z (Some (mkE 1 0))) in
  snd (fst rq) = Ok (VNat 0) /\ snd rq = [] /\ snd (fst rc) = Ok VUnit /\
  length (snd rc) = 3 /\ length (snd rp) = 3 /\ map (fun e => (ev_ent e, ev_added e, ev_removed e, ev_newrel e, ev_types e, ev_to e)) (snd rc) = map (fun e => (ev_ent e, ev_added e, ev_removed e, ev_newrel e, ev_types e, ev_to e)) (snd rp) /\
  w_tables (fst (fst rc)) = w_tables (fst (fst rp)) /\ w_index (fst (fst rc)) = w_index (fst (fst rp)) /\
  w_pool (fst (fst rc)) = w_pool (fst (fst rp)) /\
  is_locked (fst (fst rq)) = true /\ is_locked (fst (fst rc)) = false.
Proof. vm_compute. done. Qed.
