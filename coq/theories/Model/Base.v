(** * Base definitions shared by the executable model of arche's core.

    Everything here is total, computable Gallina.  Entity ids, rows, lengths and
    capacities are [nat]; generations, masks and lock words are [N]; component
    payloads are [Z]. *)
From Coq Require Export NArith ZArith Lia.
From RecordUpdate Require Export RecordUpdate.
From stdpp Require Export base numbers list list_numbers.

(** Entity handle: [ecs.Entity{id, gen}]. *)
Record Entity := mkE { eid : nat; egen : N }.
Definition ezero : Entity := mkE 0 0.
Definition ent_eqb (a b : Entity) : bool := (eid a =? eid b) && (egen a =? egen b)%N.
(** [Entity.IsZero]: only the id is inspected. *)
Definition ent_is_zero (e : Entity) : bool := eid e =? 0.

#[global] Instance Entity_eq_dec : EqDecision Entity.
Proof. solve_decision. Defined.

Lemma ent_eqb_eq a b : ent_eqb a b = true <-> a = b.
Proof.
  destruct a as [i g], b as [j h]; unfold ent_eqb; simpl.
  rewrite andb_true_iff, Nat.eqb_eq, N.eqb_eq. split; [intros [-> ->]; done|intros [= -> ->]; done].
Qed.
Lemma ent_eqb_refl a : ent_eqb a a = true.
Proof. by apply ent_eqb_eq. Qed.
Lemma ent_eqb_neq a b : ent_eqb a b = false <-> a <> b.
Proof. rewrite <-ent_eqb_eq. destruct (ent_eqb a b); naive_solver. Qed.

(** Generations are [uint32]. *)
Definition gen_mod : N := 4294967296%N.
Definition gen_max : N := 4294967295%N.

(** [capacity], [capacityNonZero], [capacityU32] of ecs/util.go (unbounded nat; the
    width of the Go types is a [within_bounds] matter, see DESIGN.md). *)
Definition capacity (size inc : nat) : nat :=
  inc * (size / inc) + (if size mod inc =? 0 then 0 else inc).
Definition capacity_nz (size inc : nat) : nat :=
  if size =? 0 then inc else capacity size inc.

(** Association lists standing in for Go maps (lookup / set / delete only). *)
Fixpoint assoc_get {V} (k : Entity) (l : list (Entity * V)) : option V :=
  match l with
  | [] => None
  | (k', v) :: r => if ent_eqb k k' then Some v else assoc_get k r
  end.
Fixpoint assoc_del {V} (k : Entity) (l : list (Entity * V)) : list (Entity * V) :=
  match l with
  | [] => []
  | (k', v) :: r => if ent_eqb k k' then assoc_del k r else (k', v) :: assoc_del k r
  end.
Definition assoc_set {V} (k : Entity) (v : V) (l : list (Entity * V)) : list (Entity * V) :=
  (k, v) :: assoc_del k l.

(** Position of the first element satisfying a boolean predicate. *)
Fixpoint find_index {A} (p : A -> bool) (l : list A) : option nat :=
  match l with
  | [] => None
  | x :: r => if p x then Some 0 else option_map S (find_index p r)
  end.

(** Swap-remove at position [i] ([pointers.RemoveAt], [archetype.Remove]). *)
Definition swap_remove {A} (i : nat) (l : list A) : list A :=
  let last := length l - 1 in
  if i =? last then take last l
  else match l !! last with
       | Some x => take last (<[i := x]> l)
       | None => l
       end.

(** Bit sets as [N]. *)
Definition bit (m : N) (i : nat) : bool := N.testbit m (N.of_nat i).
Definition setb (m : N) (i : nat) (v : bool) : N :=
  if v then N.setbit m (N.of_nat i) else N.clearbit m (N.of_nat i).
Definition mask_of (ids : list nat) : N := foldl (fun m i => setb m i true) 0%N ids.
Definition mask_ids (tb : nat) (m : N) : list nat := filter (fun i => bit m i = true) (seq 0 tb).
Definition contains (a b : N) : bool := (N.land a b =? b)%N.
Definition contains_any (a b : N) : bool := negb (N.land a b =? 0)%N.
