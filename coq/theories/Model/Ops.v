(** * Public operations of the world model: events, queries, batch operations and the
      [step] function the correspondence harness replays.

    Panics of single-entity operations return the world unchanged ([Panic]); a batch
    operation that panics after it has started moving tables returns [Undef]: the model
    does not determine the state from there on (the property C08 only speaks about
    arguments that are legal for every matching entity, C10 only about single-entity
    operations), and the harness stops comparing that world. *)
From Arche Require Import Model.Base Model.Pool Model.Filter Model.World.

(** ** Events (ecs/util.go: subscription, subscribes; the emission sites) *)
Definition b2n (b : bool) : N := if b then 1%N else 0%N.

Definition subscription (created removed cadded cremoved relch tgch : bool) : N :=
  (b2n created + 2 * b2n removed + 4 * b2n cadded + 8 * b2n cremoved + 16 * b2n relch + 32 * b2n tgch)%N.

Definition opt_bit (m : N) (o : option nat) : bool :=
  match o with Some i => bit m i | None => false end.

Definition subscribes (trigger : N) (added removed : option N) (subs : option N)
    (oldrel newrel : option nat) : bool :=
  if (trigger =? 0)%N then false else
  match subs with
  | None => true
  | Some s =>
      if contains_any trigger 48 && (opt_bit s oldrel || opt_bit s newrel) then true
      else if contains_any trigger 5 && match added with Some a => contains_any s a | None => false end then true
      else if contains_any trigger 10 && match removed with Some r => contains_any s r | None => false end then true
      else false
  end.

(** Gate used at every emission site: [trigger := Subscriptions() & bits]. *)
Definition gate (l : lcfg) (bits : N) (added removed : option N) (oldrel newrel : option nat) : bool :=
  let trigger := N.land (lc_subs l) bits in
  negb (trigger =? 0)%N && subscribes trigger added removed (lc_comps l) oldrel newrel.

(** listener.Dispatch: Subscriptions() is the union of the sub-listeners' subscriptions,
    Components() the union of their component masks, or nil as soon as one sub-listener
    has no restriction (NewDispatch and AddListener maintain exactly this). *)
Definition outer_cfg (ls : lstn) : lcfg :=
  match ls with
  | LCallback l => l
  | LDispatch subs =>
      mkL (foldl (fun acc l => N.lor acc (lc_subs l)) 0%N subs)
          (if forallb (fun l => bool_decide (is_Some (lc_comps l))) subs
           then Some (foldl (fun acc l => N.lor acc (default 0%N (lc_comps l))) 0%N subs)
           else None)
  end.

(** Who receives an event: the world gates with the listener's own Subscriptions() /
    Components(); a Dispatch then gates again per sub-listener, with the event's Added /
    Removed masks (Dispatch.Notify). *)
Definition recipients (ls : lstn) (bits : N) (added removed : option N) (oldrel newrel : option nat)
    (evadded evremoved : N) : list nat :=
  if gate (outer_cfg ls) bits added removed oldrel newrel then
    match ls with
    | LCallback _ => [0]
    | LDispatch subs =>
        omap (fun '(i, l) => if gate l bits (Some evadded) (Some evremoved) oldrel newrel then Some i else None)
             (imap (fun i l => (i, l)) subs)
    end
  else [].

Definition opt_ne (a b : option nat) : bool :=
  match a, b with
  | None, None => false
  | Some x, Some y => negb (x =? y)
  | _, _ => true
  end.

(** Creation event (NewEntity, NewEntityWith, newEntityTarget(With), newEntities(With)). *)
Definition ev_create (w : world) (e : Entity) (mask : N) (ids : list nat) (newrel : option nat)
  : list event :=
  match w_listener w with
  | None => []
  | Some l =>
      let hr := bool_decide (is_Some newrel) in
      let bits := subscription true false (negb (bool_decide (ids = []))) false hr hr in
      map (mkEv e mask 0 ids [] None newrel ezero bits (is_locked w))
          (recipients l bits (Some mask) None None newrel mask 0)
  end.

(** Removal event (RemoveEntity, removeEntities): delivered with the world locked. *)
Definition ev_remove (w : world) (e : Entity) (nd : node) (target : Entity) : list event :=
  match w_listener w with
  | None => []
  | Some l =>
      let hr := node_has_rel nd in
      let bits := subscription false true false (negb (bool_decide (n_ids nd = []))) hr hr in
      map (mkEv e 0 (n_mask nd) [] (n_ids nd) (n_rel nd) None target bits true)
          (recipients l bits None (Some (n_mask nd)) (n_rel nd) None 0 (n_mask nd))
  end.

(** [World.notifyExchange]. *)
Definition ev_exchange (w : world) (e : Entity) (x : xinfo) (add rem : list nat) : list event :=
  match w_listener w, w_tables w !! x_new x with
  | Some l, Some t =>
      match w_nodes w !! t_node t with
      | Some nd =>
          let newrel := n_rel nd in
          let relch := opt_ne (x_oldrel x) newrel in
          let tgch := negb (ent_eqb (x_oldtarget x) (t_target t)) in
          let bits := subscription false false (negb (bool_decide (add = []))) (negb (bool_decide (rem = [])))
                                   relch (relch || tgch) in
          let changed := N.lxor (x_oldmask x) (n_mask nd) in
          let added := N.land (n_mask nd) changed in
          let removed := N.land (x_oldmask x) changed in
          map (mkEv e added removed add rem (x_oldrel x) newrel (x_oldtarget x) bits (is_locked w))
              (recipients l bits (Some added) (Some removed) (x_oldrel x) newrel added removed)
      | None => []
      end
  | _, _ => []
  end.

(** Target-change event of [World.setRelation]. *)
Definition ev_target (w : world) (e : Entity) (rid : nat) (oldtarget : Entity) : list event :=
  match w_listener w with
  | None => []
  | Some l =>
      map (mkEv e 0 0 [] [] (Some rid) (Some rid) oldtarget 32 (is_locked w))
          (recipients l 32 None None (Some rid) (Some rid) 0 0)
  end.

(** [World.notifyQuery]: events of a batch, one per entity in each range. *)
Definition ev_batch (w : world) (segs : list seg) (added_ids removed_ids : list nat) : list event :=
  match w_listener w with
  | None => []
  | Some l =>
      flat_map (fun s =>
        match w_tables w !! s_tid s with
        | None => []
        | Some t =>
            match w_nodes w !! t_node t with
            | None => []
            | Some nd =>
                let newrel := n_rel nd in
                let '(added, removed, oldrel, oldtarget, relch, tgch, created) :=
                  match s_old s with
                  | None => (n_mask nd, 0%N, None, ezero, bool_decide (is_Some newrel),
                             negb (ent_is_zero (t_target t)), true)
                  | Some (om, orel, otg) =>
                      let changed := N.lxor (n_mask nd) om in
                      (N.land changed (n_mask nd), N.land changed om, orel, otg,
                       opt_ne orel newrel, negb (ent_eqb otg (t_target t)), false)
                  end in
                let bits := subscription created false (negb (bool_decide (added_ids = [])))
                                         (negb (bool_decide (removed_ids = []))) relch (relch || tgch) in
                flat_map (fun e => map (mkEv e added removed added_ids removed_ids oldrel newrel oldtarget bits (is_locked w))
                                        (recipients l bits (Some added) (Some removed) oldrel newrel added removed))
                         (take (s_end s - s_start s) (drop (s_start s) (t_ents t)))
            end
        end) segs
  end.

(** ** Values and outcomes *)
Inductive value :=
| VUnit
| VBool (b : bool)
| VNat (n : nat)
| VEnt (e : Entity)
| VEnts (es : list Entity)
| VOptZ (o : option Z)
| VMask (m : N)
| VIds (l : list nat)
| VView (m : N) (vals : list (nat * Z)) (target : option Entity)
| VDump (ents : list (nat * N)) (alive : list nat) (next avail : nat).

Inductive outcome := Ok (v : value) | Panic | Undef.

Definition result : Type := world * outcome * list event.
Definition panic (w : world) : result := (w, Panic, []).
Definition ok (w : world) (v : value) (evs : list event) : result := (w, Ok v, evs).

(** ** Entity creation *)
Record bspec := mkB { b_ids : list nat; b_vals : option (list Z); b_rel : option nat }.
Definition b_comps (b : bspec) : list (nat * Z) :=
  match b_vals b with Some vs => zip (b_ids b) vs | None => [] end.

Definition table_mask_rel (w : world) (tid : nat) : N * option nat :=
  match w_tables w !! tid with
  | Some t => match w_nodes w !! t_node t with
              | Some nd => (n_mask nd, n_rel nd)
              | None => (0%N, None)
              end
  | None => (0%N, None)
  end.

(** NewEntity / NewEntityWith. *)
Definition op_new (w : world) (ids : list nat) (cs : list (nat * Z)) : result :=
  if is_locked w then panic w else
  match (match ids with [] => Some (w, 0) | _ => find_or_create_table w 0 ids [] ezero end) with
  | None => panic w
  | Some (w1, tid) =>
      let '(w2, e) := create_entity w1 tid in
      let w3 := set_comps w2 e cs in
      let '(m, r) := table_mask_rel w3 tid in
      ok w3 (VEnt e) (ev_create w3 e m ids r)
  end.

(** newEntityTarget / newEntityTargetWith. *)
Definition op_new_target (w : world) (rid : nat) (target : Entity) (ids : list nat) (cs : list (nat * Z))
  : result :=
  if is_locked w then panic w else
  if negb (target_ok w target) then panic w else
  match (match ids with [] => Some (w, 0) | _ => find_or_create_table w 0 ids [] target end) with
  | None => panic w
  | Some (w1, tid) =>
      if negb (check_relation w1 tid rid) then panic w else
      let '(w2, e) := create_entity w1 tid in
      let w3 := set_comps (set_tbit w2 target) e cs in
      let '(m, _) := table_mask_rel w3 tid in
      ok w3 (VEnt e) (ev_create w3 e m ids (Some rid))
  end.

(** Builder.New. *)
Definition op_builder_new (w : world) (b : bspec) (target : option Entity) : result :=
  match target with
  | Some tg =>
      match b_rel b with
      | None => panic w
      | Some rid => op_new_target w rid tg (b_ids b) (b_comps b)
      end
  | None => op_new w (b_ids b) (b_comps b)
  end.

(** newEntitiesNoNotify / newEntitiesWithNoNotify: returns table, start row, entities. *)
Definition new_entities_nn (w : world) (count : Z) (b : bspec) (target : option Entity)
  : option (world * nat * nat * list Entity) :=
  match target, b_rel b with
  | Some _, None => None
  | _, _ =>
      if is_locked w then None else
      if (count <? 1)%Z then None else
      let tg := default ezero target in
      if negb (target_ok w tg) then None else
      match (match b_ids b with [] => Some (w, 0) | _ => find_or_create_table w 0 (b_ids b) [] tg end) with
      | None => None
      | Some (w1, tid) =>
          if match target, b_rel b with
             | Some _, Some rid => negb (check_relation w1 tid rid)
             | _, _ => false
             end then None else
          let w2 := match target with Some t => set_tbit w1 t | None => w1 end in
          let start := match w_tables w2 !! tid with Some t => tlen t | None => 0 end in
          let '(w3, es) := create_entities w2 tid (Z.to_nat count) in
          let w4 := foldl (fun w e => set_comps w e (b_comps b)) w3 es in
          Some (w4, tid, start, es)
      end
  end.

(** Lock and register a query over [segs]. *)
Definition open_query (w : world) (segs : list seg) (batch : option (list nat * list nat))
  : option (world * nat) :=
  match locks_lock (w_tb w) (w_locks w) with
  | None => None
  | Some (l, b) =>
      let q := mkQ segs batch 0 None 0 0 b false in
      Some (w <| w_locks := l |> <| w_queries := w_queries w ++ [q] |>, length (w_queries w))
  end.

Definition table_skip (w : world) (tid : nat) : bool :=
  match w_tables w !! tid with Some t => tlen t =? 0 | None => true end.

(** Builder.NewBatch. *)
Definition op_new_batch (w : world) (count : Z) (b : bspec) (target : option Entity) : result :=
  match new_entities_nn w count b target with
  | None => panic w
  | Some (w1, tid, start, es) =>
      let '(m, r) := table_mask_rel w1 tid in
      ok w1 (VEnts es) (flat_map (fun e => ev_create w1 e m (b_ids b) r) es)
  end.

(** Builder.NewBatchQ. *)
Definition op_new_batch_q (w : world) (count : Z) (b : bspec) (target : option Entity) : result :=
  match new_entities_nn w count b target with
  | None => panic w
  | Some (w1, tid, start, es) =>
      let ids := match w_tables w1 !! tid with
                 | Some t => match w_nodes w1 !! t_node t with Some nd => n_ids nd | None => [] end
                 | None => [] end in
      let s := mkSeg tid start (start + length es) (table_skip w1 tid) None in
      match open_query w1 [s] (Some (ids, [])) with
      | None => (w1, Undef, [])
      | Some (w2, h) => ok w2 (VNat h) []
      end
  end.

(** ** Exchange family (single entity) *)
Definition op_exchange (w : world) (e : Entity) (add rem : list nat) (rel : option (nat * Entity))
    (cs : list (nat * Z)) : result :=
  match exchange_nn w e add rem rel with
  | None => panic w
  | Some (w1, None) => ok w1 VUnit []
  | Some (w1, Some x) =>
      let w2 := set_comps w1 e cs in
      ok w2 VUnit (ev_exchange w2 e x add rem)
  end.

(** World.Assign / assign: at least one component. *)
Definition op_assign (w : world) (e : Entity) (cs : list (nat * Z)) (rel : option (nat * Entity)) : result :=
  match cs with
  | [] => panic w
  | _ => op_exchange w e (map fst cs) [] rel cs
  end.

(** Builder.Add. *)
Definition op_builder_add (w : world) (b : bspec) (e : Entity) (target : option Entity) : result :=
  match target, b_rel b with
  | Some _, None => panic w
  | _, _ =>
      let rel := match target, b_rel b with Some t, Some r => Some (r, t) | _, _ => None end in
      match b_vals b with
      | None => op_exchange w e (b_ids b) [] rel []
      | Some _ => op_assign w e (b_comps b) rel
      end
  end.

(** World.RemoveEntity. *)
Definition op_remove_entity (w : world) (e : Entity) : result :=
  if is_locked w then panic w else
  match ent_table w e with
  | None => panic w
  | Some (src, row, st, sn) =>
      let evs := ev_remove w e sn (t_target st) in
      (* the notification takes and releases one lock bit *)
      let locks1 := match evs with
                    | [] => w_locks w
                    | _ => match locks_lock (w_tb w) (w_locks w) with
                           | Some (l, b) => default l (locks_unlock l b)
                           | None => w_locks w
                           end
                    end in
      let '(st1, swapped) := tbl_remove (zero_row sn) st row in
      let p1 := pool_recycle (w_pool w) e in
      let idx1 := if swapped then
                    match t_ents st1 !! row with
                    | Some se => <[eid se := Some (src, row)]> (w_index w)
                    | None => w_index w
                    end
                  else w_index w in
      let w1 := w <| w_locks := locks1 |> <| w_pool := p1 |>
                  <| w_tables := <[src := st1]> (w_tables w) |>
                  <| w_index := <[eid e := None]> idx1 |> in
      let w2 := if tbit w1 (eid e)
                then (cleanup_tables_for w1 e) <| w_tbits := <[eid e := false]> (w_tbits w1) |>
                else w1 in
      ok (cleanup_table w2 src) VUnit evs
  end.

(** World.setRelation. *)
Definition op_set_relation (w : world) (e : Entity) (rid : nat) (target : Entity) : result :=
  if is_locked w then panic w else
  match chk_alive w e with
  | Some true =>
      if negb (target_ok w target) then panic w else
      match ent_table w e with
      | None => panic w
      | Some (src, row, st, sn) =>
          if negb (check_relation w src rid) then panic w else
          if ent_eqb (t_target st) target then ok w VUnit [] else
          let '(w1, dst) := match node_get_table sn target with
                            | Some tid => (w, tid)
                            | None => create_table w (t_node st) target true
                            end in
          let w2 := move_entity w1 e src row dst (n_mask sn) in
          let w3 := cleanup_table (set_tbit w2 target) src in
          ok w3 VUnit (ev_target w3 e rid (t_target st))
      end
  | _ => panic w
  end.

(** ** Batch operations *)

(** exchangeArch: [None] = panic in this table. *)
Definition exchange_table (w : world) (src : nat) (add rem : list nat) (rel : option (nat * Entity))
  : option (world * seg) :=
  match w_tables w !! src with
  | None => None
  | Some st =>
      match w_nodes w !! t_node st with
      | None => None
      | Some sn =>
          match exchange_mask (n_mask sn) add rem with
          | None => None
          | Some mask =>
              match exchange_target w (n_mask sn) mask (t_target st) rem rel with
              | None => None
              | Some target =>
                  match find_or_create_table w src add rem target with
                  | None => None
                  | Some (w1, dst) =>
                      let n := tlen st in
                      let '(w2, start) := move_all w1 src dst mask in
                      let w3 := cleanup_table (set_tbit w2 target) src in
                      Some (w3, mkSeg dst start (start + n) false (Some (n_mask sn, n_rel sn, t_target st)))
                  end
              end
          end
      end
  end.

(** The loop over the matching tables shared by the batch operations.  [processed]
    records whether an earlier table has already been changed. *)
Fixpoint batch_loop (f : world -> nat -> option (option (world * seg))) (w : world) (tids : list nat)
    (segs : list seg) (processed : bool) : option (world * list seg) + bool :=
  match tids with
  | [] => inl (Some (w, segs))
  | tid :: r =>
      if table_skip w tid then batch_loop f w r segs processed
      else match f w tid with
           | None => inr true   (* a panic inside the loop: tables may be processed in another
                                   order by the implementation, so the state is not determined *)
           | Some None => batch_loop f w r segs processed
           | Some (Some (w1, s)) => batch_loop f w1 r (segs ++ [s]) true
           end
  end.

Definition total_len (w : world) (tids : list nat) : nat :=
  foldr (fun tid acc => match w_tables w !! tid with Some t => tlen t + acc | None => acc end) 0 tids.

(** Tables with non-zero length at the time of the call ([lengths] in the Go code: a
    table that only becomes non-empty during the batch is skipped). *)
Definition nonempty_tables (w : world) (tids : list nat) : list nat :=
  filter (fun tid => table_skip w tid = false) tids.

(** exchangeBatchNoNotify: result = (world, count, segments). *)
Definition exchange_batch_nn (w : world) (a : farg) (add rem : list nat) (rel : option (nat * Entity))
  : option (world * nat * list seg) + bool :=
  if is_locked w then inr false else
  if negb (match rel with Some (_, tg) => target_ok w tg | None => true end) then inr false else
  match add, rem with
  | [], [] => if bool_decide (is_Some rel) then inr false else inl (Some (w, 0, []))
  | _, _ =>
      match arg_tables w a with
      | None => inr false
      | Some tids =>
          let total := total_len w tids in
          match batch_loop (fun w tid => option_map Some (exchange_table w tid add rem rel))
                           w (nonempty_tables w tids) [] false with
          | inl (Some (w1, segs)) => inl (Some (w1, total, segs))
          | inl None => inr false
          | inr p => inr p
          end
      end
  end.

Definition batch_result (w : world) (r : option (world * nat * list seg) + bool)
    (k : world -> nat -> list seg -> result) : result :=
  match r with
  | inl (Some (w1, n, segs)) => k w1 n segs
  | inl None => panic w
  | inr false => panic w
  | inr true => (w, Undef, [])
  end.

(** Batch.Add/Remove/Exchange, Relations.ExchangeBatch. *)
Definition op_batch_exchange (w : world) (a : farg) (add rem : list nat) (rel : option (nat * Entity)) : result :=
  batch_result w (exchange_batch_nn w a add rem rel)
    (fun w1 n segs => ok w1 (VNat n) (ev_batch w1 segs add rem)).

(** ...Q variants. *)
Definition op_batch_exchange_q (w : world) (a : farg) (add rem : list nat) (rel : option (nat * Entity)) : result :=
  batch_result w (exchange_batch_nn w a add rem rel)
    (fun w1 n segs =>
       let segs' := map (fun s => mkSeg (s_tid s) (s_start s) (s_end s) (table_skip w1 (s_tid s)) (s_old s)) segs in
       match open_query w1 segs' (Some (add, rem)) with
       | None => (w1, Undef, [])
       | Some (w2, h) => ok w2 (VNat h) []
       end).

(** setRelationArch. *)
Definition set_relation_table (w : world) (src : nat) (rid : nat) (target : Entity)
  : option (option (world * seg)) :=
  match w_tables w !! src with
  | None => None
  | Some st =>
      match w_nodes w !! t_node st with
      | None => None
      | Some sn =>
          if ent_eqb (t_target st) target then Some None else
          if negb (check_relation w src rid) then None else
          let '(w1, dst) := match node_get_table sn target with
                            | Some tid => (w, tid)
                            | None => create_table w (t_node st) target true
                            end in
          let '(w2, start) := move_all w1 src dst (n_mask sn) in
          let w3 := cleanup_table (set_tbit w2 target) src in
          let endr := match w_tables w3 !! dst with Some t => tlen t | None => 0 end in
          Some (Some (w3, mkSeg dst start endr false (Some (n_mask sn, n_rel sn, t_target st))))
      end
  end.

Definition set_relation_batch_nn (w : world) (a : farg) (rid : nat) (target : Entity)
  : option (world * nat * list seg) + bool :=
  if is_locked w then inr false else
  if negb (target_ok w target) then inr false else
  match arg_tables w a with
  | None => inr false
  | Some tids =>
      let total := total_len w tids in
      match batch_loop (fun w tid => set_relation_table w tid rid target)
                       w (nonempty_tables w tids) [] false with
      | inl (Some (w1, segs)) => inl (Some (w1, total, segs))
      | inl None => inr false
      | inr p => inr p
      end
  end.

Definition op_batch_set_relation (w : world) (a : farg) (rid : nat) (target : Entity) : result :=
  batch_result w (set_relation_batch_nn w a rid target)
    (fun w1 n segs => ok w1 (VNat n) (ev_batch w1 segs [] [])).

Definition op_batch_set_relation_q (w : world) (a : farg) (rid : nat) (target : Entity) : result :=
  batch_result w (set_relation_batch_nn w a rid target)
    (fun w1 n segs =>
       let segs' := map (fun s => mkSeg (s_tid s) (s_start s) (s_end s) (table_skip w1 (s_tid s)) (s_old s)) segs in
       match open_query w1 segs' (Some ([], [])) with
       | None => (w1, Undef, [])
       | Some (w2, h) => ok w2 (VNat h) []
       end).

(** World.removeEntities (after the repair of D13: the filter is resolved before the
    lock is taken; after the repair of D4: the table list is a copy). *)
Definition remove_table_entities (w : world) (tid : nat) : world * list event :=
  match w_tables w !! tid with
  | None => (w, [])
  | Some t =>
      match w_nodes w !! t_node t with
      | None => (w, [])
      | Some nd =>
          let '(w1, evs) :=
            foldl (fun '(w, evs) e =>
                     let ev := ev_remove w e nd (t_target t) in
                     let w1 := w <| w_index := <[eid e := None]> (w_index w) |> in
                     let w2 := if tbit w1 (eid e)
                               then (cleanup_tables_for w1 e) <| w_tbits := <[eid e := false]> (w_tbits w1) |>
                               else w1 in
                     (w2 <| w_pool := pool_recycle (w_pool w2) e |>, evs ++ ev))
                  (w, []) (t_ents t) in
          let w2 := match w_tables w1 !! tid with
                    | Some t1 => upd_table w1 tid (tbl_reset (zero_row nd) t1)
                    | None => w1
                    end in
          (cleanup_table w2 tid, evs)
      end
  end.

Definition op_remove_entities (w : world) (a : farg) : result :=
  if is_locked w then panic w else
  match arg_tables w a with
  | None => panic w
  | Some tids =>
      match locks_lock (w_tb w) (w_locks w) with
      | None => panic w
      | Some (l, b) =>
          let total := total_len w tids in
          let '(w1, evs) :=
            foldl (fun '(w, evs) tid =>
                     if table_skip w tid then (w, evs)
                     else let '(w1, ev) := remove_table_entities w tid in (w1, evs ++ ev))
                  (w <| w_locks := l |>, []) tids in
          ok (w1 <| w_locks := default (w_locks w1) (locks_unlock (w_locks w1) b) |>) (VNat total) evs
      end
  end.

(** ** Queries (ecs/query.go) *)
Definition plain_segs (w : world) (tids : list nat) : list seg :=
  map (fun tid => mkSeg tid 0 (match w_tables w !! tid with Some t => tlen t | None => 0 end)
                        (table_skip w tid) None) tids.

(** World.Query (after the repair of D13). *)
Definition op_query (w : world) (a : farg) : result :=
  match (match a with
         | FPlain f => Some (walk_tables w f)
         | FCached id => option_map c_tables (cache_get w id)
         end) with
  | None => panic w
  | Some tids =>
      match open_query w (plain_segs w tids) None with
      | None => panic w
      | Some (w1, h) => ok w1 (VNat h) []
      end
  end.

(** nextArchetype*: advance to the next segment that is not skipped. *)
Fixpoint next_seg (segs : list seg) (k : nat) : option (nat * seg) :=
  match segs with
  | [] => None
  | s :: r => if s_skip s then next_seg r (S k) else Some (k, s)
  end.

Definition q_advance (q : qstate) : option qstate :=
  match next_seg (drop (q_next q) (q_segs q)) 0 with
  | Some (k, s) =>
      Some (q <| q_next := q_next q + k + 1 |> <| q_cur := Some (s_tid s) |>
              <| q_row := s_start s |> <| q_rowmax := s_end s - 1 |>)
  | None => None
  end.

(** World.closeQuery. *)
Definition close_query (w : world) (h : nat) (q : qstate) : result :=
  match locks_unlock (w_locks w) (q_lock q) with
  | None => panic w
  | Some l =>
      let w1 := w <| w_locks := l |>
                  <| w_queries := <[h := q <| q_closed := true |>]> (w_queries w) |> in
      ok w1 (VBool false)
         (match q_batch q with
          | Some (a, r) => ev_batch w1 (q_segs q) a r
          | None => []
          end)
  end.

Definition with_query (w : world) (h : nat) (k : qstate -> result) : result :=
  match w_queries w !! h with
  | Some q => if q_closed q then panic w else k q
  | None => panic w
  end.

Definition upd_query (w : world) (h : nat) (q : qstate) : world :=
  w <| w_queries := <[h := q]> (w_queries w) |>.

(** Query.Next. *)
Definition op_q_next (w : world) (h : nat) : result :=
  with_query w h (fun q =>
    if q_row q <? q_rowmax q then ok (upd_query w h (q <| q_row := S (q_row q) |>)) (VBool true) []
    else match q_advance q with
         | Some q' => ok (upd_query w h q') (VBool true) []
         | None => close_query w h q
         end).

(** Query.Step: the loop of stepArchetype / nextArchetype, on fuel. *)
Fixpoint step_loop (fuel : nat) (q : qstate) (k : nat) : option (qstate * bool) :=
  match fuel with
  | 0 => None
  | S f =>
      let row := q_row q + k in
      if row <=? q_rowmax q then Some (q <| q_row := row |>, true)
      else
        let rest := row - q_rowmax q - 1 in
        match q_advance q with
        | None => Some (q, false)
        | Some q' => if rest =? 0 then Some (q', true) else step_loop f q' rest
        end
  end.

Definition op_q_step (w : world) (h : nat) (k : Z) : result :=
  if (k <=? 0)%Z then panic w else
  with_query w h (fun q =>
    match step_loop (S (S (length (q_segs q)))) q (Z.to_nat k) with
    | Some (q', true) => ok (upd_query w h q') (VBool true) []
    | Some (q', false) => close_query w h q'
    | None => (w, Undef, [])
    end).

(** Query.Count. *)
Definition q_count (q : qstate) : nat := foldr (fun s acc => (s_end s - s_start s) + acc) 0 (q_segs q).

(** Query.EntityAt. *)
Fixpoint entity_at (w : world) (segs : list seg) (i : nat) : option Entity :=
  match segs with
  | [] => None
  | s :: r =>
      let n := s_end s - s_start s in
      if i <? n then
        match w_tables w !! s_tid s with
        | Some t => t_ents t !! (s_start s + i)
        | None => None
        end
      else entity_at w r (i - n)
  end.

Definition q_entity (w : world) (q : qstate) : option Entity :=
  q_cur q ≫= fun tid => w_tables w !! tid ≫= fun t => t_ents t !! q_row q.

(** ** Dump / Load *)
Definition all_entities (w : world) : list Entity :=
  flat_map (fun tid => match w_tables w !! tid with Some t => t_ents t | None => [] end)
           (walk_tables w (FAll 0)).

Record dump := mkDump { d_ents : list (nat * N); d_alive : list nat; d_next : nat; d_avail : nat }.

Definition world_dump (w : world) : dump :=
  mkDump (p_ents (w_pool w)) (map eid (all_entities w)) (p_next (w_pool w)) (p_avail (w_pool w)).

Definition world_load (w : world) (d : dump) : option world :=
  if is_locked w then None else
  if (1 <? length (p_ents (w_pool w))) || (0 <? p_avail (w_pool w)) then None else
  match w_tables w !! 0 with
  | None => None
  | Some t0 =>
      match w_nodes w !! t_node t0 with
      | None => None
      | Some nd =>
          let es := omap (fun i => match d_ents d !! i with Some (id, g) => Some (mkE id g) | None => None end) (d_alive d) in
          let '(t1, start) := tbl_allocn (w_capinc w) (zero_row nd) t0 es in
          let idx := foldl (fun idx '(k, e) => <[eid e := Some (0, start + k)]> idx)
                           (replicate (length (d_ents d)) None) (imap (fun k e => (k, e)) es) in
          Some (w <| w_pool := mkPool (d_ents d) (d_next d) (d_avail d) |>
                  <| w_index := idx |>
                  <| w_tbits := replicate (length (d_ents d)) false |>
                  <| w_tables := <[0 := t1]> (w_tables w) |>)
      end
  end.

(** ** The operation type and [step] *)
Inductive op :=
| ONew (ids : list nat)
| ONewWith (cs : list (nat * Z))
| OBNew (b : bspec) (target : option Entity)
| OBBatch (b : bspec) (count : Z) (target : option Entity)
| OBBatchQ (b : bspec) (count : Z) (target : option Entity)
| OBAdd (b : bspec) (e : Entity) (target : option Entity)
| ORemoveEntity (e : Entity)
| OAlive (e : Entity)
| OExchange (e : Entity) (add rem : list nat)
| OAssign (e : Entity) (cs : list (nat * Z))
| OSet (e : Entity) (id : nat) (v : Z)
| OGet (e : Entity) (id : nat)
| OHas (e : Entity) (id : nat)
| OMask (e : Entity)
| OView (e : Entity)
| ORelGet (e : Entity) (id : nat)
| ORelSet (e : Entity) (id : nat) (t : Entity)
| ORelExchange (e : Entity) (add rem : list nat) (rid : nat) (t : Entity)
| OBatchExchange (q : bool) (a : farg) (add rem : list nat) (rel : option (nat * Entity))
| OBatchSetRel (q : bool) (a : farg) (rid : nat) (t : Entity)
| OBatchRemove (a : farg)
| OQuery (a : farg)
| OQNext (h : nat)
| OQStep (h : nat) (k : Z)
| OQCount (h : nat)
| OQEntityAt (h : nat) (i : Z)
| OQClose (h : nat)
| OQEntity (h : nat)
| OQView (h : nat)
| OQRel (h : nat) (id : nat)
| OCacheRegister (f : fexpr)
| OCacheUnregister (id : nat)
| OReset
| ODump
| OLoad (d : dump)
| ORegister (key : nat) (isrel zs : bool)
| OResReg (key : nat)
| OResAdd (id : nat) (v : Z)
| OResRemove (id : nat)
| OResGet (id : nat)
| OResHas (id : nat)
| OSetListener (l : option lstn)
| OIsLocked
| OStats.

Definition view_of (w : world) (tid row : nat) : option value :=
  match w_tables w !! tid with
  | Some t =>
      match w_nodes w !! t_node t with
      | Some nd =>
          Some (VView (n_mask nd)
                  (imap (fun c id => (id, default 0%Z (get_cell (t_rows t) row c))) (n_ids nd))
                  (if node_has_rel nd then Some (t_target t) else None))
      | None => None
      end
  | None => None
  end.

(** ** What a panicking operation leaves behind

    The creation and exchange operations call [findOrCreateArchetype] BEFORE their last
    argument check (or panic inside it): a failed call leaves the graph nodes - and, when the
    check that fails comes after the walk, the (empty) table - it created.  No entity,
    component value, handle, lock or registered filter's selection changes (Proofs/Ghost.v),
    but the ORDER of tables created later does, so the model follows the code here.
    [ghost_of w o] is the world a panicking [o] returns; [step0] is the operation proper. *)
Definition ghost_create (w : world) (ids : list nat) (tg : Entity) : world :=
  match ids with [] => w | _ => foc_world w 0 ids [] tg end.

Definition ghost_new (w : world) (ids : list nat) : world :=
  if is_locked w then w else ghost_create w ids ezero.

Definition ghost_new_target (w : world) (tg : Entity) (ids : list nat) : world :=
  if is_locked w then w else if negb (target_ok w tg) then w else ghost_create w ids tg.

Definition ghost_builder_new (w : world) (b : bspec) (target : option Entity) : world :=
  match target with
  | Some tg => match b_rel b with None => w | Some _ => ghost_new_target w tg (b_ids b) end
  | None => ghost_new w (b_ids b)
  end.

Definition ghost_new_batch (w : world) (count : Z) (b : bspec) (target : option Entity) : world :=
  match target, b_rel b with
  | Some _, None => w
  | _, _ =>
      if is_locked w then w else
      if (count <? 1)%Z then w else
      let tg := default ezero target in
      if negb (target_ok w tg) then w else ghost_create w (b_ids b) tg
  end.

Definition ghost_assign (w : world) (e : Entity) (cs : list (nat * Z)) (rel : option (nat * Entity)) : world :=
  match cs with [] => w | _ => exchange_ghost w e (map fst cs) [] rel end.

Definition ghost_builder_add (w : world) (b : bspec) (e : Entity) (target : option Entity) : world :=
  match target, b_rel b with
  | Some _, None => w
  | _, _ =>
      let rel := match target, b_rel b with Some t, Some r => Some (r, t) | _, _ => None end in
      match b_vals b with
      | None => exchange_ghost w e (b_ids b) [] rel
      | Some _ => ghost_assign w e (b_comps b) rel
      end
  end.

Definition ghost_of (w : world) (o : op) : world :=
  match o with
  | ONew ids => ghost_new w ids
  | ONewWith cs => ghost_new w (map fst cs)
  | OBNew b t => ghost_builder_new w b t
  | OBBatch b n t | OBBatchQ b n t => ghost_new_batch w n b t
  | OBAdd b e t => ghost_builder_add w b e t
  | OExchange e add rem => exchange_ghost w e add rem None
  | OAssign e cs => ghost_assign w e cs None
  | ORelExchange e add rem rid t => exchange_ghost w e add rem (Some (rid, t))
  | _ => w
  end.

Definition with_ghost (g : world) (r : result) : result :=
  match r with
  | (_, Panic, evs) => (g, Panic, evs)
  | _ => r
  end.

Definition step0 (w : world) (o : op) : result :=
  match o with
  | ONew ids => op_new w ids []
  | ONewWith cs => match cs with [] => op_new w [] [] | _ => op_new w (map fst cs) cs end
  | OBNew b t => op_builder_new w b t
  | OBBatch b n t => op_new_batch w n b t
  | OBBatchQ b n t => op_new_batch_q w n b t
  | OBAdd b e t => op_builder_add w b e t
  | ORemoveEntity e => op_remove_entity w e
  | OAlive e => match chk_alive w e with Some b => ok w (VBool b) [] | None => panic w end
  | OExchange e add rem => op_exchange w e add rem None []
  | OAssign e cs => op_assign w e cs None
  | OSet e id v => match set_comp w e id v with Some w1 => ok w1 VUnit [] | None => panic w end
  | OGet e id => match get_comp w e id with Some o => ok w (VOptZ o) [] | None => panic w end
  | OHas e id =>
      match ent_table w e with
      | Some (_, _, _, nd) => ok w (VBool (bit (n_mask nd) id)) []
      | None => panic w
      end
  | OMask e =>
      match ent_table w e with
      | Some (_, _, _, nd) => ok w (VMask (n_mask nd)) []
      | None => panic w
      end
  | OView e =>
      match ent_table w e with
      | Some (tid, row, _, _) => match view_of w tid row with Some v => ok w v [] | None => panic w end
      | None => panic w
      end
  | ORelGet e id =>
      match ent_table w e with
      | Some (tid, _, t, _) => if check_relation w tid id then ok w (VEnt (t_target t)) [] else panic w
      | None => panic w
      end
  | ORelSet e id t => op_set_relation w e id t
  | ORelExchange e add rem rid t => op_exchange w e add rem (Some (rid, t)) []
  | OBatchExchange false a add rem rel => op_batch_exchange w a add rem rel
  | OBatchExchange true a add rem rel => op_batch_exchange_q w a add rem rel
  | OBatchSetRel false a rid t => op_batch_set_relation w a rid t
  | OBatchSetRel true a rid t => op_batch_set_relation_q w a rid t
  | OBatchRemove a => op_remove_entities w a
  | OQuery a => op_query w a
  | OQNext h => op_q_next w h
  | OQStep h k => op_q_step w h k
  | OQCount h => with_query w h (fun q => ok w (VNat (q_count q)) [])
  | OQEntityAt h i =>
      if (i <? 0)%Z then panic w else
      with_query w h (fun q => match entity_at w (q_segs q) (Z.to_nat i) with
                               | Some e => ok w (VEnt e) []
                               | None => panic w
                               end)
  | OQClose h => with_query w h (fun q =>
                   match close_query w h q with
                   | (w1, Ok _, evs) => (w1, Ok VUnit, evs)
                   | r => r
                   end)
  | OQEntity h => with_query w h (fun q => match q_entity w q with Some e => ok w (VEnt e) [] | None => panic w end)
  | OQView h => with_query w h (fun q =>
                  match q_cur q with
                  | Some tid => match view_of w tid (q_row q) with Some v => ok w v [] | None => panic w end
                  | None => panic w
                  end)
  | OQRel h id => with_query w h (fun q =>
                  match q_cur q with
                  | Some tid =>
                      if check_relation w tid id
                      then match w_tables w !! tid with Some t => ok w (VEnt (t_target t)) [] | None => panic w end
                      else panic w
                  | None => panic w
                  end)
  | OCacheRegister f => let '(w1, id) := cache_register w f in ok w1 (VNat id) []
  | OCacheUnregister id =>
      match cache_unregister w id with Some (w1, _) => ok w1 VUnit [] | None => panic w end
  | OReset => if is_locked w then panic w else ok (world_reset w) VUnit []
  | ODump => let d := world_dump w in ok w (VDump (d_ents d) (d_alive d) (d_next d) (d_avail d)) []
  | OLoad d => match world_load w d with Some w1 => ok w1 VUnit [] | None => panic w end
  | ORegister key isrel zs =>
      match register_comp w key isrel zs with Some (w1, id) => ok w1 (VNat id) [] | None => panic w end
  | OResReg key =>
      match register_res w key with Some (w1, id) => ok w1 (VNat id) [] | None => panic w end
  | OResAdd id v =>
      match w_res w !! id with
      | Some None => ok (w <| w_res := <[id := Some v]> (w_res w) |>) VUnit []
      | _ => panic w
      end
  | OResRemove id =>
      match w_res w !! id with
      | Some (Some _) => ok (w <| w_res := <[id := None]> (w_res w) |>) VUnit []
      | _ => panic w
      end
  | OResGet id => match w_res w !! id with Some o => ok w (VOptZ o) [] | None => panic w end
  | OResHas id => match w_res w !! id with Some o => ok w (VBool (bool_decide (is_Some o))) [] | None => panic w end
  | OSetListener l => ok (w <| w_listener := l |>) VUnit []
  | OIsLocked => ok w (VBool (is_locked w)) []
  | OStats => ok w (VNat (pool_len (w_pool w))) []
  end.

(** One operation: the operation proper, and on a panic the world it leaves behind. *)
Definition step (w : world) (o : op) : result :=
  match o with
  | ONew ids => with_ghost (ghost_new w ids) (op_new w ids [])
  | ONewWith cs => with_ghost (ghost_new w (map fst cs)) (match cs with [] => op_new w [] [] | _ => op_new w (map fst cs) cs end)
  | OBNew b t => with_ghost (ghost_builder_new w b t) (op_builder_new w b t)
  | OBBatch b n t => with_ghost (ghost_new_batch w n b t) (op_new_batch w n b t)
  | OBBatchQ b n t => with_ghost (ghost_new_batch w n b t) (op_new_batch_q w n b t)
  | OBAdd b e t => with_ghost (ghost_builder_add w b e t) (op_builder_add w b e t)
  | OExchange e add rem => with_ghost (exchange_ghost w e add rem None) (op_exchange w e add rem None [])
  | OAssign e cs => with_ghost (ghost_assign w e cs None) (op_assign w e cs None)
  | ORelExchange e add rem rid t => with_ghost (exchange_ghost w e add rem (Some (rid, t))) (op_exchange w e add rem (Some (rid, t)) [])
  | _ => step0 w o
  end.


(** A run from a fresh world. *)
Definition run (w : world) (ops : list op) : world := foldl (fun w o => fst (fst (step w o))) w ops.
