(** * Filters: ecs/filter.go and filter/filter.go over [N] bit sets. *)
From Arche Require Import Model.Base.

Inductive fexpr :=
| FAll (m : N)                 (* ecs.Mask used as a filter *)
| FMask (inc exc : N)          (* ecs.MaskFilter *)
| FAny (m : N)
| FNoneOf (m : N)
| FAnyNot (m : N)
| FAnd (l r : fexpr)
| FOr (l r : fexpr)
| FXor (l r : fexpr)
| FNot (f : fexpr)
| FRel (f : fexpr) (t : Entity). (* ecs.RelationFilter *)

Fixpoint fmatches (f : fexpr) (bits : N) : bool :=
  match f with
  | FAll m => contains bits m
  | FMask inc exc => contains bits inc && (negb (contains_any bits exc) || (exc =? 0)%N)
  | FAny m => contains_any bits m
  | FNoneOf m => negb (contains_any bits m)
  | FAnyNot m => negb (contains bits m)
  | FAnd l r => fmatches l bits && fmatches r bits
  | FOr l r => fmatches l bits || fmatches r bits
  | FXor l r => xorb (fmatches l bits) (fmatches r bits)
  | FNot g => negb (fmatches g bits)
  | FRel g _ => fmatches g bits
  end.

(** The relation target is honoured only for a top-level [RelationFilter]
    (the type switch on RelationFilter in query.go, world_internal.go, cache.go). *)
Definition ftarget (f : fexpr) : option Entity :=
  match f with FRel _ t => Some t | _ => None end.

(** Complement within the mask width, for [Mask.Exclusive]. *)
Definition mask_not (tb : nat) (m : N) : N := N.ldiff (N.ones (N.of_nat tb)) m.
