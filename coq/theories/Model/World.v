(** * Executable model of arche's world: storage tables, archetype graph, relation
      tables with retirement and LIFO reuse, filter cache, locks, entity index.

    The model follows ecs/world.go, ecs/world_internal.go, ecs/archetype.go,
    ecs/archetype_node.go and ecs/cache.go function by function.  A Go function that
    mutates through a pointer becomes a function returning the new world.  Functions
    that can panic return [option]; [None] is the panic, and the caller keeps the old
    world (every panic of a single-entity operation happens before any observable
    change; see DESIGN.md section 2.2 for the hidden structure this leaves out). *)
From Arche Require Import Model.Base Model.Pool Model.Filter.

(** ** Records *)

(** What the registry knows about a component type.  [ci_key] identifies the Go type,
    [ci_rel] is the outcome of [isRelation], [ci_zs] says the type has size 0. *)
Record cinfo := mkCI { ci_key : nat; ci_rel : bool; ci_zs : bool }.

Record table := mkTable {
  t_node : nat;                (* index of the owning node *)
  t_target : Entity;           (* RelationTarget *)
  t_ents : list Entity;        (* entity column, live prefix; len = length t_ents *)
  t_rows : list (list Z);      (* value rows; cap = length t_rows; rows >= len are the tail *)
  t_active : bool;             (* index >= 0 *)
  t_layouts : nat;             (* len(layouts) *)
}.
#[global] Instance eta_table : Settable _ :=
  settable! mkTable <t_node; t_target; t_ents; t_rows; t_active; t_layouts>.

Record node := mkNode {
  n_mask : N;
  n_ids : list nat;            (* sorted component ids of the mask *)
  n_rel : option nat;          (* Relation / HasRelation *)
  n_active : bool;
  n_tables : list nat;         (* table ids in node-local creation order *)
  n_free : list nat;           (* freeIndices (as table ids), popped from the end *)
  n_tmap : list (Entity * nat);(* archetypeMap: target -> table id *)
}.
#[global] Instance eta_node : Settable _ :=
  settable! mkNode <n_mask; n_ids; n_rel; n_active; n_tables; n_free; n_tmap>.

Record centry := mkCE { c_id : nat; c_filter : fexpr; c_tables : list nat }.
#[global] Instance eta_centry : Settable _ := settable! mkCE <c_id; c_filter; c_tables>.

(** Listener configuration: subscription byte and optional component mask.  The
    world's listener is either one callback or a listener.Dispatch over sub-listeners. *)
Record lcfg := mkL { lc_subs : N; lc_comps : option N }.
Inductive lstn := LCallback (l : lcfg) | LDispatch (subs : list lcfg).

Record event := mkEv {
  ev_ent : Entity;
  ev_added : N; ev_removed : N;
  ev_added_ids : list nat; ev_removed_ids : list nat;
  ev_oldrel : option nat; ev_newrel : option nat;
  ev_oldtarget : Entity;
  ev_types : N;
  ev_locked : bool;            (* world locked while the event is delivered *)
  ev_to : nat;                 (* index of the (sub-)listener that receives it *)
}.

(** One archetype range of a query.  [s_skip] is "table Len() == 0" at open time. *)
Record seg := mkSeg { s_tid : nat; s_start : nat; s_end : nat; s_skip : bool;
                      s_old : option (N * option nat * Entity) }.

Record qstate := mkQ {
  q_segs : list seg;
  q_batch : option (list nat * list nat);  (* batchArchetypes.Added / Removed *)
  q_next : nat;                 (* archIndex + 1 *)
  q_cur : option nat;           (* table under the cursor *)
  q_row : nat;                  (* entityIndex *)
  q_rowmax : nat;               (* entityIndexMax *)
  q_lock : nat;
  q_closed : bool;
}.
#[global] Instance eta_q : Settable _ :=
  settable! mkQ <q_segs; q_batch; q_next; q_cur; q_row; q_rowmax; q_lock; q_closed>.

Record world := mkWorld {
  w_pool : pool;
  w_index : list (option (nat * nat));  (* entities: id -> (table, row); None = nil arch *)
  w_tbits : list bool;                  (* targetEntities *)
  w_nodes : list node;
  w_tables : list table;
  w_reg : list cinfo;                   (* component registry, ID = position *)
  w_locks : lockstate;
  w_cache : list centry;
  w_cnext : nat;                        (* next filter id (ids are never recycled) *)
  w_res : list (option Z);              (* resources by id *)
  w_resreg : list nat;                  (* resource registry (type keys) *)
  w_listener : option lstn;
  w_capinc : nat;
  w_relcapinc : nat;
  w_tb : nat;                           (* MaskTotalBits *)
  w_queries : list qstate;
}.
#[global] Instance eta_world : Settable _ :=
  settable! mkWorld <w_pool; w_index; w_tbits; w_nodes; w_tables; w_reg; w_locks; w_cache;
                     w_cnext; w_res; w_resreg; w_listener; w_capinc; w_relcapinc; w_tb; w_queries>.

(** ** Small accessors *)
Definition is_locked (w : world) : bool := locks_locked (w_locks w).
Definition reg_is_rel (w : world) (id : nat) : bool :=
  match w_reg w !! id with Some c => ci_rel c | None => false end.
Definition reg_is_zs (w : world) (id : nat) : bool :=
  match w_reg w !! id with Some c => ci_zs c | None => false end.
Definition reg_relmask (w : world) : N :=
  mask_of (filter (fun i => reg_is_rel w i = true) (seq 0 (length (w_reg w)))).
Definition loc (w : world) (e : Entity) : option (nat * nat) := mjoin (w_index w !! eid e).
Definition tbit (w : world) (i : nat) : bool := default false (w_tbits w !! i).
Definition tlen (t : table) : nat := length (t_ents t).
Definition node_has_rel (nd : node) : bool := bool_decide (is_Some (n_rel nd)).
Definition zero_row (nd : node) : list Z := replicate (length (n_ids nd)) 0%Z.
Definition col_of (nd : node) (id : nat) : option nat := find_index (Nat.eqb id) (n_ids nd).
Definition node_capinc (w : world) (nd : node) : nat :=
  if node_has_rel nd then w_relcapinc w else w_capinc w.
Definition table_node (w : world) (t : table) : option node := w_nodes w !! t_node t.

(** ** Table primitives (ecs/archetype.go) *)

(** [archetype.extend]. *)
Definition tbl_extend (capinc : nat) (zr : list Z) (t : table) (by_ : nat) : table :=
  let req := tlen t + by_ in
  let cap := length (t_rows t) in
  if req <=? cap then t
  else t <| t_rows := t_rows t ++ replicate (capacity req capinc - cap) zr |>.

(** [archetype.Alloc]: extends, writes the entity; component cells are NOT written. *)
Definition tbl_alloc (capinc : nat) (zr : list Z) (t : table) (e : Entity) : table * nat :=
  let t1 := tbl_extend capinc zr t 1 in
  (t1 <| t_ents := t_ents t1 ++ [e] |>, tlen t).

(** [archetype.AllocN] followed by [SetEntity] for each new row. *)
Definition tbl_allocn (capinc : nat) (zr : list Z) (t : table) (es : list Entity) : table * nat :=
  let t1 := tbl_extend capinc zr t (length es) in
  (t1 <| t_ents := t_ents t1 ++ es |>, tlen t).

(** [archetype.Remove]: swap-remove of entity and cells, zeroing of the vacated last row.
    Returns whether a swap happened. *)
Definition tbl_remove (zr : list Z) (t : table) (row : nat) : table * bool :=
  let last := tlen t - 1 in
  let rows1 :=
    if row =? last then t_rows t
    else match t_rows t !! last with
         | Some r => <[row := r]> (t_rows t)
         | None => t_rows t
         end in
  (t <| t_ents := swap_remove row (t_ents t) |> <| t_rows := <[last := zr]> rows1 |>,
   negb (row =? last)).

(** [archetype.Reset]. *)
Definition tbl_reset (zr : list Z) (t : table) : table :=
  if tlen t =? 0 then t
  else t <| t_ents := [] |> <| t_rows := replicate (length (t_rows t)) zr |>.

Definition set_cell (rows : list (list Z)) (row col : nat) (v : Z) : list (list Z) :=
  alter (fun r => <[col := v]> r) row rows.
Definition get_cell (rows : list (list Z)) (row col : nat) : option Z :=
  rows !! row ≫= fun r => r !! col.

(** Copy the cells of the ids in [keep] from [srow] (layout [sids]) into [drow]
    (layout [dids]); the loop over [oldIDs] with [SetPointer] in the move paths. *)
Definition copy_cells (keep : N) (sids : list nat) (srow : list Z) (dids : list nat)
    (drow : list Z) : list Z :=
  foldl (fun acc '(i, id) =>
           if bit keep id then
             match srow !! i, find_index (Nat.eqb id) dids with
             | Some v, Some j => <[j := v]> acc
             | _, _ => acc
             end
           else acc) drow (imap (fun i id => (i, id)) sids).

(** ** Archetype graph (world_internal.go: findOrCreateArchetype & co.) *)
Definition find_node (w : world) (m : N) : option nat :=
  find_index (fun n => (n_mask n =? m)%N) (w_nodes w).

Definition new_node (w : world) (m : N) (rel : option nat) : node :=
  mkNode m (mask_ids (w_tb w) m) rel false [] [] [].

(** [findOrCreateArchetypeSlow] (the [neighbors] edge cache is not modelled: an edge
    [id] of the node with mask [m] leads to the node with mask [m xor id]). *)
Definition find_or_create_node (w : world) (m : N) (rel : option nat) : world * nat :=
  match find_node w m with
  | Some i => (w, i)
  | None => (w <| w_nodes := w_nodes w ++ [new_node w m rel] |>, length (w_nodes w))
  end.

Fixpoint walk_rem (w : world) (m : N) (rel : option nat) (ids : list nat)
  : world * N * option nat :=
  match ids with
  | [] => (w, m, rel)
  | id :: r =>
      let m' := setb m id false in
      let rel' := if reg_is_rel w id then None else rel in
      walk_rem (fst (find_or_create_node w m' rel')) m' rel' r
  end.

(** [None]: "already has component / added twice", "added and removed in the same
    exchange", "entity already has a relation component". *)
Fixpoint walk_add (w : world) (start m : N) (rel : option nat) (ids : list nat)
  : option (world * N * option nat) :=
  match ids with
  | [] => Some (w, m, rel)
  | id :: r =>
      if bit m id then None
      else if bit start id then None
      else if reg_is_rel w id && bool_decide (is_Some rel) then None
      else
        let m' := setb m id true in
        let rel' := if reg_is_rel w id then Some id else rel in
        walk_add (fst (find_or_create_node w m' rel')) start m' rel' r
  end.

(** [archNode.GetArchetype]. *)
Definition node_get_table (nd : node) (target : Entity) : option nat :=
  if node_has_rel nd then assoc_get target (n_tmap nd) else head (n_tables nd).

Definition layouts_for (w : world) : nat := capacity_nz (length (w_reg w)) 16.

(** [Cache.addArchetype]. *)
Definition centry_add (nd : node) (target : Entity) (tid : nat) (e : centry) : centry :=
  if fmatches (c_filter e) (n_mask nd) then
    if node_has_rel nd then
      match ftarget (c_filter e) with
      | Some t => if ent_eqb t target then e <| c_tables := c_tables e ++ [tid] |> else e
      | None => e <| c_tables := c_tables e ++ [tid] |>
      end
    else e <| c_tables := c_tables e ++ [tid] |>
  else e.

(** [Cache.removeArchetype]: swap-remove from every entry that lists the table. *)
Definition centry_remove (tid : nat) (e : centry) : centry :=
  match find_index (Nat.eqb tid) (c_tables e) with
  | Some i => e <| c_tables := swap_remove i (c_tables e) |>
  | None => e
  end.

(** [World.createArchetype] (with [archNode.CreateArchetype] / [archetype.Init] /
    [archetype.Activate]). *)
Definition create_table (w : world) (nid : nat) (target : Entity) (for_storage : bool)
  : world * nat :=
  match w_nodes w !! nid with
  | None => (w, 0)
  | Some nd =>
      if node_has_rel nd then
        match last (n_free nd) with
        | Some tid =>
            let w1 := w <| w_tables := alter (fun t => t <| t_target := target |> <| t_active := true |>) tid (w_tables w) |> in
            let nd' := nd <| n_free := take (length (n_free nd) - 1) (n_free nd) |>
                          <| n_tmap := assoc_set target tid (n_tmap nd) |> in
            (w1 <| w_nodes := <[nid := nd']> (w_nodes w1) |>
                <| w_cache := map (centry_add nd target tid) (w_cache w1) |>, tid)
        | None =>
            let tid := length (w_tables w) in
            let t := mkTable nid target [] (replicate (w_relcapinc w) (zero_row nd)) true (layouts_for w) in
            let nd' := nd <| n_active := true |> <| n_tables := n_tables nd ++ [tid] |>
                          <| n_tmap := assoc_set target tid (n_tmap nd) |> in
            (w <| w_tables := w_tables w ++ [t] |>
               <| w_nodes := <[nid := nd']> (w_nodes w) |>
               <| w_cache := map (centry_add nd target tid) (w_cache w) |>, tid)
        end
      else
        let tid := length (w_tables w) in
        let cap := if for_storage then w_capinc w else 1 in
        let t := mkTable nid ezero [] (replicate cap (zero_row nd)) true (layouts_for w) in
        let nd' := nd <| n_active := true |> <| n_tables := n_tables nd ++ [tid] |> in
        (w <| w_tables := w_tables w ++ [t] |>
           <| w_nodes := <[nid := nd']> (w_nodes w) |>
           <| w_cache := map (centry_add nd ezero tid) (w_cache w) |>, tid)
  end.

(** [findOrCreateArchetype]: walk from the table [src], removing then adding ids, and
    find or create the table of the final node for [target]. *)
Definition find_or_create_table (w : world) (src : nat) (add rem : list nat) (target : Entity)
  : option (world * nat) :=
  match w_tables w !! src with
  | None => None
  | Some st =>
      match w_nodes w !! t_node st with
      | None => None
      | Some snd_ =>
          let '(w1, m1, rel1) := walk_rem w (n_mask snd_) (n_rel snd_) rem in
          match walk_add w1 (n_mask snd_) m1 rel1 add with
          | None => None
          | Some (w2, m2, _) =>
              match find_node w2 m2 with
              | None => None
              | Some nid =>
                  match w_nodes w2 !! nid with
                  | None => None
                  | Some nd =>
                      match node_get_table nd target with
                      | Some tid => Some (w2, tid)
                      | None => Some (create_table w2 nid target true)
                      end
                  end
              end
          end
      end
  end.

(** What [findOrCreateArchetype] leaves behind when it does NOT return: the graph nodes it
    created before the panic ("added twice", "added and removed", "second relation
    component") stay in the world.  [walk_add_w] is [walk_add] keeping the world reached. *)
Fixpoint walk_add_w (w : world) (start m : N) (rel : option nat) (ids : list nat) : world :=
  match ids with
  | [] => w
  | id :: r =>
      if bit m id then w
      else if bit start id then w
      else if reg_is_rel w id && bool_decide (is_Some rel) then w
      else
        let m' := setb m id true in
        let rel' := if reg_is_rel w id then Some id else rel in
        walk_add_w (fst (find_or_create_node w m' rel')) start m' rel' r
  end.

(** The world after [findOrCreateArchetype], however far it got: with the table when it
    returned, with the nodes created so far when it panicked. *)
Definition foc_world (w : world) (src : nat) (add rem : list nat) (target : Entity) : world :=
  match find_or_create_table w src add rem target with
  | Some (w1, _) => w1
  | None =>
      match w_tables w !! src with
      | None => w
      | Some st =>
          match w_nodes w !! t_node st with
          | None => w
          | Some snd_ =>
              let '(w1, m1, rel1) := walk_rem w (n_mask snd_) (n_rel snd_) rem in
              walk_add_w w1 (n_mask snd_) m1 rel1 add
          end
      end
  end.

(** [archNode.RemoveArchetype] + [archetype.Deactivate] + [Cache.removeArchetype]. *)
Definition retire_table (w : world) (tid : nat) : world :=
  match w_tables w !! tid with
  | None => w
  | Some t =>
      match w_nodes w !! t_node t with
      | None => w
      | Some nd =>
          let nd' := nd <| n_tmap := assoc_del (t_target t) (n_tmap nd) |>
                        <| n_free := n_free nd ++ [tid] |> in
          let t' := (tbl_reset (zero_row nd) t) <| t_active := false |> in
          w <| w_nodes := <[t_node t := nd']> (w_nodes w) |>
            <| w_tables := <[tid := t']> (w_tables w) |>
            <| w_cache := map (centry_remove tid) (w_cache w) |>
      end
  end.

(** [World.cleanupArchetype]. *)
Definition cleanup_table (w : world) (tid : nat) : world :=
  match w_tables w !! tid with
  | None => w
  | Some t =>
      match w_nodes w !! t_node t with
      | None => w
      | Some nd =>
          if (0 <? tlen t) || negb (node_has_rel nd) || negb (t_active t) then w
          else if ent_is_zero (t_target t) || pool_alive (w_pool w) (t_target t) then w
          else retire_table w tid
      end
  end.

(** [World.cleanupArchetypes]: retire the empty tables that have [target] as target. *)
Definition cleanup_tables_for (w : world) (target : Entity) : world :=
  foldl (fun w nid =>
           match w_nodes w !! nid with
           | Some nd =>
               match assoc_get target (n_tmap nd) with
               | Some tid =>
                   match w_tables w !! tid with
                   | Some t => if tlen t =? 0 then retire_table w tid else w
                   | None => w
                   end
               | None => w
               end
           | None => w
           end) w (seq 0 (length (w_nodes w))).

(** ** Entities *)
Definition set_tbit (w : world) (e : Entity) : world :=
  if ent_is_zero e then w else w <| w_tbits := <[eid e := true]> (w_tbits w) |>.

Definition upd_table (w : world) (tid : nat) (t : table) : world :=
  w <| w_tables := <[tid := t]> (w_tables w) |>.

(** [World.createEntity]. *)
Definition create_entity (w : world) (tid : nat) : world * Entity :=
  match w_tables w !! tid with
  | None => (w, ezero)
  | Some t =>
      match w_nodes w !! t_node t with
      | None => (w, ezero)
      | Some nd =>
          let '(p, e) := pool_get (w_pool w) in
          let '(t', row) := tbl_alloc (node_capinc w nd) (zero_row nd) t e in
          let w1 := upd_table (w <| w_pool := p |>) tid t' in
          if eid e =? length (w_index w1) then
            (w1 <| w_index := w_index w1 ++ [Some (tid, row)] |>
                <| w_tbits := w_tbits w1 ++ [false] |>, e)
          else
            (w1 <| w_index := <[eid e := Some (tid, row)]> (w_index w1) |>
                <| w_tbits := <[eid e := false]> (w_tbits w1) |>, e)
      end
  end.

(** [World.createEntities]: [count] handles from the pool, appended to table [tid]. *)
Fixpoint pool_get_n (p : pool) (n : nat) : pool * list Entity :=
  match n with
  | 0 => (p, [])
  | S k => let '(p1, e) := pool_get p in let '(p2, es) := pool_get_n p1 k in (p2, e :: es)
  end.

Definition index_set (idx : list (option (nat * nat))) (tb : list bool) (i : nat) (v : nat * nat)
  : list (option (nat * nat)) * list bool :=
  if length idx <=? i then
    (idx ++ replicate (i - length idx) None ++ [Some v], tb ++ replicate (S i - length tb) false)
  else (<[i := Some v]> idx, <[i := false]> tb).

Definition create_entities (w : world) (tid : nat) (count : nat) : world * list Entity :=
  match w_tables w !! tid with
  | None => (w, [])
  | Some t =>
      match w_nodes w !! t_node t with
      | None => (w, [])
      | Some nd =>
          let '(p, es) := pool_get_n (w_pool w) count in
          let '(t', start) := tbl_allocn (node_capinc w nd) (zero_row nd) t es in
          let w1 := upd_table (w <| w_pool := p |>) tid t' in
          let '(idx, tb) :=
            foldl (fun '(idx, tb) '(k, e) => index_set idx tb (eid e) (tid, start + k))
                  (w_index w1, w_tbits w1) (imap (fun k e => (k, e)) es) in
          (w1 <| w_index := idx |> <| w_tbits := tb |>, es)
      end
  end.

(** Alive check as the Go code performs it: [None] = index out of range. *)
Definition chk_alive (w : world) (e : Entity) : option bool := pool_alive_opt (w_pool w) e.
Definition target_ok (w : world) (t : Entity) : bool :=
  ent_is_zero t || pool_alive (w_pool w) t.

(** Move entity [e] from row [row] of table [src] to table [dst], keeping the cells of
    the ids in [keep]: [Alloc], the copy loop, [Remove], the swap fix-up and the index
    update of exchangeNoNotify / setRelation. *)
Definition move_entity (w : world) (e : Entity) (src row dst : nat) (keep : N) : world :=
  match w_tables w !! src, w_tables w !! dst with
  | Some st, Some dt =>
      match w_nodes w !! t_node st, w_nodes w !! t_node dt with
      | Some sn, Some dn =>
          let '(dt1, newrow) := tbl_alloc (node_capinc w dn) (zero_row dn) dt e in
          let srow := default [] (t_rows st !! row) in
          let drow := default (zero_row dn) (t_rows dt1 !! newrow) in
          let dt2 := dt1 <| t_rows := <[newrow := copy_cells keep (n_ids sn) srow (n_ids dn) drow]> (t_rows dt1) |> in
          let '(st1, swapped) := tbl_remove (zero_row sn) st row in
          let idx1 :=
            if swapped then
              match t_ents st1 !! row with
              | Some se => <[eid se := Some (src, row)]> (w_index w)
              | None => w_index w
              end
            else w_index w in
          w <| w_tables := <[src := st1]> (<[dst := dt2]> (w_tables w)) |>
            <| w_index := <[eid e := Some (dst, newrow)]> idx1 |>
      | _, _ => w
      end
  | _, _ => w
  end.

(** Move all [t_ents] of [src] to [dst] (exchangeArch / setRelationArch): [AllocN],
    [SetEntity], index update and copy loop per entity, then [Reset] of [src]. *)
Definition move_all (w : world) (src dst : nat) (keep : N) : world * nat :=
  match w_tables w !! src, w_tables w !! dst with
  | Some st, Some dt =>
      match w_nodes w !! t_node st, w_nodes w !! t_node dt with
      | Some sn, Some dn =>
          let '(dt1, start) := tbl_allocn (node_capinc w dn) (zero_row dn) dt (t_ents st) in
          let rows :=
            foldl (fun rows i =>
                     let srow := default [] (t_rows st !! i) in
                     let drow := default (zero_row dn) (rows !! (start + i)) in
                     <[start + i := copy_cells keep (n_ids sn) srow (n_ids dn) drow]> rows)
                  (t_rows dt1) (seq 0 (tlen st)) in
          let idx :=
            foldl (fun idx '(i, e) => <[eid e := Some (dst, start + i)]> idx)
                  (w_index w) (imap (fun i e => (i, e)) (t_ents st)) in
          (w <| w_tables := <[src := tbl_reset (zero_row sn) st]> (<[dst := dt1 <| t_rows := rows |>]> (w_tables w)) |>
             <| w_index := idx |>, start)
      | _, _ => (w, 0)
      end
  | _, _ => (w, 0)
  end.

(** [World.getExchangeMask]. *)
Fixpoint exmask_rem (m : N) (rem : list nat) : option N :=
  match rem with
  | [] => Some m
  | id :: r => if bit m id then exmask_rem (setb m id false) r else None
  end.
Fixpoint exmask_add (m : N) (add : list nat) : option N :=
  match add with
  | [] => Some m
  | id :: r => if bit m id then None else exmask_add (setb m id true) r
  end.
Definition exchange_mask (m : N) (add rem : list nat) : option N :=
  exmask_rem m rem ≫= fun m1 => exmask_add m1 add.

(** Target of the table an exchange moves to (the [hasRelation] branch and its else
    branch in exchangeNoNotify / exchangeArch).  [None] = panic. *)
Definition exchange_target (w : world) (oldmask newmask : N) (oldtarget : Entity)
    (rem : list nat) (rel : option (nat * Entity)) : option Entity :=
  match rel with
  | Some (rid, tg) =>
      if negb (bit newmask rid) then None
      else if negb (reg_is_rel w rid) then None
      else Some tg
  | None =>
      if negb (ent_is_zero oldtarget) && contains_any oldmask (reg_relmask w)
      then Some (if existsb (reg_is_rel w) rem then ezero else oldtarget)
      else Some oldtarget
  end.

(** Result of the structural part of an exchange, for the event. *)
Record xinfo := mkX { x_new : nat; x_oldmask : N; x_oldtarget : Entity; x_oldrel : option nat }.

(** [World.exchangeNoNotify].  Outer [None] = panic; inner [None] = nothing to do. *)
Definition exchange_nn (w : world) (e : Entity) (add rem : list nat) (rel : option (nat * Entity))
  : option (world * option xinfo) :=
  if is_locked w then None else
  match chk_alive w e with
  | Some true =>
      if negb (match rel with Some (_, tg) => target_ok w tg | None => true end) then None else
      match add, rem with
      | [], [] => if bool_decide (is_Some rel) then None else Some (w, None)
      | _, _ =>
          match loc w e with
          | None => None
          | Some (src, row) =>
              match w_tables w !! src with
              | None => None
              | Some st =>
                  match w_nodes w !! t_node st with
                  | None => None
                  | Some sn =>
                      match exchange_mask (n_mask sn) add rem with
                      | None => None
                      | Some mask =>
                          match exchange_target w (n_mask sn) mask (t_target st) rem rel with
                          | None => None
                          | Some target =>
                              match find_or_create_table w src add rem target with
                              | None => None
                              | Some (w1, dst) =>
                                  let w2 := move_entity w1 e src row dst mask in
                                  let w3 := set_tbit w2 target in
                                  Some (cleanup_table w3 src,
                                        Some (mkX dst (n_mask sn) (t_target st) (n_rel sn)))
                              end
                          end
                      end
                  end
              end
          end
      end
  | _ => None
  end.

(** The world a PANICKING [exchangeNoNotify] leaves behind: unchanged when a check before
    the graph walk fails, with the nodes (and possibly the table) [findOrCreateArchetype]
    created when the panic comes from the walk itself (a second relation component). *)
Definition exchange_ghost (w : world) (e : Entity) (add rem : list nat) (rel : option (nat * Entity)) : world :=
  if is_locked w then w else
  match chk_alive w e with
  | Some true =>
      if negb (match rel with Some (_, tg) => target_ok w tg | None => true end) then w else
      match add, rem with
      | [], [] => w
      | _, _ =>
          match loc w e with
          | None => w
          | Some (src, row) =>
              match w_tables w !! src with
              | None => w
              | Some st =>
                  match w_nodes w !! t_node st with
                  | None => w
                  | Some sn =>
                      match exchange_mask (n_mask sn) add rem with
                      | None => w
                      | Some mask =>
                          match exchange_target w (n_mask sn) mask (t_target st) rem rel with
                          | None => w
                          | Some target => foc_world w src add rem target
                          end
                      end
                  end
              end
          end
      end
  | _ => w
  end.

(** [World.checkRelation] (after the repair of defect D8: the node must have a relation
    and it must be [rid]). *)
Definition check_relation (w : world) (tid : nat) (rid : nat) : bool :=
  match w_tables w !! tid with
  | Some t =>
      match w_nodes w !! t_node t with
      | Some nd => match n_rel nd with Some r => r =? rid | None => false end
      | None => false
      end
  | None => false
  end.

(** Write a component value: [World.copyTo] / [archetype.Set]. [None] = panic. *)
Definition set_comp (w : world) (e : Entity) (id : nat) (v : Z) : option world :=
  match chk_alive w e with
  | Some true =>
      match loc w e with
      | Some (tid, row) =>
          match w_tables w !! tid with
          | Some t =>
              match w_nodes w !! t_node t with
              | Some nd =>
                  match col_of nd id with
                  | Some c =>
                      if reg_is_zs w id then Some w
                      else Some (upd_table w tid (t <| t_rows := set_cell (t_rows t) row c v |>))
                  | None => None
                  end
              | None => None
              end
          | None => None
          end
      | None => None
      end
  | _ => None
  end.

Definition set_comps (w : world) (e : Entity) (cs : list (nat * Z)) : world :=
  foldl (fun w '(id, v) => default w (set_comp w e id v)) w cs.

(** Read a component: [World.Get].  Outer [None] = panic, inner [None] = nil. *)
Definition get_comp (w : world) (e : Entity) (id : nat) : option (option Z) :=
  match chk_alive w e with
  | Some true =>
      match loc w e with
      | Some (tid, row) =>
          match w_tables w !! tid with
          | Some t =>
              match w_nodes w !! t_node t with
              | Some nd =>
                  match col_of nd id with
                  | Some c => Some (Some (default 0%Z (get_cell (t_rows t) row c)))
                  | None => Some None
                  end
              | None => None
              end
          | None => None
          end
      | None => None
      end
  | _ => None
  end.

(** The node of an alive entity's table. *)
Definition ent_table (w : world) (e : Entity) : option (nat * nat * table * node) :=
  match chk_alive w e with
  | Some true =>
      match loc w e with
      | Some (tid, row) =>
          match w_tables w !! tid with
          | Some t => match w_nodes w !! t_node t with
                      | Some nd => Some (tid, row, t, nd)
                      | None => None
                      end
          | None => None
          end
      | None => None
      end
  | _ => None
  end.

(** ** getArchetypes / cache lookup *)
Definition tbl_active (w : world) (tid : nat) : bool :=
  match w_tables w !! tid with Some t => t_active t | None => false end.

(** [World.getArchetypes] for an uncached filter (after the repair of defect D6: a node
    without relation contributes its single table also under a RelationFilter). *)
Definition get_tables (w : world) (f : fexpr) : list nat :=
  flat_map (fun nd =>
              if n_active nd && fmatches f (n_mask nd) then
                if negb (node_has_rel nd) then n_tables nd
                else match ftarget f with
                     | Some t => match assoc_get t (n_tmap nd) with Some tid => [tid] | None => [] end
                     | None => filter (fun tid => tbl_active w tid = true) (n_tables nd)
                     end
              else []) (w_nodes w).

(** The tables an uncached query walks ([Query.nextNode]): as [get_tables], but a
    relation node contributes all of its tables (inactive ones are empty). *)
Definition walk_tables (w : world) (f : fexpr) : list nat :=
  flat_map (fun nd =>
              if n_active nd && fmatches f (n_mask nd) then
                if negb (node_has_rel nd) then n_tables nd
                else match ftarget f with
                     | Some t => match assoc_get t (n_tmap nd) with Some tid => [tid] | None => [] end
                     | None => n_tables nd
                     end
              else []) (w_nodes w).

Inductive farg := FPlain (f : fexpr) | FCached (id : nat).

Definition cache_get (w : world) (id : nat) : option centry :=
  list_find (fun e => c_id e = id) (w_cache w) ≫= fun p => Some (snd p).

(** Tables selected by a filter argument; [None] = "no filter for id found" panic. *)
Definition arg_tables (w : world) (a : farg) : option (list nat) :=
  match a with
  | FPlain f => Some (get_tables w f)
  | FCached id => option_map c_tables (cache_get w id)
  end.

(** [Cache.Register] / [Cache.Unregister]. *)
Definition cache_register (w : world) (f : fexpr) : world * nat :=
  let id := w_cnext w in
  (w <| w_cache := w_cache w ++ [mkCE id f (get_tables w f)] |> <| w_cnext := S id |>, id).

Definition cache_unregister (w : world) (id : nat) : option (world * fexpr) :=
  match find_index (fun e => c_id e =? id) (w_cache w) with
  | Some i =>
      match w_cache w !! i with
      | Some e => Some (w <| w_cache := swap_remove i (w_cache w) |>, c_filter e)
      | None => None
      end
  | None => None
  end.

(** ** Initial world and Reset *)
Definition world_init (capinc relcapinc tb : nat) : world :=
  let relinc := if relcapinc <? 1 then capinc else relcapinc in
  let w0 := mkWorld pool_init [None] [false] [] [] [] (locks_init tb) [] 0
                    (replicate tb None) [] None capinc relinc tb [] in
  let '(w1, nid) := find_or_create_node w0 0%N None in
  fst (create_table w1 nid ezero false).

(** [archNode.Reset] for every node, in order. *)
Definition reset_node (w : world) (nid : nat) : world :=
  match w_nodes w !! nid with
  | None => w
  | Some nd =>
      if negb (n_active nd) then w
      else if negb (node_has_rel nd) then
        foldl (fun w tid => match w_tables w !! tid with
                            | Some t => upd_table w tid (tbl_reset (zero_row nd) t)
                            | None => w end) w (n_tables nd)
      else
        foldl (fun w tid =>
                 match w_tables w !! tid with
                 | Some t =>
                     if negb (t_active t) then w
                     else if negb (ent_is_zero (t_target t)) then retire_table w tid
                     else upd_table w tid (tbl_reset (zero_row nd) t)
                 | None => w
                 end) w (n_tables nd)
  end.

(** [World.Reset] (the caller has checked the lock). *)
Definition world_reset (w : world) : world :=
  let w1 := w <| w_index := [None] |> <| w_tbits := [false] |>
              <| w_pool := pool_init |>
              <| w_locks := locks_init (w_tb w) |>
              <| w_res := replicate (w_tb w) None |> in
  foldl reset_node w1 (seq 0 (length (w_nodes w1))).

(** ** Registry *)
(** [World.componentID] with [registerComponent]: outer [None] = panic (limit or locked;
    the registry is rolled back, i.e. unchanged). *)
Definition extend_layouts (w : world) (count : nat) : world :=
  w <| w_tables := map (fun t =>
         match w_nodes w !! t_node t with
         | Some nd => if n_active nd && (t_layouts t <? count) then t <| t_layouts := count |> else t
         | None => t
         end) (w_tables w) |>.

Definition register_comp (w : world) (key : nat) (isrel zs : bool) : option (world * nat) :=
  match find_index (fun c => ci_key c =? key) (w_reg w) with
  | Some id => Some (w, id)
  | None =>
      let id := length (w_reg w) in
      if w_tb w <=? id then None
      else if is_locked w then None
      else
        let w1 := w <| w_reg := w_reg w ++ [mkCI key isrel zs] |> in
        Some (if (0 <? id) && (id mod 16 =? 0) then extend_layouts w1 (id + 16) else w1, id)
  end.

Definition register_res (w : world) (key : nat) : option (world * nat) :=
  match find_index (Nat.eqb key) (w_resreg w) with
  | Some id => Some (w, id)
  | None =>
      let id := length (w_resreg w) in
      if w_tb w <=? id then None
      else Some (w <| w_resreg := w_resreg w ++ [key] |>, id)
  end.
