(** * Entity pool, lock-bit pool (ecs/pool.go) and lock mask (ecs/util.go). *)
From Arche Require Import Model.Base.

(** ** entityPool: implicit free list threaded through the id field. *)
Record pool := mkPool {
  p_ents : list (nat * N);   (* (id field, generation) per slot *)
  p_next : nat;
  p_avail : nat;
}.
#[global] Instance eta_pool : Settable _ := settable! mkPool <p_ents; p_next; p_avail>.

Definition pool_init : pool := mkPool [(0, gen_max)] 0 0.

(** [entityPool.Get]. *)
Definition pool_get (p : pool) : pool * Entity :=
  if p_avail p =? 0 then
    let e := mkE (length (p_ents p)) 0 in
    (p <| p_ents := p_ents p ++ [(eid e, 0%N)] |>, e)
  else
    let curr := p_next p in
    match p_ents p !! curr with
    | Some (link, g) =>
        (mkPool (<[curr := (curr, g)]> (p_ents p)) link (p_avail p - 1), mkE curr g)
    | None => (p, ezero) (* unreachable under the pool invariant *)
    end.

(** [entityPool.Recycle] (the zero entity is refused by the caller's alive check). *)
Definition pool_recycle (p : pool) (e : Entity) : pool :=
  match p_ents p !! eid e with
  | Some (_, g) =>
      mkPool (<[eid e := (p_next p, ((g + 1) mod gen_mod)%N)]> (p_ents p)) (eid e) (p_avail p + 1)
  | None => p
  end.

(** [entityPool.Alive]; [None] is Go's index-out-of-range panic. *)
Definition pool_alive_opt (p : pool) (e : Entity) : option bool :=
  match p_ents p !! eid e with
  | Some (_, g) => Some (g =? egen e)%N
  | None => None
  end.
Definition pool_alive (p : pool) (e : Entity) : bool :=
  default false (pool_alive_opt p e).

Definition pool_len (p : pool) : nat := length (p_ents p) - 1 - p_avail p.
Definition pool_cap (p : pool) : nat := length (p_ents p) - 1.

(** ** bitPool + lockMask *)
Record lockstate := mkLocks {
  l_mask : N;
  l_bits : list nat;
  l_len : nat;
  l_next : nat;
  l_avail : nat;
}.
#[global] Instance eta_locks : Settable _ := settable! mkLocks <l_mask; l_bits; l_len; l_next; l_avail>.

Definition locks_init (tb : nat) : lockstate := mkLocks 0 (replicate tb 0) 0 0 0.

(** [lockMask.Lock]: [None] = "run out of the maximum of N bits" panic. *)
Definition locks_lock (tb : nat) (l : lockstate) : option (lockstate * nat) :=
  if l_avail l =? 0 then
    if tb <=? l_len l then None
    else
      let b := l_len l in
      Some (l <| l_bits := <[b := b]> (l_bits l) |> <| l_len := S b |> <| l_mask := setb (l_mask l) b true |>, b)
  else
    let curr := l_next l in
    match l_bits l !! curr with
    | Some link =>
        Some (mkLocks (setb (l_mask l) curr true) (<[curr := curr]> (l_bits l)) (l_len l) link (l_avail l - 1), curr)
    | None => None
    end.

(** [lockMask.Unlock]: [None] = "unbalanced unlock" panic. *)
Definition locks_unlock (l : lockstate) (b : nat) : option lockstate :=
  if bit (l_mask l) b then
    Some (mkLocks (setb (l_mask l) b false) (<[b := l_next l]> (l_bits l)) (l_len l) b (l_avail l + 1))
  else None.

Definition locks_locked (l : lockstate) : bool := negb (l_mask l =? 0)%N.
