package main

import (
	"fmt"
	"math/rand"
	"reflect"
	"unsafe"

	"github.com/mlange-42/arche/ecs"
	"github.com/mlange-42/arche/generic"
)

// singleSection: generic.Map[T] against World.Get/Has/Set and Relations/Batch calls.
func singleSection(h *H, rng *rand.Rand, n int) {
	t := rng.Intn(nTypes)
	if rng.Intn(2) == 0 {
		t = tRel + rng.Intn(2)
	}
	p := newPair(h, rng, []int{t})
	if p.stop() {
		return
	}
	h.ctx = "single type=" + typeTable[t].name
	wa, wb := p.wa, p.wb
	id := p.ids[t]
	var sa *singleAd
	rc := try(func() { sa = singleMakers[t](wa) })
	if !h.ok(!rc.panicked, "NewMap", "constructor panicked: %s", rc.msg) {
		return
	}
	ops := []string{"ID", "Get", "GetUnchecked", "Has", "HasUnchecked", "Set", "GetRelation", "GetRelationUnchecked",
		"SetRelation", "SetRelationBatch", "SetRelationBatchQ"}
	rng.Shuffle(len(ops), func(i, j int) { ops[i], ops[j] = ops[j], ops[i] })
	for i := 0; i < 5; i++ {
		ops = append(ops, ops[rng.Intn(11)])
	}
	for _, op := range ops {
		p.background(rng.Intn(2))
		if p.stop() {
			return
		}
		m := "Map." + op
		e := p.pickEntityArg()
		if rng.Intn(3) > 0 {
			if x, ok := p.pickWhere(func(r *rec) bool { return r.has[t] }); ok {
				e = x
			}
		}
		if rng.Intn(30) == 0 {
			e = ecs.Entity{}
		}
		mutating := false
		switch op {
		case "ID":
			var ia ecs.ID
			ra := try(func() { ia = sa.ID() })
			if h.ok(!ra.panicked, m, "panicked: %s", ra.msg) {
				h.ok(ia == id, m, "differs from ecs.TypeID")
			}
		case "Get", "GetUnchecked":
			var pa, pb, exp unsafe.Pointer
			ra := try(func() {
				if op == "Get" {
					pa = sa.Get(e)
				} else {
					pa = sa.GetUnchecked(e)
				}
			})
			rb := try(func() {
				if op == "Get" {
					pb, exp = wb.Get(e, id), wa.Get(e, id)
				} else {
					pb, exp = wb.GetUnchecked(e, id), wa.GetUnchecked(e, id)
				}
			})
			if h.samePanic(m, ra, rb) {
				h.ok(pa == exp, m, "pointer differs from World.%s", op)
				if h.ok((pa == nil) == (pb == nil), m, "generic nil=%v, id-based nil=%v", pa == nil, pb == nil) && pb != nil {
					h.ok(*(*int64)(pa) == *(*int64)(pb), m, "value %d, id-based %d", *(*int64)(pa), *(*int64)(pb))
				}
			}
		case "Has", "HasUnchecked":
			var ba, bb bool
			ra := try(func() {
				if op == "Has" {
					ba = sa.Has(e)
				} else {
					ba = sa.HasUnchecked(e)
				}
			})
			rb := try(func() {
				if op == "Has" {
					bb = wb.Has(e, id)
				} else {
					bb = wb.HasUnchecked(e, id)
				}
			})
			if h.samePanic(m, ra, rb) {
				h.ok(ba == bb, m, "generic %v, id-based %v", ba, bb)
			}
		case "Set":
			mutating = true
			v := randVals(rng, []int{t})[0]
			var pa unsafe.Pointer
			ra := try(func() { pa = sa.Set(e, v) })
			rb := try(func() { wb.Set(e, id, typeTable[t].mk(v)) })
			if h.samePanic(m, ra, rb) {
				h.ok(pa != nil && pa == wa.Get(e, id), m, "returned pointer differs from World.Get")
				h.ok(pa != nil && *(*int64)(pa) == v, m, "value not stored")
			}
		case "GetRelation", "GetRelationUnchecked":
			var ta, tb ecs.Entity
			ra := try(func() {
				if op == "GetRelation" {
					ta = sa.GetRelation(e)
				} else {
					ta = sa.GetRelationUnchecked(e)
				}
			})
			rb := try(func() {
				if op == "GetRelation" {
					tb = wb.Relations().Get(e, id)
				} else {
					tb = wb.Relations().GetUnchecked(e, id)
				}
			})
			if h.samePanic(m, ra, rb) {
				h.ok(ta == tb, m, "generic %s, id-based %s", entStr(ta), entStr(tb))
			}
		case "SetRelation":
			mutating = true
			tg := p.pickTarget()
			ra := try(func() { sa.SetRelation(e, tg) })
			rb := try(func() { wb.Relations().Set(e, id, tg) })
			h.samePanic(m, ra, rb)
		case "SetRelationBatch", "SetRelationBatchQ":
			mutating = true
			tg := p.pickTarget()
			incl := []int{t}
			var excl []int
			if rng.Intn(3) == 0 {
				excl = []int{tX0 + rng.Intn(3)}
			}
			if rng.Intn(10) == 0 {
				incl = nil
			}
			fa, fb, cleanup := p.mkFilter(rng.Intn(4), incl, excl, p.pickUsedTarget())
			if op == "SetRelationBatch" {
				var ca, cb int
				ra := try(func() { ca = sa.SetRelationBatch(fa, tg) })
				rb := try(func() { cb = wb.Batch().SetRelation(fb, id, tg) })
				if h.samePanic(m, ra, rb) {
					h.ok(ca == cb, m, "count differs: generic %d, id-based %d", ca, cb)
				}
			} else {
				var qa *qAd
				var qb ecs.Query
				ra := try(func() { qa = sa.SetRelationBatchQ(fa, tg) })
				rb := try(func() { qb = wb.Batch().SetRelationQ(fb, id, tg) })
				p.finishQueries(m, ra, rb, qa, &qb, []ecs.ID{id}, []int{t}, true, id)
			}
			cleanup()
		}
		if mutating {
			p.sync(m)
		}
		if p.stop() {
			return
		}
	}
}

// exchangeSection: generic.Exchange against World.Add/Remove/Exchange, Builder, Batch and Relations.
func exchangeSection(h *H, rng *rand.Rand) {
	// model
	var add, rem []int
	hasRel := false
	relT := 0

	nonRel := []int{0, 1, 2, 3, 4, 5, tX0, tX0 + 1, tX0 + 2}
	pickCfg := func() (a, r []int, rel int) {
		perm := rng.Perm(len(nonRel))
		na, nr := 1+rng.Intn(3), 1+rng.Intn(3)
		if rng.Intn(8) == 0 {
			na = 0
		}
		if rng.Intn(8) == 0 {
			nr = 0
		}
		for i := 0; i < na; i++ {
			a = append(a, nonRel[perm[i]])
		}
		for i := 0; i < nr; i++ {
			r = append(r, nonRel[perm[na+i]])
		}
		rel = -1
		switch x := rng.Intn(10); {
		case x < 3: // relation among the added components
			rel = tRel
			a = append(a, tRel)
		case x < 5: // relation expected on the entity already
			rel = tRel
		case x < 6: // relation removed
			rel = tRel
			r = append(r, tRel)
		case x < 7:
			rel = tRel2
		case x < 8:
			rel = tX0 // not a relation
		}
		if rng.Intn(15) == 0 && len(a) > 0 {
			r = append(r, a[0]) // add and remove the same component: panics on both sides
		}
		return
	}
	a0, r0, rel0 := pickCfg()
	focus := append([]int{}, r0...)
	if rel0 == tRel && !contains(a0, tRel) && !contains(focus, tRel) {
		focus = append(focus, tRel)
	}
	p := newPair(h, rng, focus)
	if p.stop() {
		return
	}
	wa, wb := p.wa, p.wb
	ex := generic.NewExchange(wa)

	configure := func(a, r []int, rel int) {
		calls := []string{"Adds", "Removes"}
		if rel >= 0 {
			calls = append(calls, "WithRelation")
		}
		if rng.Intn(4) == 0 {
			calls = append(calls, "Adds") // a second Adds call must keep the relation on the builder
		}
		rng.Shuffle(len(calls), func(i, j int) { calls[i], calls[j] = calls[j], calls[i] })
		for _, c := range calls {
			var rc res
			switch c {
			case "Adds":
				if len(a) == 0 && rng.Intn(2) == 0 && len(add) == 0 {
					continue
				}
				rc = try(func() {
					if ex.Adds(compsOf(a)...) != ex {
						panic("harness: Adds did not return its receiver")
					}
				})
				add = a
			case "Removes":
				if len(r) == 0 && rng.Intn(2) == 0 && len(rem) == 0 {
					continue
				}
				rc = try(func() {
					if ex.Removes(compsOf(r)...) != ex {
						panic("harness: Removes did not return its receiver")
					}
				})
				rem = r
			case "WithRelation":
				rc = try(func() {
					if ex.WithRelation(tSingle[rel]()) != ex {
						panic("harness: WithRelation did not return its receiver")
					}
				})
				hasRel, relT = true, rel
			}
			h.ok(!rc.panicked, "Exchange."+c, "panicked: %s", rc.msg)
		}
	}
	configure(a0, r0, rel0)

	ops := []string{"NewEntity", "Add", "Remove", "Exchange", "ExchangeBatch"}
	for round := 0; round < 2; round++ {
		h.ctx = fmt.Sprintf("exchange adds=[%s] removes=[%s] rel=%v/%s", namesOf(add), namesOf(rem), hasRel, typeTable[relT].name)
		seq := append([]string{}, ops...)
		rng.Shuffle(len(seq), func(i, j int) { seq[i], seq[j] = seq[j], seq[i] })
		for i := 0; i < 3; i++ {
			seq = append(seq, ops[rng.Intn(len(ops))])
		}
		for _, op := range seq {
			p.background(rng.Intn(3))
			if p.stop() {
				return
			}
			m := "Exchange." + op
			useful := hasRel
			if op == "NewEntity" {
				useful = hasRel && contains(add, relT)
			} else if op == "Remove" {
				useful = hasRel && !contains(rem, relT)
			}
			tg := p.optTarget(hasRel, useful)
			h.tag = ""
			if len(tg) > 0 {
				h.tag = "+target"
			}
		h.tag = ""
		if len(tg) > 0 {
			h.tag = "+target"
		}
			rid := p.ids[relT]
			addIDs := func() []ecs.ID { return p.idsOf(add) }
			remIDs := func() []ecs.ID { return p.idsOf(rem) }
			needRel := func() {
				if len(tg) > 0 && !hasRel {
					panic(modelPanic("can't set target entity: Exchange has no relation"))
				}
			}
			relOK := func(r *rec) bool {
				if contains(add, tRel) && (r.has[tRel2] || (r.has[tRel] && !contains(rem, tRel))) {
					return false
				}
				if len(tg) > 0 && hasRel && !contains(add, relT) {
					return r.has[relT] && !contains(rem, relT)
				}
				return true
			}
			e := p.pickEntityArg()
			var pred func(r *rec) bool
			switch op {
			case "Add":
				pred = func(r *rec) bool { return hasNone(r, add) && relOK(r) }
			case "Remove":
				pred = func(r *rec) bool { return hasAll(r, rem) && relOK(r) }
			case "Exchange":
				pred = func(r *rec) bool { return hasNone(r, add) && hasAll(r, rem) && relOK(r) }
			}
			if pred != nil && rng.Intn(5) > 0 {
				var comp []int
				if op != "Add" {
					comp = append(comp, rem...)
				}
				if len(tg) > 0 && hasRel && typeTable[relT].isRel && !contains(add, relT) && !contains(comp, relT) && !contains(comp, tRel) && !contains(comp, tRel2) {
					comp = append(comp, relT)
				}
				if len(comp) == 0 {
					for _, t := range []int{6, 7, 8} {
						if !contains(add, t) {
							comp = append(comp, t)
						}
					}
				}
				e = p.pickOrCreate(pred, comp)
			}
			switch op {
			case "NewEntity":
				var ea, eb ecs.Entity
				ra := try(func() { ea = ex.NewEntity(tg...) })
				rb := try(func() {
					needRel()
					if len(tg) == 0 {
						eb = wb.NewEntity(addIDs()...)
					} else {
						eb = ecs.NewBuilder(wb, addIDs()...).WithRelation(rid).New(tg[0])
					}
				})
				if h.samePanic(m, ra, rb) {
					h.ok(ea == eb, m, "entity differs: generic %s, id-based %s", entStr(ea), entStr(eb))
				}
			case "Add":
				ra := try(func() { ex.Add(e, tg...) })
				rb := try(func() {
					needRel()
					if len(tg) == 0 {
						wb.Add(e, addIDs()...)
					} else {
						wb.Relations().Exchange(e, addIDs(), nil, rid, tg[0])
					}
				})
				h.samePanic(m, ra, rb)
			case "Remove":
				ra := try(func() { ex.Remove(e, tg...) })
				rb := try(func() {
					needRel()
					if len(tg) == 0 {
						wb.Remove(e, remIDs()...)
					} else {
						wb.Relations().Exchange(e, nil, remIDs(), rid, tg[0])
					}
				})
				h.samePanic(m, ra, rb)
			case "Exchange":
				ra := try(func() { ex.Exchange(e, tg...) })
				rb := try(func() {
					needRel()
					if len(tg) == 0 {
						wb.Exchange(e, addIDs(), remIDs())
					} else {
						wb.Relations().Exchange(e, addIDs(), remIDs(), rid, tg[0])
					}
				})
				h.samePanic(m, ra, rb)
			case "ExchangeBatch":
				incl := append([]int{}, rem...)
				excl := append([]int{}, add...)
				if contains(add, tRel) {
					excl = append(excl, tRel2)
					if !contains(rem, tRel) {
						excl = append(excl, tRel)
					}
				}
				if len(tg) > 0 && hasRel && !contains(add, relT) && !contains(incl, relT) {
					incl = append(incl, relT)
				}
				if rng.Intn(12) == 0 {
					incl, excl = nil, nil
				}
				fa, fb, cleanup := p.mkFilter(rng.Intn(4), incl, excl, p.pickUsedTarget())
				var ca, cb int
				ra := try(func() { ca = ex.ExchangeBatch(fa, tg...) })
				rb := try(func() {
					needRel()
					if len(tg) == 0 {
						cb = wb.Batch().Exchange(fb, addIDs(), remIDs())
					} else {
						cb = wb.Relations().ExchangeBatch(fb, addIDs(), remIDs(), rid, tg[0])
					}
				})
				if h.samePanic(m, ra, rb) {
					h.ok(ca == cb, m, "count differs: generic %d, id-based %d", ca, cb)
				}
				cleanup()
			}
			p.sync(m)
			if p.stop() {
				return
			}
		}
		// reconfigure the same Exchange object
		a, r, rel := pickCfg()
		if rel < 0 && hasRel {
			rel = relT // a relation cannot be unset
		}
		p.focus = append([]int{}, r...)
		if rel == tRel && !contains(a, tRel) && !contains(p.focus, tRel) {
			p.focus = append(p.focus, tRel)
		}
		configure(a, r, rel)
	}
}

// ifacePtr extracts the pointer stored in an interface value.
func ifacePtr(x interface{}) unsafe.Pointer {
	if x == nil {
		return nil
	}
	return reflect.ValueOf(x).UnsafePointer()
}

// resourceSection: generic.Resource[T] against World.Resources().
func resourceSection(h *H, rng *rand.Rand) {
	wa, wb := newWorlds(rng)
	k := 2 + rng.Intn(3)
	ts := rng.Perm(nTypes)[:k]
	ads := make([]*resAd, k)
	idb := make([]ecs.ResID, k)
	last := make([]unsafe.Pointer, k) // pointer handed to generic Add
	lastB := make([]unsafe.Pointer, k)
	for i, t := range ts {
		rc := try(func() { ads[i] = resourceMakers[t](wa) })
		if !h.ok(!rc.panicked, "NewResource", "constructor panicked: %s", rc.msg) {
			return
		}
		idb[i] = ecs.ResourceTypeID(wb, typeTable[t].rt)
	}
	for step := 0; step < 14; step++ {
		i := rng.Intn(k)
		t := ts[i]
		h.ctx = "resource type=" + typeTable[t].name
		ops := []string{"ID", "Add", "Remove", "Get", "Has", "Get"}
		op := ops[rng.Intn(len(ops))]
		m := "Resource." + op
		switch op {
		case "ID":
			var ia ecs.ResID
			ra := try(func() { ia = ads[i].ID() })
			if h.ok(!ra.panicked, m, "panicked: %s", ra.msg) {
				h.ok(ia == idb[i], m, "differs from ecs.ResourceTypeID with the same registration order")
			}
		case "Add":
			v := randVals(rng, []int{t})[0]
			var pa unsafe.Pointer
			ra := try(func() { pa = ads[i].Add(v) })
			var pb interface{}
			rb := try(func() {
				pb = typeTable[t].mk(v)
				wb.Resources().Add(idb[i], pb)
			})
			if h.samePanic(m, ra, rb) {
				last[i], lastB[i] = pa, ifacePtr(pb)
			}
		case "Remove":
			ra := try(func() { ads[i].Remove() })
			rb := try(func() { wb.Resources().Remove(idb[i]) })
			if h.samePanic(m, ra, rb) {
				last[i], lastB[i] = nil, nil
			}
		case "Get":
			var pa, pb unsafe.Pointer
			ra := try(func() { pa = ads[i].Get() })
			rb := try(func() { pb = ifacePtr(wb.Resources().Get(idb[i])) })
			if h.samePanic(m, ra, rb) {
				h.ok(pa == last[i], m, "generic Get returned %v, want the pointer that was added (%v; nil if absent)", pa, last[i])
				h.ok(pb == lastB[i], m, "Resources.Get returned a different pointer than was added")
				h.ok(pa == ifacePtr(wa.Resources().Get(idb[i])), m, "generic Get differs from Resources().Get on the same world")
				if pa != nil && pb != nil {
					h.ok(*(*int64)(pa) == *(*int64)(pb), m, "value differs")
				}
			}
		case "Has":
			var ba, bb bool
			ra := try(func() { ba = ads[i].Has() })
			rb := try(func() { bb = wb.Resources().Has(idb[i]) })
			if h.samePanic(m, ra, rb) {
				h.ok(ba == bb, m, "generic %v, id-based %v", ba, bb)
			}
		}
		if h.broken {
			return
		}
	}
}

// registryOf lists the registered component types in ID order.
func registryOf(w *ecs.World) string {
	s := ""
	for _, id := range ecs.ComponentIDs(w) {
		info, _ := ecs.ComponentInfo(w, id)
		s += fmt.Sprintf("%s(rel=%v) ", info.Type.Name(), info.IsRelation)
	}
	return s
}

// registrationSection: constructors register component types lazily in the order of the type
// parameters (then the relation); generic.T/T1..T12 return the reflect types in order.
func registrationSection(h *H, rng *rand.Rand, n int) {
	// generic.TN
	var tl []generic.Comp
	rc := try(func() { tl = tList(n) })
	if h.ok(!rc.panicked && len(tl) == n, fmt.Sprintf("T%d", n), "returned %d types (panic=%v)", len(tl), rc.panicked) {
		for k := 0; k < n; k++ {
			h.ok(tl[k] == generic.Comp(typeTable[k].rt), fmt.Sprintf("T%d", n), "position %d is %v, want %s", k, tl[k], typeTable[k].name)
		}
	}
	for t := 0; t < nTypes; t++ {
		h.ok(tSingle[t]() == generic.Comp(typeTable[t].rt), "T", "generic.T[%s]() is not reflect.TypeOf(%s{})", typeTable[t].name, typeTable[t].name)
	}
	if n == 0 {
		return
	}
	variant := rng.Intn(2)
	params := paramTypes(n, variant)
	wa, wb := newWorlds(rng)
	rel := []int{-1, tRel2, tRel, tX0}[rng.Intn(4)]
	m := fmt.Sprintf("NewMap%d", n)
	ra := try(func() {
		if rel >= 0 {
			makeMapAd(n, variant, wa, tSingle[rel]())
		} else {
			makeMapAd(n, variant, wa)
		}
	})
	for _, t := range params {
		ecs.TypeID(wb, typeTable[t].rt)
	}
	if rel >= 0 {
		ecs.TypeID(wb, typeTable[rel].rt)
	}
	if h.ok(!ra.panicked, m, "constructor panicked: %s", ra.msg) {
		ga, gb := registryOf(wa), registryOf(wb)
		h.ok(ga == gb, m, "component registration differs: generic [%s], id-based [%s]", ga, gb)
	}
	// Map[T] and filters on fresh worlds
	wa, wb = newWorlds(rng)
	t := rng.Intn(nTypes)
	ra = try(func() { singleMakers[t](wa) })
	ecs.TypeID(wb, typeTable[t].rt)
	if h.ok(!ra.panicked, "NewMap", "constructor panicked: %s", ra.msg) {
		ga, gb := registryOf(wa), registryOf(wb)
		h.ok(ga == gb, "NewMap", "component registration differs: generic [%s], id-based [%s]", ga, gb)
	}
}
