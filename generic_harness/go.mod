module genericharness

go 1.21

require github.com/mlange-42/arche v0.0.0

replace github.com/mlange-42/arche => /repo
