#!/usr/bin/env python3
"""Generates arity_generated.go: component types and, for every arity 0..12, thin
adapters (structs of closures) around generic.MapN / FilterN / QueryN so that the
hand-written differential checks in main.go can drive every arity uniformly.

Usage: python3 gen.py   (writes arity_generated.go next to this file)
"""
import os

MAXN = 12
NC = 12
OUT = os.path.join(os.path.dirname(os.path.abspath(__file__)), "arity_generated.go")

# type table order: C0..C11, Rel, Rel2, X0..X2
TYPES = ["C%d" % i for i in range(NC)] + ["Rel", "Rel2", "X0", "X1", "X2"]
RELS = {"Rel", "Rel2"}
T_REL = TYPES.index("Rel")


def tparams(n):
    return ", ".join("A%d" % i for i in range(n))


def tdecl(n):
    return ", ".join("A%d any" % i for i in range(n))


def inst(n):
    return "[" + tparams(n) + "]" if n > 0 else ""


def decl(n):
    return "[" + tdecl(n) + "]" if n > 0 else ""


def rel_pos(n):
    return n // 2


def param_types(n, variant):
    """type-table indices of the type parameters, by position"""
    r = list(range(n))
    if variant == 1:
        r[rel_pos(n)] = T_REL
    return r


def ptr_list(n, call):
    """code returning []unsafe.Pointer from a multi-value Get call"""
    if n == 0:
        return "\t\treturn nil\n"
    vs = ", ".join("p%d" % i for i in range(n))
    ups = ", ".join("unsafe.Pointer(p%d)" % i for i in range(n))
    return "\t\t%s := %s\n\t\treturn []unsafe.Pointer{%s}\n" % (vs, call, ups)


def gen_wrapq(n, w):
    w("// wrapQ%d adapts a generic.Query%d.\n" % (n, n))
    w("func wrapQ%d%s(q *generic.Query%d%s) *qAd {\n" % (n, decl(n), n, inst(n)))
    w("\tad := &qAd{Q: &q.Query}\n")
    w("\tad.Get = func() []unsafe.Pointer {\n")
    w(ptr_list(n, "q.Get()"))
    w("\t}\n")
    w("\tad.Relation = func() ecs.Entity { return q.Relation() }\n")
    w("\treturn ad\n}\n\n")


def gen_map(n, w):
    T = inst(n)
    w("// newMapAd%d adapts a generic.Map%d.\n" % (n, n))
    w("func newMapAd%d%s(w *ecs.World, rel ...generic.Comp) *mapAd {\n" % (n, decl(n)))
    w("\tad := &mapAd{n: %d}\n" % n)
    w("\tm := generic.NewMap%d%s(w, rel...)\n" % (n, T))
    w("\tad.ids = []ecs.ID{%s}\n" % ", ".join("ecs.ComponentID[A%d](w)" % i for i in range(n)))
    w("\tad.New = func(t ...ecs.Entity) ecs.Entity { return m.New(t...) }\n")
    args = ", ".join("mk[A%d](v[%d])" % (i, i) for i in range(n))
    w("\tad.NewWith = func(v []int64, t ...ecs.Entity) ecs.Entity { return m.NewWith(%s, t...) }\n" % args)
    w("\tad.NewBatch = func(c int, t ...ecs.Entity) { m.NewBatch(c, t...) }\n")
    w("\tad.NewBatchQ = func(c int, t ...ecs.Entity) *qAd { q := m.NewBatchQ(c, t...); return wrapQ%d(&q) }\n" % n)
    w("\tad.Get = func(e ecs.Entity) []unsafe.Pointer {\n")
    w(ptr_list(n, "m.Get(e)"))
    w("\t}\n")
    w("\tad.GetUnchecked = func(e ecs.Entity) []unsafe.Pointer {\n")
    w(ptr_list(n, "m.GetUnchecked(e)"))
    w("\t}\n")
    w("\tad.Add = func(e ecs.Entity, t ...ecs.Entity) { m.Add(e, t...) }\n")
    w("\tad.Assign = func(e ecs.Entity, v []int64) { m.Assign(e, %s) }\n" % args)
    w("\tad.Remove = func(e ecs.Entity, t ...ecs.Entity) { m.Remove(e, t...) }\n")
    w("\tad.RemoveEntities = func(x bool) int { return m.RemoveEntities(x) }\n")
    w("\tad.AddBatch = func(f ecs.Filter, t ...ecs.Entity) int { return m.AddBatch(f, t...) }\n")
    w("\tad.AddBatchQ = func(f ecs.Filter, t ...ecs.Entity) *qAd { q := m.AddBatchQ(f, t...); return wrapQ%d(&q) }\n" % n)
    w("\tad.RemoveBatch = func(f ecs.Filter, t ...ecs.Entity) int { return m.RemoveBatch(f, t...) }\n")
    w("\tad.RemoveBatchQ = func(f ecs.Filter, t ...ecs.Entity) *qAd { q := m.RemoveBatchQ(f, t...); return wrapQ0(&q) }\n")
    w("\treturn ad\n}\n\n")


def gen_filter(n, w):
    T = inst(n)
    w("// newFiltAd%d adapts a generic.Filter%d.\n" % (n, n))
    w("func newFiltAd%d%s(w *ecs.World) *filtAd {\n" % (n, decl(n)))
    w("\tad := &filtAd{n: %d}\n" % n)
    w("\tad.ids = []ecs.ID{%s}\n" % ", ".join("ecs.ComponentID[A%d](w)" % i for i in range(n)))
    w("\tf := generic.NewFilter%d%s()\n" % (n, T))
    for meth in ["With", "Without"] + (["Optional"] if n > 0 else []):
        w("\tad.%s = func(c ...generic.Comp) {\n" % meth)
        w("\t\tif f.%s(c...) != f {\n\t\t\tpanic(\"harness: %s did not return its receiver\")\n\t\t}\n\t}\n" % (meth, meth))
    w("\tad.Exclusive = func() {\n")
    w("\t\tif f.Exclusive() != f {\n\t\t\tpanic(\"harness: Exclusive did not return its receiver\")\n\t\t}\n\t}\n")
    w("\tad.WithRelation = func(c generic.Comp, t ...ecs.Entity) {\n")
    w("\t\tif f.WithRelation(c, t...) != f {\n\t\t\tpanic(\"harness: WithRelation did not return its receiver\")\n\t\t}\n\t}\n")
    w("\tad.Filter = func(w *ecs.World, t ...ecs.Entity) ecs.Filter { return f.Filter(w, t...) }\n")
    w("\tad.Query = func(w *ecs.World, t ...ecs.Entity) *qAd { q := f.Query(w, t...); return wrapQ%d(&q) }\n" % n)
    w("\tad.Register = func(w *ecs.World) { f.Register(w) }\n")
    w("\tad.Unregister = func(w *ecs.World) { f.Unregister(w) }\n")
    w("\treturn ad\n}\n\n")


def main():
    parts = []
    w = parts.append
    w("// Code generated by gen.py; DO NOT EDIT.\n\n")
    w("package main\n\n")
    w("import (\n\t\"reflect\"\n\t\"unsafe\"\n\n\t\"github.com/mlange-42/arche/ecs\"\n\t\"github.com/mlange-42/arche/generic\"\n)\n\n")

    w("// Component types. Every type has a single sized field V at offset 0 (checked at start-up).\n")
    for t in TYPES:
        if t in RELS:
            w("type %s struct {\n\tecs.Relation\n\tV int64\n}\n" % t)
        else:
            w("type %s struct{ V int64 }\n" % t)
    w("\nconst (\n\tmaxArity = %d\n\tnTypes   = %d\n\ttRel     = %d\n\ttRel2    = %d\n\ttX0      = %d\n)\n\n"
      % (MAXN, len(TYPES), TYPES.index("Rel"), TYPES.index("Rel2"), TYPES.index("X0")))

    w("var typeTable = [nTypes]typeInfo{\n")
    for t in TYPES:
        w("\t{name: %-7s rt: reflect.TypeOf(%s{}), isRel: %-6s mk: func(v int64) interface{} { return &%s{V: v} }},\n"
          % ('"%s",' % t, t, ("true," if t in RELS else "false,"), t))
    w("}\n\n")

    w("// singleMakers: generic.Map[T] adapters by type-table index.\n")
    w("var singleMakers = [nTypes]func(w *ecs.World) *singleAd{\n")
    for t in TYPES:
        w("\tnewSingleAd[%s],\n" % t)
    w("}\n\n")
    w("// resourceMakers: generic.Resource[T] adapters by type-table index.\n")
    w("var resourceMakers = [nTypes]func(w *ecs.World) *resAd{\n")
    for t in TYPES:
        w("\tnewResAd[%s],\n" % t)
    w("}\n\n")

    for n in range(0, MAXN + 1):
        gen_wrapq(n, w)
    for n in range(1, MAXN + 1):
        gen_map(n, w)
    for n in range(0, MAXN + 1):
        gen_filter(n, w)

    # generic.T / generic.T1..T12 lists
    w("// tList returns generic.TN[C0..C(n-1)]() (generic.T for a single type is used for n == 1 as well).\n")
    w("func tList(n int) []generic.Comp {\n\tswitch n {\n")
    w("\tcase 0:\n\t\treturn []generic.Comp{}\n")
    for n in range(1, MAXN + 1):
        names = ", ".join(TYPES[i] for i in range(n))
        w("\tcase %d:\n\t\treturn generic.T%d[%s]()\n" % (n, n, names))
    w("\t}\n\tpanic(\"harness: bad arity\")\n}\n\n")
    w("// tSingle returns generic.T[X]() by type-table index.\n")
    w("var tSingle = [nTypes]func() generic.Comp{\n")
    for t in TYPES:
        w("\tgeneric.T[%s],\n" % t)
    w("}\n\n")

    # dispatch
    w("// paramTypes returns the type-table indices of the type parameters used for\n")
    w("// (arity, variant): variant 0 = C0..C(n-1); variant 1 = same with Rel at position n/2.\n")
    w("func paramTypes(n, variant int) []int {\n\tswitch n*2 + variant {\n")
    for n in range(0, MAXN + 1):
        for v in (0, 1):
            if n == 0 and v == 1:
                continue
            w("\tcase %d:\n\t\treturn []int{%s}\n" % (n * 2 + v, ", ".join(str(i) for i in param_types(n, v))))
    w("\t}\n\tpanic(\"harness: bad arity/variant\")\n}\n\n")

    w("func makeMapAd(n, variant int, w *ecs.World, rel ...generic.Comp) *mapAd {\n\tswitch n*2 + variant {\n")
    for n in range(1, MAXN + 1):
        for v in (0, 1):
            names = ", ".join(TYPES[i] for i in param_types(n, v))
            w("\tcase %d:\n\t\treturn newMapAd%d[%s](w, rel...)\n" % (n * 2 + v, n, names))
    w("\t}\n\tpanic(\"harness: bad arity/variant\")\n}\n\n")

    w("func makeFiltAd(n, variant int, w *ecs.World) *filtAd {\n\tswitch n*2 + variant {\n")
    for n in range(0, MAXN + 1):
        for v in (0, 1):
            if n == 0:
                if v == 0:
                    w("\tcase 0:\n\t\treturn newFiltAd0(w)\n")
                continue
            names = ", ".join(TYPES[i] for i in param_types(n, v))
            w("\tcase %d:\n\t\treturn newFiltAd%d[%s](w)\n" % (n * 2 + v, n, names))
    w("\t}\n\tpanic(\"harness: bad arity/variant\")\n}\n")

    with open(OUT, "w") as f:
        f.write("".join(parts))
    try:  # cosmetic only
        import subprocess
        subprocess.run(["gofmt", "-w", OUT], check=False)
    except OSError:
        pass


if __name__ == "__main__":
    main()
