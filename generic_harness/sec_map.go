package main

import (
	"fmt"
	"math/rand"
	"unsafe"

	"github.com/mlange-42/arche/ecs"
	"github.com/mlange-42/arche/generic"
)

// randVals returns distinct non-zero values whose last two digits name the type (position check).
func randVals(rng *rand.Rand, ts []int) []int64 {
	v := make([]int64, len(ts))
	for k, t := range ts {
		v[k] = int64(rng.Intn(9000)+1000)*1000000 + int64(k)*100 + int64(t)
	}
	return v
}

func compsFor(p *pair, ts []int, vals []int64) []ecs.Component {
	c := make([]ecs.Component, len(ts))
	for k, t := range ts {
		c[k] = ecs.Component{ID: p.ids[t], Comp: typeTable[t].mk(vals[k])}
	}
	return c
}

// mapSection: generic.MapN against World/Builder/Batch/Relations calls.
func mapSection(h *H, rng *rand.Rand, n, variant int) {
	params := paramTypes(n, variant)
	p := newPair(h, rng, params)
	if p.stop() {
		return
	}
	wa, wb := p.wa, p.wb

	// relation argument of NewMapN
	relArg := -1
	r := rng.Intn(10)
	if variant == 1 {
		switch r = rng.Intn(20); {
		case r < 16:
			relArg = tRel
		case r < 17:
		case r < 19:
			relArg = tRel2
		default:
			relArg = tX0
		}
	} else {
		switch r = rng.Intn(20); {
		case r < 8:
		case r < 17:
			relArg = tRel
		case r < 18:
			relArg = tRel2
		default:
			relArg = tX0
		}
	}
	hasRel := relArg >= 0
	var rid ecs.ID
	var relc []generic.Comp
	relName := "none"
	if hasRel {
		rid = p.ids[relArg]
		relc = []generic.Comp{tSingle[relArg]()}
		relName = typeTable[relArg].name
	}
	h.ctx = fmt.Sprintf("%s rel=%s", h.ctx, relName)

	var ma *mapAd
	rc := try(func() { ma = makeMapAd(n, variant, wa, relc...) })
	if !h.ok(!rc.panicked, fmt.Sprintf("NewMap%d", n), "constructor panicked: %s", rc.msg) {
		return
	}
	for k := range params {
		h.ok(ma.ids[k] == p.ids[params[k]], fmt.Sprintf("NewMap%d", n), "ComponentID of type parameter %d differs from TypeID", k)
	}
	ids := func() []ecs.ID { return p.idsOf(params) }
	paramHasRel := contains(params, tRel)
	// other relation type that would conflict when the params are added
	noConflict := func(r *rec) bool { return !paramHasRel || !r.has[tRel2] }

	ops := []string{"New", "NewWith", "NewBatch", "NewBatchQ", "Get", "GetUnchecked", "Add", "Assign",
		"Remove", "RemoveEntities", "AddBatch", "AddBatchQ", "RemoveBatch", "RemoveBatchQ"}
	rng.Shuffle(len(ops), func(i, j int) { ops[i], ops[j] = ops[j], ops[i] })
	for i := 0; i < 10; i++ {
		ops = append(ops, ops[rng.Intn(14)])
	}

	for _, op := range ops {
		p.background(rng.Intn(3))
		if p.stop() {
			return
		}
		m := fmt.Sprintf("Map%d.%s", n, op)
		relInParams := hasRel && contains(params, relArg)
		useful := relInParams
		if op[0] == 'R' {
			useful = hasRel && !relInParams
		} else if op[0] == 'A' && op != "Assign" {
			useful = hasRel // adding the relation itself, or adding to entities that have it
		}
		tg := p.optTarget(hasRel, useful)
		h.tag = ""
		if len(tg) > 0 {
			h.tag = "+target"
		}
		needRel := func() {
			if len(tg) > 0 && !hasRel {
				switch op {
				case "New", "NewBatch", "NewBatchQ":
					panic(modelPanic("map has no relation defined, can't set a target"))
				case "NewWith":
					panic(modelPanic("map has no relation defined"))
				}
				panic(modelPanic(fmt.Sprintf("can't set target entity: Map%d has no relation", n)))
			}
		}
		switch op {
		case "New":
			var ea, eb ecs.Entity
			ra := try(func() { ea = ma.New(tg...) })
			rb := try(func() {
				needRel()
				if len(tg) == 0 {
					eb = wb.NewEntity(ids()...)
				} else {
					eb = ecs.NewBuilder(wb, ids()...).WithRelation(rid).New(tg[0])
				}
			})
			if h.samePanic(m, ra, rb) {
				h.ok(ea == eb, m, "entity differs: generic %s, id-based %s", entStr(ea), entStr(eb))
			}
		case "NewWith":
			vals := randVals(rng, params)
			var ea, eb ecs.Entity
			ra := try(func() { ea = ma.NewWith(vals, tg...) })
			rb := try(func() {
				needRel()
				if len(tg) == 0 {
					eb = wb.NewEntityWith(compsFor(p, params, vals)...)
				} else {
					eb = ecs.NewBuilderWith(wb, compsFor(p, params, vals)...).WithRelation(rid).New(tg[0])
				}
			})
			if h.samePanic(m, ra, rb) && h.ok(ea == eb, m, "entity differs: generic %s, id-based %s", entStr(ea), entStr(eb)) {
				for k := range params {
					ptr := wa.Get(ea, p.ids[params[k]])
					h.ok(ptr != nil && *(*int64)(ptr) == vals[k], m, "value of argument %d not stored in component %s", k, typeTable[params[k]].name)
				}
			}
		case "NewBatch":
			c := 1 + rng.Intn(4)
			if rng.Intn(20) == 0 {
				c = 0
			}
			ra := try(func() { ma.NewBatch(c, tg...) })
			rb := try(func() {
				needRel()
				if len(tg) == 0 {
					ecs.NewBuilder(wb, ids()...).NewBatch(c)
				} else {
					ecs.NewBuilder(wb, ids()...).WithRelation(rid).NewBatch(c, tg[0])
				}
			})
			h.samePanic(m, ra, rb)
		case "NewBatchQ":
			c := 1 + rng.Intn(4)
			if rng.Intn(20) == 0 {
				c = 0
			}
			var qa *qAd
			var qb ecs.Query
			ra := try(func() { qa = ma.NewBatchQ(c, tg...) })
			rb := try(func() {
				needRel()
				if len(tg) == 0 {
					qb = ecs.NewBuilder(wb, ids()...).NewBatchQ(c)
				} else {
					qb = ecs.NewBuilder(wb, ids()...).WithRelation(rid).NewBatchQ(c, tg[0])
				}
			})
			p.finishQueries(m, ra, rb, qa, &qb, ma.ids, params, hasRel, rid)
		case "Get", "GetUnchecked":
			e := p.pickEntityArg()
			if rng.Intn(3) > 0 {
				if x, ok := p.pickWhere(func(r *rec) bool { return hasAll(r, params) }); ok {
					e = x
				}
			}
			if rng.Intn(25) == 0 {
				e = ecs.Entity{}
			}
			var pa, pb, exp []unsafe.Pointer
			ra := try(func() {
				if op == "Get" {
					pa = ma.Get(e)
				} else {
					pa = ma.GetUnchecked(e)
				}
			})
			rb := try(func() {
				for k := range params {
					if op == "Get" {
						pb = append(pb, wb.Get(e, p.ids[params[k]]))
						exp = append(exp, wa.Get(e, ma.ids[k]))
					} else {
						pb = append(pb, wb.GetUnchecked(e, p.ids[params[k]]))
						exp = append(exp, wa.GetUnchecked(e, ma.ids[k]))
					}
				}
			})
			if h.samePanic(m, ra, rb) && h.ok(len(pa) == len(params), m, "returned %d values", len(pa)) {
				for k := range params {
					nm := typeTable[params[k]].name
					h.ok(pa[k] == exp[k], m, "position %d (%s): pointer differs from World.Get(entity, id of type parameter %d)", k, nm, k)
					if h.ok((pa[k] == nil) == (pb[k] == nil), m, "position %d (%s): generic nil=%v, id-based nil=%v", k, nm, pa[k] == nil, pb[k] == nil) && pb[k] != nil {
						va, vb := *(*int64)(pa[k]), *(*int64)(pb[k])
						h.ok(va == vb, m, "position %d (%s): value %d, id-based %d", k, nm, va, vb)
						h.ok(va%100 == int64(params[k]), m, "position %d: value %d does not belong to type %s", k, va, nm)
					}
				}
			}
			continue // read-only: no sync needed
		case "Add", "Assign":
			e := p.pickEntityArg()
			if rng.Intn(5) > 0 {
				needHave := len(tg) > 0 && hasRel && !relInParams && typeTable[relArg].isRel && !(paramHasRel)
				comp := []int{tX0 + rng.Intn(3)}
				if needHave {
					comp = append(comp, relArg)
				}
				e = p.pickOrCreate(func(r *rec) bool {
					return hasNone(r, params) && noConflict(r) && (!needHave || r.has[relArg])
				}, comp)
			}
			if op == "Add" {
				ra := try(func() { ma.Add(e, tg...) })
				rb := try(func() {
					needRel()
					if len(tg) == 0 {
						wb.Add(e, ids()...)
					} else {
						wb.Relations().Exchange(e, ids(), nil, rid, tg[0])
					}
				})
				h.samePanic(m, ra, rb)
			} else {
				vals := randVals(rng, params)
				ra := try(func() { ma.Assign(e, vals) })
				rb := try(func() { wb.Assign(e, compsFor(p, params, vals)...) })
				if h.samePanic(m, ra, rb) {
					for k := range params {
						ptr := wa.Get(e, p.ids[params[k]])
						h.ok(ptr != nil && *(*int64)(ptr) == vals[k], m, "value of argument %d not stored in component %s", k, typeTable[params[k]].name)
					}
				}
			}
		case "Remove":
			e := p.pickEntityArg()
			if rng.Intn(5) > 0 {
				comp := append([]int{}, params...)
				if len(tg) > 0 && hasRel && !relInParams && typeTable[relArg].isRel && !paramHasRel {
					comp = append(comp, relArg)
				}
				e = p.pickOrCreate(func(r *rec) bool {
					return hasAll(r, params) && (len(tg) == 0 || !hasRel || relInParams || r.has[relArg])
				}, comp)
			}
			ra := try(func() { ma.Remove(e, tg...) })
			rb := try(func() {
				needRel()
				if len(tg) == 0 {
					wb.Remove(e, ids()...)
				} else {
					wb.Relations().Exchange(e, nil, ids(), rid, tg[0])
				}
			})
			h.samePanic(m, ra, rb)
		case "RemoveEntities":
			excl := rng.Intn(2) == 0
			var ca, cb int
			ra := try(func() { ca = ma.RemoveEntities(excl) })
			rb := try(func() {
				mask := ecs.All(ids()...)
				if excl {
					f := mask.Exclusive()
					cb = wb.Batch().RemoveEntities(&f)
				} else {
					cb = wb.Batch().RemoveEntities(mask)
				}
			})
			if h.samePanic(m, ra, rb) {
				h.ok(ca == cb, m, "count differs: generic %d, id-based %d", ca, cb)
			}
		case "AddBatch", "AddBatchQ", "RemoveBatch", "RemoveBatchQ":
			add := op[0] == 'A'
			var incl, excl []int
			if add {
				excl = append(excl, params...)
				if paramHasRel {
					excl = append(excl, tRel2)
				}
				if rng.Intn(2) == 0 {
					incl = append(incl, tX0+rng.Intn(3))
				}
				if len(tg) > 0 && hasRel && !contains(params, relArg) && rng.Intn(4) > 0 {
					incl = append(incl, relArg)
				}
			} else {
				incl = append(incl, params...)
				if hasRel && typeTable[relArg].isRel && !paramHasRel && (len(tg) > 0 || rng.Intn(2) == 0) && rng.Intn(4) > 0 {
					incl = append(incl, relArg)
				}
				if rng.Intn(3) == 0 {
					excl = append(excl, tX0+rng.Intn(3))
				}
			}
			if rng.Intn(12) == 0 { // arbitrary filter: panics expected on both sides
				incl, excl = nil, nil
			}
			kind := rng.Intn(4)
			fa, fb, cleanup := p.mkFilter(kind, incl, excl, p.pickUsedTarget())
			switch op {
			case "AddBatch":
				var ca, cb int
				ra := try(func() { ca = ma.AddBatch(fa, tg...) })
				rb := try(func() {
					needRel()
					if len(tg) == 0 {
						cb = wb.Batch().Add(fb, ids()...)
					} else {
						cb = wb.Relations().ExchangeBatch(fb, ids(), nil, rid, tg[0])
					}
				})
				if h.samePanic(m, ra, rb) {
					h.ok(ca == cb, m, "count differs: generic %d, id-based %d", ca, cb)
				}
			case "RemoveBatch":
				var ca, cb int
				ra := try(func() { ca = ma.RemoveBatch(fa, tg...) })
				rb := try(func() {
					needRel()
					if len(tg) == 0 {
						cb = wb.Batch().Remove(fb, ids()...)
					} else {
						cb = wb.Relations().ExchangeBatch(fb, nil, ids(), rid, tg[0])
					}
				})
				if h.samePanic(m, ra, rb) {
					h.ok(ca == cb, m, "count differs: generic %d, id-based %d", ca, cb)
				}
			case "AddBatchQ":
				var qa *qAd
				var qb ecs.Query
				ra := try(func() { qa = ma.AddBatchQ(fa, tg...) })
				rb := try(func() {
					needRel()
					if len(tg) == 0 {
						qb = wb.Batch().AddQ(fb, ids()...)
					} else {
						qb = wb.Relations().ExchangeBatchQ(fb, ids(), nil, rid, tg[0])
					}
				})
				p.finishQueries(m, ra, rb, qa, &qb, ma.ids, params, hasRel, rid)
			case "RemoveBatchQ":
				var qa *qAd
				var qb ecs.Query
				ra := try(func() { qa = ma.RemoveBatchQ(fa, tg...) })
				rb := try(func() {
					needRel()
					if len(tg) == 0 {
						qb = wb.Batch().RemoveQ(fb, ids()...)
					} else {
						qb = wb.Relations().ExchangeBatchQ(fb, nil, ids(), rid, tg[0])
					}
				})
				p.finishQueries(m, ra, rb, qa, &qb, nil, nil, hasRel, rid)
			}
			cleanup()
		}
		p.sync(m)
		if p.stop() {
			return
		}
	}
}

// finishQueries compares two freshly created batch queries (or closes the one that exists).
func (p *pair) finishQueries(m string, ra, rb res, qa *qAd, qb *ecs.Query, posIDs []ecs.ID, posTypes []int, hasRel bool, rid ecs.ID) {
	if p.h.samePanic(m, ra, rb) {
		p.cmpQueries(m, qa, qb, posIDs, posTypes, hasRel, rid, modeFull)
		return
	}
	if !ra.panicked && qa != nil {
		closeQ(qa.Q)
	}
	if !rb.panicked {
		closeQ(qb)
	}
}
