package main

import (
	"fmt"
	"math/rand"

	"github.com/mlange-42/arche/ecs"
)

// fmodel is the hand-written model of a generic filter's configuration.
type fmodel struct {
	params     []int
	with       []int
	without    []int
	optional   []int
	exclusive  bool
	hasRelType bool
	relType    int
	hasFixed   bool
	fixed      ecs.Entity
	registered bool
	cfB        ecs.CachedFilter // registration in world B
}

// include returns the required components: (type parameters + With) minus Optional.
func (m *fmodel) include() [nTypes]bool {
	var s [nTypes]bool
	for _, t := range m.params {
		s[t] = true
	}
	for _, t := range m.with {
		s[t] = true
	}
	for _, t := range m.optional {
		s[t] = false
	}
	return s
}

// compilePanics: the relation component must be required by the filter and be a relation type.
func (m *fmodel) compilePanics() bool {
	if !m.hasRelType {
		return false
	}
	inc := m.include()
	return !inc[m.relType] || !typeTable[m.relType].isRel
}

// compileMessage is the message of the panic predicted by compilePanics.
func (m *fmodel) compileMessage() string {
	inc := m.include()
	if !inc[m.relType] {
		return fmt.Sprintf("relation component %v not in filter", typeTable[m.relType].rt)
	}
	return fmt.Sprintf("component type %v is not a relation", typeTable[m.relType].rt)
}

// coreFilter builds the equivalent core filter from the current configuration.
func (m *fmodel) coreFilter(p *pair, qt []ecs.Entity) ecs.Filter {
	inc := m.include()
	var incl ecs.Mask
	for t := 0; t < nTypes; t++ {
		if inc[t] {
			incl.Set(p.ids[t], true)
		}
	}
	mf := &ecs.MaskFilter{Include: incl}
	if m.exclusive {
		*mf = incl.Exclusive()
	} else {
		mf.Exclude = ecs.All(p.idsOf(m.without)...)
	}
	if m.hasRelType && m.hasFixed {
		rf := ecs.NewRelationFilter(mf, m.fixed)
		return &rf
	}
	if len(qt) > 0 {
		rf := ecs.NewRelationFilter(mf, qt[0])
		return &rf
	}
	return mf
}

// expected computes the matching entities by brute force from the last dump.
func (m *fmodel) expected(p *pair, qt []ecs.Entity) int {
	inc := m.include()
	cnt := 0
	for i := range p.recs {
		r := &p.recs[i]
		ok := true
		for t := 0; t < nTypes && ok; t++ {
			if inc[t] && !r.has[t] {
				ok = false
			}
			if m.exclusive && !inc[t] && r.has[t] {
				ok = false
			}
		}
		if !m.exclusive {
			for _, t := range m.without {
				if r.has[t] {
					ok = false
				}
			}
		}
		if ok && m.hasRelType && m.hasFixed {
			ok = !r.hasRel || r.tgt == m.fixed
		} else if ok && len(qt) > 0 {
			ok = !r.hasRel || r.tgt == qt[0]
		}
		if ok {
			cnt++
		}
	}
	return cnt
}

func (m *fmodel) String() string {
	s := fmt.Sprintf("with=[%s] without=[%s] optional=[%s] exclusive=%v", namesOf(m.with), namesOf(m.without), namesOf(m.optional), m.exclusive)
	if m.hasRelType {
		s += " relation=" + typeTable[m.relType].name
		if m.hasFixed {
			s += " fixed=" + entStr(m.fixed)
		}
	}
	if m.registered {
		s += " registered"
	}
	return s
}

func pickSome(rng *rand.Rand, pool []int, max int) []int {
	if len(pool) == 0 {
		return nil
	}
	k := 1 + rng.Intn(max)
	var out []int
	for i := 0; i < k; i++ {
		t := pool[rng.Intn(len(pool))]
		if !contains(out, t) {
			out = append(out, t)
		}
	}
	return out
}

// filterSection: generic.FilterN/QueryN against hand-built core filters.
func filterSection(h *H, rng *rand.Rand, n, variant int) {
	params := paramTypes(n, variant)
	focus := append([]int{}, params...)
	if !contains(focus, tRel) && rng.Intn(2) == 0 {
		focus = append(focus, tRel)
	}
	p := newPair(h, rng, focus)
	if p.stop() {
		return
	}
	wa, wb := p.wa, p.wb
	var fa *filtAd
	rc := try(func() { fa = makeFiltAd(n, variant, wa) })
	if !h.ok(!rc.panicked, fmt.Sprintf("NewFilter%d", n), "constructor panicked: %s", rc.msg) {
		return
	}
	for k := range params {
		h.ok(fa.ids[k] == p.ids[params[k]], fmt.Sprintf("NewFilter%d", n), "ComponentID of type parameter %d differs from TypeID", k)
	}
	m := &fmodel{params: params}
	var others []int
	for t := 0; t < nTypes; t++ {
		if !contains(params, t) {
			others = append(others, t)
		}
	}
	name := func(s string) string { return fmt.Sprintf("Filter%d.%s", n, s) }

	// builder applies one random builder call to the generic filter and the model.
	builder := func() {
		ops := []string{"With", "With", "Without", "Without", "Optional", "Optional", "Exclusive", "WithRelation", "WithRelation"}
		op := ops[rng.Intn(len(ops))]
		if op == "Optional" && fa.Optional == nil {
			op = "With"
		}
		if (op == "Exclusive" || op == "Without") && rng.Intn(4) == 0 {
			op = "With"
		}
		forceRel := false
		if !m.registered && (m.compilePanics() || !m.hasRelType) && rng.Intn(10) < 3 {
			// steer towards a valid relation configuration
			forceRel = true
			if m.include()[tRel] {
				op = "WithRelation"
			} else {
				op = "With"
			}
		}
		mname := name(op)
		switch op {
		case "With":
			ts := pickSome(rng, others, 2)
			if !m.include()[tRel] && (forceRel || rng.Intn(10) < 3) {
				ts = []int{tRel}
			}
			if rng.Intn(10) == 0 && len(params) > 0 {
				ts = append(ts, params[rng.Intn(len(params))])
			}
			ra := try(func() { fa.With(compsOf(ts)...) })
			rb := try(func() {
				if m.registered {
					panic(modelPanic("can't modify a registered filter"))
				}
				m.with = append(m.with, ts...)
			})
			h.samePanic(mname, ra, rb)
		case "Without":
			var pool []int
			inc := m.include()
			for _, t := range others {
				if !inc[t] {
					pool = append(pool, t)
				}
			}
			if rng.Intn(8) == 0 || len(pool) == 0 {
				pool = others
			}
			ts := pickSome(rng, pool, 2)
			ra := try(func() { fa.Without(compsOf(ts)...) })
			rb := try(func() {
				if m.registered {
					panic(modelPanic("can't modify a registered filter"))
				}
				if m.exclusive {
					panic(modelPanic("filter is already exclusive"))
				}
				m.without = append(m.without, ts...)
			})
			h.samePanic(mname, ra, rb)
		case "Optional":
			var ts []int
			switch r := rng.Intn(10); {
			case r < 7 && len(params) > 0:
				ts = pickSome(rng, params, 2)
			case r < 9 && len(m.with) > 0:
				ts = pickSome(rng, m.with, 1)
			default:
				ts = pickSome(rng, others, 1)
			}
			ra := try(func() { fa.Optional(compsOf(ts)...) })
			rb := try(func() {
				if m.registered {
					panic(modelPanic("can't modify a registered filter"))
				}
				m.optional = append(m.optional, ts...)
			})
			h.samePanic(mname, ra, rb)
		case "Exclusive":
			ra := try(func() { fa.Exclusive() })
			rb := try(func() {
				if m.registered {
					panic(modelPanic("can't modify a registered filter"))
				}
				if len(m.without) > 0 {
					panic(modelPanic("filter already excludes some components"))
				}
				m.exclusive = true
			})
			h.samePanic(mname, ra, rb)
		case "WithRelation":
			rt := tRel
			r := rng.Intn(20)
			if forceRel {
				r = 0
			}
			switch {
			case r < 16:
			case r < 18:
				rt = tRel2
			case r < 19:
				rt = tX0
			default:
				if len(params) > 0 {
					rt = params[0]
				} else {
					rt = tX0 + 1
				}
			}
			var tg []ecs.Entity
			if rng.Intn(3) == 0 {
				tg = []ecs.Entity{p.pickUsedTarget()}
			}
			ra := try(func() { fa.WithRelation(tSingle[rt](), tg...) })
			rb := try(func() {
				if m.registered {
					panic(modelPanic("can't modify a registered filter"))
				}
				m.hasRelType, m.relType = true, rt
				if len(tg) > 0 {
					m.hasFixed, m.fixed = true, tg[0]
				}
			})
			h.samePanic(mname, ra, rb)
		}
	}

	query := func() {
		var qt []ecs.Entity
		if m.hasRelType {
			r := rng.Intn(100)
			if !m.hasFixed && !m.registered {
				if r < 60 {
					qt = []ecs.Entity{p.pickUsedTarget()}
				}
			} else if r < 15 {
				qt = []ecs.Entity{p.pickUsedTarget()} // documented-illegal: expect a panic
			}
		}
		// witnesses: make sure some entities match the current configuration
		if !m.compilePanics() && rng.Intn(10) < 7 {
			inc := m.include()
			for i := 1 + rng.Intn(2); i > 0; i-- {
				var comp []int
				rels := 0
				for t := 0; t < nTypes; t++ {
					take := inc[t]
					if !take && !m.exclusive && !contains(m.without, t) {
						if contains(m.params, t) {
							take = rng.Intn(2) == 0 // optional parameter: present or absent
						} else if !typeTable[t].isRel {
							take = rng.Intn(6) == 0
						}
					}
					if take {
						comp = append(comp, t)
						if typeTable[t].isRel {
							rels++
						}
					}
				}
				if rels > 1 {
					break
				}
				tg := ecs.Entity{}
				want := ecs.Entity{}
				if m.hasRelType && m.hasFixed {
					want = m.fixed
				} else if len(qt) > 0 {
					want = qt[0]
				} else if x, ok := p.pickAlive(); ok {
					want = x
				}
				for j := range p.recs {
					if p.recs[j].e == want {
						tg = want // alive
					}
				}
				p.createT(comp, tg)
			}
		}
		useFilter := rng.Intn(5) == 0
		mname := name("Query")
		if useFilter {
			mname = name("Filter")
		}
		var qa *qAd
		var qb ecs.Query
		ra := try(func() {
			if useFilter {
				f := fa.Filter(wa, qt...)
				q := wa.Query(f)
				qa = &qAd{Q: &q}
			} else {
				qa = fa.Query(wa, qt...)
			}
		})
		rb := try(func() {
			if m.compilePanics() {
				panic(modelPanic(m.compileMessage()))
			}
			if len(qt) > 0 && m.registered {
				panic(modelPanic("can't change relation target on a cached query"))
			}
			if len(qt) > 0 && m.hasFixed {
				panic(modelPanic("can't change relation target on a query with fixed target"))
			}
			if m.registered {
				qb = wb.Query(&m.cfB)
			} else {
				qb = wb.Query(m.coreFilter(p, qt))
			}
		})
		if !h.samePanic(mname, ra, rb) {
			if !ra.panicked && qa != nil {
				closeQ(qa.Q)
			}
			if !rb.panicked {
				closeQ(&qb)
			}
			return
		}
		exp := m.expected(p, qt)
		cb := qb.Count()
		h.ok(cb == exp, mname, "core filter count %d differs from brute-force evaluation %d of configuration {%s}", cb, exp, m.String())
		mode := modeFull
		if r := rng.Intn(10); r == 0 {
			mode = modeCount
		} else if r == 1 {
			mode = modePartial
		}
		var rid ecs.ID
		if m.hasRelType {
			rid = p.ids[m.relType]
		}
		before := h.fails
		vis := p.cmpQueries(mname, qa, &qb, fa.ids, params, m.hasRelType, rid, mode)
		if h.stats != nil {
			key := name("visited/queries")
			if m.hasRelType {
				key = name("visited/queries (relation)")
			}
			st := h.stats[key]
			st[0] += len(vis)
			st[1]++
			h.stats[key] = st
			if len(m.optional) > 0 {
				st := h.stats[name("visited/queries (optional)")]
				st[0] += len(vis)
				st[1]++
				h.stats[name("visited/queries (optional)")] = st
			}
		}
		if h.fails != before {
			fmt.Fprintf(h.out, "  (configuration at that query: {%s})\n", m.String())
		}
	}

	register := func() {
		if m.registered || rng.Intn(3) == 0 {
			mname := name("Unregister")
			ra := try(func() { fa.Unregister(wa) })
			rb := try(func() {
				if !m.registered {
					panic(modelPanic("can't unregister a filter that is not cached"))
				}
				wb.Cache().Unregister(&m.cfB)
				m.registered = false
			})
			h.samePanic(mname, ra, rb)
			if rng.Intn(3) > 0 {
				return
			}
		}
		mname := name("Register")
		ra := try(func() { fa.Register(wa) })
		rb := try(func() {
			if m.compilePanics() {
				panic(modelPanic(m.compileMessage()))
			}
			if m.registered {
				wb.Cache().Register(&m.cfB) // panics: already registered
			}
			m.cfB = wb.Cache().Register(m.coreFilter(p, nil))
			m.registered = true
		})
		h.samePanic(mname, ra, rb)
	}

	// builder calls before the first query (sometimes none at all)
	for i := rng.Intn(4); i > 0; i-- {
		builder()
		if p.stop() {
			return
		}
	}
	steps := 14 + rng.Intn(8)
	for i := 0; i < steps; i++ {
		if rng.Intn(3) == 0 {
			p.background(1 + rng.Intn(2))
		}
		if p.stop() {
			return
		}
		switch r := rng.Intn(100); {
		case r < 40:
			query()
		case r < 80:
			builder()
			if rng.Intn(5) > 0 && !p.stop() {
				query() // a query immediately after a builder call: must reflect the new configuration
			}
		case r < 90:
			register()
			if !p.stop() {
				query()
			}
		default:
			// register twice / builder on registered filter
			register()
			if !p.stop() {
				builder()
			}
		}
		p.sync(name("step"))
		if p.stop() {
			return
		}
	}
	if m.registered {
		try(func() { fa.Unregister(wa) })
		try(func() { wb.Cache().Unregister(&m.cfB) })
	}
}

// k2Scenario: two queries opened from one filter with different targets before iterating the first.
func k2Scenario(h *H, rng *rand.Rand, n int) {
	wa, _ := newWorlds(rng)
	variant := 0
	if n >= 1 {
		variant = 1
	}
	params := paramTypes(n, variant)
	var ids [nTypes]ecs.ID
	for t := 0; t < nTypes; t++ {
		ids[t] = ecs.TypeID(wa, typeTable[t].rt)
	}
	t1 := wa.NewEntity()
	t2 := wa.NewEntity()
	comp := append([]int{}, params...)
	if !contains(comp, tRel) {
		comp = append(comp, tRel)
	}
	cids := make([]ecs.ID, len(comp))
	for i, t := range comp {
		cids[i] = ids[t]
	}
	var want1, want2 []ecs.Entity
	for i := 0; i < 2; i++ {
		want1 = append(want1, ecs.NewBuilder(wa, cids...).WithRelation(ids[tRel]).New(t1))
	}
	for i := 0; i < 3; i++ {
		want2 = append(want2, ecs.NewBuilder(wa, cids...).WithRelation(ids[tRel]).New(t2))
	}
	var got1, got2 []ecs.Entity
	r := try(func() {
		fa := makeFiltAd(n, variant, wa)
		if n == 0 {
			fa.With(tSingle[tRel]())
		}
		fa.WithRelation(tSingle[tRel]())
		q1 := fa.Query(wa, t1)
		q2 := fa.Query(wa, t2)
		for q1.Q.Next() {
			got1 = append(got1, q1.Q.Entity())
		}
		for q2.Q.Next() {
			got2 = append(got2, q2.Q.Entity())
		}
	})
	if !h.named(!r.panicked, "K2 shared-relation-filter", "scenario panicked: %s", r.msg) {
		return
	}
	h.named(entsStr(got1) == entsStr(want1), "K2 shared-relation-filter",
		"q1 := Query(w, target1), then q2 := Query(w, target2), then iterating q1 yields %s, want the children of target1 %s", entsStr(got1), entsStr(want1))
	h.named(entsStr(got2) == entsStr(want2), "K2 shared-relation-filter",
		"q2 yields %s, want the children of target2 %s", entsStr(got2), entsStr(want2))
}

// k3Scenario: Query(w, target) on a filter without WithRelation is documented to panic.
func k3Scenario(h *H, rng *rand.Rand, n int) {
	wa, _ := newWorlds(rng)
	params := paramTypes(n, 0)
	var ids []ecs.ID
	for _, t := range params {
		ids = append(ids, ecs.TypeID(wa, typeTable[t].rt))
	}
	t1 := wa.NewEntity()
	wa.NewEntity(ids...)
	var q *qAd
	r := try(func() {
		fa := makeFiltAd(n, 0, wa)
		q = fa.Query(wa, t1)
	})
	if q != nil {
		closeQ(q.Q)
	}
	h.named(r.panicked, "K3 query-target-without-relation",
		"Query(w, target) on a filter on which WithRelation was never called did not panic, although FilterN.Query documents a panic for that case")
	// same for Filter()
	r = try(func() {
		fa := makeFiltAd(n, 0, wa)
		fa.Filter(wa, t1)
	})
	h.named(r.panicked, "K3 query-target-without-relation",
		"Filter(w, target) on a filter on which WithRelation was never called did not panic, although FilterN.Filter documents a panic for that case")
}
