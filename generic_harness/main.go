// generic_harness: differential test of arche's generic API against the ID-based core API.
//
// Twin worlds: world A is driven through package generic, world B through the
// documented ID-based equivalents. After every step the results and a full dump
// of both worlds are compared. See README.md.
package main

import (
	"bufio"
	"flag"
	"fmt"
	"math/rand"
	"os"
	"reflect"
	"sort"
	"strings"
	"unsafe"

	"github.com/mlange-42/arche/ecs"
	"github.com/mlange-42/arche/ecs/event"
	"github.com/mlange-42/arche/generic"
)

// ---------------------------------------------------------------------------
// adapter types (filled by generated code in arity_generated.go)

type typeInfo struct {
	name  string
	rt    reflect.Type
	isRel bool
	mk    func(v int64) interface{}
}

// qAd adapts a generic.QueryN.
type qAd struct {
	Q        *ecs.Query
	Get      func() []unsafe.Pointer
	Relation func() ecs.Entity
}

// mapAd adapts a generic.MapN.
type mapAd struct {
	n              int
	ids            []ecs.ID // ecs.ComponentID of the k-th type parameter
	New            func(t ...ecs.Entity) ecs.Entity
	NewWith        func(v []int64, t ...ecs.Entity) ecs.Entity
	NewBatch       func(c int, t ...ecs.Entity)
	NewBatchQ      func(c int, t ...ecs.Entity) *qAd
	Get            func(e ecs.Entity) []unsafe.Pointer
	GetUnchecked   func(e ecs.Entity) []unsafe.Pointer
	Add            func(e ecs.Entity, t ...ecs.Entity)
	Assign         func(e ecs.Entity, v []int64)
	Remove         func(e ecs.Entity, t ...ecs.Entity)
	RemoveEntities func(x bool) int
	AddBatch       func(f ecs.Filter, t ...ecs.Entity) int
	AddBatchQ      func(f ecs.Filter, t ...ecs.Entity) *qAd
	RemoveBatch    func(f ecs.Filter, t ...ecs.Entity) int
	RemoveBatchQ   func(f ecs.Filter, t ...ecs.Entity) *qAd
}

// filtAd adapts a generic.FilterN.
type filtAd struct {
	n            int
	ids          []ecs.ID
	With         func(c ...generic.Comp)
	Without      func(c ...generic.Comp)
	Optional     func(c ...generic.Comp) // nil for arity 0
	Exclusive    func()
	WithRelation func(c generic.Comp, t ...ecs.Entity)
	Filter       func(w *ecs.World, t ...ecs.Entity) ecs.Filter
	Query        func(w *ecs.World, t ...ecs.Entity) *qAd
	Register     func(w *ecs.World)
	Unregister   func(w *ecs.World)
}

// singleAd adapts a generic.Map[T].
type singleAd struct {
	ID                   func() ecs.ID
	Get                  func(e ecs.Entity) unsafe.Pointer
	GetUnchecked         func(e ecs.Entity) unsafe.Pointer
	Has                  func(e ecs.Entity) bool
	HasUnchecked         func(e ecs.Entity) bool
	Set                  func(e ecs.Entity, v int64) unsafe.Pointer
	GetRelation          func(e ecs.Entity) ecs.Entity
	GetRelationUnchecked func(e ecs.Entity) ecs.Entity
	SetRelation          func(e, t ecs.Entity)
	SetRelationBatch     func(f ecs.Filter, t ecs.Entity) int
	SetRelationBatchQ    func(f ecs.Filter, t ecs.Entity) *qAd
}

// resAd adapts a generic.Resource[T].
type resAd struct {
	ID     func() ecs.ResID
	Add    func(v int64) unsafe.Pointer // returns the pointer that was handed to Add
	Remove func()
	Get    func() unsafe.Pointer
	Has    func() bool
}

// mk creates a component value of type T with V = v.
func mk[T any](v int64) *T {
	var t T
	*(*int64)(unsafe.Pointer(&t)) = v
	return &t
}

func newSingleAd[T any](w *ecs.World) *singleAd {
	m := generic.NewMap[T](w)
	ad := &singleAd{}
	ad.ID = func() ecs.ID { return m.ID() }
	ad.Get = func(e ecs.Entity) unsafe.Pointer { return unsafe.Pointer(m.Get(e)) }
	ad.GetUnchecked = func(e ecs.Entity) unsafe.Pointer { return unsafe.Pointer(m.GetUnchecked(e)) }
	ad.Has = func(e ecs.Entity) bool { return m.Has(e) }
	ad.HasUnchecked = func(e ecs.Entity) bool { return m.HasUnchecked(e) }
	ad.Set = func(e ecs.Entity, v int64) unsafe.Pointer { return unsafe.Pointer(m.Set(e, mk[T](v))) }
	ad.GetRelation = func(e ecs.Entity) ecs.Entity { return m.GetRelation(e) }
	ad.GetRelationUnchecked = func(e ecs.Entity) ecs.Entity { return m.GetRelationUnchecked(e) }
	ad.SetRelation = func(e, t ecs.Entity) { m.SetRelation(e, t) }
	ad.SetRelationBatch = func(f ecs.Filter, t ecs.Entity) int { return m.SetRelationBatch(f, t) }
	ad.SetRelationBatchQ = func(f ecs.Filter, t ecs.Entity) *qAd {
		q := m.SetRelationBatchQ(f, t)
		return wrapQ1(&q)
	}
	return ad
}

func newResAd[T any](w *ecs.World) *resAd {
	r := generic.NewResource[T](w)
	ad := &resAd{}
	ad.ID = func() ecs.ResID { return r.ID() }
	ad.Add = func(v int64) unsafe.Pointer {
		p := mk[T](v)
		r.Add(p)
		return unsafe.Pointer(p)
	}
	ad.Remove = func() { r.Remove() }
	ad.Get = func() unsafe.Pointer { return unsafe.Pointer(r.Get()) }
	ad.Has = func() bool { return r.Has() }
	return ad
}

// ---------------------------------------------------------------------------
// harness state

// H collects results.
type H struct {
	out    *bufio.Writer
	cases  int
	fails  int
	arity  int
	iter   int
	ctx    string
	broken bool   // a FAIL occurred in the current section: abandon it
	tag    string // statistics only
	stats  map[string][2]int
}

// ok records one check.
func (h *H) ok(cond bool, method, format string, args ...interface{}) bool {
	h.cases++
	if !cond {
		h.fails++
		h.broken = true
		fmt.Fprintf(h.out, "FAIL arity=%d iter=%d %s %s: %s\n", h.arity, h.iter, h.ctx, method, fmt.Sprintf(format, args...))
	}
	return cond
}

// named records one check of a named scenario with a fixed description prefix.
func (h *H) named(cond bool, name, format string, args ...interface{}) bool {
	h.cases++
	if !cond {
		h.fails++
		fmt.Fprintf(h.out, "FAIL %s: arity=%d %s\n", name, h.arity, fmt.Sprintf(format, args...))
	}
	return cond
}

type modelPanic string

type res struct {
	panicked bool
	model    bool
	msg      string
}

// try runs f and reports whether it panicked.
func try(f func()) (r res) {
	defer func() {
		if x := recover(); x != nil {
			r.panicked = true
			if mp, ok := x.(modelPanic); ok {
				r.model = true
				r.msg = string(mp)
			} else {
				r.msg = fmt.Sprint(x)
			}
		}
	}()
	f()
	return
}

// samePanic checks panic parity of the generic call (ra) and the ID-based call (rb).
// Returns true if neither panicked, i.e. results can be compared.
func (h *H) samePanic(method string, ra, rb res) bool {
	if h.stats != nil {
		key := method + h.tag
		s := h.stats[key]
		if ra.panicked {
			s[1]++
			mk := key + " :: " + ra.msg
			ms := h.stats[mk]
			ms[1]++
			h.stats[mk] = ms
		} else {
			s[0]++
		}
		h.stats[key] = s
	}
	if !h.ok(ra.panicked == rb.panicked, method, "panic mismatch: generic panicked=%v (%q), id-based panicked=%v (%q)", ra.panicked, ra.msg, rb.panicked, rb.msg) {
		return false
	}
	if ra.panicked {
		// model panics carry the message of the generic-level validation they stand for
		h.ok(ra.msg == rb.msg, method, "panic message differs: generic %q, expected %q", ra.msg, rb.msg)
		return false
	}
	return true
}

func entStr(e ecs.Entity) string { return fmt.Sprintf("(%d,%d)", e.ID(), e.Generation()) }

func entsStr(es []ecs.Entity) string {
	s := make([]string, len(es))
	for i, e := range es {
		s[i] = entStr(e)
	}
	return "[" + strings.Join(s, " ") + "]"
}

// ---------------------------------------------------------------------------
// twin worlds

type rec struct {
	e      ecs.Entity
	has    [nTypes]bool
	v      [nTypes]int64
	hasRel bool
	tgt    ecs.Entity
}

func (r *rec) String() string {
	var sb strings.Builder
	sb.WriteString(entStr(r.e))
	sb.WriteString("{")
	for t := 0; t < nTypes; t++ {
		if r.has[t] {
			fmt.Fprintf(&sb, "%s=%d ", typeTable[t].name, r.v[t])
		}
	}
	if r.hasRel {
		sb.WriteString("->" + entStr(r.tgt))
	}
	sb.WriteString("}")
	return sb.String()
}

type evLog struct {
	p  *pair
	ev []string
}

func (l *evLog) Notify(w *ecs.World, e ecs.EntityEvent) {
	var sb strings.Builder
	fmt.Fprintf(&sb, "%s t=%d +", entStr(e.Entity), e.EventTypes)
	for t := 0; t < nTypes; t++ {
		if e.Added.Get(l.p.ids[t]) {
			sb.WriteString(typeTable[t].name + ",")
		}
	}
	sb.WriteString(" -")
	for t := 0; t < nTypes; t++ {
		if e.Removed.Get(l.p.ids[t]) {
			sb.WriteString(typeTable[t].name + ",")
		}
	}
	sb.WriteString(" a[")
	for _, id := range e.AddedIDs {
		sb.WriteString(l.p.typeName(id) + ",")
	}
	sb.WriteString("] r[")
	for _, id := range e.RemovedIDs {
		sb.WriteString(l.p.typeName(id) + ",")
	}
	sb.WriteString("]")
	if e.OldRelation != nil {
		sb.WriteString(" old=" + l.p.typeName(*e.OldRelation))
	}
	if e.NewRelation != nil {
		sb.WriteString(" new=" + l.p.typeName(*e.NewRelation))
	}
	sb.WriteString(" ot=" + entStr(e.OldTarget))
	l.ev = append(l.ev, sb.String())
}
func (l *evLog) Subscriptions() event.Subscription { return event.All }
func (l *evLog) Components() *ecs.Mask             { return nil }

type pair struct {
	h       *H
	rng     *rand.Rand
	wa, wb  *ecs.World
	ids     [nTypes]ecs.ID
	la, lb  *evLog
	recs    []rec
	dead    []ecs.Entity
	focus   []int
	abandon bool
}

func (p *pair) typeName(id ecs.ID) string {
	for t := 0; t < nTypes; t++ {
		if p.ids[t] == id {
			return typeTable[t].name
		}
	}
	return "?"
}

// newWorlds creates two empty worlds with identical configuration.
func newWorlds(rng *rand.Rand) (*ecs.World, *ecs.World) {
	inc := []int{2, 4, 16, 128}[rng.Intn(4)]
	rinc := []int{0, 1, 4}[rng.Intn(3)]
	cfg := ecs.NewConfig().WithCapacityIncrement(inc).WithRelationCapacityIncrement(rinc)
	wa := ecs.NewWorld(cfg)
	wb := ecs.NewWorld(cfg)
	return &wa, &wb
}

// newPair creates twin worlds with all component types registered in the same random order,
// optionally a recording listener on both, and a random identical initial population.
func newPair(h *H, rng *rand.Rand, focus []int) *pair {
	p := &pair{h: h, rng: rng, focus: focus}
	p.wa, p.wb = newWorlds(rng)
	for _, t := range rng.Perm(nTypes) {
		ia := ecs.TypeID(p.wa, typeTable[t].rt)
		ib := ecs.TypeID(p.wb, typeTable[t].rt)
		if ia != ib {
			panic("harness: twin registration differs")
		}
		p.ids[t] = ia
	}
	if rng.Intn(2) == 0 {
		p.la = &evLog{p: p}
		p.lb = &evLog{p: p}
		p.wa.SetListener(p.la)
		p.wb.SetListener(p.lb)
	}
	p.background(8 + rng.Intn(10))
	return p
}

// stampValue is the canonical value of component type t on entity e: distinct per entity and type.
func stampValue(e ecs.Entity, t int) int64 {
	return (int64(e.Generation())*100000+int64(e.ID())+1)*100 + int64(t)
}

// dump returns the canonical content of a world in query order. Components whose V is still
// zero are recorded as zero and then stamped with stampValue.
func (p *pair) dump(w *ecs.World) []rec {
	var out []rec
	q := w.Query(ecs.All())
	for q.Next() {
		r := rec{e: q.Entity()}
		for t := 0; t < nTypes; t++ {
			id := p.ids[t]
			if !q.Has(id) {
				continue
			}
			r.has[t] = true
			ptr := (*int64)(q.Get(id))
			r.v[t] = *ptr
			if *ptr == 0 {
				*ptr = stampValue(r.e, t)
			}
			if typeTable[t].isRel {
				r.hasRel = true
				r.tgt = q.Relation(id)
			}
		}
		out = append(out, r)
	}
	return out
}

// sync compares both worlds (content, events, lock state) and refreshes the entity bookkeeping.
func (p *pair) sync(method string) bool {
	h := p.h
	da := p.dump(p.wa)
	db := p.dump(p.wb)
	good := true
	if len(da) != len(db) {
		good = h.ok(false, method, "world state differs: %d alive entities via generic, %d via ids", len(da), len(db))
	} else {
		diff := -1
		for i := range da {
			if da[i] != db[i] {
				diff = i
				break
			}
		}
		if diff >= 0 {
			good = h.ok(false, method, "world state differs at row %d: generic %s, id-based %s", diff, da[diff].String(), db[diff].String())
		} else {
			h.ok(true, method, "")
		}
	}
	if p.la != nil {
		same := len(p.la.ev) == len(p.lb.ev)
		first := ""
		if same {
			for i := range p.la.ev {
				if p.la.ev[i] != p.lb.ev[i] {
					same = false
					first = fmt.Sprintf("event %d: generic %q, id-based %q", i, p.la.ev[i], p.lb.ev[i])
					break
				}
			}
		} else {
			first = fmt.Sprintf("%d events via generic, %d via ids", len(p.la.ev), len(p.lb.ev))
		}
		if !h.ok(same, method, "listener events differ: %s", first) {
			good = false
		}
		p.la.ev = p.la.ev[:0]
		p.lb.ev = p.lb.ev[:0]
	}
	lka, lkb := p.wa.IsLocked(), p.wb.IsLocked()
	if !h.ok(lka == lkb, method, "lock state differs: generic world locked=%v, id-based world locked=%v", lka, lkb) {
		good = false
	}
	if lka || lkb {
		p.abandon = true
	}
	// bookkeeping: previously alive handles that disappeared are dead now
	now := make(map[ecs.Entity]bool, len(da))
	for i := range da {
		now[da[i].e] = true
	}
	for i := range p.recs {
		if !now[p.recs[i].e] {
			p.dead = append(p.dead, p.recs[i].e)
		}
	}
	if len(p.dead) > 12 {
		p.dead = p.dead[len(p.dead)-12:]
	}
	p.recs = da
	return good
}

func (p *pair) stop() bool { return p.h.broken || p.abandon }

// --- pickers

func (p *pair) pickAlive() (ecs.Entity, bool) {
	if len(p.recs) == 0 {
		return ecs.Entity{}, false
	}
	return p.recs[p.rng.Intn(len(p.recs))].e, true
}

func (p *pair) pickWhere(pred func(r *rec) bool) (ecs.Entity, bool) {
	var c []ecs.Entity
	for i := range p.recs {
		if pred(&p.recs[i]) {
			c = append(c, p.recs[i].e)
		}
	}
	if len(c) == 0 {
		return ecs.Entity{}, false
	}
	return c[p.rng.Intn(len(c))], true
}

func (p *pair) pickDead() (ecs.Entity, bool) {
	if len(p.dead) == 0 {
		return ecs.Entity{}, false
	}
	return p.dead[p.rng.Intn(len(p.dead))], true
}

// pickTarget: alive (70%), zero (20%), dead (10%).
func (p *pair) pickTarget() ecs.Entity {
	r := p.rng.Intn(20)
	if r < 14 {
		if e, ok := p.pickAlive(); ok {
			return e
		}
		return ecs.Entity{}
	}
	if r < 18 {
		return ecs.Entity{}
	}
	if e, ok := p.pickDead(); ok {
		return e
	}
	return ecs.Entity{}
}

// pickUsedTarget prefers an entity that currently is a relation target.
func (p *pair) pickUsedTarget() ecs.Entity {
	if p.rng.Intn(10) < 6 {
		var c []ecs.Entity
		for i := range p.recs {
			if p.recs[i].hasRel && !p.recs[i].tgt.IsZero() {
				c = append(c, p.recs[i].tgt)
			}
		}
		if len(c) > 0 {
			return c[p.rng.Intn(len(c))]
		}
	}
	return p.pickTarget()
}

// pickEntityArg: alive (85%) or dead (15%).
func (p *pair) pickEntityArg() ecs.Entity {
	if p.rng.Intn(100) < 15 {
		if e, ok := p.pickDead(); ok {
			return e
		}
	}
	e, _ := p.pickAlive()
	return e
}

func (p *pair) idsOf(ts []int) []ecs.ID {
	out := make([]ecs.ID, len(ts))
	for i, t := range ts {
		out[i] = p.ids[t]
	}
	return out
}

func compsOf(ts []int) []generic.Comp {
	out := make([]generic.Comp, len(ts))
	for i, t := range ts {
		out[i] = tSingle[t]()
	}
	return out
}

func hasAll(r *rec, ts []int) bool {
	for _, t := range ts {
		if !r.has[t] {
			return false
		}
	}
	return true
}

func hasNone(r *rec, ts []int) bool {
	for _, t := range ts {
		if r.has[t] {
			return false
		}
	}
	return true
}

func contains(ts []int, t int) bool {
	for _, x := range ts {
		if x == t {
			return true
		}
	}
	return false
}

func namesOf(ts []int) string {
	s := make([]string, len(ts))
	for i, t := range ts {
		s[i] = typeTable[t].name
	}
	return strings.Join(s, ",")
}

// create makes an entity with exactly the given component types in both worlds (ID-based),
// with a random alive or zero target if it has a relation, and returns it.
func (p *pair) create(ts []int) ecs.Entity {
	tg := ecs.Entity{}
	if x, ok := p.pickAlive(); ok && p.rng.Intn(10) < 7 {
		tg = x
	}
	return p.createT(ts, tg)
}

// createT is create with a given relation target (must be alive or zero).
func (p *pair) createT(ts []int, tg ecs.Entity) ecs.Entity {
	ids := p.idsOf(ts)
	rel := -1
	for _, t := range ts {
		if typeTable[t].isRel {
			rel = t
		}
	}
	var out ecs.Entity
	p.both(func(w *ecs.World) {
		if rel >= 0 {
			out = ecs.NewBuilder(w, append([]ecs.ID{}, ids...)...).WithRelation(p.ids[rel]).New(tg)
		} else {
			out = w.NewEntity(append([]ecs.ID{}, ids...)...)
		}
	})
	p.refresh()
	return out
}

// pickOrCreate picks an entity satisfying pred, or creates one with the given composition.
func (p *pair) pickOrCreate(pred func(r *rec) bool, ts []int) ecs.Entity {
	if x, ok := p.pickWhere(pred); ok {
		return x
	}
	return p.create(ts)
}

// both applies the same ID-based operation to both worlds.
func (p *pair) both(f func(w *ecs.World)) {
	ra := try(func() { f(p.wa) })
	rb := try(func() { f(p.wb) })
	if ra.panicked != rb.panicked {
		p.h.ok(false, "background", "same id-based call panicked in one world only: %q / %q", ra.msg, rb.msg)
	}
}

// background applies k random ID-based operations identically to both worlds, then syncs.
func (p *pair) background(k int) {
	if k <= 0 {
		return
	}
	rng := p.rng
	for i := 0; i < k; i++ {
		if i > 0 || p.recs != nil {
			// keep bookkeeping fresh without counting extra cases too often
			p.refresh()
		}
		n := len(p.recs)
		op := rng.Intn(10)
		if n < 6 {
			op = 0
		} else if n > 40 {
			op = 3
		}
		switch {
		case op <= 2: // new entity
			ts := p.randomComposition()
			ids := p.idsOf(ts)
			rel := -1
			for _, t := range ts {
				if typeTable[t].isRel {
					rel = t
				}
			}
			if rel >= 0 && rng.Intn(10) < 7 {
				tg := ecs.Entity{}
				if e, ok := p.pickAlive(); ok && rng.Intn(10) < 8 {
					tg = e
				}
				rid := p.ids[rel]
				p.both(func(w *ecs.World) {
					ecs.NewBuilder(w, append([]ecs.ID{}, ids...)...).WithRelation(rid).New(tg)
				})
			} else if rng.Intn(4) == 0 {
				c := 2 + rng.Intn(3)
				p.both(func(w *ecs.World) { ecs.NewBuilder(w, append([]ecs.ID{}, ids...)...).NewBatch(c) })
			} else {
				p.both(func(w *ecs.World) { w.NewEntity(append([]ecs.ID{}, ids...)...) })
			}
		case op == 3 || op == 4: // remove entity
			if e, ok := p.pickAlive(); ok {
				p.both(func(w *ecs.World) { w.RemoveEntity(e) })
			}
		case op == 5 || op == 6: // add components
			if len(p.recs) > 0 {
				r := p.recs[rng.Intn(len(p.recs))]
				var add []int
				for t := 0; t < nTypes; t++ {
					if !r.has[t] && rng.Intn(5) == 0 && !(typeTable[t].isRel && r.hasRel) {
						add = append(add, t)
						if typeTable[t].isRel {
							r.hasRel = true
						}
					}
				}
				if len(add) > 0 {
					ids := p.idsOf(add)
					p.both(func(w *ecs.World) { w.Add(r.e, ids...) })
				}
			}
		case op == 7: // remove components
			if len(p.recs) > 0 {
				r := p.recs[rng.Intn(len(p.recs))]
				var rem []int
				for t := 0; t < nTypes; t++ {
					if r.has[t] && rng.Intn(4) == 0 {
						rem = append(rem, t)
					}
				}
				if len(rem) > 0 {
					ids := p.idsOf(rem)
					p.both(func(w *ecs.World) { w.Remove(r.e, ids...) })
				}
			}
		default: // set relation target
			if e, ok := p.pickWhere(func(r *rec) bool { return r.hasRel }); ok {
				rel := tRel
				for i := range p.recs {
					if p.recs[i].e == e && p.recs[i].has[tRel2] {
						rel = tRel2
					}
				}
				tg := ecs.Entity{}
				if x, ok := p.pickAlive(); ok && rng.Intn(10) < 8 {
					tg = x
				}
				rid := p.ids[rel]
				p.both(func(w *ecs.World) { w.Relations().Set(e, rid, tg) })
			}
		}
	}
	p.sync("background")
}

// refresh re-reads world A without comparing (used between background operations).
func (p *pair) refresh() {
	da := p.dump(p.wa)
	p.dump(p.wb) // stamp identically
	now := make(map[ecs.Entity]bool, len(da))
	for i := range da {
		now[da[i].e] = true
	}
	for i := range p.recs {
		if !now[p.recs[i].e] {
			p.dead = append(p.dead, p.recs[i].e)
		}
	}
	if len(p.dead) > 12 {
		p.dead = p.dead[len(p.dead)-12:]
	}
	p.recs = da
}

// randomComposition picks component types for a new background entity, biased by p.focus.
func (p *pair) randomComposition() []int {
	rng := p.rng
	var set [nTypes]bool
	mode := rng.Intn(100)
	switch {
	case mode < 35:
		for _, t := range p.focus {
			set[t] = true
		}
	case mode < 60:
	case mode < 85:
		for _, t := range p.focus {
			set[t] = true
		}
		for i := 0; i < 1+rng.Intn(2) && len(p.focus) > 0; i++ {
			set[p.focus[rng.Intn(len(p.focus))]] = false
		}
	default:
		for _, t := range p.focus {
			set[t] = rng.Intn(2) == 0
		}
	}
	for t := 0; t < nTypes; t++ {
		if !contains(p.focus, t) && rng.Intn(100) < 30 {
			set[t] = true
		}
	}
	if set[tRel] && set[tRel2] {
		if contains(p.focus, tRel2) && !contains(p.focus, tRel) {
			set[tRel] = false
		} else {
			set[tRel2] = false
		}
	}
	var ts []int
	for t := 0; t < nTypes; t++ {
		if set[t] {
			ts = append(ts, t)
		}
	}
	rng.Shuffle(len(ts), func(i, j int) { ts[i], ts[j] = ts[j], ts[i] })
	return ts
}

// optTarget returns the optional relation target argument.
// Without a relation on the generic helper a target is passed rarely (expected panic).
func (p *pair) optTarget(hasRel bool, useful bool) []ecs.Entity {
	r := p.rng.Intn(100)
	if hasRel {
		if r < 60 && (useful || r < 8) {
			return []ecs.Entity{p.pickTarget()}
		}
		return nil
	}
	if r < 10 {
		return []ecs.Entity{p.pickTarget()}
	}
	return nil
}

// mkFilter builds the same logical core filter for both worlds. kind: 0 Mask/MaskFilter,
// 1 MaskFilter, 2 RelationFilter, 3 cached MaskFilter. The returned cleanup unregisters.
func (p *pair) mkFilter(kind int, incl, excl []int, target ecs.Entity) (fa, fb ecs.Filter, cleanup func()) {
	build := func(w *ecs.World) (ecs.Filter, func()) {
		mf := ecs.MaskFilter{Include: ecs.All(p.idsOf(incl)...), Exclude: ecs.All(p.idsOf(excl)...)}
		switch kind {
		case 0:
			if len(excl) == 0 {
				return mf.Include, func() {}
			}
			return &mf, func() {}
		case 2:
			rf := ecs.NewRelationFilter(&mf, target)
			return &rf, func() {}
		case 3:
			cf := w.Cache().Register(&mf)
			return &cf, func() { try(func() { w.Cache().Unregister(&cf) }) }
		}
		return &mf, func() {}
	}
	fa, ca := build(p.wa)
	fb, cb := build(p.wb)
	return fa, fb, func() { ca(); cb() }
}

// ---------------------------------------------------------------------------
// query comparison

const (
	modeFull = iota
	modePartial
	modeCount
)

// cmpQueries iterates a generic query on world A and the equivalent core query on world B in
// lock-step. posIDs/posTypes describe the type parameters by position.
func (p *pair) cmpQueries(method string, qa *qAd, qb *ecs.Query, posIDs []ecs.ID, posTypes []int, hasRel bool, rid ecs.ID, mode int) (visited []ecs.Entity) {
	h := p.h
	ca, cb := qa.Q.Count(), qb.Count()
	h.ok(ca == cb, method, "Count differs: generic %d, id-based %d", ca, cb)
	if mode == modeCount {
		qa.Q.Close()
		qb.Close()
		return nil
	}
	limit := -1
	if mode == modePartial {
		limit = p.rng.Intn(3)
	}
	n := 0
	for {
		if limit >= 0 && n >= limit {
			qa.Q.Close()
			qb.Close()
			return visited
		}
		na := qa.Q.Next()
		nb := qb.Next()
		if na != nb {
			h.ok(false, method, "iteration length differs after %d entities: generic next=%v, id-based next=%v", n, na, nb)
			if na {
				qa.Q.Close()
			}
			if nb {
				qb.Close()
			}
			return visited
		}
		if !na {
			break
		}
		n++
		ea, eb := qa.Q.Entity(), qb.Entity()
		visited = append(visited, ea)
		h.ok(ea == eb, method, "entity %d differs: generic %s, id-based %s", n-1, entStr(ea), entStr(eb))
		if qa.Get != nil {
			var ptrs []unsafe.Pointer
			rg := try(func() { ptrs = qa.Get() })
			if h.ok(!rg.panicked, method, "Get panicked: %s", rg.msg) && h.ok(len(ptrs) == len(posIDs), method, "Get returned %d values, want %d", len(ptrs), len(posIDs)) {
				for k := range posIDs {
					exp := qa.Q.Get(posIDs[k])
					h.ok(ptrs[k] == exp, method, "Get position %d (%s): pointer differs from Query.Get(id of type parameter %d)", k, typeTable[posTypes[k]].name, k)
					pb := qb.Get(p.ids[posTypes[k]])
					if h.ok((ptrs[k] == nil) == (pb == nil), method, "Get position %d (%s): generic nil=%v, id-based nil=%v", k, typeTable[posTypes[k]].name, ptrs[k] == nil, pb == nil) && pb != nil {
						va, vb := *(*int64)(ptrs[k]), *(*int64)(pb)
						h.ok(va == vb, method, "Get position %d (%s): value %d, id-based %d", k, typeTable[posTypes[k]].name, va, vb)
						h.ok(va == 0 || va%100 == int64(posTypes[k]), method, "Get position %d: value %d does not belong to type %s", k, va, typeTable[posTypes[k]].name)
					}
				}
			}
		}
		if qa.Relation != nil {
			var ta, tb ecs.Entity
			ra := try(func() { ta = qa.Relation() })
			rb := try(func() {
				if !hasRel {
					panic(modelPanic("query has no relation"))
				}
				tb = qb.Relation(rid)
			})
			if h.samePanic(method+".Relation", ra, rb) {
				h.ok(ta == tb, method, "Relation differs: generic %s, id-based %s", entStr(ta), entStr(tb))
			}
		}
		if h.broken {
			qa.Q.Close()
			qb.Close()
			return visited
		}
	}
	h.ok(n == ca, method, "Count %d but %d entities visited", ca, n)
	return visited
}

// closeQ closes a query that may be open, ignoring errors.
func closeQ(q *ecs.Query) {
	try(func() { q.Close() })
}

// ---------------------------------------------------------------------------
// main

func sanity() {
	for t := 0; t < nTypes; t++ {
		rt := typeTable[t].rt
		f, ok := rt.FieldByName("V")
		if !ok || f.Offset != 0 || rt.Size() != 8 {
			panic("harness: component type layout assumption violated for " + rt.Name())
		}
	}
}

// section runs one section; a panic escaping a section is a harness-level failure that is reported, not a crash.
func section(h *H, name string, f func()) {
	h.tag = ""
	h.broken = false
	h.ctx = name
	defer func() {
		if x := recover(); x != nil {
			h.cases++
			h.fails++
			fmt.Fprintf(h.out, "FAIL arity=%d iter=%d %s: unguarded panic: %v\n", h.arity, h.iter, name, x)
		}
	}()
	f()
}

func runIteration(h *H, seed int64, n, it int) {
	rng := rand.New(rand.NewSource(seed*1000003 + int64(n)*10007 + int64(it)))
	h.arity, h.iter = n, it
	if n >= 1 {
		section(h, "map/P", func() { mapSection(h, rng, n, 0) })
		section(h, "map/R", func() { mapSection(h, rng, n, 1) })
	}
	section(h, "filter/P", func() { filterSection(h, rng, n, 0) })
	if n >= 1 {
		section(h, "filter/R", func() { filterSection(h, rng, n, 1) })
	}
	section(h, "single", func() { singleSection(h, rng, n) })
	section(h, "exchange", func() { exchangeSection(h, rng) })
	section(h, "resource", func() { resourceSection(h, rng) })
	section(h, "registration", func() { registrationSection(h, rng, n) })
	if it == 0 {
		section(h, "K2", func() { k2Scenario(h, rng, n) })
		section(h, "K4", func() { k4Scenario(h, rng, n) })
	}
}

func main() {
	seed := flag.Int64("seed", 1, "random seed")
	iters := flag.Int("n", 20, "iterations per arity")
	arity := flag.Int("arity", -1, "restrict to one arity (0..12)")
	stats := flag.Bool("stats", false, "print per-method ok/panic counts to stderr")
	section := flag.String("section", "", "run only one section: resource")
	flag.Parse()

	out := bufio.NewWriter(os.Stdout)
	defer out.Flush()
	h := &H{out: out}
	if *stats {
		h.stats = map[string][2]int{}
	}
	sanity()
	if *section == "resource" {
		for it := 0; it < *iters*60; it++ {
			rng := rand.New(rand.NewSource(*seed*1000003 + int64(it)))
			h.ctx = fmt.Sprintf("resource iter=%d", it)
			resourceSection(h, rng)
			h.broken = false
		}
		fmt.Fprintf(out, "SUMMARY cases=%d fails=%d arities=resource\n", h.cases, h.fails)
		return
	}

	var arities []int
	if *arity >= 0 && *arity <= maxArity {
		arities = []int{*arity}
	} else {
		for n := 0; n <= maxArity; n++ {
			arities = append(arities, n)
		}
	}
	for _, n := range arities {
		for it := 0; it < *iters; it++ {
			runIteration(h, *seed, n, it)
		}
	}
	as := make([]string, len(arities))
	for i, n := range arities {
		as[i] = fmt.Sprint(n)
	}
	fmt.Fprintf(out, "SUMMARY cases=%d fails=%d arities=%s\n", h.cases, h.fails, strings.Join(as, ","))
	if h.stats != nil {
		keys := make([]string, 0, len(h.stats))
		for k := range h.stats {
			keys = append(keys, k)
		}
		sort.Strings(keys)
		for _, k := range keys {
			fmt.Fprintf(os.Stderr, "%-40s ok=%d panic=%d\n", k, h.stats[k][0], h.stats[k][1])
		}
	}
}

// ---------------------------------------------------------------------------
// (from sec_map.go)

// randVals returns distinct non-zero values whose last two digits name the type (position check).
func randVals(rng *rand.Rand, ts []int) []int64 {
	v := make([]int64, len(ts))
	for k, t := range ts {
		v[k] = int64(rng.Intn(9000)+1000)*1000000 + int64(k)*100 + int64(t)
	}
	return v
}

func compsFor(p *pair, ts []int, vals []int64) []ecs.Component {
	c := make([]ecs.Component, len(ts))
	for k, t := range ts {
		c[k] = ecs.Component{ID: p.ids[t], Comp: typeTable[t].mk(vals[k])}
	}
	return c
}

// mapSection: generic.MapN against World/Builder/Batch/Relations calls.
func mapSection(h *H, rng *rand.Rand, n, variant int) {
	params := paramTypes(n, variant)
	p := newPair(h, rng, params)
	if p.stop() {
		return
	}
	wa, wb := p.wa, p.wb

	// relation argument of NewMapN
	relArg := -1
	r := rng.Intn(10)
	if variant == 1 {
		switch r = rng.Intn(20); {
		case r < 16:
			relArg = tRel
		case r < 17:
		case r < 19:
			relArg = tRel2
		default:
			relArg = tX0
		}
	} else {
		switch r = rng.Intn(20); {
		case r < 8:
		case r < 17:
			relArg = tRel
		case r < 18:
			relArg = tRel2
		default:
			relArg = tX0
		}
	}
	hasRel := relArg >= 0
	var rid ecs.ID
	var relc []generic.Comp
	relName := "none"
	if hasRel {
		rid = p.ids[relArg]
		relc = []generic.Comp{tSingle[relArg]()}
		relName = typeTable[relArg].name
	}
	h.ctx = fmt.Sprintf("%s rel=%s", h.ctx, relName)

	var ma *mapAd
	rc := try(func() { ma = makeMapAd(n, variant, wa, relc...) })
	if !h.ok(!rc.panicked, fmt.Sprintf("NewMap%d", n), "constructor panicked: %s", rc.msg) {
		return
	}
	for k := range params {
		h.ok(ma.ids[k] == p.ids[params[k]], fmt.Sprintf("NewMap%d", n), "ComponentID of type parameter %d differs from TypeID", k)
	}
	ids := func() []ecs.ID { return p.idsOf(params) }
	paramHasRel := contains(params, tRel)
	// other relation type that would conflict when the params are added
	noConflict := func(r *rec) bool { return !paramHasRel || !r.has[tRel2] }

	ops := []string{"New", "NewWith", "NewBatch", "NewBatchQ", "Get", "GetUnchecked", "Add", "Assign",
		"Remove", "RemoveEntities", "AddBatch", "AddBatchQ", "RemoveBatch", "RemoveBatchQ"}
	rng.Shuffle(len(ops), func(i, j int) { ops[i], ops[j] = ops[j], ops[i] })
	for i := 0; i < 10; i++ {
		ops = append(ops, ops[rng.Intn(14)])
	}

	for _, op := range ops {
		p.background(rng.Intn(3))
		if p.stop() {
			return
		}
		m := fmt.Sprintf("Map%d.%s", n, op)
		relInParams := hasRel && contains(params, relArg)
		useful := relInParams
		if op[0] == 'R' {
			useful = hasRel && !relInParams
		} else if op[0] == 'A' && op != "Assign" {
			useful = hasRel // adding the relation itself, or adding to entities that have it
		}
		tg := p.optTarget(hasRel, useful)
		h.tag = ""
		if len(tg) > 0 {
			h.tag = "+target"
		}
		needRel := func() {
			if len(tg) > 0 && !hasRel {
				switch op {
				case "New", "NewBatch", "NewBatchQ":
					panic(modelPanic("map has no relation defined, can't set a target"))
				case "NewWith":
					panic(modelPanic("map has no relation defined"))
				}
				panic(modelPanic(fmt.Sprintf("can't set target entity: Map%d has no relation", n)))
			}
		}
		switch op {
		case "New":
			var ea, eb ecs.Entity
			ra := try(func() { ea = ma.New(tg...) })
			rb := try(func() {
				needRel()
				if len(tg) == 0 {
					eb = wb.NewEntity(ids()...)
				} else {
					eb = ecs.NewBuilder(wb, ids()...).WithRelation(rid).New(tg[0])
				}
			})
			if h.samePanic(m, ra, rb) {
				h.ok(ea == eb, m, "entity differs: generic %s, id-based %s", entStr(ea), entStr(eb))
			}
		case "NewWith":
			vals := randVals(rng, params)
			var ea, eb ecs.Entity
			ra := try(func() { ea = ma.NewWith(vals, tg...) })
			rb := try(func() {
				needRel()
				if len(tg) == 0 {
					eb = wb.NewEntityWith(compsFor(p, params, vals)...)
				} else {
					eb = ecs.NewBuilderWith(wb, compsFor(p, params, vals)...).WithRelation(rid).New(tg[0])
				}
			})
			if h.samePanic(m, ra, rb) && h.ok(ea == eb, m, "entity differs: generic %s, id-based %s", entStr(ea), entStr(eb)) {
				for k := range params {
					ptr := wa.Get(ea, p.ids[params[k]])
					h.ok(ptr != nil && *(*int64)(ptr) == vals[k], m, "value of argument %d not stored in component %s", k, typeTable[params[k]].name)
				}
			}
		case "NewBatch":
			c := 1 + rng.Intn(4)
			if rng.Intn(20) == 0 {
				c = 0
			}
			ra := try(func() { ma.NewBatch(c, tg...) })
			rb := try(func() {
				needRel()
				if len(tg) == 0 {
					ecs.NewBuilder(wb, ids()...).NewBatch(c)
				} else {
					ecs.NewBuilder(wb, ids()...).WithRelation(rid).NewBatch(c, tg[0])
				}
			})
			h.samePanic(m, ra, rb)
		case "NewBatchQ":
			c := 1 + rng.Intn(4)
			if rng.Intn(20) == 0 {
				c = 0
			}
			var qa *qAd
			var qb ecs.Query
			ra := try(func() { qa = ma.NewBatchQ(c, tg...) })
			rb := try(func() {
				needRel()
				if len(tg) == 0 {
					qb = ecs.NewBuilder(wb, ids()...).NewBatchQ(c)
				} else {
					qb = ecs.NewBuilder(wb, ids()...).WithRelation(rid).NewBatchQ(c, tg[0])
				}
			})
			p.finishQueries(m, ra, rb, qa, &qb, ma.ids, params, hasRel, rid)
		case "Get", "GetUnchecked":
			e := p.pickEntityArg()
			if rng.Intn(3) > 0 {
				if x, ok := p.pickWhere(func(r *rec) bool { return hasAll(r, params) }); ok {
					e = x
				}
			}
			if rng.Intn(25) == 0 {
				e = ecs.Entity{}
			}
			var pa, pb, exp []unsafe.Pointer
			ra := try(func() {
				if op == "Get" {
					pa = ma.Get(e)
				} else {
					pa = ma.GetUnchecked(e)
				}
			})
			rb := try(func() {
				for k := range params {
					if op == "Get" {
						pb = append(pb, wb.Get(e, p.ids[params[k]]))
						exp = append(exp, wa.Get(e, ma.ids[k]))
					} else {
						pb = append(pb, wb.GetUnchecked(e, p.ids[params[k]]))
						exp = append(exp, wa.GetUnchecked(e, ma.ids[k]))
					}
				}
			})
			if h.samePanic(m, ra, rb) && h.ok(len(pa) == len(params), m, "returned %d values", len(pa)) {
				for k := range params {
					nm := typeTable[params[k]].name
					h.ok(pa[k] == exp[k], m, "position %d (%s): pointer differs from World.Get(entity, id of type parameter %d)", k, nm, k)
					if h.ok((pa[k] == nil) == (pb[k] == nil), m, "position %d (%s): generic nil=%v, id-based nil=%v", k, nm, pa[k] == nil, pb[k] == nil) && pb[k] != nil {
						va, vb := *(*int64)(pa[k]), *(*int64)(pb[k])
						h.ok(va == vb, m, "position %d (%s): value %d, id-based %d", k, nm, va, vb)
						h.ok(va%100 == int64(params[k]), m, "position %d: value %d does not belong to type %s", k, va, nm)
					}
				}
			}
			continue // read-only: no sync needed
		case "Add", "Assign":
			e := p.pickEntityArg()
			if rng.Intn(5) > 0 {
				needHave := len(tg) > 0 && hasRel && !relInParams && typeTable[relArg].isRel && !(paramHasRel)
				comp := []int{tX0 + rng.Intn(3)}
				if needHave {
					comp = append(comp, relArg)
				}
				e = p.pickOrCreate(func(r *rec) bool {
					return hasNone(r, params) && noConflict(r) && (!needHave || r.has[relArg])
				}, comp)
			}
			if op == "Add" {
				ra := try(func() { ma.Add(e, tg...) })
				rb := try(func() {
					needRel()
					if len(tg) == 0 {
						wb.Add(e, ids()...)
					} else {
						wb.Relations().Exchange(e, ids(), nil, rid, tg[0])
					}
				})
				h.samePanic(m, ra, rb)
			} else {
				vals := randVals(rng, params)
				ra := try(func() { ma.Assign(e, vals) })
				rb := try(func() { wb.Assign(e, compsFor(p, params, vals)...) })
				if h.samePanic(m, ra, rb) {
					for k := range params {
						ptr := wa.Get(e, p.ids[params[k]])
						h.ok(ptr != nil && *(*int64)(ptr) == vals[k], m, "value of argument %d not stored in component %s", k, typeTable[params[k]].name)
					}
				}
			}
		case "Remove":
			e := p.pickEntityArg()
			if rng.Intn(5) > 0 {
				comp := append([]int{}, params...)
				if len(tg) > 0 && hasRel && !relInParams && typeTable[relArg].isRel && !paramHasRel {
					comp = append(comp, relArg)
				}
				e = p.pickOrCreate(func(r *rec) bool {
					return hasAll(r, params) && (len(tg) == 0 || !hasRel || relInParams || r.has[relArg])
				}, comp)
			}
			ra := try(func() { ma.Remove(e, tg...) })
			rb := try(func() {
				needRel()
				if len(tg) == 0 {
					wb.Remove(e, ids()...)
				} else {
					wb.Relations().Exchange(e, nil, ids(), rid, tg[0])
				}
			})
			h.samePanic(m, ra, rb)
		case "RemoveEntities":
			excl := rng.Intn(2) == 0
			var ca, cb int
			ra := try(func() { ca = ma.RemoveEntities(excl) })
			rb := try(func() {
				mask := ecs.All(ids()...)
				if excl {
					f := mask.Exclusive()
					cb = wb.Batch().RemoveEntities(&f)
				} else {
					cb = wb.Batch().RemoveEntities(mask)
				}
			})
			if h.samePanic(m, ra, rb) {
				h.ok(ca == cb, m, "count differs: generic %d, id-based %d", ca, cb)
			}
		case "AddBatch", "AddBatchQ", "RemoveBatch", "RemoveBatchQ":
			add := op[0] == 'A'
			var incl, excl []int
			if add {
				excl = append(excl, params...)
				if paramHasRel {
					excl = append(excl, tRel2)
				}
				if rng.Intn(2) == 0 {
					incl = append(incl, tX0+rng.Intn(3))
				}
				if len(tg) > 0 && hasRel && !contains(params, relArg) && rng.Intn(4) > 0 {
					incl = append(incl, relArg)
				}
			} else {
				incl = append(incl, params...)
				if hasRel && typeTable[relArg].isRel && !paramHasRel && (len(tg) > 0 || rng.Intn(2) == 0) && rng.Intn(4) > 0 {
					incl = append(incl, relArg)
				}
				if rng.Intn(3) == 0 {
					excl = append(excl, tX0+rng.Intn(3))
				}
			}
			if rng.Intn(12) == 0 { // arbitrary filter: panics expected on both sides
				incl, excl = nil, nil
			}
			kind := rng.Intn(4)
			fa, fb, cleanup := p.mkFilter(kind, incl, excl, p.pickUsedTarget())
			switch op {
			case "AddBatch":
				var ca, cb int
				ra := try(func() { ca = ma.AddBatch(fa, tg...) })
				rb := try(func() {
					needRel()
					if len(tg) == 0 {
						cb = wb.Batch().Add(fb, ids()...)
					} else {
						cb = wb.Relations().ExchangeBatch(fb, ids(), nil, rid, tg[0])
					}
				})
				if h.samePanic(m, ra, rb) {
					h.ok(ca == cb, m, "count differs: generic %d, id-based %d", ca, cb)
				}
			case "RemoveBatch":
				var ca, cb int
				ra := try(func() { ca = ma.RemoveBatch(fa, tg...) })
				rb := try(func() {
					needRel()
					if len(tg) == 0 {
						cb = wb.Batch().Remove(fb, ids()...)
					} else {
						cb = wb.Relations().ExchangeBatch(fb, nil, ids(), rid, tg[0])
					}
				})
				if h.samePanic(m, ra, rb) {
					h.ok(ca == cb, m, "count differs: generic %d, id-based %d", ca, cb)
				}
			case "AddBatchQ":
				var qa *qAd
				var qb ecs.Query
				ra := try(func() { qa = ma.AddBatchQ(fa, tg...) })
				rb := try(func() {
					needRel()
					if len(tg) == 0 {
						qb = wb.Batch().AddQ(fb, ids()...)
					} else {
						qb = wb.Relations().ExchangeBatchQ(fb, ids(), nil, rid, tg[0])
					}
				})
				p.finishQueries(m, ra, rb, qa, &qb, ma.ids, params, hasRel, rid)
			case "RemoveBatchQ":
				var qa *qAd
				var qb ecs.Query
				ra := try(func() { qa = ma.RemoveBatchQ(fa, tg...) })
				rb := try(func() {
					needRel()
					if len(tg) == 0 {
						qb = wb.Batch().RemoveQ(fb, ids()...)
					} else {
						qb = wb.Relations().ExchangeBatchQ(fb, nil, ids(), rid, tg[0])
					}
				})
				p.finishQueries(m, ra, rb, qa, &qb, nil, nil, hasRel, rid)
			}
			cleanup()
		}
		p.sync(m)
		if p.stop() {
			return
		}
	}
}

// finishQueries compares two freshly created batch queries (or closes the one that exists).
func (p *pair) finishQueries(m string, ra, rb res, qa *qAd, qb *ecs.Query, posIDs []ecs.ID, posTypes []int, hasRel bool, rid ecs.ID) {
	if p.h.samePanic(m, ra, rb) {
		p.cmpQueries(m, qa, qb, posIDs, posTypes, hasRel, rid, modeFull)
		return
	}
	if !ra.panicked && qa != nil {
		closeQ(qa.Q)
	}
	if !rb.panicked {
		closeQ(qb)
	}
}

// ---------------------------------------------------------------------------
// (from sec_filter.go)

// fmodel is the hand-written model of a generic filter's configuration.
type fmodel struct {
	params     []int
	with       []int
	without    []int
	optional   []int
	exclusive  bool
	hasRelType bool
	relType    int
	hasFixed   bool
	fixed      ecs.Entity
	registered bool
	cfB        ecs.CachedFilter // registration in world B
}

// include returns the required components: (type parameters + With) minus Optional.
func (m *fmodel) include() [nTypes]bool {
	var s [nTypes]bool
	for _, t := range m.params {
		s[t] = true
	}
	for _, t := range m.with {
		s[t] = true
	}
	for _, t := range m.optional {
		s[t] = false
	}
	return s
}

// compilePanics: the relation component must be required by the filter and be a relation type.
func (m *fmodel) compilePanics() bool {
	if !m.hasRelType {
		return false
	}
	inc := m.include()
	return !inc[m.relType] || !typeTable[m.relType].isRel
}

// compileMessage is the message of the panic predicted by compilePanics.
func (m *fmodel) compileMessage() string {
	inc := m.include()
	if !inc[m.relType] {
		return fmt.Sprintf("relation component %v not in filter", typeTable[m.relType].rt)
	}
	return fmt.Sprintf("component type %v is not a relation", typeTable[m.relType].rt)
}

// coreFilter builds the equivalent core filter from the current configuration.
func (m *fmodel) coreFilter(p *pair, qt []ecs.Entity) ecs.Filter {
	inc := m.include()
	var incl ecs.Mask
	for t := 0; t < nTypes; t++ {
		if inc[t] {
			incl.Set(p.ids[t], true)
		}
	}
	mf := &ecs.MaskFilter{Include: incl}
	if m.exclusive {
		*mf = incl.Exclusive()
	} else {
		mf.Exclude = ecs.All(p.idsOf(m.without)...)
	}
	if m.hasRelType && m.hasFixed {
		rf := ecs.NewRelationFilter(mf, m.fixed)
		return &rf
	}
	if len(qt) > 0 {
		rf := ecs.NewRelationFilter(mf, qt[0])
		return &rf
	}
	return mf
}

// expected computes the matching entities by brute force from the last dump.
func (m *fmodel) expected(p *pair, qt []ecs.Entity) int {
	inc := m.include()
	cnt := 0
	for i := range p.recs {
		r := &p.recs[i]
		ok := true
		for t := 0; t < nTypes && ok; t++ {
			if inc[t] && !r.has[t] {
				ok = false
			}
			if m.exclusive && !inc[t] && r.has[t] {
				ok = false
			}
		}
		if !m.exclusive {
			for _, t := range m.without {
				if r.has[t] {
					ok = false
				}
			}
		}
		if ok && m.hasRelType && m.hasFixed {
			ok = !r.hasRel || r.tgt == m.fixed
		} else if ok && len(qt) > 0 {
			ok = !r.hasRel || r.tgt == qt[0]
		}
		if ok {
			cnt++
		}
	}
	return cnt
}

func (m *fmodel) String() string {
	s := fmt.Sprintf("with=[%s] without=[%s] optional=[%s] exclusive=%v", namesOf(m.with), namesOf(m.without), namesOf(m.optional), m.exclusive)
	if m.hasRelType {
		s += " relation=" + typeTable[m.relType].name
		if m.hasFixed {
			s += " fixed=" + entStr(m.fixed)
		}
	}
	if m.registered {
		s += " registered"
	}
	return s
}

func pickSome(rng *rand.Rand, pool []int, max int) []int {
	if len(pool) == 0 {
		return nil
	}
	k := 1 + rng.Intn(max)
	var out []int
	for i := 0; i < k; i++ {
		t := pool[rng.Intn(len(pool))]
		if !contains(out, t) {
			out = append(out, t)
		}
	}
	return out
}

// filterSection: generic.FilterN/QueryN against hand-built core filters.
func filterSection(h *H, rng *rand.Rand, n, variant int) {
	params := paramTypes(n, variant)
	focus := append([]int{}, params...)
	if !contains(focus, tRel) && rng.Intn(2) == 0 {
		focus = append(focus, tRel)
	}
	p := newPair(h, rng, focus)
	if p.stop() {
		return
	}
	wa, wb := p.wa, p.wb
	var fa *filtAd
	rc := try(func() { fa = makeFiltAd(n, variant, wa) })
	if !h.ok(!rc.panicked, fmt.Sprintf("NewFilter%d", n), "constructor panicked: %s", rc.msg) {
		return
	}
	for k := range params {
		h.ok(fa.ids[k] == p.ids[params[k]], fmt.Sprintf("NewFilter%d", n), "ComponentID of type parameter %d differs from TypeID", k)
	}
	m := &fmodel{params: params}
	var others []int
	for t := 0; t < nTypes; t++ {
		if !contains(params, t) {
			others = append(others, t)
		}
	}
	name := func(s string) string { return fmt.Sprintf("Filter%d.%s", n, s) }

	// builder applies one random builder call to the generic filter and the model.
	builder := func() {
		ops := []string{"With", "With", "Without", "Without", "Optional", "Optional", "Exclusive", "WithRelation", "WithRelation"}
		op := ops[rng.Intn(len(ops))]
		if op == "Optional" && fa.Optional == nil {
			op = "With"
		}
		if (op == "Exclusive" || op == "Without") && rng.Intn(4) == 0 {
			op = "With"
		}
		forceRel := false
		if !m.registered && (m.compilePanics() || !m.hasRelType) && rng.Intn(10) < 3 {
			// steer towards a valid relation configuration
			forceRel = true
			if m.include()[tRel] {
				op = "WithRelation"
			} else {
				op = "With"
			}
		}
		mname := name(op)
		switch op {
		case "With":
			ts := pickSome(rng, others, 2)
			if !m.include()[tRel] && (forceRel || rng.Intn(10) < 3) {
				ts = []int{tRel}
			}
			if rng.Intn(10) == 0 && len(params) > 0 {
				ts = append(ts, params[rng.Intn(len(params))])
			}
			ra := try(func() { fa.With(compsOf(ts)...) })
			rb := try(func() {
				if m.registered {
					panic(modelPanic("can't modify a registered filter"))
				}
				m.with = append(m.with, ts...)
			})
			h.samePanic(mname, ra, rb)
		case "Without":
			var pool []int
			inc := m.include()
			for _, t := range others {
				if !inc[t] {
					pool = append(pool, t)
				}
			}
			if rng.Intn(8) == 0 || len(pool) == 0 {
				pool = others
			}
			ts := pickSome(rng, pool, 2)
			ra := try(func() { fa.Without(compsOf(ts)...) })
			rb := try(func() {
				if m.registered {
					panic(modelPanic("can't modify a registered filter"))
				}
				if m.exclusive {
					panic(modelPanic("filter is already exclusive"))
				}
				m.without = append(m.without, ts...)
			})
			h.samePanic(mname, ra, rb)
		case "Optional":
			var ts []int
			switch r := rng.Intn(10); {
			case r < 7 && len(params) > 0:
				ts = pickSome(rng, params, 2)
			case r < 9 && len(m.with) > 0:
				ts = pickSome(rng, m.with, 1)
			default:
				ts = pickSome(rng, others, 1)
			}
			ra := try(func() { fa.Optional(compsOf(ts)...) })
			rb := try(func() {
				if m.registered {
					panic(modelPanic("can't modify a registered filter"))
				}
				m.optional = append(m.optional, ts...)
			})
			h.samePanic(mname, ra, rb)
		case "Exclusive":
			ra := try(func() { fa.Exclusive() })
			rb := try(func() {
				if m.registered {
					panic(modelPanic("can't modify a registered filter"))
				}
				if len(m.without) > 0 {
					panic(modelPanic("filter already excludes some components"))
				}
				m.exclusive = true
			})
			h.samePanic(mname, ra, rb)
		case "WithRelation":
			rt := tRel
			r := rng.Intn(20)
			if forceRel {
				r = 0
			}
			switch {
			case r < 16:
			case r < 18:
				rt = tRel2
			case r < 19:
				rt = tX0
			default:
				if len(params) > 0 {
					rt = params[0]
				} else {
					rt = tX0 + 1
				}
			}
			var tg []ecs.Entity
			if rng.Intn(3) == 0 {
				tg = []ecs.Entity{p.pickUsedTarget()}
			}
			ra := try(func() { fa.WithRelation(tSingle[rt](), tg...) })
			rb := try(func() {
				if m.registered {
					panic(modelPanic("can't modify a registered filter"))
				}
				m.hasRelType, m.relType = true, rt
				if len(tg) > 0 {
					m.hasFixed, m.fixed = true, tg[0]
				}
			})
			h.samePanic(mname, ra, rb)
		}
	}

	query := func() {
		var qt []ecs.Entity
		if m.hasRelType {
			r := rng.Intn(100)
			if !m.hasFixed && !m.registered {
				if r < 60 {
					qt = []ecs.Entity{p.pickUsedTarget()}
				}
			} else if r < 15 {
				qt = []ecs.Entity{p.pickUsedTarget()} // documented-illegal: expect a panic
			}
		}
		// witnesses: make sure some entities match the current configuration
		if !m.compilePanics() && rng.Intn(10) < 7 {
			inc := m.include()
			for i := 1 + rng.Intn(2); i > 0; i-- {
				var comp []int
				rels := 0
				for t := 0; t < nTypes; t++ {
					take := inc[t]
					if !take && !m.exclusive && !contains(m.without, t) {
						if contains(m.params, t) {
							take = rng.Intn(2) == 0 // optional parameter: present or absent
						} else if !typeTable[t].isRel {
							take = rng.Intn(6) == 0
						}
					}
					if take {
						comp = append(comp, t)
						if typeTable[t].isRel {
							rels++
						}
					}
				}
				if rels > 1 {
					break
				}
				tg := ecs.Entity{}
				want := ecs.Entity{}
				if m.hasRelType && m.hasFixed {
					want = m.fixed
				} else if len(qt) > 0 {
					want = qt[0]
				} else if x, ok := p.pickAlive(); ok {
					want = x
				}
				for j := range p.recs {
					if p.recs[j].e == want {
						tg = want // alive
					}
				}
				p.createT(comp, tg)
			}
		}
		useFilter := rng.Intn(5) == 0
		mname := name("Query")
		if useFilter {
			mname = name("Filter")
		}
		var qa *qAd
		var qb ecs.Query
		ra := try(func() {
			if useFilter {
				f := fa.Filter(wa, qt...)
				q := wa.Query(f)
				qa = &qAd{Q: &q}
			} else {
				qa = fa.Query(wa, qt...)
			}
		})
		rb := try(func() {
			if m.compilePanics() {
				panic(modelPanic(m.compileMessage()))
			}
			if len(qt) > 0 && m.registered {
				panic(modelPanic("can't change relation target on a cached query"))
			}
			if len(qt) > 0 && m.hasFixed {
				panic(modelPanic("can't change relation target on a query with fixed target"))
			}
			if m.registered {
				qb = wb.Query(&m.cfB)
			} else {
				qb = wb.Query(m.coreFilter(p, qt))
			}
		})
		if !h.samePanic(mname, ra, rb) {
			if !ra.panicked && qa != nil {
				closeQ(qa.Q)
			}
			if !rb.panicked {
				closeQ(&qb)
			}
			return
		}
		exp := m.expected(p, qt)
		cb := qb.Count()
		h.ok(cb == exp, mname, "core filter count %d differs from brute-force evaluation %d of configuration {%s}", cb, exp, m.String())
		mode := modeFull
		if r := rng.Intn(10); r == 0 {
			mode = modeCount
		} else if r == 1 {
			mode = modePartial
		}
		var rid ecs.ID
		if m.hasRelType {
			rid = p.ids[m.relType]
		}
		before := h.fails
		vis := p.cmpQueries(mname, qa, &qb, fa.ids, params, m.hasRelType, rid, mode)
		if h.stats != nil {
			key := name("visited/queries")
			if m.hasRelType {
				key = name("visited/queries (relation)")
			}
			st := h.stats[key]
			st[0] += len(vis)
			st[1]++
			h.stats[key] = st
			if len(m.optional) > 0 {
				st := h.stats[name("visited/queries (optional)")]
				st[0] += len(vis)
				st[1]++
				h.stats[name("visited/queries (optional)")] = st
			}
		}
		if h.fails != before {
			fmt.Fprintf(h.out, "  (configuration at that query: {%s})\n", m.String())
		}
	}

	register := func() {
		if m.registered || rng.Intn(3) == 0 {
			mname := name("Unregister")
			ra := try(func() { fa.Unregister(wa) })
			rb := try(func() {
				if !m.registered {
					panic(modelPanic("can't unregister a filter that is not cached"))
				}
				wb.Cache().Unregister(&m.cfB)
				m.registered = false
			})
			h.samePanic(mname, ra, rb)
			if rng.Intn(3) > 0 {
				return
			}
		}
		mname := name("Register")
		ra := try(func() { fa.Register(wa) })
		rb := try(func() {
			if m.compilePanics() {
				panic(modelPanic(m.compileMessage()))
			}
			if m.registered {
				wb.Cache().Register(&m.cfB) // panics: already registered
			}
			m.cfB = wb.Cache().Register(m.coreFilter(p, nil))
			m.registered = true
		})
		h.samePanic(mname, ra, rb)
	}

	// builder calls before the first query (sometimes none at all)
	for i := rng.Intn(4); i > 0; i-- {
		builder()
		if p.stop() {
			return
		}
	}
	steps := 14 + rng.Intn(8)
	for i := 0; i < steps; i++ {
		if rng.Intn(3) == 0 {
			p.background(1 + rng.Intn(2))
		}
		if p.stop() {
			return
		}
		switch r := rng.Intn(100); {
		case r < 40:
			query()
		case r < 80:
			builder()
			if rng.Intn(5) > 0 && !p.stop() {
				query() // a query immediately after a builder call: must reflect the new configuration
			}
		case r < 90:
			register()
			if !p.stop() {
				query()
			}
		default:
			// register twice / builder on registered filter
			register()
			if !p.stop() {
				builder()
			}
		}
		p.sync(name("step"))
		if p.stop() {
			return
		}
	}
	if m.registered {
		try(func() { fa.Unregister(wa) })
		try(func() { wb.Cache().Unregister(&m.cfB) })
	}
}

// k2Scenario: two queries opened from one filter with different targets before iterating the first.
func k2Scenario(h *H, rng *rand.Rand, n int) {
	wa, _ := newWorlds(rng)
	variant := 0
	if n >= 1 {
		variant = 1
	}
	params := paramTypes(n, variant)
	var ids [nTypes]ecs.ID
	for t := 0; t < nTypes; t++ {
		ids[t] = ecs.TypeID(wa, typeTable[t].rt)
	}
	t1 := wa.NewEntity()
	t2 := wa.NewEntity()
	comp := append([]int{}, params...)
	if !contains(comp, tRel) {
		comp = append(comp, tRel)
	}
	cids := make([]ecs.ID, len(comp))
	for i, t := range comp {
		cids[i] = ids[t]
	}
	var want1, want2 []ecs.Entity
	for i := 0; i < 2; i++ {
		want1 = append(want1, ecs.NewBuilder(wa, cids...).WithRelation(ids[tRel]).New(t1))
	}
	for i := 0; i < 3; i++ {
		want2 = append(want2, ecs.NewBuilder(wa, cids...).WithRelation(ids[tRel]).New(t2))
	}
	var got1, got2 []ecs.Entity
	r := try(func() {
		fa := makeFiltAd(n, variant, wa)
		if n == 0 {
			fa.With(tSingle[tRel]())
		}
		fa.WithRelation(tSingle[tRel]())
		q1 := fa.Query(wa, t1)
		q2 := fa.Query(wa, t2)
		for q1.Q.Next() {
			got1 = append(got1, q1.Q.Entity())
		}
		for q2.Q.Next() {
			got2 = append(got2, q2.Q.Entity())
		}
	})
	if !h.named(!r.panicked, "K2 shared-relation-filter", "scenario panicked: %s", r.msg) {
		return
	}
	h.named(entsStr(got1) == entsStr(want1), "K2 shared-relation-filter",
		"q1 := Query(w, target1), then q2 := Query(w, target2), then iterating q1 yields %s, want the children of target1 %s", entsStr(got1), entsStr(want1))
	h.named(entsStr(got2) == entsStr(want2), "K2 shared-relation-filter",
		"q2 yields %s, want the children of target2 %s", entsStr(got2), entsStr(want2))
}

// k4Scenario: Query(w, target) on a filter without WithRelation is documented to panic.
func k4Scenario(h *H, rng *rand.Rand, n int) {
	wa, _ := newWorlds(rng)
	params := paramTypes(n, 0)
	var ids []ecs.ID
	for _, t := range params {
		ids = append(ids, ecs.TypeID(wa, typeTable[t].rt))
	}
	t1 := wa.NewEntity()
	wa.NewEntity(ids...)
	var q *qAd
	r := try(func() {
		fa := makeFiltAd(n, 0, wa)
		q = fa.Query(wa, t1)
	})
	if q != nil {
		closeQ(q.Q)
	}
	h.named(r.panicked, "K4 query-target-without-relation",
		"Query(w, target) on a filter on which WithRelation was never called did not panic, although FilterN.Query documents a panic for that case")
	// same for Filter()
	r = try(func() {
		fa := makeFiltAd(n, 0, wa)
		fa.Filter(wa, t1)
	})
	h.named(r.panicked, "K4 query-target-without-relation",
		"Filter(w, target) on a filter on which WithRelation was never called did not panic, although FilterN.Filter documents a panic for that case")
}

// ---------------------------------------------------------------------------
// (from sec_misc.go)

// singleSection: generic.Map[T] against World.Get/Has/Set and Relations/Batch calls.
func singleSection(h *H, rng *rand.Rand, n int) {
	t := rng.Intn(nTypes)
	if rng.Intn(2) == 0 {
		t = tRel + rng.Intn(2)
	}
	p := newPair(h, rng, []int{t})
	if p.stop() {
		return
	}
	h.ctx = "single type=" + typeTable[t].name
	wa, wb := p.wa, p.wb
	id := p.ids[t]
	var sa *singleAd
	rc := try(func() { sa = singleMakers[t](wa) })
	if !h.ok(!rc.panicked, "NewMap", "constructor panicked: %s", rc.msg) {
		return
	}
	ops := []string{"ID", "Get", "GetUnchecked", "Has", "HasUnchecked", "Set", "GetRelation", "GetRelationUnchecked",
		"SetRelation", "SetRelationBatch", "SetRelationBatchQ"}
	rng.Shuffle(len(ops), func(i, j int) { ops[i], ops[j] = ops[j], ops[i] })
	for i := 0; i < 5; i++ {
		ops = append(ops, ops[rng.Intn(11)])
	}
	for _, op := range ops {
		p.background(rng.Intn(2))
		if p.stop() {
			return
		}
		m := "Map." + op
		e := p.pickEntityArg()
		if rng.Intn(3) > 0 {
			if x, ok := p.pickWhere(func(r *rec) bool { return r.has[t] }); ok {
				e = x
			}
		}
		if rng.Intn(30) == 0 {
			e = ecs.Entity{}
		}
		mutating := false
		switch op {
		case "ID":
			var ia ecs.ID
			ra := try(func() { ia = sa.ID() })
			if h.ok(!ra.panicked, m, "panicked: %s", ra.msg) {
				h.ok(ia == id, m, "differs from ecs.TypeID")
			}
		case "Get", "GetUnchecked":
			var pa, pb, exp unsafe.Pointer
			ra := try(func() {
				if op == "Get" {
					pa = sa.Get(e)
				} else {
					pa = sa.GetUnchecked(e)
				}
			})
			rb := try(func() {
				if op == "Get" {
					pb, exp = wb.Get(e, id), wa.Get(e, id)
				} else {
					pb, exp = wb.GetUnchecked(e, id), wa.GetUnchecked(e, id)
				}
			})
			if h.samePanic(m, ra, rb) {
				h.ok(pa == exp, m, "pointer differs from World.%s", op)
				if h.ok((pa == nil) == (pb == nil), m, "generic nil=%v, id-based nil=%v", pa == nil, pb == nil) && pb != nil {
					h.ok(*(*int64)(pa) == *(*int64)(pb), m, "value %d, id-based %d", *(*int64)(pa), *(*int64)(pb))
				}
			}
		case "Has", "HasUnchecked":
			var ba, bb bool
			ra := try(func() {
				if op == "Has" {
					ba = sa.Has(e)
				} else {
					ba = sa.HasUnchecked(e)
				}
			})
			rb := try(func() {
				if op == "Has" {
					bb = wb.Has(e, id)
				} else {
					bb = wb.HasUnchecked(e, id)
				}
			})
			if h.samePanic(m, ra, rb) {
				h.ok(ba == bb, m, "generic %v, id-based %v", ba, bb)
			}
		case "Set":
			mutating = true
			v := randVals(rng, []int{t})[0]
			var pa unsafe.Pointer
			ra := try(func() { pa = sa.Set(e, v) })
			rb := try(func() { wb.Set(e, id, typeTable[t].mk(v)) })
			if h.samePanic(m, ra, rb) {
				h.ok(pa != nil && pa == wa.Get(e, id), m, "returned pointer differs from World.Get")
				h.ok(pa != nil && *(*int64)(pa) == v, m, "value not stored")
			}
		case "GetRelation", "GetRelationUnchecked":
			var ta, tb ecs.Entity
			ra := try(func() {
				if op == "GetRelation" {
					ta = sa.GetRelation(e)
				} else {
					ta = sa.GetRelationUnchecked(e)
				}
			})
			rb := try(func() {
				if op == "GetRelation" {
					tb = wb.Relations().Get(e, id)
				} else {
					tb = wb.Relations().GetUnchecked(e, id)
				}
			})
			if h.samePanic(m, ra, rb) {
				h.ok(ta == tb, m, "generic %s, id-based %s", entStr(ta), entStr(tb))
			}
		case "SetRelation":
			mutating = true
			tg := p.pickTarget()
			ra := try(func() { sa.SetRelation(e, tg) })
			rb := try(func() { wb.Relations().Set(e, id, tg) })
			h.samePanic(m, ra, rb)
		case "SetRelationBatch", "SetRelationBatchQ":
			mutating = true
			tg := p.pickTarget()
			incl := []int{t}
			var excl []int
			if rng.Intn(3) == 0 {
				excl = []int{tX0 + rng.Intn(3)}
			}
			if rng.Intn(10) == 0 {
				incl = nil
			}
			fa, fb, cleanup := p.mkFilter(rng.Intn(4), incl, excl, p.pickUsedTarget())
			if op == "SetRelationBatch" {
				var ca, cb int
				ra := try(func() { ca = sa.SetRelationBatch(fa, tg) })
				rb := try(func() { cb = wb.Batch().SetRelation(fb, id, tg) })
				if h.samePanic(m, ra, rb) {
					h.ok(ca == cb, m, "count differs: generic %d, id-based %d", ca, cb)
				}
			} else {
				var qa *qAd
				var qb ecs.Query
				ra := try(func() { qa = sa.SetRelationBatchQ(fa, tg) })
				rb := try(func() { qb = wb.Batch().SetRelationQ(fb, id, tg) })
				p.finishQueries(m, ra, rb, qa, &qb, []ecs.ID{id}, []int{t}, true, id)
			}
			cleanup()
		}
		if mutating {
			p.sync(m)
		}
		if p.stop() {
			return
		}
	}
}

// exchangeSection: generic.Exchange against World.Add/Remove/Exchange, Builder, Batch and Relations.
func exchangeSection(h *H, rng *rand.Rand) {
	// model
	var add, rem []int
	hasRel := false
	relT := 0

	nonRel := []int{0, 1, 2, 3, 4, 5, tX0, tX0 + 1, tX0 + 2}
	pickCfg := func() (a, r []int, rel int) {
		perm := rng.Perm(len(nonRel))
		na, nr := 1+rng.Intn(3), 1+rng.Intn(3)
		if rng.Intn(8) == 0 {
			na = 0
		}
		if rng.Intn(8) == 0 {
			nr = 0
		}
		for i := 0; i < na; i++ {
			a = append(a, nonRel[perm[i]])
		}
		for i := 0; i < nr; i++ {
			r = append(r, nonRel[perm[na+i]])
		}
		rel = -1
		switch x := rng.Intn(10); {
		case x < 3: // relation among the added components
			rel = tRel
			a = append(a, tRel)
		case x < 5: // relation expected on the entity already
			rel = tRel
		case x < 6: // relation removed
			rel = tRel
			r = append(r, tRel)
		case x < 7:
			rel = tRel2
		case x < 8:
			rel = tX0 // not a relation
		}
		if rng.Intn(15) == 0 && len(a) > 0 {
			r = append(r, a[0]) // add and remove the same component: panics on both sides
		}
		return
	}
	a0, r0, rel0 := pickCfg()
	focus := append([]int{}, r0...)
	if rel0 == tRel && !contains(a0, tRel) && !contains(focus, tRel) {
		focus = append(focus, tRel)
	}
	p := newPair(h, rng, focus)
	if p.stop() {
		return
	}
	wa, wb := p.wa, p.wb
	ex := generic.NewExchange(wa)

	configure := func(a, r []int, rel int) {
		calls := []string{"Adds", "Removes"}
		if rel >= 0 {
			calls = append(calls, "WithRelation")
		}
		if rng.Intn(4) == 0 {
			calls = append(calls, "Adds") // a second Adds call must keep the relation on the builder
		}
		rng.Shuffle(len(calls), func(i, j int) { calls[i], calls[j] = calls[j], calls[i] })
		for _, c := range calls {
			var rc res
			switch c {
			case "Adds":
				if len(a) == 0 && rng.Intn(2) == 0 && len(add) == 0 {
					continue
				}
				rc = try(func() {
					if ex.Adds(compsOf(a)...) != ex {
						panic("harness: Adds did not return its receiver")
					}
				})
				add = a
			case "Removes":
				if len(r) == 0 && rng.Intn(2) == 0 && len(rem) == 0 {
					continue
				}
				rc = try(func() {
					if ex.Removes(compsOf(r)...) != ex {
						panic("harness: Removes did not return its receiver")
					}
				})
				rem = r
			case "WithRelation":
				rc = try(func() {
					if ex.WithRelation(tSingle[rel]()) != ex {
						panic("harness: WithRelation did not return its receiver")
					}
				})
				hasRel, relT = true, rel
			}
			h.ok(!rc.panicked, "Exchange."+c, "panicked: %s", rc.msg)
		}
	}
	configure(a0, r0, rel0)

	ops := []string{"NewEntity", "Add", "Remove", "Exchange", "ExchangeBatch"}
	for round := 0; round < 2; round++ {
		h.ctx = fmt.Sprintf("exchange adds=[%s] removes=[%s] rel=%v/%s", namesOf(add), namesOf(rem), hasRel, typeTable[relT].name)
		seq := append([]string{}, ops...)
		rng.Shuffle(len(seq), func(i, j int) { seq[i], seq[j] = seq[j], seq[i] })
		for i := 0; i < 3; i++ {
			seq = append(seq, ops[rng.Intn(len(ops))])
		}
		for _, op := range seq {
			p.background(rng.Intn(3))
			if p.stop() {
				return
			}
			m := "Exchange." + op
			useful := hasRel
			if op == "NewEntity" {
				useful = hasRel && contains(add, relT)
			} else if op == "Remove" {
				useful = hasRel && !contains(rem, relT)
			}
			tg := p.optTarget(hasRel, useful)
			h.tag = ""
			if len(tg) > 0 {
				h.tag = "+target"
			}
			rid := p.ids[relT]
			addIDs := func() []ecs.ID { return p.idsOf(add) }
			remIDs := func() []ecs.ID { return p.idsOf(rem) }
			needRel := func() {
				if len(tg) > 0 && !hasRel {
					panic(modelPanic("can't set target entity: Exchange has no relation"))
				}
			}
			relOK := func(r *rec) bool {
				if contains(add, tRel) && (r.has[tRel2] || (r.has[tRel] && !contains(rem, tRel))) {
					return false
				}
				if len(tg) > 0 && hasRel && !contains(add, relT) {
					return r.has[relT] && !contains(rem, relT)
				}
				return true
			}
			e := p.pickEntityArg()
			var pred func(r *rec) bool
			switch op {
			case "Add":
				pred = func(r *rec) bool { return hasNone(r, add) && relOK(r) }
			case "Remove":
				pred = func(r *rec) bool { return hasAll(r, rem) && relOK(r) }
			case "Exchange":
				pred = func(r *rec) bool { return hasNone(r, add) && hasAll(r, rem) && relOK(r) }
			}
			if pred != nil && rng.Intn(5) > 0 {
				var comp []int
				if op != "Add" {
					comp = append(comp, rem...)
				}
				if len(tg) > 0 && hasRel && typeTable[relT].isRel && !contains(add, relT) && !contains(comp, relT) && !contains(comp, tRel) && !contains(comp, tRel2) {
					comp = append(comp, relT)
				}
				if len(comp) == 0 {
					for _, t := range []int{6, 7, 8} {
						if !contains(add, t) {
							comp = append(comp, t)
						}
					}
				}
				e = p.pickOrCreate(pred, comp)
			}
			switch op {
			case "NewEntity":
				var ea, eb ecs.Entity
				ra := try(func() { ea = ex.NewEntity(tg...) })
				rb := try(func() {
					needRel()
					if len(tg) == 0 {
						eb = wb.NewEntity(addIDs()...)
					} else {
						eb = ecs.NewBuilder(wb, addIDs()...).WithRelation(rid).New(tg[0])
					}
				})
				if h.samePanic(m, ra, rb) {
					h.ok(ea == eb, m, "entity differs: generic %s, id-based %s", entStr(ea), entStr(eb))
				}
			case "Add":
				ra := try(func() { ex.Add(e, tg...) })
				rb := try(func() {
					needRel()
					if len(tg) == 0 {
						wb.Add(e, addIDs()...)
					} else {
						wb.Relations().Exchange(e, addIDs(), nil, rid, tg[0])
					}
				})
				h.samePanic(m, ra, rb)
			case "Remove":
				ra := try(func() { ex.Remove(e, tg...) })
				rb := try(func() {
					needRel()
					if len(tg) == 0 {
						wb.Remove(e, remIDs()...)
					} else {
						wb.Relations().Exchange(e, nil, remIDs(), rid, tg[0])
					}
				})
				h.samePanic(m, ra, rb)
			case "Exchange":
				ra := try(func() { ex.Exchange(e, tg...) })
				rb := try(func() {
					needRel()
					if len(tg) == 0 {
						wb.Exchange(e, addIDs(), remIDs())
					} else {
						wb.Relations().Exchange(e, addIDs(), remIDs(), rid, tg[0])
					}
				})
				h.samePanic(m, ra, rb)
			case "ExchangeBatch":
				incl := append([]int{}, rem...)
				excl := append([]int{}, add...)
				if contains(add, tRel) {
					excl = append(excl, tRel2)
					if !contains(rem, tRel) {
						excl = append(excl, tRel)
					}
				}
				if len(tg) > 0 && hasRel && !contains(add, relT) && !contains(incl, relT) {
					incl = append(incl, relT)
				}
				if rng.Intn(12) == 0 {
					incl, excl = nil, nil
				}
				fa, fb, cleanup := p.mkFilter(rng.Intn(4), incl, excl, p.pickUsedTarget())
				var ca, cb int
				ra := try(func() { ca = ex.ExchangeBatch(fa, tg...) })
				rb := try(func() {
					needRel()
					if len(tg) == 0 {
						cb = wb.Batch().Exchange(fb, addIDs(), remIDs())
					} else {
						cb = wb.Relations().ExchangeBatch(fb, addIDs(), remIDs(), rid, tg[0])
					}
				})
				if h.samePanic(m, ra, rb) {
					h.ok(ca == cb, m, "count differs: generic %d, id-based %d", ca, cb)
				}
				cleanup()
			}
			p.sync(m)
			if p.stop() {
				return
			}
		}
		// reconfigure the same Exchange object
		a, r, rel := pickCfg()
		if rel < 0 && hasRel {
			rel = relT // a relation cannot be unset
		}
		p.focus = append([]int{}, r...)
		if rel == tRel && !contains(a, tRel) && !contains(p.focus, tRel) {
			p.focus = append(p.focus, tRel)
		}
		configure(a, r, rel)
	}
}

// ifacePtr extracts the pointer stored in an interface value.
func ifacePtr(x interface{}) unsafe.Pointer {
	if x == nil {
		return nil
	}
	return reflect.ValueOf(x).UnsafePointer()
}

// resourceSection: generic.Resource[T] against World.Resources().
func resourceSection(h *H, rng *rand.Rand) {
	wa, wb := newWorlds(rng)
	k := 2 + rng.Intn(3)
	ts := rng.Perm(nTypes)[:k]
	ads := make([]*resAd, k)
	idb := make([]ecs.ResID, k)
	last := make([]unsafe.Pointer, k) // pointer handed to generic Add
	lastB := make([]unsafe.Pointer, k)
	for i, t := range ts {
		rc := try(func() { ads[i] = resourceMakers[t](wa) })
		if !h.ok(!rc.panicked, "NewResource", "constructor panicked: %s", rc.msg) {
			return
		}
		idb[i] = ecs.ResourceTypeID(wb, typeTable[t].rt)
	}
	for step := 0; step < 22; step++ {
		i := rng.Intn(k)
		t := ts[i]
		h.ctx = "resource type=" + typeTable[t].name
		ops := []string{"ID", "Add", "Remove", "Get", "Has", "Get", "ExtAdd", "ExtRemove", "Get", "Has", "Reset"}
		op := ops[rng.Intn(len(ops))]
		m := "Resource." + op
		switch op {
		case "ID":
			var ia ecs.ResID
			ra := try(func() { ia = ads[i].ID() })
			if h.ok(!ra.panicked, m, "panicked: %s", ra.msg) {
				h.ok(ia == idb[i], m, "differs from ecs.ResourceTypeID with the same registration order")
			}
		case "Add":
			v := randVals(rng, []int{t})[0]
			var pa unsafe.Pointer
			ra := try(func() { pa = ads[i].Add(v) })
			var pb interface{}
			rb := try(func() {
				pb = typeTable[t].mk(v)
				wb.Resources().Add(idb[i], pb)
			})
			if h.samePanic(m, ra, rb) {
				last[i], lastB[i] = pa, ifacePtr(pb)
			}
		case "Remove":
			ra := try(func() { ads[i].Remove() })
			rb := try(func() { wb.Resources().Remove(idb[i]) })
			if h.samePanic(m, ra, rb) {
				last[i], lastB[i] = nil, nil
			}
		case "Get":
			var pa, pb unsafe.Pointer
			ra := try(func() { pa = ads[i].Get() })
			rb := try(func() { pb = ifacePtr(wb.Resources().Get(idb[i])) })
			if h.samePanic(m, ra, rb) {
				h.ok(pa == last[i], m, "generic Get returned %v, want the pointer that was added (%v; nil if absent)", pa, last[i])
				h.ok(pb == lastB[i], m, "Resources.Get returned a different pointer than was added")
				h.ok(pa == ifacePtr(wa.Resources().Get(idb[i])), m, "generic Get differs from Resources().Get on the same world")
				if pa != nil && pb != nil {
					h.ok(*(*int64)(pa) == *(*int64)(pb), m, "value differs")
				}
			}
		case "ExtAdd":
			// the resource is added behind the mapper's back, through the world's own API
			v := randVals(rng, []int{t})[0]
			var oa, ob interface{}
			ra := try(func() {
				oa = typeTable[t].mk(v)
				wa.Resources().Add(ecs.ResourceTypeID(wa, typeTable[t].rt), oa)
			})
			rb := try(func() {
				ob = typeTable[t].mk(v)
				wb.Resources().Add(idb[i], ob)
			})
			if h.samePanic(m, ra, rb) {
				last[i], lastB[i] = ifacePtr(oa), ifacePtr(ob)
			}
		case "ExtRemove":
			ra := try(func() { wa.Resources().Remove(ecs.ResourceTypeID(wa, typeTable[t].rt)) })
			rb := try(func() { wb.Resources().Remove(idb[i]) })
			if h.samePanic(m, ra, rb) {
				last[i], lastB[i] = nil, nil
			}
		case "Reset":
			if rng.Intn(3) != 0 {
				continue
			}
			ra := try(func() { wa.Reset() })
			rb := try(func() { wb.Reset() })
			if h.samePanic(m, ra, rb) {
				for j := range last {
					last[j], lastB[j] = nil, nil
				}
			}
		case "Has":
			var ba, bb bool
			ra := try(func() { ba = ads[i].Has() })
			rb := try(func() { bb = wb.Resources().Has(idb[i]) })
			if h.samePanic(m, ra, rb) {
				h.ok(ba == bb, m, "generic %v, id-based %v", ba, bb)
			}
		}
		if h.broken {
			return
		}
	}
}

// registryOf lists the registered component types in ID order.
func registryOf(w *ecs.World) string {
	s := ""
	for _, id := range ecs.ComponentIDs(w) {
		info, _ := ecs.ComponentInfo(w, id)
		s += fmt.Sprintf("%s(rel=%v) ", info.Type.Name(), info.IsRelation)
	}
	return s
}

// registrationSection: constructors register component types lazily in the order of the type
// parameters (then the relation); generic.T/T1..T12 return the reflect types in order.
func registrationSection(h *H, rng *rand.Rand, n int) {
	// generic.TN
	var tl []generic.Comp
	rc := try(func() { tl = tList(n) })
	if h.ok(!rc.panicked && len(tl) == n, fmt.Sprintf("T%d", n), "returned %d types (panic=%v)", len(tl), rc.panicked) {
		for k := 0; k < n; k++ {
			h.ok(tl[k] == generic.Comp(typeTable[k].rt), fmt.Sprintf("T%d", n), "position %d is %v, want %s", k, tl[k], typeTable[k].name)
		}
	}
	for t := 0; t < nTypes; t++ {
		h.ok(tSingle[t]() == generic.Comp(typeTable[t].rt), "T", "generic.T[%s]() is not reflect.TypeOf(%s{})", typeTable[t].name, typeTable[t].name)
	}
	if n == 0 {
		return
	}
	variant := rng.Intn(2)
	params := paramTypes(n, variant)
	wa, wb := newWorlds(rng)
	rel := []int{-1, tRel2, tRel, tX0}[rng.Intn(4)]
	m := fmt.Sprintf("NewMap%d", n)
	ra := try(func() {
		if rel >= 0 {
			makeMapAd(n, variant, wa, tSingle[rel]())
		} else {
			makeMapAd(n, variant, wa)
		}
	})
	for _, t := range params {
		ecs.TypeID(wb, typeTable[t].rt)
	}
	if rel >= 0 {
		ecs.TypeID(wb, typeTable[rel].rt)
	}
	if h.ok(!ra.panicked, m, "constructor panicked: %s", ra.msg) {
		ga, gb := registryOf(wa), registryOf(wb)
		h.ok(ga == gb, m, "component registration differs: generic [%s], id-based [%s]", ga, gb)
	}
	// Map[T] and filters on fresh worlds
	wa, wb = newWorlds(rng)
	t := rng.Intn(nTypes)
	ra = try(func() { singleMakers[t](wa) })
	ecs.TypeID(wb, typeTable[t].rt)
	if h.ok(!ra.panicked, "NewMap", "constructor panicked: %s", ra.msg) {
		ga, gb := registryOf(wa), registryOf(wb)
		h.ok(ga == gb, "NewMap", "component registration differs: generic [%s], id-based [%s]", ga, gb)
	}
}
