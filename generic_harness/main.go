// generic_harness: differential test of arche's generic API against the ID-based core API.
//
// Twin worlds: world A is driven through package generic, world B through the
// documented ID-based equivalents. After every step the results and a full dump
// of both worlds are compared. See README.md.
package main

import (
	"bufio"
	"flag"
	"fmt"
	"math/rand"
	"os"
	"reflect"
	"sort"
	"strings"
	"unsafe"

	"github.com/mlange-42/arche/ecs"
	"github.com/mlange-42/arche/ecs/event"
	"github.com/mlange-42/arche/generic"
)

// ---------------------------------------------------------------------------
// adapter types (filled by generated code in arity_generated.go)

type typeInfo struct {
	name  string
	rt    reflect.Type
	isRel bool
	mk    func(v int64) interface{}
}

// qAd adapts a generic.QueryN.
type qAd struct {
	Q        *ecs.Query
	Get      func() []unsafe.Pointer
	Relation func() ecs.Entity
}

// mapAd adapts a generic.MapN.
type mapAd struct {
	n              int
	ids            []ecs.ID // ecs.ComponentID of the k-th type parameter
	New            func(t ...ecs.Entity) ecs.Entity
	NewWith        func(v []int64, t ...ecs.Entity) ecs.Entity
	NewBatch       func(c int, t ...ecs.Entity)
	NewBatchQ      func(c int, t ...ecs.Entity) *qAd
	Get            func(e ecs.Entity) []unsafe.Pointer
	GetUnchecked   func(e ecs.Entity) []unsafe.Pointer
	Add            func(e ecs.Entity, t ...ecs.Entity)
	Assign         func(e ecs.Entity, v []int64)
	Remove         func(e ecs.Entity, t ...ecs.Entity)
	RemoveEntities func(x bool) int
	AddBatch       func(f ecs.Filter, t ...ecs.Entity) int
	AddBatchQ      func(f ecs.Filter, t ...ecs.Entity) *qAd
	RemoveBatch    func(f ecs.Filter, t ...ecs.Entity) int
	RemoveBatchQ   func(f ecs.Filter, t ...ecs.Entity) *qAd
}

// filtAd adapts a generic.FilterN.
type filtAd struct {
	n            int
	ids          []ecs.ID
	With         func(c ...generic.Comp)
	Without      func(c ...generic.Comp)
	Optional     func(c ...generic.Comp) // nil for arity 0
	Exclusive    func()
	WithRelation func(c generic.Comp, t ...ecs.Entity)
	Filter       func(w *ecs.World, t ...ecs.Entity) ecs.Filter
	Query        func(w *ecs.World, t ...ecs.Entity) *qAd
	Register     func(w *ecs.World)
	Unregister   func(w *ecs.World)
}

// singleAd adapts a generic.Map[T].
type singleAd struct {
	ID                   func() ecs.ID
	Get                  func(e ecs.Entity) unsafe.Pointer
	GetUnchecked         func(e ecs.Entity) unsafe.Pointer
	Has                  func(e ecs.Entity) bool
	HasUnchecked         func(e ecs.Entity) bool
	Set                  func(e ecs.Entity, v int64) unsafe.Pointer
	GetRelation          func(e ecs.Entity) ecs.Entity
	GetRelationUnchecked func(e ecs.Entity) ecs.Entity
	SetRelation          func(e, t ecs.Entity)
	SetRelationBatch     func(f ecs.Filter, t ecs.Entity) int
	SetRelationBatchQ    func(f ecs.Filter, t ecs.Entity) *qAd
}

// resAd adapts a generic.Resource[T].
type resAd struct {
	ID     func() ecs.ResID
	Add    func(v int64) unsafe.Pointer // returns the pointer that was handed to Add
	Remove func()
	Get    func() unsafe.Pointer
	Has    func() bool
}

// mk creates a component value of type T with V = v.
func mk[T any](v int64) *T {
	var t T
	*(*int64)(unsafe.Pointer(&t)) = v
	return &t
}

func newSingleAd[T any](w *ecs.World) *singleAd {
	m := generic.NewMap[T](w)
	ad := &singleAd{}
	ad.ID = func() ecs.ID { return m.ID() }
	ad.Get = func(e ecs.Entity) unsafe.Pointer { return unsafe.Pointer(m.Get(e)) }
	ad.GetUnchecked = func(e ecs.Entity) unsafe.Pointer { return unsafe.Pointer(m.GetUnchecked(e)) }
	ad.Has = func(e ecs.Entity) bool { return m.Has(e) }
	ad.HasUnchecked = func(e ecs.Entity) bool { return m.HasUnchecked(e) }
	ad.Set = func(e ecs.Entity, v int64) unsafe.Pointer { return unsafe.Pointer(m.Set(e, mk[T](v))) }
	ad.GetRelation = func(e ecs.Entity) ecs.Entity { return m.GetRelation(e) }
	ad.GetRelationUnchecked = func(e ecs.Entity) ecs.Entity { return m.GetRelationUnchecked(e) }
	ad.SetRelation = func(e, t ecs.Entity) { m.SetRelation(e, t) }
	ad.SetRelationBatch = func(f ecs.Filter, t ecs.Entity) int { return m.SetRelationBatch(f, t) }
	ad.SetRelationBatchQ = func(f ecs.Filter, t ecs.Entity) *qAd {
		q := m.SetRelationBatchQ(f, t)
		return wrapQ1(&q)
	}
	return ad
}

func newResAd[T any](w *ecs.World) *resAd {
	r := generic.NewResource[T](w)
	ad := &resAd{}
	ad.ID = func() ecs.ResID { return r.ID() }
	ad.Add = func(v int64) unsafe.Pointer {
		p := mk[T](v)
		r.Add(p)
		return unsafe.Pointer(p)
	}
	ad.Remove = func() { r.Remove() }
	ad.Get = func() unsafe.Pointer { return unsafe.Pointer(r.Get()) }
	ad.Has = func() bool { return r.Has() }
	return ad
}

// ---------------------------------------------------------------------------
// harness state

// H collects results.
type H struct {
	out    *bufio.Writer
	cases  int
	fails  int
	arity  int
	iter   int
	ctx    string
	broken bool // a FAIL occurred in the current section: abandon it
	tag    string // statistics only
	stats  map[string][2]int
}

// ok records one check.
func (h *H) ok(cond bool, method, format string, args ...interface{}) bool {
	h.cases++
	if !cond {
		h.fails++
		h.broken = true
		fmt.Fprintf(h.out, "FAIL arity=%d iter=%d %s %s: %s\n", h.arity, h.iter, h.ctx, method, fmt.Sprintf(format, args...))
	}
	return cond
}

// named records one check of a named scenario with a fixed description prefix.
func (h *H) named(cond bool, name, format string, args ...interface{}) bool {
	h.cases++
	if !cond {
		h.fails++
		fmt.Fprintf(h.out, "FAIL %s: arity=%d %s\n", name, h.arity, fmt.Sprintf(format, args...))
	}
	return cond
}

type modelPanic string

type res struct {
	panicked bool
	model    bool
	msg      string
}

// try runs f and reports whether it panicked.
func try(f func()) (r res) {
	defer func() {
		if x := recover(); x != nil {
			r.panicked = true
			if mp, ok := x.(modelPanic); ok {
				r.model = true
				r.msg = string(mp)
			} else {
				r.msg = fmt.Sprint(x)
			}
		}
	}()
	f()
	return
}

// samePanic checks panic parity of the generic call (ra) and the ID-based call (rb).
// Returns true if neither panicked, i.e. results can be compared.
func (h *H) samePanic(method string, ra, rb res) bool {
	if h.stats != nil {
		key := method + h.tag
		s := h.stats[key]
		if ra.panicked {
			s[1]++
			mk := key + " :: " + ra.msg
			ms := h.stats[mk]
			ms[1]++
			h.stats[mk] = ms
		} else {
			s[0]++
		}
		h.stats[key] = s
	}
	if !h.ok(ra.panicked == rb.panicked, method, "panic mismatch: generic panicked=%v (%q), id-based panicked=%v (%q)", ra.panicked, ra.msg, rb.panicked, rb.msg) {
		return false
	}
	if ra.panicked {
		// model panics carry the message of the generic-level validation they stand for
		h.ok(ra.msg == rb.msg, method, "panic message differs: generic %q, expected %q", ra.msg, rb.msg)
		return false
	}
	return true
}

func entStr(e ecs.Entity) string { return fmt.Sprintf("(%d,%d)", e.ID(), e.Generation()) }

func entsStr(es []ecs.Entity) string {
	s := make([]string, len(es))
	for i, e := range es {
		s[i] = entStr(e)
	}
	return "[" + strings.Join(s, " ") + "]"
}

// ---------------------------------------------------------------------------
// twin worlds

type rec struct {
	e      ecs.Entity
	has    [nTypes]bool
	v      [nTypes]int64
	hasRel bool
	tgt    ecs.Entity
}

func (r *rec) String() string {
	var sb strings.Builder
	sb.WriteString(entStr(r.e))
	sb.WriteString("{")
	for t := 0; t < nTypes; t++ {
		if r.has[t] {
			fmt.Fprintf(&sb, "%s=%d ", typeTable[t].name, r.v[t])
		}
	}
	if r.hasRel {
		sb.WriteString("->" + entStr(r.tgt))
	}
	sb.WriteString("}")
	return sb.String()
}

type evLog struct {
	p  *pair
	ev []string
}

func (l *evLog) Notify(w *ecs.World, e ecs.EntityEvent) {
	var sb strings.Builder
	fmt.Fprintf(&sb, "%s t=%d +", entStr(e.Entity), e.EventTypes)
	for t := 0; t < nTypes; t++ {
		if e.Added.Get(l.p.ids[t]) {
			sb.WriteString(typeTable[t].name + ",")
		}
	}
	sb.WriteString(" -")
	for t := 0; t < nTypes; t++ {
		if e.Removed.Get(l.p.ids[t]) {
			sb.WriteString(typeTable[t].name + ",")
		}
	}
	sb.WriteString(" a[")
	for _, id := range e.AddedIDs {
		sb.WriteString(l.p.typeName(id) + ",")
	}
	sb.WriteString("] r[")
	for _, id := range e.RemovedIDs {
		sb.WriteString(l.p.typeName(id) + ",")
	}
	sb.WriteString("]")
	if e.OldRelation != nil {
		sb.WriteString(" old=" + l.p.typeName(*e.OldRelation))
	}
	if e.NewRelation != nil {
		sb.WriteString(" new=" + l.p.typeName(*e.NewRelation))
	}
	sb.WriteString(" ot=" + entStr(e.OldTarget))
	l.ev = append(l.ev, sb.String())
}
func (l *evLog) Subscriptions() event.Subscription { return event.All }
func (l *evLog) Components() *ecs.Mask             { return nil }

type pair struct {
	h       *H
	rng     *rand.Rand
	wa, wb  *ecs.World
	ids     [nTypes]ecs.ID
	la, lb  *evLog
	recs    []rec
	dead    []ecs.Entity
	focus   []int
	abandon bool
}

func (p *pair) typeName(id ecs.ID) string {
	for t := 0; t < nTypes; t++ {
		if p.ids[t] == id {
			return typeTable[t].name
		}
	}
	return "?"
}

// newWorlds creates two empty worlds with identical configuration.
func newWorlds(rng *rand.Rand) (*ecs.World, *ecs.World) {
	inc := []int{2, 4, 16, 128}[rng.Intn(4)]
	rinc := []int{0, 1, 4}[rng.Intn(3)]
	cfg := ecs.NewConfig().WithCapacityIncrement(inc).WithRelationCapacityIncrement(rinc)
	wa := ecs.NewWorld(cfg)
	wb := ecs.NewWorld(cfg)
	return &wa, &wb
}

// newPair creates twin worlds with all component types registered in the same random order,
// optionally a recording listener on both, and a random identical initial population.
func newPair(h *H, rng *rand.Rand, focus []int) *pair {
	p := &pair{h: h, rng: rng, focus: focus}
	p.wa, p.wb = newWorlds(rng)
	for _, t := range rng.Perm(nTypes) {
		ia := ecs.TypeID(p.wa, typeTable[t].rt)
		ib := ecs.TypeID(p.wb, typeTable[t].rt)
		if ia != ib {
			panic("harness: twin registration differs")
		}
		p.ids[t] = ia
	}
	if rng.Intn(2) == 0 {
		p.la = &evLog{p: p}
		p.lb = &evLog{p: p}
		p.wa.SetListener(p.la)
		p.wb.SetListener(p.lb)
	}
	p.background(8 + rng.Intn(10))
	return p
}

// stampValue is the canonical value of component type t on entity e: distinct per entity and type.
func stampValue(e ecs.Entity, t int) int64 {
	return (int64(e.Generation())*100000+int64(e.ID())+1)*100 + int64(t)
}

// dump returns the canonical content of a world in query order. Components whose V is still
// zero are recorded as zero and then stamped with stampValue.
func (p *pair) dump(w *ecs.World) []rec {
	var out []rec
	q := w.Query(ecs.All())
	for q.Next() {
		r := rec{e: q.Entity()}
		for t := 0; t < nTypes; t++ {
			id := p.ids[t]
			if !q.Has(id) {
				continue
			}
			r.has[t] = true
			ptr := (*int64)(q.Get(id))
			r.v[t] = *ptr
			if *ptr == 0 {
				*ptr = stampValue(r.e, t)
			}
			if typeTable[t].isRel {
				r.hasRel = true
				r.tgt = q.Relation(id)
			}
		}
		out = append(out, r)
	}
	return out
}

// sync compares both worlds (content, events, lock state) and refreshes the entity bookkeeping.
func (p *pair) sync(method string) bool {
	h := p.h
	da := p.dump(p.wa)
	db := p.dump(p.wb)
	good := true
	if len(da) != len(db) {
		good = h.ok(false, method, "world state differs: %d alive entities via generic, %d via ids", len(da), len(db))
	} else {
		diff := -1
		for i := range da {
			if da[i] != db[i] {
				diff = i
				break
			}
		}
		if diff >= 0 {
			good = h.ok(false, method, "world state differs at row %d: generic %s, id-based %s", diff, da[diff].String(), db[diff].String())
		} else {
			h.ok(true, method, "")
		}
	}
	if p.la != nil {
		same := len(p.la.ev) == len(p.lb.ev)
		first := ""
		if same {
			for i := range p.la.ev {
				if p.la.ev[i] != p.lb.ev[i] {
					same = false
					first = fmt.Sprintf("event %d: generic %q, id-based %q", i, p.la.ev[i], p.lb.ev[i])
					break
				}
			}
		} else {
			first = fmt.Sprintf("%d events via generic, %d via ids", len(p.la.ev), len(p.lb.ev))
		}
		if !h.ok(same, method, "listener events differ: %s", first) {
			good = false
		}
		p.la.ev = p.la.ev[:0]
		p.lb.ev = p.lb.ev[:0]
	}
	lka, lkb := p.wa.IsLocked(), p.wb.IsLocked()
	if !h.ok(lka == lkb, method, "lock state differs: generic world locked=%v, id-based world locked=%v", lka, lkb) {
		good = false
	}
	if lka || lkb {
		p.abandon = true
	}
	// bookkeeping: previously alive handles that disappeared are dead now
	now := make(map[ecs.Entity]bool, len(da))
	for i := range da {
		now[da[i].e] = true
	}
	for i := range p.recs {
		if !now[p.recs[i].e] {
			p.dead = append(p.dead, p.recs[i].e)
		}
	}
	if len(p.dead) > 12 {
		p.dead = p.dead[len(p.dead)-12:]
	}
	p.recs = da
	return good
}

func (p *pair) stop() bool { return p.h.broken || p.abandon }

// --- pickers

func (p *pair) pickAlive() (ecs.Entity, bool) {
	if len(p.recs) == 0 {
		return ecs.Entity{}, false
	}
	return p.recs[p.rng.Intn(len(p.recs))].e, true
}

func (p *pair) pickWhere(pred func(r *rec) bool) (ecs.Entity, bool) {
	var c []ecs.Entity
	for i := range p.recs {
		if pred(&p.recs[i]) {
			c = append(c, p.recs[i].e)
		}
	}
	if len(c) == 0 {
		return ecs.Entity{}, false
	}
	return c[p.rng.Intn(len(c))], true
}

func (p *pair) pickDead() (ecs.Entity, bool) {
	if len(p.dead) == 0 {
		return ecs.Entity{}, false
	}
	return p.dead[p.rng.Intn(len(p.dead))], true
}

// pickTarget: alive (70%), zero (20%), dead (10%).
func (p *pair) pickTarget() ecs.Entity {
	r := p.rng.Intn(20)
	if r < 14 {
		if e, ok := p.pickAlive(); ok {
			return e
		}
		return ecs.Entity{}
	}
	if r < 18 {
		return ecs.Entity{}
	}
	if e, ok := p.pickDead(); ok {
		return e
	}
	return ecs.Entity{}
}

// pickUsedTarget prefers an entity that currently is a relation target.
func (p *pair) pickUsedTarget() ecs.Entity {
	if p.rng.Intn(10) < 6 {
		var c []ecs.Entity
		for i := range p.recs {
			if p.recs[i].hasRel && !p.recs[i].tgt.IsZero() {
				c = append(c, p.recs[i].tgt)
			}
		}
		if len(c) > 0 {
			return c[p.rng.Intn(len(c))]
		}
	}
	return p.pickTarget()
}

// pickEntityArg: alive (85%) or dead (15%).
func (p *pair) pickEntityArg() ecs.Entity {
	if p.rng.Intn(100) < 15 {
		if e, ok := p.pickDead(); ok {
			return e
		}
	}
	e, _ := p.pickAlive()
	return e
}

func (p *pair) idsOf(ts []int) []ecs.ID {
	out := make([]ecs.ID, len(ts))
	for i, t := range ts {
		out[i] = p.ids[t]
	}
	return out
}

func compsOf(ts []int) []generic.Comp {
	out := make([]generic.Comp, len(ts))
	for i, t := range ts {
		out[i] = tSingle[t]()
	}
	return out
}

func hasAll(r *rec, ts []int) bool {
	for _, t := range ts {
		if !r.has[t] {
			return false
		}
	}
	return true
}

func hasNone(r *rec, ts []int) bool {
	for _, t := range ts {
		if r.has[t] {
			return false
		}
	}
	return true
}

func contains(ts []int, t int) bool {
	for _, x := range ts {
		if x == t {
			return true
		}
	}
	return false
}

func namesOf(ts []int) string {
	s := make([]string, len(ts))
	for i, t := range ts {
		s[i] = typeTable[t].name
	}
	return strings.Join(s, ",")
}

// create makes an entity with exactly the given component types in both worlds (ID-based),
// with a random alive or zero target if it has a relation, and returns it.
func (p *pair) create(ts []int) ecs.Entity {
	tg := ecs.Entity{}
	if x, ok := p.pickAlive(); ok && p.rng.Intn(10) < 7 {
		tg = x
	}
	return p.createT(ts, tg)
}

// createT is create with a given relation target (must be alive or zero).
func (p *pair) createT(ts []int, tg ecs.Entity) ecs.Entity {
	ids := p.idsOf(ts)
	rel := -1
	for _, t := range ts {
		if typeTable[t].isRel {
			rel = t
		}
	}
	var out ecs.Entity
	p.both(func(w *ecs.World) {
		if rel >= 0 {
			out = ecs.NewBuilder(w, append([]ecs.ID{}, ids...)...).WithRelation(p.ids[rel]).New(tg)
		} else {
			out = w.NewEntity(append([]ecs.ID{}, ids...)...)
		}
	})
	p.refresh()
	return out
}

// pickOrCreate picks an entity satisfying pred, or creates one with the given composition.
func (p *pair) pickOrCreate(pred func(r *rec) bool, ts []int) ecs.Entity {
	if x, ok := p.pickWhere(pred); ok {
		return x
	}
	return p.create(ts)
}

// both applies the same ID-based operation to both worlds.
func (p *pair) both(f func(w *ecs.World)) {
	ra := try(func() { f(p.wa) })
	rb := try(func() { f(p.wb) })
	if ra.panicked != rb.panicked {
		p.h.ok(false, "background", "same id-based call panicked in one world only: %q / %q", ra.msg, rb.msg)
	}
}

// background applies k random ID-based operations identically to both worlds, then syncs.
func (p *pair) background(k int) {
	if k <= 0 {
		return
	}
	rng := p.rng
	for i := 0; i < k; i++ {
		if i > 0 || p.recs != nil {
			// keep bookkeeping fresh without counting extra cases too often
			p.refresh()
		}
		n := len(p.recs)
		op := rng.Intn(10)
		if n < 6 {
			op = 0
		} else if n > 40 {
			op = 3
		}
		switch {
		case op <= 2: // new entity
			ts := p.randomComposition()
			ids := p.idsOf(ts)
			rel := -1
			for _, t := range ts {
				if typeTable[t].isRel {
					rel = t
				}
			}
			if rel >= 0 && rng.Intn(10) < 7 {
				tg := ecs.Entity{}
				if e, ok := p.pickAlive(); ok && rng.Intn(10) < 8 {
					tg = e
				}
				rid := p.ids[rel]
				p.both(func(w *ecs.World) {
					ecs.NewBuilder(w, append([]ecs.ID{}, ids...)...).WithRelation(rid).New(tg)
				})
			} else if rng.Intn(4) == 0 {
				c := 2 + rng.Intn(3)
				p.both(func(w *ecs.World) { ecs.NewBuilder(w, append([]ecs.ID{}, ids...)...).NewBatch(c) })
			} else {
				p.both(func(w *ecs.World) { w.NewEntity(append([]ecs.ID{}, ids...)...) })
			}
		case op == 3 || op == 4: // remove entity
			if e, ok := p.pickAlive(); ok {
				p.both(func(w *ecs.World) { w.RemoveEntity(e) })
			}
		case op == 5 || op == 6: // add components
			if len(p.recs) > 0 {
				r := p.recs[rng.Intn(len(p.recs))]
				var add []int
				for t := 0; t < nTypes; t++ {
					if !r.has[t] && rng.Intn(5) == 0 && !(typeTable[t].isRel && r.hasRel) {
						add = append(add, t)
						if typeTable[t].isRel {
							r.hasRel = true
						}
					}
				}
				if len(add) > 0 {
					ids := p.idsOf(add)
					p.both(func(w *ecs.World) { w.Add(r.e, ids...) })
				}
			}
		case op == 7: // remove components
			if len(p.recs) > 0 {
				r := p.recs[rng.Intn(len(p.recs))]
				var rem []int
				for t := 0; t < nTypes; t++ {
					if r.has[t] && rng.Intn(4) == 0 {
						rem = append(rem, t)
					}
				}
				if len(rem) > 0 {
					ids := p.idsOf(rem)
					p.both(func(w *ecs.World) { w.Remove(r.e, ids...) })
				}
			}
		default: // set relation target
			if e, ok := p.pickWhere(func(r *rec) bool { return r.hasRel }); ok {
				rel := tRel
				for i := range p.recs {
					if p.recs[i].e == e && p.recs[i].has[tRel2] {
						rel = tRel2
					}
				}
				tg := ecs.Entity{}
				if x, ok := p.pickAlive(); ok && rng.Intn(10) < 8 {
					tg = x
				}
				rid := p.ids[rel]
				p.both(func(w *ecs.World) { w.Relations().Set(e, rid, tg) })
			}
		}
	}
	p.sync("background")
}

// refresh re-reads world A without comparing (used between background operations).
func (p *pair) refresh() {
	da := p.dump(p.wa)
	p.dump(p.wb) // stamp identically
	now := make(map[ecs.Entity]bool, len(da))
	for i := range da {
		now[da[i].e] = true
	}
	for i := range p.recs {
		if !now[p.recs[i].e] {
			p.dead = append(p.dead, p.recs[i].e)
		}
	}
	if len(p.dead) > 12 {
		p.dead = p.dead[len(p.dead)-12:]
	}
	p.recs = da
}

// randomComposition picks component types for a new background entity, biased by p.focus.
func (p *pair) randomComposition() []int {
	rng := p.rng
	var set [nTypes]bool
	mode := rng.Intn(100)
	switch {
	case mode < 35:
		for _, t := range p.focus {
			set[t] = true
		}
	case mode < 60:
	case mode < 85:
		for _, t := range p.focus {
			set[t] = true
		}
		for i := 0; i < 1+rng.Intn(2) && len(p.focus) > 0; i++ {
			set[p.focus[rng.Intn(len(p.focus))]] = false
		}
	default:
		for _, t := range p.focus {
			set[t] = rng.Intn(2) == 0
		}
	}
	for t := 0; t < nTypes; t++ {
		if !contains(p.focus, t) && rng.Intn(100) < 30 {
			set[t] = true
		}
	}
	if set[tRel] && set[tRel2] {
		if contains(p.focus, tRel2) && !contains(p.focus, tRel) {
			set[tRel] = false
		} else {
			set[tRel2] = false
		}
	}
	var ts []int
	for t := 0; t < nTypes; t++ {
		if set[t] {
			ts = append(ts, t)
		}
	}
	rng.Shuffle(len(ts), func(i, j int) { ts[i], ts[j] = ts[j], ts[i] })
	return ts
}

// optTarget returns the optional relation target argument.
// Without a relation on the generic helper a target is passed rarely (expected panic).
func (p *pair) optTarget(hasRel bool, useful bool) []ecs.Entity {
	r := p.rng.Intn(100)
	if hasRel {
		if r < 60 && (useful || r < 8) {
			return []ecs.Entity{p.pickTarget()}
		}
		return nil
	}
	if r < 10 {
		return []ecs.Entity{p.pickTarget()}
	}
	return nil
}

// mkFilter builds the same logical core filter for both worlds. kind: 0 Mask/MaskFilter,
// 1 MaskFilter, 2 RelationFilter, 3 cached MaskFilter. The returned cleanup unregisters.
func (p *pair) mkFilter(kind int, incl, excl []int, target ecs.Entity) (fa, fb ecs.Filter, cleanup func()) {
	build := func(w *ecs.World) (ecs.Filter, func()) {
		mf := ecs.MaskFilter{Include: ecs.All(p.idsOf(incl)...), Exclude: ecs.All(p.idsOf(excl)...)}
		switch kind {
		case 0:
			if len(excl) == 0 {
				return mf.Include, func() {}
			}
			return &mf, func() {}
		case 2:
			rf := ecs.NewRelationFilter(&mf, target)
			return &rf, func() {}
		case 3:
			cf := w.Cache().Register(&mf)
			return &cf, func() { try(func() { w.Cache().Unregister(&cf) }) }
		}
		return &mf, func() {}
	}
	fa, ca := build(p.wa)
	fb, cb := build(p.wb)
	return fa, fb, func() { ca(); cb() }
}

// ---------------------------------------------------------------------------
// query comparison

const (
	modeFull = iota
	modePartial
	modeCount
)

// cmpQueries iterates a generic query on world A and the equivalent core query on world B in
// lock-step. posIDs/posTypes describe the type parameters by position.
func (p *pair) cmpQueries(method string, qa *qAd, qb *ecs.Query, posIDs []ecs.ID, posTypes []int, hasRel bool, rid ecs.ID, mode int) (visited []ecs.Entity) {
	h := p.h
	ca, cb := qa.Q.Count(), qb.Count()
	h.ok(ca == cb, method, "Count differs: generic %d, id-based %d", ca, cb)
	if mode == modeCount {
		qa.Q.Close()
		qb.Close()
		return nil
	}
	limit := -1
	if mode == modePartial {
		limit = p.rng.Intn(3)
	}
	n := 0
	for {
		if limit >= 0 && n >= limit {
			qa.Q.Close()
			qb.Close()
			return visited
		}
		na := qa.Q.Next()
		nb := qb.Next()
		if na != nb {
			h.ok(false, method, "iteration length differs after %d entities: generic next=%v, id-based next=%v", n, na, nb)
			if na {
				qa.Q.Close()
			}
			if nb {
				qb.Close()
			}
			return visited
		}
		if !na {
			break
		}
		n++
		ea, eb := qa.Q.Entity(), qb.Entity()
		visited = append(visited, ea)
		h.ok(ea == eb, method, "entity %d differs: generic %s, id-based %s", n-1, entStr(ea), entStr(eb))
		if qa.Get != nil {
			var ptrs []unsafe.Pointer
			rg := try(func() { ptrs = qa.Get() })
			if h.ok(!rg.panicked, method, "Get panicked: %s", rg.msg) && h.ok(len(ptrs) == len(posIDs), method, "Get returned %d values, want %d", len(ptrs), len(posIDs)) {
				for k := range posIDs {
					exp := qa.Q.Get(posIDs[k])
					h.ok(ptrs[k] == exp, method, "Get position %d (%s): pointer differs from Query.Get(id of type parameter %d)", k, typeTable[posTypes[k]].name, k)
					pb := qb.Get(p.ids[posTypes[k]])
					if h.ok((ptrs[k] == nil) == (pb == nil), method, "Get position %d (%s): generic nil=%v, id-based nil=%v", k, typeTable[posTypes[k]].name, ptrs[k] == nil, pb == nil) && pb != nil {
						va, vb := *(*int64)(ptrs[k]), *(*int64)(pb)
						h.ok(va == vb, method, "Get position %d (%s): value %d, id-based %d", k, typeTable[posTypes[k]].name, va, vb)
						h.ok(va == 0 || va%100 == int64(posTypes[k]), method, "Get position %d: value %d does not belong to type %s", k, va, typeTable[posTypes[k]].name)
					}
				}
			}
		}
		if qa.Relation != nil {
			var ta, tb ecs.Entity
			ra := try(func() { ta = qa.Relation() })
			rb := try(func() {
				if !hasRel {
					panic(modelPanic("query has no relation"))
				}
				tb = qb.Relation(rid)
			})
			if h.samePanic(method+".Relation", ra, rb) {
				h.ok(ta == tb, method, "Relation differs: generic %s, id-based %s", entStr(ta), entStr(tb))
			}
		}
		if h.broken {
			qa.Q.Close()
			qb.Close()
			return visited
		}
	}
	h.ok(n == ca, method, "Count %d but %d entities visited", ca, n)
	return visited
}

// closeQ closes a query that may be open, ignoring errors.
func closeQ(q *ecs.Query) {
	try(func() { q.Close() })
}

// ---------------------------------------------------------------------------
// main

func sanity() {
	for t := 0; t < nTypes; t++ {
		rt := typeTable[t].rt
		f, ok := rt.FieldByName("V")
		if !ok || f.Offset != 0 || rt.Size() != 8 {
			panic("harness: component type layout assumption violated for " + rt.Name())
		}
	}
}

// section runs one section; a panic escaping a section is a harness-level failure that is reported, not a crash.
func section(h *H, name string, f func()) {
	h.tag = ""
	h.broken = false
	h.ctx = name
	defer func() {
		if x := recover(); x != nil {
			h.cases++
			h.fails++
			fmt.Fprintf(h.out, "FAIL arity=%d iter=%d %s: unguarded panic: %v\n", h.arity, h.iter, name, x)
		}
	}()
	f()
}

func runIteration(h *H, seed int64, n, it int) {
	rng := rand.New(rand.NewSource(seed*1000003 + int64(n)*10007 + int64(it)))
	h.arity, h.iter = n, it
	if n >= 1 {
		section(h, "map/P", func() { mapSection(h, rng, n, 0) })
		section(h, "map/R", func() { mapSection(h, rng, n, 1) })
	}
	section(h, "filter/P", func() { filterSection(h, rng, n, 0) })
	if n >= 1 {
		section(h, "filter/R", func() { filterSection(h, rng, n, 1) })
	}
	section(h, "single", func() { singleSection(h, rng, n) })
	section(h, "exchange", func() { exchangeSection(h, rng) })
	section(h, "resource", func() { resourceSection(h, rng) })
	section(h, "registration", func() { registrationSection(h, rng, n) })
	if it == 0 {
		section(h, "K2", func() { k2Scenario(h, rng, n) })
		section(h, "K3", func() { k3Scenario(h, rng, n) })
	}
}

func main() {
	seed := flag.Int64("seed", 1, "random seed")
	iters := flag.Int("n", 20, "iterations per arity")
	arity := flag.Int("arity", -1, "restrict to one arity (0..12)")
	stats := flag.Bool("stats", false, "print per-method ok/panic counts to stderr")
	flag.Parse()

	out := bufio.NewWriter(os.Stdout)
	defer out.Flush()
	h := &H{out: out}
	if *stats {
		h.stats = map[string][2]int{}
	}
	sanity()

	var arities []int
	if *arity >= 0 && *arity <= maxArity {
		arities = []int{*arity}
	} else {
		for n := 0; n <= maxArity; n++ {
			arities = append(arities, n)
		}
	}
	for _, n := range arities {
		for it := 0; it < *iters; it++ {
			runIteration(h, *seed, n, it)
		}
	}
	as := make([]string, len(arities))
	for i, n := range arities {
		as[i] = fmt.Sprint(n)
	}
	fmt.Fprintf(out, "SUMMARY cases=%d fails=%d arities=%s\n", h.cases, h.fails, strings.Join(as, ","))
	if h.stats != nil {
		keys := make([]string, 0, len(h.stats))
		for k := range h.stats {
			keys = append(keys, k)
		}
		sort.Strings(keys)
		for _, k := range keys {
			fmt.Fprintf(os.Stderr, "%-40s ok=%d panic=%d\n", k, h.stats[k][0], h.stats[k][1])
		}
	}
}
